(* C18 -- data-race freedom of the goroutine-safe APIs (publication patterns).
   "Race" is the relational notion of the Go memory model (lib/RaceHB.v): two conflicting
   plain accesses (same location, different threads, at least one write) not ordered by
   happens-before = transitive closure of program order and synchronizes-with, where
   Go's synchronisation (sequentially consistent atomics, Mutex, WaitGroup, channels, go
   statement) is REPRESENTED by release/acquire events on sync objects: every acquire on
   an object synchronizes with all earlier releases on it.  The vector-clock monitor of
   lib/Race.v (the DJIT+/TSan algorithm the Go race detector implements) is proved to
   decide exactly this notion:
   c18_monitor_sound: whenever the monitor flags, the trace has a happens-before race.
   c18_monitor_complete: if the trace (thread ids below the monitor's bound n) has a
   happens-before race, the monitor flags.  c18_monitor_agrees: the two together.

   c18_publication_race_free / c18_publication_hb_race_free: for EVERY publication protocol
   instance (any list of plain writes followed by any list of releases by one writer; any
   number of readers, each acquiring one of the objects and reading only if it observed
   the release), and EVERY schedule, the monitor never reports a race / the generated
   trace of memory events has no happens-before race (c18_publication_trace: the machine's
   monitor state is the monitor run on that trace).
   c18_instances_race_free: the concrete patterns of lixianmin/got (cachex Future, ants
   task result, taskx callback result, queue node value, wheel slot, WaitClose.closeChan)
   are such instances; c18_rows_in_table: the source rows they were labelled from are rows
   of the access table, which the check regenerates from /repo and compares on every run.
   c18_lock_discipline_race_free / c18_lock_discipline_hb_race_free: accesses made only
   inside critical sections of one mutex (cachex shard maps, WaitClose fields under
   wc.mutex) never race.
   c18_*_refuted: the pre-fix patterns (status check reading err without having observed
   the completion; two unordered writers of the task result) do race, in both senses.

   MODEL-LEVEL theorems (loom.Queue, loom.WaitClose, loom.Wheel).  For these three components
   race freedom is not only a statement about the abstract protocol: the steps of the
   small-step models themselves (models/Queue.v, WaitClose.v, Wheel.v - the models that are
   stepped against the real code under the cooperative scheduler by C01/C02, C03/C04, C09) are
   labelled with the memory events of the code they stand for (models/RaceQueue.v,
   RaceWaitClose.v, RaceWheel.v: atomic load = acquire, successful CAS = acquire-release,
   failed CAS = acquire, atomic store = release (plus a write of the cell where the cell is
   also read plainly), Lock/Unlock = acquire/release, plain field accesses = reads/writes),
   and c18_queue_model_race_free / c18_waitclose_model_race_free / c18_wheel_model_race_free
   say: the trace of memory events of EVERY run of the labelled model (all thread counts,
   programs, schedules; prefilled queues; timer events; both store orders of onTicker) has
   no happens-before race.  c18_*_model_conflicts_ordered is the same statement in positive
   form: every conflicting pair of such a trace is ordered by happens-before.
   c18_*_labels_match_sites: the synchronisation event a labelled step emits is the operation
   named by the yield site the step starts from (the site sequence is what C01/C02, C16, C03
   compare with the running code at every step).  c18_queue_pop_clear_refuted,
   c18_waitclose_load_needed, c18_wheel_store_release_needed: a faulty variant of Pop races in
   the same analysis; removing the one synchronisation event an ordering rests on makes a
   race-free run racy.

   cachex (Cache and its Futures).  The same for the small-step model of cachex
   (models/CacheSteps.v, machine cs_step CsFixed: one step per shared access of Load / Get2 / Set /
   setValue / removeRotted / the worker, mutex-aware; stepped against the real code through the
   yield hooks of cachex/verif_on.go by the C04 stream "call-steps").  models/RaceCache.v labels
   every step: futures.Lock/Unlock = acquire/release on the shard mutex; the shard map d = one plain
   location read/written under the lock; newFuture = plain writes of value, err and the zero
   time cell (allocation counts as a write), then the two StorePointers (release); setValue =
   plain writes of value, err and the cell &now BEFORE the StorePointer of updateTime (release)
   and wg.Done() (release on the WaitGroup); getUpdateTime = LoadPointer (acquire) and a plain
   read of the cell it points to; getFutureStatus reads future.err ONLY after a non-zero
   updateTime was loaded (the code as it is after fix D3 and commit 4caabe5: status evaluated under
   the shard lock); Future.Get2 = wg.Wait (acquire) then plain reads of value and err; sendJob =
   release, the worker's receive = acquire on the message of that future (only the matching send).
   c18_cache_model_race_free: for every well-formed initial memory (built by a set-up thread whose
   events are part of the trace; rc_mem_ok), any number of threads, all programs over
   Load / Get2 / Set / worker / sweep, all schedules of thread steps and clock ticks: the trace has
   no happens-before race.  c18_cache_labels_match_sites: the first event of a labelled step is
   the operation named by the yield site the step starts from.  c18_cache_unguarded_status_refuted:
   the status check of the code before D3 races in the same labelled model;
   c18_cache_channel_needed / c18_cache_store_release_needed: deleting the receive's acquire / the
   release of setValue's updateTime store from a race-free run makes it racy.

   ants Task / taskx callback task (protocol level; models/Ants.v and TaskQueue.v are timed event /
   queue machines, not shared-access machines).  models/RaceTasks.v: the goroutines that touch a
   task's result/err and their memory events - pool.Send allocates and sends the task; the
   dispatcher receives it, per attempt sends the closure, takes doneChan or the deadline, writes
   result/err, reads err, finally wg.Done; inner workers receive the closure and send on doneChan
   at ANY later time; Get2 callers read after wg.Wait (taskx: producer, single consumer running Do
   once, Get2 callers).  c18_ants_task_protocol_race_free / c18_taskx_task_protocol_race_free:
   no happens-before race for any number of attempts, late handlers, Get2 callers, any schedule.
   c18_ants_err_peek_refuted / c18_taskx_do_twice_refuted: Task.Err() called before Get2 returned,
   and a second Do while Get2 callers read, DO race (usages outside the protocol).

   Flag / AddIf64, Mutex, taskx.Queue (the remaining components the property names; end of this file).
   The existing step functions are labelled, not re-modelled: at_step (models/Atomics.v, stepped
   against flag.go / atomic.go by C17) in models/RaceAtomics.v, mx_step (models/MutexWord.v: Lock /
   Unlock re-modelled from sync.Mutex + loom's TryLock, whose accesses C17 steps against mutex.go)
   in models/RaceMutex.v, tq_gstep (models/TaskQueue.v, replayed against queue.go /
   task_callback.go by C09) in models/RaceTaskQueue.v; c18_atomics_run_projects,
   c18_mutex_run_projects, c18_taskq_trace_projects: the labelled run IS the run of the model.
   Flag / AddIf64 and the Mutex state word are accessed ONLY through sync/atomic: the theorems
   c18_atomics_model_all_atomic / c18_mutex_word_all_atomic say "no plain access at all" (every
   event of every run is a synchronisation event), c18_atomics_model_race_free is the corollary;
   c18_mutex_model_race_free is about what the mutex is for: client data read / written only while
   the model says the thread HOLDS the mutex (acquired by Lock's fast path, lockSlow's CAS, the
   starvation hand-off, TryLock's first or second CAS) never races, with Count / IsLocked observers
   running at any time.  c18_taskq_model_race_free: producers (any number; allocation of the
   taskCallback = plain writes before the send), parked senders admitted by a receive or woken by
   close, the single consumer (receive = acquire on the task's message; Do's plain writes of result,
   err, isHandled before wg.Done = release), and any number of Get2 waiters (acquire at the return of
   wg.Wait, then plain reads; also when released inside the Done step) never race, for every
   capacity, program and schedule.  Refutations in the same labelled models: c18_atomics_plain_refuted
   (AddFlag as plain read-modify-write), c18_mutex_trylock_plain_refuted, c18_taskq_ishandled_early_refuted
   (seeded C09-ishandled-early-plus-get-fastpath), c18_taskq_done_release_needed (= wg.Done before the
   result store), c18_taskq_receive_needed.  NOT covered by a model-level theorem: the ants Pool
   (models/Ants.v is a timed event machine): protocol machine for its task result above, detector,
   access table. *)
From Coq Require Import String.
From Got Require Import Base Race RaceProofs RaceInst RaceHB RaceHBProofs RaceMonLemmas.
From Got Require Import Queue QueueProofs RaceQueue RaceQueueProofs.
From Got Require Import WaitClose RaceWaitClose RaceWaitCloseProofs.
From Got Require Import Wheel RaceWheel RaceWheelProofs.
From Got Require Import Cache CacheSteps RaceCache RaceCacheProofs.
From Got Require Import RaceTasks RaceTasksProofs.
From Got Require Import Atomics RaceAtomics RaceAtomicsProofs.
From Got Require Import MutexWord RaceMutex RaceMutexProofs.
From Got Require Import TaskQueue RaceTaskQueue RaceTaskQueueStruct RaceTaskQueueProofs.
Local Open Scope nat_scope.

(* ---- the monitor decides the relational happens-before notion of a data race ---- *)
Theorem c18_monitor_sound :
  forall (n : nat) (tr : list (nat * rc_ev)),
    rc_raced (rc_run n tr) = true -> hb_race tr.
Proof. exact hbp_sound. Qed.
Print Assumptions c18_monitor_sound.

Theorem c18_monitor_complete :
  forall (n : nat) (tr : list (nat * rc_ev)),
    hb_wf n tr -> hb_race tr -> rc_raced (rc_run n tr) = true.
Proof. exact hbp_complete. Qed.
Print Assumptions c18_monitor_complete.

Theorem c18_monitor_agrees :
  forall (n : nat) (tr : list (nat * rc_ev)),
    hb_wf n tr -> (rc_raced (rc_run n tr) = false <-> ~ hb_race tr).
Proof. exact hbp_agree. Qed.
Print Assumptions c18_monitor_agrees.

(* what "no flag" means: every conflicting pair is ordered by happens-before *)
Theorem c18_monitor_no_flag_ordered :
  forall (n : nat) (tr : list (nat * rc_ev)),
    hb_wf n tr -> rc_raced (rc_run n tr) = false ->
    forall i j, i < j -> j < length tr -> hb_conflict tr i j -> hb_hb tr i j.
Proof. exact hbp_norace_ordered. Qed.
Print Assumptions c18_monitor_no_flag_ordered.

Theorem c18_publication_race_free :
  forall (p : rc_pub) (sched : list nat),
    rc_raced (ps_mon (rc_prun false p sched)) = false.
Proof. exact pb_race_free. Qed.
Print Assumptions c18_publication_race_free.

Theorem c18_instances_race_free :
  Forall (fun i => forall sched, rc_raced (ps_mon (rc_prun false (snd (fst i)) sched)) = false)
         ri_instances.
Proof. apply Forall_forall. intros i _. apply pb_race_free. Qed.
Print Assumptions c18_instances_race_free.

(* the machine's monitor state is the monitor run on the trace of memory events the
   schedule generates; that trace is well-formed and has no happens-before race *)
Theorem c18_publication_trace :
  forall (unguarded : bool) (p : rc_pub) (sched : list nat),
    ps_mon (rc_prun unguarded p sched) = rc_run (rc_nthreads p) (hb_ptrace unguarded p sched)
    /\ hb_wf (rc_nthreads p) (hb_ptrace unguarded p sched).
Proof. exact hbp_ptrace_spec. Qed.
Print Assumptions c18_publication_trace.

Theorem c18_publication_hb_race_free :
  forall (p : rc_pub) (sched : list nat), ~ hb_race (hb_ptrace false p sched).
Proof. exact hbp_pub_hb_race_free. Qed.
Print Assumptions c18_publication_hb_race_free.

Theorem c18_instances_hb_race_free :
  Forall (fun i => forall sched, ~ hb_race (hb_ptrace false (snd (fst i)) sched)) ri_instances.
Proof. apply Forall_forall. intros i _. apply hbp_pub_hb_race_free. Qed.
Print Assumptions c18_instances_hb_race_free.

Theorem c18_rows_in_table : ri_rows_in_table = true.
Proof. vm_compute. reflexivity. Qed.
Print Assumptions c18_rows_in_table.

(* lock discipline: any number of threads, each running any list of critical sections
   (Lock m; any plain reads/writes; Unlock m) on one mutex, any schedule: no race *)
Theorem c18_lock_discipline_race_free :
  forall (progs : list (list (list (bool * nat)))) (sched : list nat),
    rc_raced (ls_mon (rc_lrun progs sched)) = false.
Proof. exact lk_race_free. Qed.
Print Assumptions c18_lock_discipline_race_free.

Theorem c18_lock_discipline_trace :
  forall (progs : list (list (list (bool * nat)))) (sched : list nat),
    ls_mon (rc_lrun progs sched) = rc_run (length progs) (hb_ltrace progs sched)
    /\ hb_wf (length progs) (hb_ltrace progs sched).
Proof. exact hbp_ltrace_spec. Qed.
Print Assumptions c18_lock_discipline_trace.

Theorem c18_lock_discipline_hb_race_free :
  forall (progs : list (list (list (bool * nat)))) (sched : list nat),
    ~ hb_race (hb_ltrace progs sched).
Proof. exact hbp_lock_hb_race_free. Qed.
Print Assumptions c18_lock_discipline_hb_race_free.

Theorem c18_lock_rows_in_table : ri_lock_rows_in_table = true.
Proof. vm_compute. reflexivity. Qed.
Print Assumptions c18_lock_rows_in_table.

Theorem c18_unguarded_status_refuted :
  rc_raced (ps_mon (rc_prun true {| pb_ws := [7]; pb_os := [1]; pb_readers := [(1, [7])] |} [0; 1; 1])) = true.
Proof. exact pb_unguarded_races. Qed.
Print Assumptions c18_unguarded_status_refuted.

Theorem c18_two_writers_refuted :
  rc_raced (rc_run 2 [(0, RWrite 7); (1, RWrite 7)]) = true.
Proof. exact rc_two_writers_race. Qed.
Print Assumptions c18_two_writers_refuted.

Theorem c18_unguarded_status_hb_refuted :
  hb_race (hb_ptrace true {| pb_ws := [7]; pb_os := [1]; pb_readers := [(1, [7])] |} [0; 1; 1]).
Proof. exact hbp_unguarded_hb_race. Qed.
Print Assumptions c18_unguarded_status_hb_refuted.

Theorem c18_two_writers_hb_refuted : hb_race [(0, RWrite 7); (1, RWrite 7)].
Proof. exact hbp_two_writers_hb_race. Qed.
Print Assumptions c18_two_writers_hb_refuted.

(* non-vacuity: in the Future instance a schedule exists where one reader's guard fails
   (it came too early), another reader passes it and performs both reads, and the status
   reader reads err -- with no race *)
Example c18_nonvacuous :
  let s := rc_prun false ri_future [1; 0; 0; 0; 3; 3; 0; 0; 2; 2; 2; 4; 4] in
  nth_error (ps_rpcs s) 0 = Some RPStop /\
  nth_error (ps_rpcs s) 1 = Some (RPReading 1) /\
  nth_error (ps_rpcs s) 2 = Some (RPReading 1) /\
  nth_error (ps_rpcs s) 3 = Some (RPReading 1) /\
  rc_raced (ps_mon s) = false.
Proof. vm_compute. repeat split. Qed.

(* non-vacuity of the relational definitions, proved directly from them (no monitor):
   release/acquire publication orders the write before the read; two bare writers are
   unordered; and through the equivalence: an acquire that precedes the release does not
   synchronise (race), a chain of read-modify-writes over three threads does (no race);
   the trace of the schedule of c18_nonvacuous contains all four kinds of event *)
Example c18_hb_nonvacuous :
  hb_hb [(0, RWrite 7); (0, RRel 1); (1, RAcq 1); (1, RRead 7)] 0 3 /\
  ~ hb_hb [(0, RWrite 7); (1, RWrite 7)] 0 1 /\
  hb_race [(1, RAcq 1); (0, RWrite 7); (0, RRel 1); (1, RRead 7)] /\
  ~ hb_race [(0, RWrite 7); (0, RAcqRel 1); (1, RAcqRel 1); (1, RRel 2); (2, RAcq 2); (2, RWrite 7)] /\
  length (hb_ptrace false ri_future [1; 0; 0; 0; 3; 3; 0; 0; 2; 2; 2; 4; 4]) = 12.
Proof.
  split; [exact hbp_ex_publication_ordered|]. split; [exact hbp_ex_two_writers_unordered|].
  split; [exact hbp_ex_early_acquire_races|]. split; [exact hbp_ex_rmw_chain_race_free|].
  vm_compute. reflexivity.
Qed.

(* ================================================================== model-level race freedom *)

(* ---- loom.Queue: runs of q_step labelled by models/RaceQueue.v ----
   rq_trace (q_init pre progs) sched = the events of the set-up thread that pushed [pre]
   sequentially (thread id = number of threads), followed by the events of the scheduled
   steps.  No bound on threads, programs, schedule, prefill. *)
Theorem c18_queue_model_race_free :
  forall (pre : list Z) (progs : list (list q_op)) (sched : list nat),
    ~ hb_race (rq_trace (q_init pre progs) sched).
Proof. exact rq_race_free. Qed.
Print Assumptions c18_queue_model_race_free.

Theorem c18_queue_model_conflicts_ordered :
  forall (pre : list Z) (progs : list (list q_op)) (sched : list nat) (i j : nat),
    i < j -> j < length (rq_trace (q_init pre progs) sched) ->
    hb_conflict (rq_trace (q_init pre progs) sched) i j ->
    hb_hb (rq_trace (q_init pre progs) sched) i j.
Proof. exact rq_conflicts_ordered. Qed.
Print Assumptions c18_queue_model_conflicts_ordered.

(* the monitor run on the labelled run never flags, and the trace is well-formed for it *)
Theorem c18_queue_model_monitor :
  forall (pre : list Z) (progs : list (list q_op)) (sched : list nat),
    rc_raced (rc_run (rq_nthreads (q_init pre progs)) (rq_trace (q_init pre progs) sched)) = false
    /\ hb_wf (rq_nthreads (q_init pre progs)) (rq_trace (q_init pre progs) sched).
Proof. exact rq_monitor_spec. Qed.
Print Assumptions c18_queue_model_monitor.

(* ---- loom.WaitClose: runs of wc_step labelled by models/RaceWaitClose.v ---- *)
Theorem c18_waitclose_model_race_free :
  forall (progs : list (list wc_op)) (sched : list wc_item),
    ~ hb_race (rw_trace (wc_init progs) sched).
Proof. exact rw_race_free. Qed.
Print Assumptions c18_waitclose_model_race_free.

Theorem c18_waitclose_model_conflicts_ordered :
  forall (progs : list (list wc_op)) (sched : list wc_item) (i j : nat),
    i < j -> j < length (rw_trace (wc_init progs) sched) ->
    hb_conflict (rw_trace (wc_init progs) sched) i j ->
    hb_hb (rw_trace (wc_init progs) sched) i j.
Proof. exact rw_conflicts_ordered. Qed.
Print Assumptions c18_waitclose_model_conflicts_ordered.

(* ---- loom.Wheel: runs of wh_step labelled by models/RaceWheel.v, either store order ---- *)
Theorem c18_wheel_model_race_free :
  forall (o : wh_order) (st : Z) (n ticks : nat) (progs : list (list wh_op)) (sched : list nat),
    ~ hb_race (rwh_trace o (wh_init st n ticks progs) sched).
Proof. exact rwh_race_free. Qed.
Print Assumptions c18_wheel_model_race_free.

Theorem c18_wheel_model_conflicts_ordered :
  forall (o : wh_order) (st : Z) (n ticks : nat) (progs : list (list wh_op)) (sched : list nat) (i j : nat),
    i < j -> j < length (rwh_trace o (wh_init st n ticks progs) sched) ->
    hb_conflict (rwh_trace o (wh_init st n ticks progs) sched) i j ->
    hb_hb (rwh_trace o (wh_init st n ticks progs) sched) i j.
Proof. exact rwh_conflicts_ordered. Qed.
Print Assumptions c18_wheel_model_conflicts_ordered.

(* ---- non-vacuity: concrete labelled runs that DO contain conflicting accesses, and these
   are ordered; the orderings are exhibited directly from the relational definitions
   (program order, release -> acquire on one object, program order), not via the monitor ---- *)

(* queue holding [5]; thread 0 pushes 7, thread 1 pops twice and gets 5 then 7.
   event 0 = the set-up thread's write of the value cell of node 1, read by thread 1 at 15
   (through the link CAS 4 and thread 1's load 13 of head.next);
   event 6 = thread 0's write of its node's value, read by thread 1 at 22 (link CAS 10, load 20) *)
Example c18_queue_model_nonvacuous :
  let s := q_init [5%Z] [[QPush 7%Z]; [QPop; QPop]] in
  let sched := [0;0;0;0;0; 1;1;1;1;1;1; 0; 1;1;1;1;1;1] in
  let tr := rq_trace s sched in
  q_popped (q_trace s sched) = [5%Z; 7%Z] /\
  length tr = 24 /\
  hb_conflict tr 0 15 /\ hb_hb tr 0 15 /\
  hb_conflict tr 6 22 /\ hb_hb tr 6 22.
Proof.
  cbv zeta. remember (rq_trace _ _) as tr eqn:E. vm_compute in E. subst tr.
  split; [vm_compute; reflexivity|]. split; [reflexivity|].
  split; [|split; [|split]].
  - apply (rm_conflict_intro _ 0 15 2 1 (RWrite 1) (RRead 1) 1); try reflexivity; [discriminate|left; reflexivity].
  - apply (rm_hb_chain _ 0 4 13 15 2 1 (RWrite 1) (RAcqRel 2) (RAcq 2) (RRead 1) 2); try reflexivity; lia.
  - apply (rm_conflict_intro _ 6 22 0 1 (RWrite 2) (RRead 2) 2); try reflexivity; [discriminate|left; reflexivity].
  - apply (rm_hb_chain _ 6 10 20 22 0 1 (RWrite 2) (RAcqRel 3) (RAcq 3) (RRead 2) 3); try reflexivity; lia.
Qed.

(* thread 0 calls C() on a zero WaitClose (lazy init under the mutex), thread 1 Close(cb)
   with a yielding callback, thread 2 WaitUtil.
   3 = thread 0's write of closeChan, read by thread 2 at 10 (store of state 5 -> load 9);
   4 = the write half of thread 0's atomic store of state, read PLAINLY by thread 1 under the
       mutex at 11 (Unlock 6 -> Lock 8);
   2 = thread 0's plain read of state, against thread 1's atomic store 14 (same mutex edge) *)
Example c18_waitclose_model_nonvacuous :
  let s := wc_init [[OpC]; [OpClose (Cb ONil true)]; [OpWait]] in
  let sched := map IRun [0;0;0;0; 1;1;1; 2;2; 1;1; 2;2;2; 0;0] in
  let tr := rw_trace s sched in
  length tr = 18 /\
  hb_conflict tr 3 10 /\ hb_hb tr 3 10 /\
  hb_conflict tr 4 11 /\ hb_hb tr 4 11 /\
  hb_conflict tr 2 14 /\ hb_hb tr 2 14.
Proof.
  cbv zeta. remember (rw_trace _ _) as tr eqn:E. vm_compute in E. subst tr.
  split; [reflexivity|]. split; [|split; [|split; [|split; [|split]]]].
  - apply (rm_conflict_intro _ 3 10 0 2 (RWrite 1) (RRead 1) 1); try reflexivity; [discriminate|left; reflexivity].
  - apply (rm_hb_chain _ 3 5 9 10 0 2 (RWrite 1) (RRel 0) (RAcq 0) (RRead 1) 0); try reflexivity; lia.
  - apply (rm_conflict_intro _ 4 11 0 1 (RWrite 0) (RRead 0) 0); try reflexivity; [discriminate|left; reflexivity].
  - apply (rm_hb_chain _ 4 6 8 11 0 1 (RWrite 0) (RRel 1) (RAcq 1) (RRead 0) 1); try reflexivity; lia.
  - apply (rm_conflict_intro _ 2 14 0 1 (RRead 0) (RWrite 0) 0); try reflexivity; [discriminate|right; reflexivity].
  - apply (rm_hb_chain _ 2 6 8 14 0 1 (RRead 0) (RRel 1) (RAcq 1) (RWrite 0) 1); try reflexivity; lia.
Qed.

(* a wheel with 2 buckets, 3 ticks, requester 1 = NewTimer, requester 2 = AfterFunc.
   0 = NewWheel's write of the c field of the initial wheelData 0, read by the ticker's close
       at 9 (start released at 2, acquired at 3);
   7 = the ticker's write of the fresh wheelData 2, read by requester 2 at 26
       (StorePointer 8 -> LoadPointer 24) *)
Example c18_wheel_model_nonvacuous :
  let s := wh_init 10%Z 2 3 [[WhNew 10%Z]; [WAfter 5%Z]] in
  let sched := [0;0;0;0;0;0; 1;1;1;1; 0;0;0;0;0;0; 2;2;2;2; 0;0;0;0;0;0] in
  let tr := rwh_trace WFixed s sched in
  length tr = 34 /\
  hb_conflict tr 0 9 /\ hb_hb tr 0 9 /\
  hb_conflict tr 7 26 /\ hb_hb tr 7 26.
Proof.
  cbv zeta. remember (rwh_trace _ _ _) as tr eqn:E. vm_compute in E. subst tr.
  split; [reflexivity|]. split; [|split; [|split]].
  - apply (rm_conflict_intro _ 0 9 3 0 (RWrite 0) (RRead 0) 0); try reflexivity; [discriminate|left; reflexivity].
  - apply (rm_hb_chain _ 0 2 3 9 3 0 (RWrite 0) (RRel 1) (RAcq 1) (RRead 0) 1); try reflexivity; lia.
  - apply (rm_conflict_intro _ 7 26 0 2 (RWrite 2) (RRead 2) 2); try reflexivity; [discriminate|left; reflexivity].
  - apply (rm_hb_chain _ 7 8 24 26 0 2 (RWrite 2) (RRel 2) (RAcq 2) (RRead 2) 2); try reflexivity; lia.
Qed.

(* ---- the analysis discriminates ----
   c18_queue_pop_clear_refuted: the labelled runs of the variant of Pop whose winner clears the
   new dummy's value (next.value = nil after the head CAS: a plain write) DO race - two
   poppers, both past their read of next.value when the first head CAS succeeds.
   c18_waitclose_load_needed / c18_wheel_store_release_needed: in concrete runs of the models as
   they are, deleting the one synchronisation event the ordering rests on (C()'s atomic load
   of wc.state; the release of onTicker's StorePointer) turns the race-free trace into a
   racy one. *)
Theorem c18_queue_pop_clear_refuted :
  hb_race (rq_trace_clear (q_init [5%Z; 6%Z] [[QPop]; [QPop]]) [0;0;0;0;0; 1;1;1;1;1; 0]).
Proof. exact rq_pop_clear_refuted. Qed.
Print Assumptions c18_queue_pop_clear_refuted.

Theorem c18_waitclose_load_needed :
  let tr := rw_trace (wc_init [[OpC]; [OpClose (Cb ONil true)]; [OpWait]])
                     (map IRun [0;0;0;0; 1;1;1; 2;2; 1;1; 2;2;2; 0;0]) in
  nth_error tr 9 = Some (2, RAcq rw_state) /\ hb_race (firstn 9 tr ++ skipn 10 tr).
Proof. exact rw_without_load_refuted. Qed.
Print Assumptions c18_waitclose_load_needed.

Theorem c18_wheel_store_release_needed :
  let tr := rwh_trace WOrig (wh_init 10%Z 2 1 [[WhNew 10%Z]]) [1;1; 0;0;0;0; 1] in
  nth_error tr 8 = Some (0, RWrite 2) /\ nth_error tr 9 = Some (0, RRel (rwh_slot 0)) /\
  nth_error tr 11 = Some (1, RRead 2) /\
  ~ hb_race tr /\ hb_race (firstn 9 tr ++ skipn 10 tr).
Proof. exact rwh_without_store_release_refuted. Qed.
Print Assumptions c18_wheel_store_release_needed.

(* ---- the labelling agrees with the yield sites ----
   C01/C02 (queue), C16 (WaitClose) and C03 (wheel) check at EVERY step of every executed
   schedule that the real goroutine is parked at the yield site the model predicts (q_site_pc /
   wc_site_pc / wh_site; the sites sit directly in front of the atomic operations and around
   Lock/Unlock in the source).  The event labelling is consistent with that classification:
   the synchronisation event a labelled step emits is the operation its site names
   (rm_sync e = e is a release/acquire event, i.e. not a plain access). *)
Theorem c18_queue_labels_match_sites :
  forall (s : q_state) (g : rq_ghost) (i : nat) (pc : q_pc) (todo : list q_op),
    match q_site_pc pc with
    | 0 => Forall (fun e => ~ rm_sync e) (fst (rq_step_pc s g i pc todo))
    | 1 => exists o rest, fst (rq_step_pc s g i pc todo) = RAcq o :: rest
                          /\ Forall (fun e => ~ rm_sync e) rest
    | _ => exists b o, fst (rq_step_pc s g i pc todo) = [rq_cas b o]
    end.
Proof. exact rq_sites. Qed.
Print Assumptions c18_queue_labels_match_sites.

Theorem c18_waitclose_labels_match_sites :
  forall (g : wc_shared) (pc : wc_pc),
    match wc_site_pc pc with
    | 1 => exists rest, rw_step_pc g false pc = RAcq rw_state :: rest
                        /\ Forall (fun e => ~ rm_sync e) rest
    | 2 => rw_step_pc g false pc = [] \/ rw_step_pc g false pc = [RAcq rw_mutex]
    | 3 => exists rest, rw_step_pc g false pc = RRead rw_xstate :: rest
                        /\ Forall (fun e => forall o, ~ hb_is_acq e o) rest
    | 5 => rw_step_pc g false pc = rw_store_unlock
    | _ => Forall (fun e => ~ rm_sync e) (rw_step_pc g false pc)
    end.
Proof. exact rw_sites. Qed.
Print Assumptions c18_waitclose_labels_match_sites.

Theorem c18_wheel_labels_match_sites :
  forall (o : wh_order) (s : wh_state) (tid : nat),
    match wh_site o s tid with
    | 3 | 5 | 6 => exists rest, rwh_step o s tid = RAcq rwh_pos :: rest
                                /\ Forall (fun e => ~ rm_sync e) rest
    | 4 | 7 => rwh_step o s tid = [] \/
               exists j rest, rwh_step o s tid = RAcq (rwh_slot j) :: rest
                              /\ Forall (fun e => ~ rm_sync e) rest
    | 8 => rwh_step o s tid = [RRel rwh_pos]
    | 9 => exists lp, rwh_step o s tid = rwh_store_slot s lp
    | 10 => exists last, rwh_step o s tid = [RRead last]
    | _ => True
    end.
Proof. exact rwh_sites. Qed.
Print Assumptions c18_wheel_labels_match_sites.

(* ================================================================== cachex: the labelled step model *)

(* ---- every run of cs_step CsFixed labelled by models/RaceCache.v ----
   rc_trace cfg m0 progs sched = the events of the set-up thread that built the initial memory m0
   (thread id = number of threads), followed by the events of the scheduled items (CsRun tid = one
   step of thread tid, CsTick dt = the clock advances: no event).  No bound on the number of
   threads, the programs (CsLoad, CsGet2, CsSet, CsFinish = a worker receiving a job and running
   setValue, CsSweep = removeRotted), the schedule, the configuration (expiry times).
   rc_mem_ok m0: ids in range, the queued jobs distinct and not complete (a boolean; true for the
   empty cache and for every set-up of the C04 stream, c18_cache_stream_setups_ok). *)
Theorem c18_cache_model_race_free :
  forall (cfg : c_cfg) (m0 : c_state) (progs : list (list cs_op)) (sched : list cs_item),
    rc_mem_ok m0 = true -> ~ hb_race (rc_trace cfg m0 progs sched).
Proof. exact rc_model_race_free. Qed.
Print Assumptions c18_cache_model_race_free.

Theorem c18_cache_model_race_free_empty :
  forall (cfg : c_cfg) (progs : list (list cs_op)) (sched : list cs_item),
    ~ hb_race (rc_trace cfg c_init progs sched).
Proof. exact rc_model_race_free_empty. Qed.
Print Assumptions c18_cache_model_race_free_empty.

Theorem c18_cache_model_conflicts_ordered :
  forall (cfg : c_cfg) (m0 : c_state) (progs : list (list cs_op)) (sched : list cs_item) (i j : nat),
    rc_mem_ok m0 = true ->
    i < j -> j < length (rc_trace cfg m0 progs sched) ->
    hb_conflict (rc_trace cfg m0 progs sched) i j -> hb_hb (rc_trace cfg m0 progs sched) i j.
Proof. exact rc_conflicts_ordered. Qed.
Print Assumptions c18_cache_model_conflicts_ordered.

(* the monitor run on the labelled run never flags, and the trace is well-formed for it *)
Theorem c18_cache_model_monitor :
  forall (cfg : c_cfg) (m0 : c_state) (progs : list (list cs_op)) (sched : list cs_item),
    rc_mem_ok m0 = true ->
    rc_raced (rc_run (rc_nthr progs) (rc_trace cfg m0 progs sched)) = false
    /\ hb_wf (rc_nthr progs) (rc_trace cfg m0 progs sched).
Proof. intros cfg m0 progs sched H. split; [apply rc_monitor_silent; exact H|apply rc_trace_wf]. Qed.
Print Assumptions c18_cache_model_monitor.

Theorem c18_cache_stream_setups_ok : forallb rc_mem_ok rc_ex_inits = true.
Proof. exact rc_ex_inits_ok. Qed.
Print Assumptions c18_cache_stream_setups_ok.

(* the access-table rows the labelling was read off are rows of the table the check regenerates *)
Theorem c18_cache_rows_in_table : rc_rows_in_table = true.
Proof. exact rc_rows_ok. Qed.
Print Assumptions c18_cache_rows_in_table.

(* ---- non-vacuity: Load creates future 0 (thread 0) while Set (thread 3) waits for the shard
   mutex; the worker (thread 1) receives the job and completes the future; Get2 (thread 2)
   checks its status and reads it; then Set replaces the entry.
   5 = newFuture's initialisation of value, overwritten by the worker's setValue at 14
       (send 12 -> receive 13);
   14 = the worker's write of value, read by Get2 at 28 (wg.Done 19 -> wg.Wait 27);
   15 = the worker's write of err, read by the STATUS CHECK at 24 without waiting for wg
       (StorePointer updateTime 17 -> LoadPointer 22);
   10 = Load's map write, against Set's map write at 42 (Unlock 11 -> Lock 30);
   21 = Get2's map read, against the same write (Unlock 26 -> Lock 30) *)
Example c18_cache_model_nonvacuous :
  let progs := [[CsLoad 0%Z]; [CsFinish 5%Z 0%Z]; [CsGet2 0%Z]; [CsSet 0%Z 3%Z 0%Z]] in
  let sched := map CsRun [0;3;0;3;0;0;0; 1;1;1;1; 2;2;2;2;2;2;2;2; 3;3;3;3;3] in
  let tr := rc_trace rc_ex_cfg c_init progs sched in
  length tr = 44 /\
  hb_conflict tr 5 14 /\ hb_hb tr 5 14 /\
  hb_conflict tr 14 28 /\ hb_hb tr 14 28 /\
  hb_conflict tr 15 24 /\ hb_hb tr 15 24 /\
  hb_conflict tr 10 42 /\ hb_hb tr 10 42 /\
  hb_conflict tr 21 42 /\ hb_hb tr 21 42.
Proof.
  cbv zeta. remember (rc_trace _ _ _ _) as tr eqn:E. vm_compute in E. subst tr.
  split; [reflexivity|]. repeat split.
  - apply (rm_conflict_intro _ 5 14 0 1 (RWrite 1) (RWrite 1) 1); try reflexivity; [discriminate|left; reflexivity].
  - apply (rm_hb_chain _ 5 12 13 14 0 1 (RWrite 1) (RRel 4) (RAcq 4) (RWrite 1) 4); try reflexivity; lia.
  - apply (rm_conflict_intro _ 14 28 1 2 (RWrite 1) (RRead 1) 1); try reflexivity; [discriminate|left; reflexivity].
  - apply (rm_hb_chain _ 14 19 27 28 1 2 (RWrite 1) (RRel 3) (RAcq 3) (RRead 1) 3); try reflexivity; lia.
  - apply (rm_conflict_intro _ 15 24 1 2 (RWrite 2) (RRead 2) 2); try reflexivity; [discriminate|left; reflexivity].
  - apply (rm_hb_chain _ 15 17 22 24 1 2 (RWrite 2) (RRel 1) (RAcq 1) (RRead 2) 1); try reflexivity; lia.
  - apply (rm_conflict_intro _ 10 42 0 3 (RWrite 0) (RWrite 0) 0); try reflexivity; [discriminate|left; reflexivity].
  - apply (rm_hb_chain _ 10 11 30 42 0 3 (RWrite 0) (RRel 0) (RAcq 0) (RWrite 0) 0); try reflexivity; lia.
  - apply (rm_conflict_intro _ 21 42 2 3 (RRead 0) (RWrite 0) 0); try reflexivity; [discriminate|right; reflexivity].
  - apply (rm_hb_chain _ 21 26 30 42 2 3 (RRead 0) (RRel 0) (RAcq 0) (RWrite 0) 0); try reflexivity; lia.
Qed.

(* ---- the analysis discriminates ---- *)
Theorem c18_cache_unguarded_status_refuted :
  hb_race (rc_trace_gen true rc_ex_cfg c_init [[CsLoad 0%Z]; [CsFinish 5%Z 0%Z]; [CsLoad 0%Z]]
             (map CsRun [0;0;0;0;0; 1; 2;2;2;2; 1])).
Proof. exact rc_unguarded_status_refuted. Qed.
Print Assumptions c18_cache_unguarded_status_refuted.

Theorem c18_cache_channel_needed :
  let tr := rc_trace rc_ex_cfg c_init [[CsLoad 0%Z]; [CsFinish 5%Z 0%Z]] (map CsRun [0;0;0;0;0; 1;1]) in
  nth_error tr 13 = Some (1, RAcq (rc_ch 0)) /\ ~ hb_race tr /\ hb_race (firstn 13 tr ++ skipn 14 tr).
Proof. exact rc_channel_needed. Qed.
Print Assumptions c18_cache_channel_needed.

Theorem c18_cache_store_release_needed :
  let tr := rc_trace rc_ex_cfg c_init [[CsLoad 0%Z]; [CsFinish 5%Z 0%Z]; [CsGet2 0%Z]]
              (map CsRun [0;0;0;0;0; 1;1;1; 2;2;2;2;2]) in
  nth_error tr 17 = Some (1, RRel (rc_ut 0)) /\ ~ hb_race tr /\ hb_race (firstn 17 tr ++ skipn 18 tr).
Proof. exact rc_store_release_needed. Qed.
Print Assumptions c18_cache_store_release_needed.

(* ---- the labelling agrees with the yield sites of cachex/verif_on.go (cs_site) ---- *)
Theorem c18_cache_labels_match_sites :
  forall (cfg : c_cfg) (m : c_state) (pc : cs_pc),
    match cs_site pc with
    | 1%Z => rc_label cfg m pc = [RAcq rc_mu]
    | 2%Z => exists e rest, rc_label cfg m pc = e :: rest /\ ~ rm_sync e
    | 0%Z | 3%Z => rc_label cfg m pc = []
    | 4%Z => exists f rest, rc_label cfg m pc = RAcq (rc_ut f) :: rest
    | 5%Z => exists f rest, rc_label cfg m pc = RRead (rc_err f) :: rest
    | 6%Z => exists f rest, rc_label cfg m pc = RAcq (rc_pr f) :: rest
    | 7%Z => exists f, rc_label cfg m pc = [RRel (rc_ut f)]
    | 8%Z => exists f rest, rc_label cfg m pc = RRel (rc_pr f) :: RRel (rc_wg f) :: rest
                            /\ Forall (fun e => forall o, ~ hb_is_acq e o) rest
    | 9%Z => exists f, rc_label cfg m pc = [RRel (rc_ch f)]
    | 10%Z => exists f, rc_label cfg m pc = [RAcq (rc_wg f); RRead (rc_val f); RRead (rc_err f)]
    | 100%Z => Forall (fun e => ~ rm_sync e) (rc_label cfg m pc)
    | _ => True
    end.
Proof. exact rc_sites. Qed.
Print Assumptions c18_cache_labels_match_sites.

(* ================================================================== ants / taskx task results: labelled protocols *)

(* rt_atrace retry readers sched: thread 0 = pool.Send, 1 = the dispatcher (run / runTaskOnce,
   retry attempts), 2+i = the inner worker of attempt i (may send its result at any later time),
   2+retry+j = a Get2 caller.  Schedule items (thread, take doneChan if possible, attempt ended
   without error).  No bound on retry, readers, schedule. *)
Theorem c18_ants_task_protocol_race_free :
  forall (retry readers : nat) (sched : list rt_item), ~ hb_race (rt_atrace retry readers sched).
Proof. exact rt_ants_race_free. Qed.
Print Assumptions c18_ants_task_protocol_race_free.

(* rt_xtrace readers sched: thread 0 = the producer (SendCallback), 1 = the single consumer
   (receive, Do once), 2+j = a Get2/Get1 caller *)
Theorem c18_taskx_task_protocol_race_free :
  forall (readers : nat) (sched : list nat), ~ hb_race (rt_xtrace readers sched).
Proof. exact rt_taskx_race_free. Qed.
Print Assumptions c18_taskx_task_protocol_race_free.

Theorem c18_task_rows_in_table : rt_rows_in_table = true.
Proof. exact rt_rows_ok. Qed.
Print Assumptions c18_task_rows_in_table.

(* usages outside the protocol race: Task.Err() without waiting for Get2 (ants), a second Do
   by the consumer while a released Get2 caller reads (taskx) *)
Theorem c18_ants_err_peek_refuted :
  hb_race (rt_atrace_peek 2 1 [(0, true, false); (1, true, false); (1, true, false); (4, true, false); (1, true, false)]).
Proof. exact rt_ants_err_peek_refuted. Qed.
Print Assumptions c18_ants_err_peek_refuted.

Theorem c18_taskx_do_twice_refuted : hb_race (rt_xtrace_twice 1 [0; 1; 1; 1; 1; 2]).
Proof. exact rt_taskx_do_twice_refuted. Qed.
Print Assumptions c18_taskx_do_twice_refuted.

(* non-vacuity: two attempts, the first times out and its worker sends late (after the task is
   complete), the second is taken from doneChan; a Get2 caller reads.
   0 = the allocation's write of result, overwritten by the dispatcher at 8 (send 2 -> receive 3);
   13 = the dispatcher's last write of result, read by Get2 at 20 (wg.Done 17 -> wg.Wait 19) *)
Example c18_ants_task_protocol_nonvacuous :
  let tr := rt_atrace 2 1 [(0,true,false); (1,true,false); (1,true,false); (2,true,false); (2,true,false);
                           (1,true,false); (1,true,false); (3,true,false); (1,true,false); (1,true,false);
                           (3,true,false); (4,true,false)] in
  length tr = 22 /\
  hb_conflict tr 0 8 /\ hb_hb tr 0 8 /\ hb_conflict tr 13 20 /\ hb_hb tr 13 20.
Proof.
  cbv zeta. remember (rt_atrace _ _ _) as tr eqn:E. vm_compute in E. subst tr.
  split; [reflexivity|]. repeat split.
  - apply (rm_conflict_intro _ 0 8 0 1 (RWrite 1) (RWrite 1) 1); try reflexivity; [discriminate|left; reflexivity].
  - apply (rm_hb_chain _ 0 2 3 8 0 1 (RWrite 1) (RRel 0) (RAcq 0) (RWrite 1) 0); try reflexivity; lia.
  - apply (rm_conflict_intro _ 13 20 1 4 (RWrite 1) (RRead 1) 1); try reflexivity; [discriminate|left; reflexivity].
  - apply (rm_hb_chain _ 13 17 19 20 1 4 (RWrite 1) (RRel 1) (RAcq 1) (RRead 1) 1); try reflexivity; lia.
Qed.

(* ================================================================== loom.Flag / loom.AddIf64: the labelled step model *)

(* ---- every run of at_step (models/Atomics.v, the machine C17 steps against flag.go / atomic.go)
   labelled by models/RaceAtomics.v: atomic.LoadInt64 = acquire, successful CompareAndSwapInt64 =
   acquire-release, failed CAS = acquire, all on ONE sync object (the word).
   ALL accesses of this component are atomic.  So the content of the theorem is "no plain access at
   all": c18_atomics_model_all_atomic says every memory event of every run (any initial word, any
   number of threads, any programs over AddFlag / RemoveFlag / HasFlag / AddIf64 with any predicate,
   any schedule) is a synchronisation event, and c18_atomics_model_race_free is its corollary (a
   trace without plain accesses has no conflicting pair).  That the labels are the right ones is tied
   to the code by: c18_atomics_labels_match_events (the label of a step is a function of the
   at_event of that step, which C17 compares with the running code at every step of every schedule),
   c18_atomics_labels_match_sites (yield sites 14..17), c18_atomics_rows_in_table (access-table
   rows regenerated from flag.go / atomic.go on every run: a plain access instead of a sync/atomic
   call changes the row), and the -race stress.  c18_atomics_run_projects: the labelled run is the run
   of the model (same final state, same at_event trace). *)
Theorem c18_atomics_model_race_free :
  forall (w : Z) (progs : list (list at_op)) (sched : list nat),
    ~ hb_race (ra_trace (at_init w progs) sched).
Proof. exact ra_race_free_init. Qed.
Print Assumptions c18_atomics_model_race_free.

Theorem c18_atomics_model_all_atomic :
  forall (w : Z) (progs : list (list at_op)) (sched : list nat),
    Forall (fun p => rm_sync (snd p)) (ra_trace (at_init w progs) sched).
Proof. exact ra_all_atomic_init. Qed.
Print Assumptions c18_atomics_model_all_atomic.

Theorem c18_atomics_run_projects :
  forall (s : at_state) (sched : list nat),
    fst (ra_lrun s sched) = at_final s sched /\
    map fst (snd (ra_lrun s sched)) = at_trace s sched /\
    ra_flatten (snd (ra_lrun s sched)) = ra_trace s sched.
Proof. exact ra_lrun_projects'. Qed.
Print Assumptions c18_atomics_run_projects.

Theorem c18_atomics_labels_match_events :
  forall (s : at_state) (i : nat),
    match snd (at_step s i) with
    | AEInv _ | AENone => ra_events false s i = []
    | AELoad | AECasFail | AEHas _ _ | AEIfFalse _ => ra_events false s i = [RAcq ra_word]
    | AEFlagEff _ _ | AEIfAdd _ _ => ra_events false s i = [RAcqRel ra_word]
    end.
Proof. exact ra_labels_match_events. Qed.
Print Assumptions c18_atomics_labels_match_events.

(* a step that changes the word publishes: it is labelled with a release on the word *)
Theorem c18_atomics_word_change_is_release :
  forall (s : at_state) (i : nat),
    at_word (fst (at_step s i)) <> at_word s -> ra_events false s i = [RAcqRel ra_word].
Proof. exact ra_word_change_is_release. Qed.
Print Assumptions c18_atomics_word_change_is_release.

Theorem c18_atomics_labels_match_sites :
  forall (w : Z) (pc : at_pc) (todo : list at_op),
    match at_site_pc pc with
    | 14 | 16 => ra_step_pc false w pc todo = [RAcq ra_word]
    | 15 | 17 => exists ok, ra_step_pc false w pc todo = ra_cas false ok
    | _ => ra_step_pc false w pc todo = [] \/ ra_step_pc false w pc todo = [RAcq ra_word]
    end.
Proof. exact ra_sites. Qed.
Print Assumptions c18_atomics_labels_match_sites.

Theorem c18_atomics_rows_in_table : ra_rows_in_table = true.
Proof. exact ra_rows_ok. Qed.
Print Assumptions c18_atomics_rows_in_table.

(* the converse: AddFlag / RemoveFlag written as a plain read-modify-write (last := *addr; *addr =
   last | flag) DOES race in the same analysis: two threads, both past their plain read when the
   first plain write happens *)
Theorem c18_atomics_plain_refuted :
  hb_race (ra_trace_gen true (at_init 0%Z [[AtAdd 1%Z]; [AtAdd 2%Z]]) [0; 1; 0; 1; 0; 1]).
Proof. exact ra_plain_refuted. Qed.
Print Assumptions c18_atomics_plain_refuted.

(* non-vacuity: AddFlag(1) by thread 0, RemoveFlag(4) by thread 1 whose first CAS fails, HasFlag(1) by
   thread 2.  The trace has 7 events, none a plain access (so there is no conflicting pair to order);
   the synchronisation it records is real: thread 0's successful CAS (event 2, a release) is ordered
   before thread 1's failed CAS (3), thread 1's successful CAS (5) and thread 2's load (6) *)
Example c18_atomics_model_nonvacuous :
  let s := at_init 0%Z [[AtAdd 1%Z]; [AtRemove 4%Z]; [AtHas 1%Z]] in
  let sched := [0;1;0;1;0;1;1;1;2] in
  let tr := ra_trace s sched in
  at_word (at_final s sched) = 1%Z /\
  map snd (at_trace s sched) = [AEInv (AtAdd 1%Z); AEInv (AtRemove 4%Z); AELoad; AELoad; AEFlagEff true 1%Z;
                                AECasFail; AELoad; AEFlagEff false 4%Z; AEHas 1%Z true] /\
  tr = [(0, RAcq 0); (1, RAcq 0); (0, RAcqRel 0); (1, RAcq 0); (1, RAcq 0); (1, RAcqRel 0); (2, RAcq 0)] /\
  hb_hb tr 2 3 /\ hb_hb tr 2 5 /\ hb_hb tr 5 6.
Proof.
  cbv zeta. remember (ra_trace _ _) as tr eqn:E. vm_compute in E. subst tr.
  split; [vm_compute; reflexivity|]. split; [vm_compute; reflexivity|]. split; [reflexivity|].
  split; [|split].
  - apply (rm_hb_sw _ 2 3 0 1 (RAcqRel 0) (RAcq 0) 0); try reflexivity; lia.
  - apply (rm_hb_sw _ 2 5 0 1 (RAcqRel 0) (RAcqRel 0) 0); try reflexivity; lia.
  - apply (rm_hb_sw _ 5 6 1 2 (RAcqRel 0) (RAcq 0) 0); try reflexivity; lia.
Qed.

(* ================================================================== loom.Mutex: the labelled step model *)

(* ---- every run of mx_step (models/MutexWord.v part 2: Lock / lockSlow / Unlock / unlockSlow of
   sync.Mutex re-modelled from the Go 1.23 source + loom's TryLock, whose three accesses C17 steps
   against loom/mutex.go) labelled by models/RaceMutex.v, with observers (RmxObs = Count / IsLocked /
   IsWoken / IsStarving: one atomic load, at any time) and client accesses (RmxAcc i w x: thread i
   reads / writes location x, executed only while the model says thread i holds the mutex).
   (1) The state word: Lock, Unlock, TryLock, Count, IsLocked touch it only through sync/atomic
   (c18_mutex_word_all_atomic: without client accesses every event of every run is a synchronisation
   event - "no plain access at all"; the plain loads inside package sync are not labelled, see
   RaceMutex.v).  (2) c18_mutex_model_race_free: data accessed only while holding a loom.Mutex -
   acquired by Lock's fast path, lockSlow's CAS, the starvation hand-off, or TryLock's first or second
   CAS - never races, for any number of threads, any programs, any spin / starvation oracles, any
   schedule, with observers running: TryLock's CAS really acquires what Unlock's AddInt32 released.
   It rests on mutual exclusion (C17: c17_mutex_exclusion, the invariant mx_inv). *)
Theorem c18_mutex_model_race_free :
  forall (progs : list (list mx_op)) (sched : list rmx_item),
    ~ hb_race (rmx_trace (mx_init progs) sched).
Proof. exact rmx_race_free. Qed.
Print Assumptions c18_mutex_model_race_free.

Theorem c18_mutex_model_monitor :
  forall (progs : list (list mx_op)) (sched : list rmx_item),
    rc_raced (rc_run (length progs) (rmx_trace (mx_init progs) sched)) = false
    /\ hb_wf (length progs) (rmx_trace (mx_init progs) sched).
Proof. exact rmx_monitor_spec. Qed.
Print Assumptions c18_mutex_model_monitor.

Theorem c18_mutex_word_all_atomic :
  forall (progs : list (list mx_op)) (sched : list rmx_item),
    Forall (fun it => match it with RmxAcc _ _ _ => False | _ => True end) sched ->
    Forall (fun p => rm_sync (snd p)) (rmx_trace (mx_init progs) sched).
Proof. exact rmx_word_all_atomic_init. Qed.
Print Assumptions c18_mutex_word_all_atomic.

(* the labelled run is the run of the model: its states are those of mx_step on the RmxRun items *)
Theorem c18_mutex_run_projects :
  forall (s : mx_state) (sched : list rmx_item), rmx_final s sched = mx_final s (rmx_base sched).
Proof. exact rmx_projects'. Qed.
Print Assumptions c18_mutex_run_projects.

Theorem c18_mutex_labels_match_sites :
  forall (r : mx_w) (th : mx_thread),
    match xpc th with
    | XT1 => rmx_label false r th = [rmx_cas (mx_is_zero r)]
    | XT2 => rmx_label false r th = [RAcq rmx_word]
    | XT3 old => rmx_label false r th = [rmx_cas (mx_w_eqb r old)]
    | _ => True
    end.
Proof. exact rmx_sites. Qed.
Print Assumptions c18_mutex_labels_match_sites.

(* the label of a step is a function of the mx_event of that step: every acquisition (Lock fast path,
   lockSlow CAS, hand-off, TryLock CAS1 / CAS2) and every Unlock is an acquire-release on the word, a
   refused TryLock only an acquire; invocations, semaphore steps and returns emit nothing *)
Theorem c18_mutex_labels_match_events :
  forall (r : mx_w) (t : nat) (th : mx_thread),
    match snd (mx_step_th r t th) with
    | XEAcq _ | XEUnlocked => rmx_label false r th = [RAcqRel rmx_word]
    | XETryFail => rmx_label false r th = [RAcq rmx_word]
    | XEInv | XESkip | XEBlocked | XERet | XENone => rmx_label false r th = []
    | _ => True
    end.
Proof. exact rmx_labels_match_events. Qed.
Print Assumptions c18_mutex_labels_match_events.

Theorem c18_mutex_rows_in_table : rmx_rows_in_table = true.
Proof. exact rmx_rows_ok. Qed.
Print Assumptions c18_mutex_rows_in_table.

(* TryLock with plain accesses of the word instead of sync/atomic calls races *)
Theorem c18_mutex_trylock_plain_refuted :
  hb_race (rmx_trace_gen true (mx_init [[XTryLock]; [XTryLock]]) [RmxRun 0; RmxRun 1; RmxRun 0; RmxRun 1]).
Proof. exact rmx_trylock_plain_refuted. Qed.
Print Assumptions c18_mutex_trylock_plain_refuted.

(* non-vacuity: thread 0 Lock, write x, Unlock; thread 1 TryLock (fails: CAS1 and the load see the
   locked word), its access is refused, TryLock again (CAS1 succeeds), read x, write x, Unlock;
   thread 2 observes twice (Count / IsLocked), then Lock and write x.
   1 = thread 0's write, read by thread 1 at 7 (Unlock's AddInt32 5 -> TryLock's CAS 6);
   8 = thread 1's write, against thread 2's write at 12 (Unlock 10 -> Lock 11);
   1 against 12 directly (5 -> 11) *)
Example c18_mutex_model_nonvacuous :
  let s := mx_init [[XLock 0 0; XUnlock]; [XTryLock; XTryLock; XUnlock]; [XLock 0 0]] in
  let sched := [RmxRun 0; RmxRun 0; RmxAcc 0 true 7; RmxRun 1; RmxRun 1; RmxRun 1; RmxAcc 1 false 7; RmxObs 2;
                RmxRun 0; RmxRun 0; RmxRun 1; RmxRun 1; RmxAcc 1 false 7; RmxAcc 1 true 7; RmxObs 2;
                RmxRun 1; RmxRun 1; RmxRun 2; RmxRun 2; RmxAcc 2 true 7] in
  let tr := rmx_trace s sched in
  map snd (mx_trace s (rmx_base sched)) =
    [XEInv; XEAcq 0; XEInv; XEInt; XETryFail; XEInv; XEUnlocked; XEInv; XEAcq 3; XEInv; XEUnlocked; XEInv; XEAcq 0] /\
  length tr = 13 /\
  hb_conflict tr 1 7 /\ hb_hb tr 1 7 /\
  hb_conflict tr 8 12 /\ hb_hb tr 8 12 /\
  hb_conflict tr 1 12 /\ hb_hb tr 1 12.
Proof.
  cbv zeta. remember (rmx_trace _ _) as tr eqn:E. vm_compute in E. subst tr.
  split; [vm_compute; reflexivity|]. split; [reflexivity|]. repeat split.
  - apply (rm_conflict_intro _ 1 7 0 1 (RWrite 8) (RRead 8) 8); try reflexivity; [discriminate|left; reflexivity].
  - apply (rm_hb_chain _ 1 5 6 7 0 1 (RWrite 8) (RAcqRel 0) (RAcqRel 0) (RRead 8) 0); try reflexivity; lia.
  - apply (rm_conflict_intro _ 8 12 1 2 (RWrite 8) (RWrite 8) 8); try reflexivity; [discriminate|left; reflexivity].
  - apply (rm_hb_chain _ 8 10 11 12 1 2 (RWrite 8) (RAcqRel 0) (RAcqRel 0) (RWrite 8) 0); try reflexivity; lia.
  - apply (rm_conflict_intro _ 1 12 0 2 (RWrite 8) (RWrite 8) 8); try reflexivity; [discriminate|left; reflexivity].
  - apply (rm_hb_chain _ 1 5 11 12 0 2 (RWrite 8) (RAcqRel 0) (RAcqRel 0) (RWrite 8) 0); try reflexivity; lia.
Qed.

(* ================================================================== taskx.Queue: the labelled step model *)

(* ---- every run of tq_gstep (models/TaskQueue.v: the machine C09 replays against taskx/queue.go and
   task_callback.go - producers calling SendCallback / SendTask on a channel of any capacity, ONE
   consumer that receives and runs Do once per task, close of the close channel at any time, Get2
   waiters started at any time on any handle) labelled by models/RaceTaskQueue.v.
   Threads: producer i = i, the consumer = length progs, the closer = length progs + 1, waiter w =
   length progs + 2 + w; no go-statement edges.  Per task: plain locations result / err / isHandled,
   sync objects = the channel message carrying the task and the task's WaitGroup; closeChan = object 0.
   Events: the allocation &taskCallback{..} = plain writes of the three fields by the producer, before
   the send (release on the message; for a parked sender when a receive admits it); the consumer's
   receive = acquire on that message; Do = plain writes of result and err (TqStore), then plain read
   and write of isHandled, wg.Done = release, plain read of err (TqDone); Get2 = wg.Wait returns =
   acquire, then plain reads of result and err (at the call, or in the step of the Done that releases
   the parked waiter); close(closeChan) = release, a sender leaving through the close branch = acquire.
   wg.Add(1) is given no event (it has no synchronisation meaning in the Go memory model).
   c18_taskq_model_race_free: no happens-before race, for every capacity, every number of producers,
   all programs (nil handlers / nil tasks / user tasks included), every schedule with any number of
   Get2 waiters.  c18_taskq_trace_projects: the labelled trace is the model's own event trace
   (tq_gtrace, what C09 compares with the code) mapped through the labelling. *)
Theorem c18_taskq_model_race_free :
  forall (cap : nat) (progs : list (list tq_op)) (gs : list tq_gact),
    ~ hb_race (rtq_trace cap progs gs).
Proof. exact rtq_race_free. Qed.
Print Assumptions c18_taskq_model_race_free.

Theorem c18_taskq_model_conflicts_ordered :
  forall (cap : nat) (progs : list (list tq_op)) (gs : list tq_gact) (i j : nat),
    i < j -> j < length (rtq_trace cap progs gs) ->
    hb_conflict (rtq_trace cap progs gs) i j -> hb_hb (rtq_trace cap progs gs) i j.
Proof. exact rtq_conflicts_ordered. Qed.
Print Assumptions c18_taskq_model_conflicts_ordered.

Theorem c18_taskq_model_monitor :
  forall (cap : nat) (progs : list (list tq_op)) (gs : list tq_gact),
    rc_raced (rc_run (rtq_nthreads progs gs) (rtq_trace cap progs gs)) = false
    /\ hb_wf (rtq_nthreads progs gs) (rtq_trace cap progs gs).
Proof. exact rtq_monitor_spec. Qed.
Print Assumptions c18_taskq_model_monitor.

Theorem c18_taskq_trace_projects :
  forall (cap : nat) (progs : list (list tq_op)) (gs : list tq_gact),
    rtq_trace cap progs gs =
    flat_map (fun ae => rtq_events false (length progs) (fst ae) (snd ae))
             (combine gs (tq_gtrace (tq_ginit cap progs) gs)).
Proof. exact rtq_trace_projects_init. Qed.
Print Assumptions c18_taskq_trace_projects.

Theorem c18_taskq_rows_in_table : rtq_rows_in_table = true.
Proof. exact rtq_rows_ok. Qed.
Print Assumptions c18_taskq_rows_in_table.

(* the seeded shape "isHandled set before the handler runs + Get2 fast path reading isHandled"
   (seeded/C09-ishandled-early-plus-get-fastpath) races in the same analysis - even when the producer
   hands the task to the Get2 caller with a synchronising hand-off: the consumer's plain write of
   isHandled (and of result / err) is unordered with the caller's plain read *)
Theorem c18_taskq_ishandled_early_refuted :
  hb_race (rtq_trace_early 1 [[TqCallback (Some (5%Z, 0%Z))]]
             [TqGBase (TqProd 0 false); TqGBase (TqRecv 0); TqGBase TqStore; TqGGet (TqHTask (0, 0))]).
Proof. exact rtq_early_refuted. Qed.
Print Assumptions c18_taskq_ishandled_early_refuted.

(* deleting wg.Done's release (what "wg.Done() before the result store" amounts to) / the receive's
   acquire from a race-free run makes it racy *)
Theorem c18_taskq_done_release_needed :
  let tr := rtq_trace 1 rtq_ex_progs rtq_ex_sched in
  nth_error tr 13 = Some (2, RRel (rtq_wg (0, 0))) /\ ~ hb_race tr /\ hb_race (firstn 13 tr ++ skipn 14 tr).
Proof. exact rtq_done_release_needed. Qed.
Print Assumptions c18_taskq_done_release_needed.

Theorem c18_taskq_receive_needed :
  let tr := rtq_trace 1 rtq_ex_progs rtq_ex_sched in
  nth_error tr 7 = Some (2, RAcq (rtq_msg (0, 0))) /\ ~ hb_race tr /\ hb_race (firstn 7 tr ++ skipn 8 tr).
Proof. exact rtq_receive_needed. Qed.
Print Assumptions c18_taskq_receive_needed.

(* non-vacuity: capacity 1, producers 0 and 1 (threads 0, 1), consumer = thread 2, closer = 3, waiters
   = 4, 5, 6.  Producer 0 sends callback task (0,0); waiter 0 parks on it; producer 1's callback task
   (1,0) and producer 0's user task park (channel full); the consumer receives (0,0) admitting (1,0),
   stores, Done releases waiter 0; waiter 1 returns at once; the consumer receives (1,0) admitting the
   user task, stores; close; Done; waiter 2 reads (1,0); producer 1's last send leaves through close.
   0  = producer 0's allocation write of result, overwritten by the consumer at 9 (send 3 -> receive 7);
   9  = the consumer's write of result, read by the RELEASED waiter at 16 (wg.Done 13 -> wg.Wait 15);
   10 = the consumer's write of err, read by the waiter that came later at 20 (13 -> 18);
   4  = the PARKED sender's allocation write, overwritten by the consumer at 23 (its send completes at
        the admitting receive: 8 -> the consumer's receive 21);
   24 = the consumer's write of err of task (1,0), read by waiter 2 at 32 (28 -> 30) *)
Example c18_taskq_model_nonvacuous :
  let tr := rtq_trace 1 rtq_ex_progs rtq_ex_sched in
  length tr = 37 /\
  hb_conflict tr 0 9 /\ hb_hb tr 0 9 /\
  hb_conflict tr 9 16 /\ hb_hb tr 9 16 /\
  hb_conflict tr 10 20 /\ hb_hb tr 10 20 /\
  hb_conflict tr 4 23 /\ hb_hb tr 4 23 /\
  hb_conflict tr 24 32 /\ hb_hb tr 24 32.
Proof.
  cbv zeta. remember (rtq_trace _ _ _) as tr eqn:E. vm_compute in E. subst tr.
  split; [reflexivity|]. repeat split.
  - apply (rm_conflict_intro _ 0 9 0 2 (RWrite 0) (RWrite 0) 0); try reflexivity; [discriminate|left; reflexivity].
  - apply (rm_hb_chain _ 0 3 7 9 0 2 (RWrite 0) (RRel 1) (RAcq 1) (RWrite 0) 1); try reflexivity; lia.
  - apply (rm_conflict_intro _ 9 16 2 4 (RWrite 0) (RRead 0) 0); try reflexivity; [discriminate|left; reflexivity].
  - apply (rm_hb_chain _ 9 13 15 16 2 4 (RWrite 0) (RRel 2) (RAcq 2) (RRead 0) 2); try reflexivity; lia.
  - apply (rm_conflict_intro _ 10 20 2 5 (RWrite 1) (RRead 1) 1); try reflexivity; [discriminate|left; reflexivity].
  - apply (rm_hb_chain _ 10 13 18 20 2 5 (RWrite 1) (RRel 2) (RAcq 2) (RRead 1) 2); try reflexivity; lia.
  - apply (rm_conflict_intro _ 4 23 1 2 (RWrite 6) (RWrite 6) 6); try reflexivity; [discriminate|left; reflexivity].
  - apply (rm_hb_chain _ 4 8 21 23 1 2 (RWrite 6) (RRel 7) (RAcq 7) (RWrite 6) 7); try reflexivity; lia.
  - apply (rm_conflict_intro _ 24 32 2 6 (RWrite 7) (RRead 7) 7); try reflexivity; [discriminate|left; reflexivity].
  - apply (rm_hb_chain _ 24 28 30 32 2 6 (RWrite 7) (RRel 8) (RAcq 8) (RRead 7) 8); try reflexivity; lia.
Qed.

(* ------------------------------------------------------------------------------------------------
   The ants STEP model (D20): models/RaceAnts.v labels every step of ast_step (models/AntsSteps.v, the
   machine the C07 stream "dispatch-steps" steps against the real pool) with its memory events:
   allocation of the task = write of its result/err location, taskChan / innerCallbackChan / per-attempt
   channel messages = release at the send, acquire at the matching receive, ctx cancel = release,
   ctx.Done() observed = acquire, the dispatcher's stores and reads of result/err, wg.Done = release,
   Get2 = acquire + read.

   c18_ants_model_orig_race_refuted: the labelled run of the code before d4c0a4b (inner callback storing
   result/err itself) on the late-write schedule has a happens-before race (the inner callback's write
   against the dispatcher's writes and the Get2 caller's read).
   c18_ants_model_witness_race_free: the SAME schedule on the fixed model has none, although it contains
   conflicting accesses of three threads (c18_ants_model_witness_conflicts).
   NOT proved: the general statement
     c18_ants_model_race_free : forall n progs sched, ~ hb_race (ra_trace AstFixed n progs sched).
   What is proved towards it (props/C07.v): a task is held by one thread at a time and only the holder's
   store steps write its result/err (ants_steps_task_single_holder, ants_steps_only_dispatcher_writes), i.e.
   the structural half; the monitor invariant (the holder knows the last write and all reads, the message /
   the wait group carries them otherwise) is the same argument as c18_taskq_model_race_free and
   c18_ants_task_protocol_race_free above, which covers the ants task protocol for any number of attempts
   and late handlers on an abstract machine. *)
From Got Require Import AntsSteps RaceAnts RaceAntsProofs.

Theorem c18_ants_model_orig_race_refuted : hb_race (ra_trace AstOrig 1 ra_lw_progs ra_lw_sched).
Proof. exact ra_orig_race. Qed.
Print Assumptions c18_ants_model_orig_race_refuted.

Theorem c18_ants_model_witness_race_free : ~ hb_race (ra_trace AstFixed 1 ra_lw_progs ra_lw_sched).
Proof. exact ra_fixed_lw_no_race. Qed.
Print Assumptions c18_ants_model_witness_race_free.

Theorem c18_ants_model_witness_conflicts :
  exists i j, hb_conflict (ra_trace AstFixed 1 ra_lw_progs ra_lw_sched) i j.
Proof. exact ra_fixed_lw_conflicts. Qed.
Print Assumptions c18_ants_model_witness_conflicts.

(* ------------------------------------------------------------------------------------------------
   (D21) The general statement announced as "NOT proved" in the block above IS NOW PROVED:

   c18_ants_model_race_free: for EVERY pool size n, client programs (Send with any options and handler
   scripts, Get2, Close), schedule and select choices, the labelled trace of the FIXED step model has no
   happens-before race.  closeChan and len(taskChan) are not labelled (fewer edges: stronger).
   Proof (proofs/RaceAntsInv.v, RaceAntsCases.v, RaceAntsProofs.v): vector-clock monitor invariant indexed by
   the ghost owner of each task -- the thread that holds task t knows the last write and every read of its
   result/err; while t is in taskChan the message carries them; after wg.Done the wait group carries the last
   write; locations beyond the arena were never accessed -- re-established by each of the nine kinds of step
   (ra_minv_step), every step of the fixed machine being of one of these kinds by the ownership invariant
   ast_inv (ra_step_kind); hbp_agree turns "the monitor never flags" into "no hb race".
   c18_ants_model_conflicts_ordered: equivalently, every conflicting pair of accesses in such a trace is
   ordered by happens-before.
   Non-vacuity: c18_ants_model_witness_conflicts (the trace of the late-write schedule does contain conflicting
   accesses of three threads), and c18_ants_model_orig_race_refuted (the same labelling flags the pre-fix code). *)
Theorem c18_ants_model_race_free :
  forall (n : nat) (progs : list (list ast_op)) (sched : list (nat * bool)),
    ~ hb_race (ra_trace AstFixed n progs sched).
Proof. exact ra_race_free. Qed.
Print Assumptions c18_ants_model_race_free.

Theorem c18_ants_model_conflicts_ordered :
  forall (n : nat) (progs : list (list ast_op)) (sched : list (nat * bool)) (i j : nat),
    i < j -> j < length (ra_trace AstFixed n progs sched) ->
    hb_conflict (ra_trace AstFixed n progs sched) i j ->
    hb_hb (ra_trace AstFixed n progs sched) i j.
Proof. exact ra_conflicts_ordered. Qed.
Print Assumptions c18_ants_model_conflicts_ordered.
