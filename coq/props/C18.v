(* C18 -- data-race freedom of the goroutine-safe APIs (publication patterns).
   "Race" is defined by the vector-clock monitor of lib/Race.v (the DJIT+/TSan notion the
   Go race detector implements); its equivalence with the relational happens-before of the
   Go memory model is NOT proved here (DESIGN.md 5 C18, partial).

   c18_publication_race_free: for EVERY publication protocol instance (any list of plain
   writes followed by any list of releases by one writer; any number of readers, each
   acquiring one of the objects and reading only if it observed the release), and EVERY
   schedule, the monitor never reports a race.
   c18_instances_race_free: the concrete patterns of lixianmin/got (cachex Future, ants
   task result, taskx callback result, queue node value, wheel slot, WaitClose.closeChan)
   are such instances; c18_rows_in_table: the source rows they were labelled from are rows
   of the access table, which the check regenerates from /repo and compares on every run.
   c18_lock_discipline_race_free: accesses made only inside critical sections of one mutex
   (cachex shard maps, WaitClose fields under wc.mutex) never race.
   c18_*_refuted: the pre-fix patterns (status check reading err without having observed
   the completion; two unordered writers of the task result) do race. *)
From Coq Require Import String.
From Got Require Import Base Race RaceProofs RaceInst.
Local Open Scope nat_scope.

Theorem c18_publication_race_free :
  forall (p : rc_pub) (sched : list nat),
    rc_raced (ps_mon (rc_prun false p sched)) = false.
Proof. exact pb_race_free. Qed.
Print Assumptions c18_publication_race_free.

Theorem c18_instances_race_free :
  Forall (fun i => forall sched, rc_raced (ps_mon (rc_prun false (snd (fst i)) sched)) = false)
         ri_instances.
Proof. apply Forall_forall. intros i _. apply pb_race_free. Qed.
Print Assumptions c18_instances_race_free.

Theorem c18_rows_in_table : ri_rows_in_table = true.
Proof. vm_compute. reflexivity. Qed.
Print Assumptions c18_rows_in_table.

(* lock discipline: any number of threads, each running any list of critical sections
   (Lock m; any plain reads/writes; Unlock m) on one mutex, any schedule: no race *)
Theorem c18_lock_discipline_race_free :
  forall (progs : list (list (list (bool * nat)))) (sched : list nat),
    rc_raced (ls_mon (rc_lrun progs sched)) = false.
Proof. exact lk_race_free. Qed.
Print Assumptions c18_lock_discipline_race_free.

Theorem c18_lock_rows_in_table : ri_lock_rows_in_table = true.
Proof. vm_compute. reflexivity. Qed.
Print Assumptions c18_lock_rows_in_table.

Theorem c18_unguarded_status_refuted :
  rc_raced (ps_mon (rc_prun true {| pb_ws := [7]; pb_os := [1]; pb_readers := [(1, [7])] |} [0; 1; 1])) = true.
Proof. exact pb_unguarded_races. Qed.
Print Assumptions c18_unguarded_status_refuted.

Theorem c18_two_writers_refuted :
  rc_raced (rc_run 2 [(0, RWrite 7); (1, RWrite 7)]) = true.
Proof. exact rc_two_writers_race. Qed.
Print Assumptions c18_two_writers_refuted.

(* non-vacuity: in the Future instance a schedule exists where one reader's guard fails
   (it came too early), another reader passes it and performs both reads, and the status
   reader reads err -- with no race *)
Example c18_nonvacuous :
  let s := rc_prun false ri_future [1; 0; 0; 0; 3; 3; 0; 0; 2; 2; 2; 4; 4] in
  nth_error (ps_rpcs s) 0 = Some RPStop /\
  nth_error (ps_rpcs s) 1 = Some (RPReading 1) /\
  nth_error (ps_rpcs s) 2 = Some (RPReading 1) /\
  nth_error (ps_rpcs s) 3 = Some (RPReading 1) /\
  rc_raced (ps_mon s) = false.
Proof. vm_compute. repeat split. Qed.
