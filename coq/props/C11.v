(* C11 -- the iox codec round-trips every value and keeps the little-endian / LEB128 wire
   format.  Only property theorems (full statements), each closed by [exact] of a lemma of
   proofs/OctetsProofs.v, and Print Assumptions.
   Model: models/Octets.v (every writer/reader of OctetsStream, OctetsWriter, OctetsReader).
   Specifications: lib/OctetsSpec.v (le_bytes, le_value, uleb128, uleb_value, uleb_shape,
   prefixed), written without reference to the code.
   oct_mk buf p is the stream with buffer buf and read position p; in every round-trip
   theorem [pre] is whatever the stream already held, [p] any read position, [post] whatever
   is written afterwards: the value is read back at the position where it was written,
   the cursor advances by exactly the bytes written, and the buffer is unchanged. *)
From Got Require Import Base Octets OctetsSpec OctetsProofs OctetsInterleaved.
Local Open Scope Z_scope.

(* ---- round trip, one theorem per type (all values of the type: ranges are the Go types) *)
Theorem c11_rt_bool : forall (b : bool) pre p post,
  oct_write_bool (oct_mk pre p) b = oct_mk (pre ++ [if b then 1 else 0]) p /\
  oct_read_bool (oct_mk (pre ++ [if b then 1 else 0] ++ post) (length pre)) =
    (Ok b, oct_mk (pre ++ [if b then 1 else 0] ++ post) (length pre + 1), 0).
Proof. exact rt_bool_lemma. Qed.
Print Assumptions c11_rt_bool.

Theorem c11_rt_byte : forall x pre p post, 0 <= x < 256 ->
  oct_write_byte (oct_mk pre p) x = oct_mk (pre ++ [x]) p /\
  oct_read_byte (oct_mk (pre ++ [x] ++ post) (length pre)) = (Ok x, oct_mk (pre ++ [x] ++ post) (length pre + 1), 0).
Proof. exact rt_byte_lemma. Qed.
Print Assumptions c11_rt_byte.

Theorem c11_rt_int16 : forall x pre p post, - 2 ^ 15 <= x < 2 ^ 15 ->
  oct_write_int16 (oct_mk pre p) x = oct_mk (pre ++ le_bytes 2 x) p /\
  oct_read_int16 (oct_mk (pre ++ le_bytes 2 x ++ post) (length pre)) =
    (Ok x, oct_mk (pre ++ le_bytes 2 x ++ post) (length pre + 2), 0).
Proof. exact rt_int16_lemma. Qed.
Print Assumptions c11_rt_int16.

Theorem c11_rt_int32 : forall x pre p post, - 2 ^ 31 <= x < 2 ^ 31 ->
  oct_write_int32 (oct_mk pre p) x = oct_mk (pre ++ le_bytes 4 x) p /\
  oct_read_int32 (oct_mk (pre ++ le_bytes 4 x ++ post) (length pre)) =
    (Ok x, oct_mk (pre ++ le_bytes 4 x ++ post) (length pre + 4), 0).
Proof. exact rt_int32_lemma. Qed.
Print Assumptions c11_rt_int32.

Theorem c11_rt_int64 : forall x pre p post, - 2 ^ 63 <= x < 2 ^ 63 ->
  oct_write_int64 (oct_mk pre p) x = oct_mk (pre ++ le_bytes 8 x) p /\
  oct_read_int64 (oct_mk (pre ++ le_bytes 8 x ++ post) (length pre)) =
    (Ok x, oct_mk (pre ++ le_bytes 8 x ++ post) (length pre + 8), 0).
Proof. exact rt_int64_lemma. Qed.
Print Assumptions c11_rt_int64.

(* all 2^32 int32 values; proved by algebra on five size ranges, not by enumeration *)
Theorem c11_rt_7bit : forall x pre p post, - 2 ^ 31 <= x < 2 ^ 31 ->
  let enc := uleb128 (x mod 2 ^ 32) in
  oct_write_7bit (oct_mk pre p) x = Some (oct_mk (pre ++ enc) p) /\
  oct_read_7bit (oct_mk (pre ++ enc ++ post) (length pre)) =
    (Ok x, oct_mk (pre ++ enc ++ post) (length pre + length enc), 0).
Proof. exact rt_7bit_lemma. Qed.
Print Assumptions c11_rt_7bit.

(* any content (any Z per element, so in particular any byte, UTF-8 or not), any length a
   Go int32 can announce *)
Theorem c11_rt_bytes : forall (l : list Z) pre p post, Z.of_nat (length l) < 2 ^ 31 ->
  oct_write_bytes (oct_mk pre p) l = Some (oct_mk (pre ++ prefixed l) p) /\
  oct_read_bytes OctFixed (oct_mk (pre ++ prefixed l ++ post) (length pre)) =
    (Ok l, oct_mk (pre ++ prefixed l ++ post) (length pre + length (prefixed l)), Z.of_nat (length l)).
Proof. exact rt_bytes_lemma. Qed.
Print Assumptions c11_rt_bytes.

Theorem c11_rt_string : forall (l : list Z) pre p post, Z.of_nat (length l) < 2 ^ 31 ->
  oct_write_string (oct_mk pre p) l = Some (oct_mk (pre ++ prefixed l) p) /\
  oct_read_string OctFixed (oct_mk (pre ++ prefixed l ++ post) (length pre)) =
    (Ok l, oct_mk (pre ++ prefixed l ++ post) (length pre + length (prefixed l)), Z.of_nat (length l)).
Proof. exact rt_string_lemma. Qed.
Print Assumptions c11_rt_string.

(* ---- every sequence of typed values (each written through the stream or the writer
   wrapper, each read through the stream or the reader wrapper): the writes append exactly
   the concatenated wire formats and never touch the read position; the matching reads
   return the same values in order, each advancing the cursor by its own encoding
   (oct_expect_reads), ending exactly at the end of what was written. *)
Theorem c11_rt_sequence : forall v xs pre p post,
  forallb (fun ax => oct_val_ok (snd ax)) xs = true ->
  exists s1,
    oct_write_all {| oct_buf := pre; oct_pos := p |} xs = Some s1 /\
    oct_buf s1 = pre ++ oct_wire_all xs /\ oct_pos s1 = p /\
    let rs := oct_run_reads v (map (fun ax => oct_op_of (fst ax) (snd ax)) xs)
                {| oct_buf := oct_buf s1 ++ post; oct_pos := length pre |} in
    rs = oct_expect_reads (oct_buf s1 ++ post) (length pre) xs /\
    map (fun r => fst (fst r)) rs = map (fun ax => Ok (snd ax)) xs /\
    (xs <> [] ->
     oct_pos (snd (fst (last rs (Panic, {| oct_buf := []; oct_pos := 0 |}, 0)))) = length (oct_buf s1)).
Proof. exact rt_sequence_lemma. Qed.
Print Assumptions c11_rt_sequence.

(* ---- interleaved use of ONE stream.  A schedule says which call comes next: the next
   write W(v_i) (in the order of xs) or the next read R(i) (in the same order, each with the
   call matching the type of v_i, through the stream or the reader wrapper); FIFO discipline
   = at every prefix of the schedule #reads <= #writes <= length xs (oct_fifo_sched, a
   boolean).  The stream may already hold any, fully consumed, bytes [pre].
   oct_run_sched (models/Octets.v) performs the calls in that order on the model and records
   for every read (Position() before the call, (result, stream after, alloc)).
   oct_read_matches ax pr (proofs/OctetsInterleaved.v) :=
       result of pr = Ok (snd ax)  /\  Position() after = Position() before + length (oct_wire (snd ax))
       /\  alloc = oct_val_alloc (snd ax).
   For every such schedule: no call fails (the run is Some, every read result is Ok), the
   k-th read returns the k-th value written and advances the cursor by exactly the bytes of
   that value, the buffer is pre ++ the wire formats of the values written so far, the cursor
   is behind the values read so far; when everything was written and read back:
   position = len = length pre + total bytes written. *)
Theorem c11_rt_interleaved : forall v xs (sch : list bool) pre,
  forallb (fun ax => oct_val_ok (snd ax)) xs = true ->
  oct_fifo_sched sch (length xs) = true ->
  let nw := length (filter (fun b => b) sch) in      (* writes in the schedule *)
  let nr := length (filter negb sch) in              (* reads in the schedule *)
  exists obs s',
    oct_run_sched v (map oct_sop_of_bool sch) xs [] {| oct_buf := pre; oct_pos := length pre |} = Some (obs, s') /\
    Forall2 oct_read_matches (firstn nr xs) (oct_obs_reads obs) /\
    map oct_rd_value (oct_obs_reads obs) = map (fun ax => Ok (snd ax)) (firstn nr xs) /\
    oct_buf s' = pre ++ oct_wire_all (firstn nw xs) /\
    oct_pos s' = (length pre + length (oct_wire_all (firstn nr xs)))%nat /\
    (nw = length xs -> nr = length xs ->
     map oct_rd_value (oct_obs_reads obs) = map (fun ax => Ok (snd ax)) xs /\
     oct_buf s' = pre ++ oct_wire_all xs /\
     oct_pos s' = length (oct_buf s') /\
     oct_pos s' = (length pre + length (oct_wire_all xs))%nat).
Proof. exact rt_interleaved_lemma. Qed.
Print Assumptions c11_rt_interleaved.

(* ---- the same with Tidy() allowed at any point of the schedule (oct_tidy = the code of
   OctetsStream.Tidy: copy the unread bytes to the front, truncate, position = 0; it never
   panics).  Positions are then relative to the last Tidy, so the final facts are: the unread
   bytes are exactly the wire formats of the values written and not yet read; the reads
   consumed, in total, exactly the bytes of the values read (oct_obs_consumed = sum over the
   reads of Position() after - Position() before); when everything was written and read back
   position = len and the total consumed = the total bytes written. *)
Theorem c11_rt_interleaved_tidy : forall v xs (sch : list oct_sop) pre,
  forallb (fun ax => oct_val_ok (snd ax)) xs = true ->
  oct_fifo_sched_tidy sch (length xs) = true ->
  let nw := oct_sched_writes sch in
  let nr := oct_sched_reads sch in
  exists obs s',
    oct_run_sched v sch xs [] {| oct_buf := pre; oct_pos := length pre |} = Some (obs, s') /\
    Forall2 oct_read_matches (firstn nr xs) (oct_obs_reads obs) /\
    map oct_rd_value (oct_obs_reads obs) = map (fun ax => Ok (snd ax)) (firstn nr xs) /\
    oct_obs_consumed obs = length (oct_wire_all (firstn nr xs)) /\
    (oct_pos s' <= length (oct_buf s'))%nat /\
    skipn (oct_pos s') (oct_buf s') = oct_wire_all (skipn nr (firstn nw xs)) /\
    (nw = length xs -> nr = length xs ->
     map oct_rd_value (oct_obs_reads obs) = map (fun ax => Ok (snd ax)) xs /\
     oct_obs_consumed obs = length (oct_wire_all xs) /\
     oct_pos s' = length (oct_buf s')).
Proof. exact rt_interleaved_tidy_lemma. Qed.
Print Assumptions c11_rt_interleaved_tidy.

(* what Tidy does: keeps exactly the unread bytes, cursor at 0 *)
Theorem c11_tidy_keeps_unread : forall s, (oct_pos s <= length (oct_buf s))%nat ->
  oct_tidy s = Some {| oct_buf := skipn (oct_pos s) (oct_buf s); oct_pos := 0 |}.
Proof. exact tidy_spec. Qed.
Print Assumptions c11_tidy_keeps_unread.

(* ---- wire format: for every argument (no range hypothesis: the Go parameter conversion
   is part of le_bytes / mod 2^32) *)
Theorem c11_wire_fixed : forall s d,
  oct_write_int16 s d = oct_append s (le_bytes 2 d) /\
  oct_write_int32 s d = oct_append s (le_bytes 4 d) /\
  oct_write_int64 s d = oct_append s (le_bytes 8 d).
Proof. exact wire_fixed_lemma. Qed.
Print Assumptions c11_wire_fixed.

(* what le_bytes means: n bytes, each 0..255, denoting x mod 256^n least significant first *)
Theorem c11_le_bytes_meaning : forall n x,
  length (le_bytes n x) = n /\ Forall (fun b => 0 <= b < 256) (le_bytes n x) /\
  le_value (le_bytes n x) = x mod 256 ^ Z.of_nat n.
Proof. exact le_bytes_meaning_lemma. Qed.
Print Assumptions c11_le_bytes_meaning.

(* 7-bit int = unsigned LEB128 of the 32-bit pattern; 1..5 bytes with the exact size
   thresholds; the LEB128 string denotes the pattern and is canonical *)
Theorem c11_wire_7bit : forall s d,
  let u := d mod 2 ^ 32 in
  oct_write_7bit s d = Some (oct_append s (uleb128 u)) /\
  length (uleb128 u) =
    (if u <? 2 ^ 7 then 1%nat else if u <? 2 ^ 14 then 2%nat else if u <? 2 ^ 21 then 3%nat
     else if u <? 2 ^ 28 then 4%nat else 5%nat) /\
  uleb_value (uleb128 u) = u /\ uleb_shape (uleb128 u) = true.
Proof. exact wire_7bit_lemma. Qed.
Print Assumptions c11_wire_7bit.

Theorem c11_wire_bytes : forall s (l : list Z), Z.of_nat (length l) < 2 ^ 31 ->
  oct_write_bytes s l = Some (oct_append s (uleb128 (Z.of_nat (length l)) ++ l)) /\
  oct_write_string s l = Some (oct_append s (uleb128 (Z.of_nat (length l)) ++ l)).
Proof. exact wire_bytes_lemma. Qed.
Print Assumptions c11_wire_bytes.

Theorem c11_wire_bool_byte : forall s (b : bool) x,
  oct_write_bool s b = oct_append s [if b then 1 else 0] /\ oct_write_byte s x = oct_append s [x].
Proof. exact wire_bool_byte_lemma. Qed.
Print Assumptions c11_wire_bool_byte.

(* OctetsWriter / OctetsReader fixed-width methods are the OctetsStream ones *)
Theorem c11_wrappers_delegate :
  oct_wtr_write_bool = oct_write_bool /\ oct_wtr_write_byte = oct_write_byte /\
  oct_wtr_write_int16 = oct_write_int16 /\ oct_wtr_write_int32 = oct_write_int32 /\
  oct_wtr_write_int64 = oct_write_int64 /\
  oct_rdr_read_bool = oct_read_bool /\ oct_rdr_read_byte = oct_read_byte /\
  oct_rdr_read_int16 = oct_read_int16 /\ oct_rdr_read_int32 = oct_read_int32 /\
  oct_rdr_read_int64 = oct_read_int64.
Proof. exact wrappers_delegate_lemma. Qed.
Print Assumptions c11_wrappers_delegate.

(* non-vacuity: a concrete sequence (7-bit -1 = ff ff ff ff 0f, int16 -2 = fe ff, "hi") *)
Example c11_nonvacuous :
  oct_c11_case [(OctViaReader, OV7Bit (-1)); (OctViaStream, OVInt16 (-2)); (OctViaReader, OVString [104; 105])] =
  Some ([5; 7; 10],
        oct_mk [255; 255; 255; 255; 15; 254; 255; 2; 104; 105] 0,
        [(Ok (OV7Bit (-1)), oct_mk [255; 255; 255; 255; 15; 254; 255; 2; 104; 105] 5, 0);
         (Ok (OVInt16 (-2)), oct_mk [255; 255; 255; 255; 15; 254; 255; 2; 104; 105] 7, 0);
         (Ok (OVString [104; 105]), oct_mk [255; 255; 255; 255; 15; 254; 255; 2; 104; 105] 10, 2)]).
Proof. exact c11_example. Qed.

(* non-vacuity of the interleaved theorems: write "hi", int16 -2; read the string; Tidy;
   write 7-bit 300; read the int16 and the 7-bit int *)
Example c11_interleaved_nonvacuous :
  oct_c11i_case [OctSW; OctSW; OctSR; OctST; OctSW; OctSR; OctSR]
    [(OctViaReader, OVString [104; 105]); (OctViaStream, OVInt16 (-2)); (OctViaReader, OV7Bit 300)] =
  Some ([OctObW (oct_mk [2; 104; 105] 0);
         OctObW (oct_mk [2; 104; 105; 254; 255] 0);
         OctObR 0 (Ok (OVString [104; 105]), oct_mk [2; 104; 105; 254; 255] 3, 2);
         OctObT (oct_mk [254; 255] 0);
         OctObW (oct_mk [254; 255; 172; 2] 0);
         OctObR 0 (Ok (OVInt16 (-2)), oct_mk [254; 255; 172; 2] 2, 0);
         OctObR 2 (Ok (OV7Bit 300), oct_mk [254; 255; 172; 2] 4, 0)],
        oct_mk [254; 255; 172; 2] 4).
Proof. exact c11_interleaved_example. Qed.
Example c11_interleaved_sched_ok :
  oct_fifo_sched_tidy [OctSW; OctSW; OctSR; OctST; OctSW; OctSR; OctSR] 3 = true /\
  oct_fifo_sched [true; true; false; true; false; false] 3 = true /\
  oct_fifo_sched [true; false; false; true] 3 = false.
Proof. exact c11_sched_example. Qed.
