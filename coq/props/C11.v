(* C11 -- the iox codec round-trips every value and keeps the little-endian / LEB128 wire
   format.  Only property theorems (full statements), each closed by [exact] of a lemma of
   proofs/OctetsProofs.v, and Print Assumptions.
   Model: models/Octets.v (every writer/reader of OctetsStream, OctetsWriter, OctetsReader).
   Specifications: lib/OctetsSpec.v (le_bytes, le_value, uleb128, uleb_value, uleb_shape,
   prefixed), written without reference to the code.
   oct_mk buf p is the stream with buffer buf and read position p; in every round-trip
   theorem [pre] is whatever the stream already held, [p] any read position, [post] whatever
   is written afterwards: the value is read back at the position where it was written,
   the cursor advances by exactly the bytes written, and the buffer is unchanged. *)
From Got Require Import Base Octets OctetsSpec OctetsProofs.
Local Open Scope Z_scope.

(* ---- round trip, one theorem per type (all values of the type: ranges are the Go types) *)
Theorem c11_rt_bool : forall (b : bool) pre p post,
  oct_write_bool (oct_mk pre p) b = oct_mk (pre ++ [if b then 1 else 0]) p /\
  oct_read_bool (oct_mk (pre ++ [if b then 1 else 0] ++ post) (length pre)) =
    (Ok b, oct_mk (pre ++ [if b then 1 else 0] ++ post) (length pre + 1), 0).
Proof. exact rt_bool_lemma. Qed.
Print Assumptions c11_rt_bool.

Theorem c11_rt_byte : forall x pre p post, 0 <= x < 256 ->
  oct_write_byte (oct_mk pre p) x = oct_mk (pre ++ [x]) p /\
  oct_read_byte (oct_mk (pre ++ [x] ++ post) (length pre)) = (Ok x, oct_mk (pre ++ [x] ++ post) (length pre + 1), 0).
Proof. exact rt_byte_lemma. Qed.
Print Assumptions c11_rt_byte.

Theorem c11_rt_int16 : forall x pre p post, - 2 ^ 15 <= x < 2 ^ 15 ->
  oct_write_int16 (oct_mk pre p) x = oct_mk (pre ++ le_bytes 2 x) p /\
  oct_read_int16 (oct_mk (pre ++ le_bytes 2 x ++ post) (length pre)) =
    (Ok x, oct_mk (pre ++ le_bytes 2 x ++ post) (length pre + 2), 0).
Proof. exact rt_int16_lemma. Qed.
Print Assumptions c11_rt_int16.

Theorem c11_rt_int32 : forall x pre p post, - 2 ^ 31 <= x < 2 ^ 31 ->
  oct_write_int32 (oct_mk pre p) x = oct_mk (pre ++ le_bytes 4 x) p /\
  oct_read_int32 (oct_mk (pre ++ le_bytes 4 x ++ post) (length pre)) =
    (Ok x, oct_mk (pre ++ le_bytes 4 x ++ post) (length pre + 4), 0).
Proof. exact rt_int32_lemma. Qed.
Print Assumptions c11_rt_int32.

Theorem c11_rt_int64 : forall x pre p post, - 2 ^ 63 <= x < 2 ^ 63 ->
  oct_write_int64 (oct_mk pre p) x = oct_mk (pre ++ le_bytes 8 x) p /\
  oct_read_int64 (oct_mk (pre ++ le_bytes 8 x ++ post) (length pre)) =
    (Ok x, oct_mk (pre ++ le_bytes 8 x ++ post) (length pre + 8), 0).
Proof. exact rt_int64_lemma. Qed.
Print Assumptions c11_rt_int64.

(* all 2^32 int32 values; proved by algebra on five size ranges, not by enumeration *)
Theorem c11_rt_7bit : forall x pre p post, - 2 ^ 31 <= x < 2 ^ 31 ->
  let enc := uleb128 (x mod 2 ^ 32) in
  oct_write_7bit (oct_mk pre p) x = Some (oct_mk (pre ++ enc) p) /\
  oct_read_7bit (oct_mk (pre ++ enc ++ post) (length pre)) =
    (Ok x, oct_mk (pre ++ enc ++ post) (length pre + length enc), 0).
Proof. exact rt_7bit_lemma. Qed.
Print Assumptions c11_rt_7bit.

(* any content (any Z per element, so in particular any byte, UTF-8 or not), any length a
   Go int32 can announce *)
Theorem c11_rt_bytes : forall (l : list Z) pre p post, Z.of_nat (length l) < 2 ^ 31 ->
  oct_write_bytes (oct_mk pre p) l = Some (oct_mk (pre ++ prefixed l) p) /\
  oct_read_bytes OctFixed (oct_mk (pre ++ prefixed l ++ post) (length pre)) =
    (Ok l, oct_mk (pre ++ prefixed l ++ post) (length pre + length (prefixed l)), Z.of_nat (length l)).
Proof. exact rt_bytes_lemma. Qed.
Print Assumptions c11_rt_bytes.

Theorem c11_rt_string : forall (l : list Z) pre p post, Z.of_nat (length l) < 2 ^ 31 ->
  oct_write_string (oct_mk pre p) l = Some (oct_mk (pre ++ prefixed l) p) /\
  oct_read_string OctFixed (oct_mk (pre ++ prefixed l ++ post) (length pre)) =
    (Ok l, oct_mk (pre ++ prefixed l ++ post) (length pre + length (prefixed l)), Z.of_nat (length l)).
Proof. exact rt_string_lemma. Qed.
Print Assumptions c11_rt_string.

(* ---- every sequence of typed values (each written through the stream or the writer
   wrapper, each read through the stream or the reader wrapper): the writes append exactly
   the concatenated wire formats and never touch the read position; the matching reads
   return the same values in order, each advancing the cursor by its own encoding
   (oct_expect_reads), ending exactly at the end of what was written. *)
Theorem c11_rt_sequence : forall v xs pre p post,
  forallb (fun ax => oct_val_ok (snd ax)) xs = true ->
  exists s1,
    oct_write_all {| oct_buf := pre; oct_pos := p |} xs = Some s1 /\
    oct_buf s1 = pre ++ oct_wire_all xs /\ oct_pos s1 = p /\
    let rs := oct_run_reads v (map (fun ax => oct_op_of (fst ax) (snd ax)) xs)
                {| oct_buf := oct_buf s1 ++ post; oct_pos := length pre |} in
    rs = oct_expect_reads (oct_buf s1 ++ post) (length pre) xs /\
    map (fun r => fst (fst r)) rs = map (fun ax => Ok (snd ax)) xs /\
    (xs <> [] ->
     oct_pos (snd (fst (last rs (Panic, {| oct_buf := []; oct_pos := 0 |}, 0)))) = length (oct_buf s1)).
Proof. exact rt_sequence_lemma. Qed.
Print Assumptions c11_rt_sequence.

(* ---- wire format: for every argument (no range hypothesis: the Go parameter conversion
   is part of le_bytes / mod 2^32) *)
Theorem c11_wire_fixed : forall s d,
  oct_write_int16 s d = oct_append s (le_bytes 2 d) /\
  oct_write_int32 s d = oct_append s (le_bytes 4 d) /\
  oct_write_int64 s d = oct_append s (le_bytes 8 d).
Proof. exact wire_fixed_lemma. Qed.
Print Assumptions c11_wire_fixed.

(* what le_bytes means: n bytes, each 0..255, denoting x mod 256^n least significant first *)
Theorem c11_le_bytes_meaning : forall n x,
  length (le_bytes n x) = n /\ Forall (fun b => 0 <= b < 256) (le_bytes n x) /\
  le_value (le_bytes n x) = x mod 256 ^ Z.of_nat n.
Proof. exact le_bytes_meaning_lemma. Qed.
Print Assumptions c11_le_bytes_meaning.

(* 7-bit int = unsigned LEB128 of the 32-bit pattern; 1..5 bytes with the exact size
   thresholds; the LEB128 string denotes the pattern and is canonical *)
Theorem c11_wire_7bit : forall s d,
  let u := d mod 2 ^ 32 in
  oct_write_7bit s d = Some (oct_append s (uleb128 u)) /\
  length (uleb128 u) =
    (if u <? 2 ^ 7 then 1%nat else if u <? 2 ^ 14 then 2%nat else if u <? 2 ^ 21 then 3%nat
     else if u <? 2 ^ 28 then 4%nat else 5%nat) /\
  uleb_value (uleb128 u) = u /\ uleb_shape (uleb128 u) = true.
Proof. exact wire_7bit_lemma. Qed.
Print Assumptions c11_wire_7bit.

Theorem c11_wire_bytes : forall s (l : list Z), Z.of_nat (length l) < 2 ^ 31 ->
  oct_write_bytes s l = Some (oct_append s (uleb128 (Z.of_nat (length l)) ++ l)) /\
  oct_write_string s l = Some (oct_append s (uleb128 (Z.of_nat (length l)) ++ l)).
Proof. exact wire_bytes_lemma. Qed.
Print Assumptions c11_wire_bytes.

Theorem c11_wire_bool_byte : forall s (b : bool) x,
  oct_write_bool s b = oct_append s [if b then 1 else 0] /\ oct_write_byte s x = oct_append s [x].
Proof. exact wire_bool_byte_lemma. Qed.
Print Assumptions c11_wire_bool_byte.

(* OctetsWriter / OctetsReader fixed-width methods are the OctetsStream ones *)
Theorem c11_wrappers_delegate :
  oct_wtr_write_bool = oct_write_bool /\ oct_wtr_write_byte = oct_write_byte /\
  oct_wtr_write_int16 = oct_write_int16 /\ oct_wtr_write_int32 = oct_write_int32 /\
  oct_wtr_write_int64 = oct_write_int64 /\
  oct_rdr_read_bool = oct_read_bool /\ oct_rdr_read_byte = oct_read_byte /\
  oct_rdr_read_int16 = oct_read_int16 /\ oct_rdr_read_int32 = oct_read_int32 /\
  oct_rdr_read_int64 = oct_read_int64.
Proof. exact wrappers_delegate_lemma. Qed.
Print Assumptions c11_wrappers_delegate.

(* non-vacuity: a concrete sequence (7-bit -1 = ff ff ff ff 0f, int16 -2 = fe ff, "hi") *)
Example c11_nonvacuous :
  oct_c11_case [(OctViaReader, OV7Bit (-1)); (OctViaStream, OVInt16 (-2)); (OctViaReader, OVString [104; 105])] =
  Some ([5; 7; 10],
        oct_mk [255; 255; 255; 255; 15; 254; 255; 2; 104; 105] 0,
        [(Ok (OV7Bit (-1)), oct_mk [255; 255; 255; 255; 15; 254; 255; 2; 104; 105] 5, 0);
         (Ok (OVInt16 (-2)), oct_mk [255; 255; 255; 255; 15; 254; 255; 2; 104; 105] 7, 0);
         (Ok (OVString [104; 105]), oct_mk [255; 255; 255; 255; 15; 254; 255; 2; 104; 105] 10, 2)]).
Proof. exact c11_example. Qed.
