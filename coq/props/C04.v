(* C04 -- cachex: concurrent Loads of a key share one load and agree on its result.
   Only property theorems (full statements), each closed by [exact] of a lemma proved in
   proofs/CacheProofs.v, and Print Assumptions.

   Quantification: every configuration [cfg], every event history [evs] of the machine
   models/Cache.v from the initial state -- any keys, any interleaving of Load / Get2 / Set
   calls with worker actions (job start, loader return with any value/error), sweeps and
   time steps (a negative time step is rejected by the machine, so histories are
   time-monotone) -- unbounded.  A reachable state is [c_run cfg c_init evs].
   "Displaced" = a loading future that a Set replaced in the map (ghost list c_displaced). *)
From Got Require Import Base Cache CacheProofs CacheSteps CacheStepsProofs CacheStepsFull CacheStepsFullProofs CacheOptions CacheOptionsProofs.
Local Open Scope Z_scope.

(* single flight:
   (1) per key at most one loading future that was not displaced by a Set;
   (2) hence at most one non-displaced loader running per key at any instant;
   (3) every running loader belongs to a loading future, no job runs twice;
   (4) Load creates a job iff the status of the key's entry is not good;
   (5) while a (non-displaced) load of k is in flight, Load k creates no job and changes nothing;
   (6) while the result of k is fresh, Load k returns it, creates no job and changes nothing. *)
Theorem cache_single_flight :
  forall cfg evs,
  let s := c_run cfg c_init evs in
  (forall f g x y, c_get (c_futs s) f = Some x -> c_get (c_futs s) g = Some y ->
     c_fdone x = None -> c_fdone y = None -> c_fkey x = c_fkey y ->
     ~ In f (c_displaced s) -> ~ In g (c_displaced s) -> f = g) /\
  (forall f g x y, In f (c_running s) -> In g (c_running s) ->
     c_get (c_futs s) f = Some x -> c_get (c_futs s) g = Some y -> c_fkey x = c_fkey y ->
     ~ In f (c_displaced s) -> ~ In g (c_displaced s) -> f = g) /\
  (forall f, In f (c_running s) -> c_isload (c_futs s) f) /\
  NoDup (c_running s) /\
  (forall k s' f created, c_step cfg s (CLoad k) = (s', OLoad f created) ->
     created = negb (c_is_good (c_status cfg (c_now s) (c_futs s) (c_lookup (c_map s) k)))) /\
  (forall k f x, c_get (c_futs s) f = Some x -> c_fkey x = k -> c_fdone x = None ->
     ~ In f (c_displaced s) -> exists g, c_step cfg s (CLoad k) = (s, OLoad g false)) /\
  (forall k f x v e u, c_lookup (c_map s) k = Some f -> c_get (c_futs s) f = Some x ->
     c_fdone x = Some (v, e, u) -> c_now s - u < c_expire cfg e ->
     c_step cfg s (CLoad k) = (s, OLoad f false)).
Proof. exact c_single_flight. Qed.
Print Assumptions cache_single_flight.

(* a completed future keeps its (value, error, stamp) and its key through every further
   history: all Get1/Get2 on one Future return the same pair, forever *)
Theorem cache_future_immutable :
  forall cfg evs evs' f x v e u,
  let s := c_run cfg c_init evs in
  c_get (c_futs s) f = Some x -> c_fdone x = Some (v, e, u) ->
  exists x', c_get (c_futs (c_run cfg s evs')) f = Some x' /\
             c_fdone x' = Some (v, e, u) /\ c_fkey x' = c_fkey x.
Proof. exact c_future_immutable. Qed.
Print Assumptions cache_future_immutable.

(* the pair of a future is the pair of ITS loader invocation or of the Set that created it:
   a future that is complete after a step either was already complete with the same triple,
   or the step is the return (v,e) of the running loader of this very future and key, or
   the step is Set k v e and the future is the one Set created *)
Theorem cache_result_is_one_invocation :
  forall cfg evs ev f x' v e u,
  let s := c_run cfg c_init evs in
  let s' := fst (c_step cfg s ev) in
  c_get (c_futs s') f = Some x' -> c_fdone x' = Some (v, e, u) ->
  (exists x, c_get (c_futs s) f = Some x /\ c_fdone x = Some (v, e, u) /\ c_fkey x = c_fkey x') \/
  (exists i x, ev = CFinish (c_fkey x') i v e /\ u = c_now s /\ In f (c_running s) /\
               c_get (c_futs s) f = Some x /\ c_fdone x = None /\ c_fkey x = c_fkey x') \/
  (ev = CSet (c_fkey x') v e /\ u = c_now s /\ f = length (c_futs s)).
Proof. exact c_result_origin. Qed.
Print Assumptions cache_result_is_one_invocation.

(* no cross-key mix-up through the map, the predecessor or the job queue: the future returned
   by Load k / awaited by Get2 k has key k; a worker that takes a job "of key k" runs the
   loader for a queued future of key k *)
Theorem cache_returned_future_has_requested_key :
  forall cfg evs,
  let s := c_run cfg c_init evs in
  (forall k s' f c, c_step cfg s (CLoad k) = (s', OLoad f c) ->
     exists x, c_get (c_futs s') f = Some x /\ c_fkey x = k) /\
  (forall k f, c_get2 cfg s k = OAwait f -> exists x, c_get (c_futs s) f = Some x /\ c_fkey x = k) /\
  (forall k s' f, c_step cfg s (CStart k) = (s', OStart f) ->
     exists x, c_get (c_futs s) f = Some x /\ c_fkey x = k /\ In f (c_queue s) /\ In f (c_running s')).
Proof. exact c_returned_key. Qed.
Print Assumptions cache_returned_future_has_requested_key.

(* loom/sharding.go: for every supported key type and every power-of-two shard count the
   index is in range (and is the low bits of int64(key) resp. fnv32(key)) *)
Theorem shard_index_in_range :
  forall ty x bytes n, 0 <= n ->
  0 <= c_shard_index ty x bytes (2 ^ n) < 2 ^ n /\
  c_shard_index ty x bytes (2 ^ n) =
    (match ty with KString => c_fnv32 bytes | _ => sext 64 x end) mod 2 ^ n.
Proof. exact c_shard_index_in_range. Qed.
Print Assumptions shard_index_in_range.

(* non-vacuity: two Loads while loading share future 0 and one job; a Set displaces the
   loading future, after which a second loader of the same key can run (the exception the
   property names); the late loader completes only its own, displaced future *)
Example c04_nonvacuous :
  let cfg := {| c_normE := 1000; c_errE := 400 |} in
  let evs := [CLoad 7; CLoad 7; CStart 7; CAdvance 10; CSet 7 55 0; CAdvance 1000; CLoad 7;
              CStart 7; CAdvance 5; CFinish 7 0 91 0; CGet2 7; CAdvance 5; CFinish 7 0 92 3; CLoad 7] in
  c_outputs cfg c_init evs =
    [OLoad 0 true; OLoad 0 false; OStart 0; ONone; ONone; ONone; OLoad 1 true;
     OStart 2; ONone; OFinish 0; OAwait 1; ONone; OFinish 2; OLoad 2 false] /\
  c_displaced (c_run cfg c_init evs) = [0%nat] /\
  option_map c_fdone (c_get (c_futs (c_run cfg c_init evs)) 0) = Some (Some (91, 0, 1015)) /\
  c_shard_index KInt8 (-5) [] 16 = 11 /\ c_shard_index KString 0 [97; 98; 99] 16 = 11.
Proof. vm_compute. repeat split. Qed.


(* ================================================================== atomicity of the calls
   models/CacheSteps.v executes Load / Get2 / Set / the worker's setValue / removeRotted one
   shared access at a time (one step per yield site of the hooked code, mutex acquisition
   disabled while the mutex is held, explicit clock ticks between any two steps), in the order
   of the code now in /repo ([CsFixed]: Get2 and Load take the status decision AND the choice
   of the future to hand out under the shard mutex) or in the order before commit 4caabe5
   ([CsOrig]).  As ghost state it carries a run of the ATOMIC machine Cache.v: cs_g is advanced
   at the linearization points of the state-changing calls (job-creating Load: its decision
   step under the lock; worker: CStart at the channel receive, CFinish at the store of
   predecessor, the LAST store of setValue; tick: CAdvance), every Get2 / job-less Load collects
   the atomic output at every instant of its call interval (ct_cands), and cs_mis is raised as
   soon as a real result is not the atomic output at the call's linearization point / at some
   instant of its interval.  cs_bad records a clock tick dt > 0 inside a window cs_in_window:
   between setValue's time.Now() and its store of predecessor (NECESSARY: the stamp is read
   before it is published; with Finish placed at the store of updateTime instead, a reader that
   starts after it can still see the old predecessor, so the store of predecessor is the only
   possible linearization point and the clock must not move in between), and between a Load's
   time.Since and its decision in the same critical section (convenience of the proof: the
   atomic Load is placed at the decision step; no counterexample exists in the explored space).

   FULL STATEMENT (all five operations), as first written for the ghost of CacheSteps.v:
     forall cfg progs sched, c_cfg_ok cfg ->
       let s := cs_run CsFixed cfg (cs_init progs) sched in cs_bad s = false -> cs_mis s = false.
   For THAT ghost it is FALSE once Set is allowed (cache_key_ghost_refuted below, a 6-thread
   schedule outside the enumerated space): the ghost starts "the first queued job of the
   received job's KEY" (Cache.v's CStart k, with the job enqueued at the Load's map write), the
   real channel is FIFO in the order of the sendJob steps; after a Set displaced a job whose
   sendJob is pending the two differ and cs_mis is raised although no caller-visible result
   differs.  cache_calls_linearize_partial (programs of Load / Get2 / worker calls) stays as it was.
   The full theorem cache_calls_linearize (end of this file) is stated for the machine of
   models/CacheStepsFull.v: the same thread steps, the ghost starts the received job by future
   id (refined atomic machine cx_step = c_step + CxStartF), and the memory map is related to the
   ghost map by the C05 simulation "rotted = absent" instead of equality (removeRotted). *)
Theorem cache_steps_ghost_is_atomic_history :
  forall md cfg progs sched,
  let s := cs_run md cfg (cs_init progs) sched in
  cs_g s = c_run cfg c_init (rev (cs_evs s)).
Proof. exact cs_ghost_is_history. Qed.
Print Assumptions cache_steps_ghost_is_atomic_history.

(* the small-step machine (Fixed order) refines Cache.v: no result of any Load / Get2 / worker
   call ever differs from the output of its atomic event in the atomic history cs_evs -- for a
   job-creating Load at its decision step, for a Get2 / job-less Load at some instant between
   its first and its last step -- and that history is a run of Cache.v from the initial state,
   so every theorem of C04 / C05 about Cache.v holds for the results of the real interleavings *)
Theorem cache_calls_linearize_partial :
  forall cfg progs sched,
  c_cfg_ok cfg -> cs_progs_covered progs = true ->
  let s := cs_run CsFixed cfg (cs_init progs) sched in
  cs_bad s = false ->
  cs_mis s = false /\ cs_g s = c_run cfg c_init (rev (cs_evs s)).
Proof. exact cs_refines. Qed.
Print Assumptions cache_calls_linearize_partial.

(* ORIG order refuted, no clock tick (E = 3600, future 0 = 5400 old = stale, future 1 = its
   refresh, loading, predecessor 0): Get2 reads the map (entry 1) and unlocks; Set replaces the
   entry by future 2; the worker's setValue of future 1 starts afterwards; Get2 loads
   updateTime(1) = zero (Good), the worker stores updateTime and clears the predecessor, Get2
   loads predecessor(1) = nil and returns future 1.  At every instant of the call the atomic
   Get2 answers future 0 (before the Set) or future 2 (after it).  In the Fixed order the same
   programs under the same schedule (and every other one explored) linearize. *)
Theorem cache_get2_set_finish_orig_refuted :
  let cfg := {| c_normE := 3600; c_errE := 1200 |} in
  let m0 := c_run cfg (cs_backdate (c_run cfg c_init [CLoad 0; CStart 0; CFinish 0 0 5 0]) 0 5400) [CLoad 0] in
  let sched := map CsRun [0;0;0;0; 1;1;1;1;1;1; 2;2; 0; 2;2; 0]%nat in
  let s := cs_run CsOrig cfg (cs_init_on m0 [[CsGet2 0]; [CsSet 0 3 0]; [CsFinish 9 0]]) sched in
  (cs_bad s = false /\ cs_mis s = true /\
   cs_log s = [(0%nat, CsGet2 0, CsRVal 0 0, OAwait 1%nat); (2%nat, CsFinish 9 0, CsRFin 1%nat, OFinish 1%nat);
               (1%nat, CsSet 0 3 0, CsRNone, ONone)] /\
   option_map (fun t => nodup cs_out_eq_dec (ct_cands t)) (nth_error (cs_thr s) 0) = Some [OAwait 2%nat; OAwait 0%nat]) /\
  cs_mis (cs_run CsFixed cfg (cs_init_on m0 [[CsGet2 0]; [CsSet 0 3 0]; [CsFinish 9 0]]) (sched ++ map CsRun [0;0;0;2;2;2;2]%nat)) = false.
Proof. vm_compute. repeat split. Qed.
Print Assumptions cache_get2_set_finish_orig_refuted.

(* ORIG order refuted (C05): the entry (future 0) is fresh at Get2's map read; the clock
   advances, a Load finds it stale and starts the refresh (future 1, loading); future 0 rots;
   Get2 evaluates future 0 after its Unlock: rotted: it answers (nil, nil) at once although at
   every instant of the call the key had a servable entry -- OImmediate is not among the atomic
   answers of the call interval (all of them await future 0 or future 1).  Fixed order: Get2
   holds the mutex from the map read to the decision, the Load cannot get in between, and the
   run linearizes (Get2 awaits a future). *)
Theorem cache_get2_stall_orig_refuted :
  let cfg := {| c_normE := 3600; c_errE := 1200 |} in
  let m0 := cs_backdate (c_run cfg c_init [CLoad 0; CStart 0; CFinish 0 0 5 0]) 0 60 in
  let r := map CsRun in
  let sched := r [0;0;0;0]%nat ++ [CsTick 2700; CsTick 2700] ++ r [1;1;1;1;1;1;1]%nat ++ [CsTick 2700] ++ r [0;0;0]%nat in
  let s := cs_run CsOrig cfg (cs_init_on m0 [[CsGet2 0]; [CsLoad 0]]) sched in
  (cs_mis s = true /\
   cs_log s = [(0%nat, CsGet2 0, CsRVal 0 0, OImmediate); (1%nat, CsLoad 0, CsRFut 0%nat true, OLoad 0%nat true)] /\
   cs_fdone (cs_m s) 1 = None /\ c_lookup (c_map (cs_m s)) 0 = Some 1%nat) /\
  let s' := cs_run CsFixed cfg (cs_init_on m0 [[CsGet2 0]; [CsLoad 0]]) (sched ++ r [0;0;0;1;1;1;1;1;1;1;0;0]%nat) in
  cs_mis s' = false /\ cs_bad s' = false /\ (In (0%nat, CsGet2 0, CsRVal 0 0, OImmediate) (cs_log s') -> False).
Proof. vm_compute. split; [repeat split|]. split; [reflexivity|]. split; [reflexivity|]. intros H. repeat (destruct H as [H|H]; [discriminate H|]). exact H. Qed.
Print Assumptions cache_get2_stall_orig_refuted.


(* ================================================================== ALL FIVE OPERATIONS
   models/CacheStepsFull.v: cf_step executes exactly the thread steps of CacheSteps.v in the
   Fixed order (cs_tstep CsFixed, cs_go, the tick of cs_step); the only difference is ghost:
   the worker's channel receive of job f is the refined atomic event CxStartF f ("job f leaves
   the queue wherever it stands") instead of Cache.v's CStart (key of f).  cx_step is c_step
   plus that event; Cache.v is unchanged.

   cache_refined_ghost_same_steps: under every schedule the two machines have the same memory,
   mutex owner, per-thread (program, pc, call), tick flag cs_bad and per completed call
   (thread, call, result): the step-by-step correspondence with /repo checked for cs_step
   (stream call-steps) is a correspondence for cf_step. *)
Theorem cache_refined_ghost_same_steps :
  forall cfg progs sched,
  cs_real (cs_run CsFixed cfg (cs_init progs) sched) = cs_real (cf_s (cf_run cfg (cf_init progs) sched)).
Proof. exact cf_same_steps. Qed.
Print Assumptions cache_refined_ghost_same_steps.

(* THE REFINEMENT FOR Load, Get2, Set, worker (Finish) AND removeRotted (Sweep): every
   configuration accepted by WithExpire, every number of threads, keys and calls, every program
   over the five operations (no coverage hypothesis), every schedule whose clock ticks stay
   outside the windows (cs_bad = false; the windows are those of the partial theorem plus Set's
   time.Now() .. map write and removeRotted's time.Since .. decision, cs_in_window).
   cs_mis = false: the future class / job-created flag returned by every Load and the
   Immediate-vs-Await decision and awaited future of every Get2 equal the output of the call's
   atomic event in the atomic history cf_xevs -- for a job-creating Load at its decision step,
   for a Get2 / job-less Load at some instant between its first and its last step; Set's atomic
   event is emitted at its map write, the sweep's at its Unlock, both inside the call.  The
   ghost state is the run of the refined atomic machine on that history.
   Invariant cf_inv: ghost map and memory map agree per key up to "no entry or a rotted one"
   (cf_mrel, two-way: mid-sweep the memory has lost entries the ghost still has, after a tick
   during a sweep the ghost loses entries the memory keeps), memory keys unique, the entries
   removeRotted still has to visit are current (cf_ents), per-thread invariants stable under
   every environment step cf_ext (a Set may replace a loading entry: only readers holding the
   mutex rely on it). *)
Theorem cache_calls_linearize :
  forall cfg progs sched,
  c_cfg_ok cfg ->
  let s := cf_run cfg (cf_init progs) sched in
  cs_bad (cf_s s) = false ->
  cs_mis (cf_s s) = false /\ cs_g (cf_s s) = cx_run cfg c_init (rev (cf_xevs s)).
Proof. exact cf_refines. Qed.
Print Assumptions cache_calls_linearize.

(* the pair an awaiting Get2 returns: whenever wg.Done() of future x has run (the guard of the
   step after wg.Wait, which returns cs_fdone of the memory), memory and ghost hold the same
   completed (value, error, stamp) for x *)
Theorem cache_get2_awaited_pair :
  forall cfg progs sched x,
  c_cfg_ok cfg ->
  let s := cf_run cfg (cf_init progs) sched in
  cs_bad (cf_s s) = false -> cs_complete (cf_s s) x = true ->
  cs_fdone (cs_m (cf_s s)) x = cs_fdone (cs_g (cf_s s)) x /\ cs_fdone (cs_m (cf_s s)) x <> None.
Proof. exact cf_await_pair. Qed.
Print Assumptions cache_get2_awaited_pair.

(* WHAT THE REFINED GHOST PRESERVES.  Every history xevs of the refined atomic machine is
   simulated by the history evs = cx_trans .. xevs of Cache.v: evs has the same Load / Get2 /
   Set / loader-return / sweep / time-step events in the same order with the same outputs
   (c_vis_outputs = cx_vis_outputs: all events but the job starts, a CFinish identified by the
   future it completes rather than by its rank among the running jobs); in evs jobs are only
   started earlier (CxStartF f becomes as many CStart (key f) as needed to reach f, nothing if f
   runs already).  The final states agree on clock, arena of futures, map and displaced list;
   Cache.v's queue is a subset of the refined queue, every job running in the refined machine
   runs in Cache.v.  Since this holds for every prefix, every state-based theorem of C04 / C05
   that reads only c_now / c_futs / c_map / c_displaced and the outputs of CLoad / CGet2 / CSet /
   CFinish / CSweep (cache_single_flight (1) (4) (5) (6), cache_future_immutable,
   cache_result_is_one_invocation up to the rank, the first two clauses of
   cache_returned_future_has_requested_key, the theorems of C05 but for the queue / running clause
   of cache_stale_window_first_load) transfers to the ghost states of
   cache_calls_linearize; statements about WHEN a job starts (c_queue / c_running, CStart) hold
   for evs, not for the order in which the workers really received the jobs. *)
Theorem cache_refined_history_is_cache_history :
  forall cfg xevs,
  let evs := cx_trans cfg c_init c_init xevs in
  let sx := cx_run cfg c_init xevs in
  let sc := c_run cfg c_init evs in
  c_vis_outputs cfg c_init evs = cx_vis_outputs cfg c_init xevs /\
  c_now sc = c_now sx /\ c_futs sc = c_futs sx /\ c_map sc = c_map sx /\ c_displaced sc = c_displaced sx /\
  (forall f, In f (c_queue sc) -> In f (c_queue sx)) /\
  (forall f, In f (c_running sx) -> In f (c_running sc)).
Proof. exact cx_simulated_by_cache. Qed.
Print Assumptions cache_refined_history_is_cache_history.

(* both chained: all five operations linearize in a history of Cache.v itself *)
Theorem cache_calls_linearize_in_cache_history :
  forall cfg progs sched,
  c_cfg_ok cfg ->
  let s := cf_run cfg (cf_init progs) sched in
  cs_bad (cf_s s) = false ->
  let xevs := rev (cf_xevs s) in
  let evs := cx_trans cfg c_init c_init xevs in
  let sc := c_run cfg c_init evs in
  cs_mis (cf_s s) = false /\
  c_vis_outputs cfg c_init evs = cx_vis_outputs cfg c_init xevs /\
  c_now sc = c_now (cs_g (cf_s s)) /\ c_futs sc = c_futs (cs_g (cf_s s)) /\
  c_map sc = c_map (cs_g (cf_s s)) /\ c_displaced sc = c_displaced (cs_g (cf_s s)) /\
  (forall f, In f (c_running (cs_g (cf_s s))) -> In f (c_running sc)).
Proof. exact cf_refines_cache. Qed.
Print Assumptions cache_calls_linearize_in_cache_history.

(* the ghost of CacheSteps.v (start by key) does NOT extend to Set, and non-vacuity of the full
   theorem.  E = 1000.  Thread 0: Load 0 creates future 0 and parks before sendJob; thread 1:
   Set 0 replaces it by future 1; 1500 later thread 2: Load 0 finds future 1 stale, creates
   future 2 and sends it; the worker (thread 3) receives future 2 -- the by-key ghost starts
   future 0, the first queued job of key 0: mismatch -- and completes it; thread 0 sends future
   0, the worker completes it; thread 4: Get2 0 awaits future 2; 5000 later thread 5 sweeps the
   rotted entry.  Both machines return the same results (cs_real, cs_log); the refined ghost
   raises no mismatch, its history maps to the Cache.v history shown (CStart 0 twice, then the
   SECOND running job of key 0 returns first). *)
Theorem cache_key_ghost_refuted :
  let cfg := {| c_normE := 1000; c_errE := 400 |} in
  let progs := [[CsLoad 0]; [CsSet 0 3 0]; [CsLoad 0]; [CsFinish 9 0; CsFinish 8 0]; [CsGet2 0]; [CsSweep]] in
  let r := map CsRun in
  let sched := r [0;0;0;0]%nat ++ r [1;1;1;1;1;1]%nat ++ [CsTick 1500] ++ r [2;2;2;2;2;2;2;2]%nat ++ r [3;3;3;3]%nat ++
               r [0]%nat ++ r [3;3;3;3]%nat ++ r [4;4;4;4;4;4;4;4;4]%nat ++ [CsTick 5000] ++ r [5;5;5;5;5;5;5;5;5;5;5;5]%nat in
  let s1 := cs_run CsFixed cfg (cs_init progs) sched in
  let s2 := cf_run cfg (cf_init progs) sched in
  c_cfg_ok cfg /\
  (cs_bad s1 = false /\ cs_mis s1 = true) /\
  (cs_bad (cf_s s2) = false /\ cs_mis (cf_s s2) = false) /\
  cs_real s1 = cs_real (cf_s s2) /\
  rev (map cs_real_log (cs_log s1)) =
    [(1%nat, CsSet 0 3 0, CsRNone); (2%nat, CsLoad 0, CsRFut 1 true); (3%nat, CsFinish 9 0, CsRFin 2);
     (0%nat, CsLoad 0, CsRFut 0 true); (3%nat, CsFinish 8 0, CsRFin 0); (4%nat, CsGet2 0, CsRVal 0 0); (5%nat, CsSweep, CsRNone)] /\
  rev (cf_xevs s2) =
    [CxE (CLoad 0); CxE (CSet 0 3 0); CxE (CAdvance 1500); CxE (CLoad 0); CxStartF 2; CxE (CFinish 0 0 9 0);
     CxStartF 0; CxE (CFinish 0 0 8 0); CxE (CAdvance 5000); CxE CSweep] /\
  cx_trans cfg c_init c_init (rev (cf_xevs s2)) =
    [CLoad 0; CSet 0 3 0; CAdvance 1500; CLoad 0; CStart 0; CStart 0; CFinish 0 1 9 0; CFinish 0 0 8 0; CAdvance 5000; CSweep] /\
  c_map (cs_m (cf_s s2)) = [] /\ c_map (cs_g (cf_s s2)) = [].
Proof. split; [unfold c_cfg_ok; cbn; lia|]. vm_compute. repeat split. Qed.
Print Assumptions cache_key_ghost_refuted.

(* ---- the configuration of a cache; several caches in one process (models/CacheOptions.v)

   createArguments (copt_create: the fold of the options over the literal defaults; None = an
   assert of an option panics): whatever option list NewCache accepts gives arguments with
   parallel > 0, 0 < errorExpire <= normalExpire, jobChanSize > 0, i.e. a configuration for
   which all theorems above and those of C05.v hold *)
Theorem cache_arguments_accepted_are_ok :
  forall opts a, copt_create opts = Some a -> copt_ok a /\ c_cfg_ok (copt_cfg a).
Proof. exact copt_create_ok. Qed.
Print Assumptions cache_arguments_accepted_are_ok.

(* an option that is not passed leaves its default: 1 s / 100 ms, parallel 1, jobChanSize 128 *)
Theorem cache_omitted_option_is_default :
  forall opts a, copt_create opts = Some a ->
  (forallb (fun o => negb (copt_is_expire o)) opts = true -> copt_normE a = 1000000000 /\ copt_errE a = 100000000) /\
  (forallb (fun o => negb (copt_is_parallel o)) opts = true -> copt_parallel a = 1) /\
  (forallb (fun o => negb (copt_is_jcs o)) opts = true -> copt_jcs a = 128).
Proof. exact copt_omitted_is_default. Qed.
Print Assumptions cache_omitted_option_is_default.

(* THE CONFIGURATION AND THE BEHAVIOUR OF A CACHE ARE A FUNCTION OF ITS OWN OPTION LIST AND ITS
   OWN EVENTS ONLY.  Process machine mc_step: any number of caches; evs1 = ANY process history
   before this NewCache (other caches created with any option lists -- including ones that
   panic --, any calls on them, clock steps), evs2 = ANY process history after it (calls on
   this and on other caches, further caches, clock steps).  The cache created by
   NewCache(opts...) is the i-th of the process; at every moment its arguments are
   copt_create opts and its state is the state of a lone cache of models/Cache.v with those
   arguments that started empty at the creation instant and saw only its own events
   (mc_proj: its calls / worker actions / sweeps and the clock steps); every output of a call
   on it is the lone cache's output.  Hence every theorem of this file and of C05.v (stated
   for c_run cfg c_init evs, all cfg, all evs) holds for every cache of a process with
   cfg = copt_cfg (copt_create of ITS options). *)
Theorem cache_is_function_of_own_options_and_events :
  forall evs1 opts evs2 a,
  copt_create opts = Some a ->
  let s1 := mc_run mc_init evs1 in
  let i := length (mc_caches s1) in
  let s := mc_run s1 (McNew opts :: evs2) in
  exists c, nth_error (mc_caches s) i = Some c /\
    mc_args c = a /\
    mc_st c = c_run (copt_cfg a) c_init (CAdvance (mc_now s1) :: mc_proj i evs2) /\
    (forall ev, mc_is_advance ev = false ->
       snd (mc_step s (McCall i ev)) =
       McOEv (snd (c_step (copt_cfg a) (c_run (copt_cfg a) c_init (CAdvance (mc_now s1) :: mc_proj i evs2)) ev))).
Proof. exact mc_isolation. Qed.
Print Assumptions cache_is_function_of_own_options_and_events.

(* non-vacuity: cache 0 = NewCache(WithExpire(1600, 1600), WithParallel(4)), used; then cache 1 =
   NewCache() gets the defaults, and a result of cache 1 that is 20 ms old is fresh (Load returns
   the same future, no job) although it would be rotted under cache 0's expiry; WithExpire(5, 9)
   and WithJobChanSize(0) panic *)
Example c04_options_nonvacuous :
  let evs := [McNew [CoptExpire 1600 1600; CoptParallel 4]; McCall 0 (CLoad 7); McCall 0 (CStart 7);
              McAdvance 17; McCall 0 (CFinish 7 0 5 0); McNew []; McCall 1 (CLoad 7); McCall 1 (CStart 7);
              McAdvance 17; McCall 1 (CFinish 7 0 6 0); McAdvance 20000000] in
  let s := mc_run mc_init evs in
  map mc_args (mc_caches s) =
    [{| copt_parallel := 4; copt_normE := 1600; copt_errE := 1600; copt_jcs := 128 |}; copt_default] /\
  snd (mc_step s (McCall 1 (CLoad 7))) = McOEv (OLoad 0 false) /\
  snd (mc_step s (McCall 0 (CLoad 7))) = McOEv (OLoad 1 true) /\
  copt_create [CoptExpire 5 9] = None /\ copt_create [CoptJobChanSize 0] = None /\
  copt_create [CoptParallel 0; CoptExpire 9 5; CoptExpire 8 8] =
    Some {| copt_parallel := 1; copt_normE := 8; copt_errE := 8; copt_jcs := 128 |}.
Proof. vm_compute. repeat split. Qed.
