(* C04 -- cachex: concurrent Loads of a key share one load and agree on its result.
   Only property theorems (full statements), each closed by [exact] of a lemma proved in
   proofs/CacheProofs.v, and Print Assumptions.

   Quantification: every configuration [cfg], every event history [evs] of the machine
   models/Cache.v from the initial state -- any keys, any interleaving of Load / Get2 / Set
   calls with worker actions (job start, loader return with any value/error), sweeps and
   time steps (a negative time step is rejected by the machine, so histories are
   time-monotone) -- unbounded.  A reachable state is [c_run cfg c_init evs].
   "Displaced" = a loading future that a Set replaced in the map (ghost list c_displaced). *)
From Got Require Import Base Cache CacheProofs CacheSteps CacheStepsProofs.
Local Open Scope Z_scope.

(* single flight:
   (1) per key at most one loading future that was not displaced by a Set;
   (2) hence at most one non-displaced loader running per key at any instant;
   (3) every running loader belongs to a loading future, no job runs twice;
   (4) Load creates a job iff the status of the key's entry is not good;
   (5) while a (non-displaced) load of k is in flight, Load k creates no job and changes nothing;
   (6) while the result of k is fresh, Load k returns it, creates no job and changes nothing. *)
Theorem cache_single_flight :
  forall cfg evs,
  let s := c_run cfg c_init evs in
  (forall f g x y, c_get (c_futs s) f = Some x -> c_get (c_futs s) g = Some y ->
     c_fdone x = None -> c_fdone y = None -> c_fkey x = c_fkey y ->
     ~ In f (c_displaced s) -> ~ In g (c_displaced s) -> f = g) /\
  (forall f g x y, In f (c_running s) -> In g (c_running s) ->
     c_get (c_futs s) f = Some x -> c_get (c_futs s) g = Some y -> c_fkey x = c_fkey y ->
     ~ In f (c_displaced s) -> ~ In g (c_displaced s) -> f = g) /\
  (forall f, In f (c_running s) -> c_isload (c_futs s) f) /\
  NoDup (c_running s) /\
  (forall k s' f created, c_step cfg s (CLoad k) = (s', OLoad f created) ->
     created = negb (c_is_good (c_status cfg (c_now s) (c_futs s) (c_lookup (c_map s) k)))) /\
  (forall k f x, c_get (c_futs s) f = Some x -> c_fkey x = k -> c_fdone x = None ->
     ~ In f (c_displaced s) -> exists g, c_step cfg s (CLoad k) = (s, OLoad g false)) /\
  (forall k f x v e u, c_lookup (c_map s) k = Some f -> c_get (c_futs s) f = Some x ->
     c_fdone x = Some (v, e, u) -> c_now s - u < c_expire cfg e ->
     c_step cfg s (CLoad k) = (s, OLoad f false)).
Proof. exact c_single_flight. Qed.
Print Assumptions cache_single_flight.

(* a completed future keeps its (value, error, stamp) and its key through every further
   history: all Get1/Get2 on one Future return the same pair, forever *)
Theorem cache_future_immutable :
  forall cfg evs evs' f x v e u,
  let s := c_run cfg c_init evs in
  c_get (c_futs s) f = Some x -> c_fdone x = Some (v, e, u) ->
  exists x', c_get (c_futs (c_run cfg s evs')) f = Some x' /\
             c_fdone x' = Some (v, e, u) /\ c_fkey x' = c_fkey x.
Proof. exact c_future_immutable. Qed.
Print Assumptions cache_future_immutable.

(* the pair of a future is the pair of ITS loader invocation or of the Set that created it:
   a future that is complete after a step either was already complete with the same triple,
   or the step is the return (v,e) of the running loader of this very future and key, or
   the step is Set k v e and the future is the one Set created *)
Theorem cache_result_is_one_invocation :
  forall cfg evs ev f x' v e u,
  let s := c_run cfg c_init evs in
  let s' := fst (c_step cfg s ev) in
  c_get (c_futs s') f = Some x' -> c_fdone x' = Some (v, e, u) ->
  (exists x, c_get (c_futs s) f = Some x /\ c_fdone x = Some (v, e, u) /\ c_fkey x = c_fkey x') \/
  (exists i x, ev = CFinish (c_fkey x') i v e /\ u = c_now s /\ In f (c_running s) /\
               c_get (c_futs s) f = Some x /\ c_fdone x = None /\ c_fkey x = c_fkey x') \/
  (ev = CSet (c_fkey x') v e /\ u = c_now s /\ f = length (c_futs s)).
Proof. exact c_result_origin. Qed.
Print Assumptions cache_result_is_one_invocation.

(* no cross-key mix-up through the map, the predecessor or the job queue: the future returned
   by Load k / awaited by Get2 k has key k; a worker that takes a job "of key k" runs the
   loader for a queued future of key k *)
Theorem cache_returned_future_has_requested_key :
  forall cfg evs,
  let s := c_run cfg c_init evs in
  (forall k s' f c, c_step cfg s (CLoad k) = (s', OLoad f c) ->
     exists x, c_get (c_futs s') f = Some x /\ c_fkey x = k) /\
  (forall k f, c_get2 cfg s k = OAwait f -> exists x, c_get (c_futs s) f = Some x /\ c_fkey x = k) /\
  (forall k s' f, c_step cfg s (CStart k) = (s', OStart f) ->
     exists x, c_get (c_futs s) f = Some x /\ c_fkey x = k /\ In f (c_queue s) /\ In f (c_running s')).
Proof. exact c_returned_key. Qed.
Print Assumptions cache_returned_future_has_requested_key.

(* loom/sharding.go: for every supported key type and every power-of-two shard count the
   index is in range (and is the low bits of int64(key) resp. fnv32(key)) *)
Theorem shard_index_in_range :
  forall ty x bytes n, 0 <= n ->
  0 <= c_shard_index ty x bytes (2 ^ n) < 2 ^ n /\
  c_shard_index ty x bytes (2 ^ n) =
    (match ty with KString => c_fnv32 bytes | _ => sext 64 x end) mod 2 ^ n.
Proof. exact c_shard_index_in_range. Qed.
Print Assumptions shard_index_in_range.

(* non-vacuity: two Loads while loading share future 0 and one job; a Set displaces the
   loading future, after which a second loader of the same key can run (the exception the
   property names); the late loader completes only its own, displaced future *)
Example c04_nonvacuous :
  let cfg := {| c_normE := 1000; c_errE := 400 |} in
  let evs := [CLoad 7; CLoad 7; CStart 7; CAdvance 10; CSet 7 55 0; CAdvance 1000; CLoad 7;
              CStart 7; CAdvance 5; CFinish 7 0 91 0; CGet2 7; CAdvance 5; CFinish 7 0 92 3; CLoad 7] in
  c_outputs cfg c_init evs =
    [OLoad 0 true; OLoad 0 false; OStart 0; ONone; ONone; ONone; OLoad 1 true;
     OStart 2; ONone; OFinish 0; OAwait 1; ONone; OFinish 2; OLoad 2 false] /\
  c_displaced (c_run cfg c_init evs) = [0%nat] /\
  option_map c_fdone (c_get (c_futs (c_run cfg c_init evs)) 0) = Some (Some (91, 0, 1015)) /\
  c_shard_index KInt8 (-5) [] 16 = 11 /\ c_shard_index KString 0 [97; 98; 99] 16 = 11.
Proof. vm_compute. repeat split. Qed.

(* ================================================================== atomicity of the calls
   models/CacheSteps.v executes Load / Get2 / Set / worker setValue / removeRotted one shared
   access at a time (one step per yield site of the hooked code, mutex acquisition disabled
   while the mutex is held, explicit clock ticks between any two steps) and carries, as ghost
   state, a run of the ATOMIC machine Cache.v: cs_g is advanced at the linearization points of
   the state-changing calls, every Get2 / job-less Load collects the atomic output at every
   instant of its call interval (ct_cands), and cs_mis is raised as soon as a real result is
   not the atomic output at the call's linearization point / at some instant of its interval.

   INTENDED THEOREM (not proved in full; the name is reserved):
     cache_calls_linearize :
       forall cfg progs sched, c_cfg_ok cfg -> cs_progs_covered progs = true ->
       let s := cs_run cfg (cs_init progs) sched in cs_bad s = false -> cs_mis s = false.
   i.e. for programs of Load / Get2 / worker calls and every schedule whose clock ticks stay
   outside the windows cs_in_window, the small-step machine refines Cache.v.  It is FALSE
   without the window hypothesis and FALSE for programs with Set (concrete schedules below and
   in corpus/C04/call-steps.txt, reproduced on the real code).

   PROVED (this file): (1) the ghost run is an atomic history of Cache.v for ALL programs and
   schedules, so "cs_mis = false" on a run means exactly: the run linearizes with the events
   cs_evs; (2) the simulation invariant cs_inv (proofs/CacheStepsProofs.v) holds initially,
   implies cs_mis = false, and is preserved by every step of a thread that is at one of the
   lock-free read sites of Get2 / Load (status of the entry, predecessor, status of the
   predecessor): whatever the other threads and the clock did between its reads, its result is
   the atomic output at some instant of its call.  The interference part of the argument is
   proved once and for all (cs_tinv_ext: every thread's invariant is stable under any
   environment step satisfying cs_ext, including a concurrent setValue finishing the very
   future being read).  NOT proved: that the steps under the mutex, sendJob, the worker's three
   stores and the clock tick preserve cs_inv (each needs its cs_ext instance); this part is
   checked by computation only (cs_mis = false on every explored schedule, stream call-steps). *)
Theorem cache_steps_ghost_is_atomic_history :
  forall cfg progs sched,
  let s := cs_run cfg (cs_init progs) sched in
  cs_g s = c_run cfg c_init (rev (cs_evs s)).
Proof. exact cs_ghost_is_history. Qed.
Print Assumptions cache_steps_ghost_is_atomic_history.

Theorem cache_calls_linearize_partial :
  forall cfg,
  c_cfg_ok cfg ->
  (forall progs, cs_progs_covered progs = true -> cs_inv cfg (cs_init progs)) /\
  (forall s, cs_inv cfg s -> cs_mis s = false) /\
  (forall s tid t, cs_inv cfg s -> nth_error (cs_thr s) tid = Some t -> cs_reader_pc (ct_pc t) = true ->
     cs_inv cfg (fst (cs_step cfg s (CsRun tid)))).
Proof.
  intros cfg Hcfg. split; [intros progs H; apply cs_inv_init; exact H|].
  split; [intros s I; apply (si_mis _ _ I)|].
  intros s tid t I Ht Hr. eapply cs_reader_step_inv; eauto.
Qed.
Print Assumptions cache_calls_linearize_partial.

(* genuine non-atomicity, Set involved (E = 3600, future 0 = 5400 old = stale, future 1 = its
   refresh, loading, predecessor 0): Get2 reads the map (entry 1) and unlocks; Set replaces the
   entry by future 2; the worker's setValue of future 1 starts afterwards; Get2 loads
   updateTime(1) = zero (Good), the worker stores updateTime and clears the predecessor, Get2
   loads predecessor(1) = nil and returns future 1.  At every instant of the call the atomic
   Get2 answers future 0 (before the Set) or future 2 (after it): the candidate set of the
   call does not contain OAwait 1.  No clock tick is involved. *)
Example cache_get2_set_finish_not_atomic :
  let cfg := {| c_normE := 3600; c_errE := 1200 |} in
  let m0 := c_run cfg (cs_backdate (c_run cfg c_init [CLoad 0; CStart 0; CFinish 0 0 5 0]) 0 5400) [CLoad 0] in
  let s := cs_run cfg (cs_init_on m0 [[CsGet2 0]; [CsSet 0 3 0]; [CsFinish 9 0]])
             (map CsRun [0;0;0;0; 1;1;1;1;1;1; 2;2; 0; 2;2; 0])%nat in
  cs_bad s = false /\ cs_mis s = true /\
  cs_log s = [(0%nat, CsGet2 0, CsRVal 0 0, OAwait 1%nat); (2%nat, CsFinish 9 0, CsRFin 1%nat, OFinish 1%nat);
              (1%nat, CsSet 0 3 0, CsRNone, ONone)] /\
  option_map (fun t => nodup cs_out_eq_dec (ct_cands t)) (nth_error (cs_thr s) 0) = Some [OAwait 2%nat; OAwait 0%nat].
Proof. vm_compute. repeat split. Qed.
