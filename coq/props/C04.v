(* C04 -- cachex: concurrent Loads of a key share one load and agree on its result.
   Only property theorems (full statements), each closed by [exact] of a lemma proved in
   proofs/CacheProofs.v, and Print Assumptions.

   Quantification: every configuration [cfg], every event history [evs] of the machine
   models/Cache.v from the initial state -- any keys, any interleaving of Load / Get2 / Set
   calls with worker actions (job start, loader return with any value/error), sweeps and
   time steps (a negative time step is rejected by the machine, so histories are
   time-monotone) -- unbounded.  A reachable state is [c_run cfg c_init evs].
   "Displaced" = a loading future that a Set replaced in the map (ghost list c_displaced). *)
From Got Require Import Base Cache CacheProofs.
Local Open Scope Z_scope.

(* single flight:
   (1) per key at most one loading future that was not displaced by a Set;
   (2) hence at most one non-displaced loader running per key at any instant;
   (3) every running loader belongs to a loading future, no job runs twice;
   (4) Load creates a job iff the status of the key's entry is not good;
   (5) while a (non-displaced) load of k is in flight, Load k creates no job and changes nothing;
   (6) while the result of k is fresh, Load k returns it, creates no job and changes nothing. *)
Theorem cache_single_flight :
  forall cfg evs,
  let s := c_run cfg c_init evs in
  (forall f g x y, c_get (c_futs s) f = Some x -> c_get (c_futs s) g = Some y ->
     c_fdone x = None -> c_fdone y = None -> c_fkey x = c_fkey y ->
     ~ In f (c_displaced s) -> ~ In g (c_displaced s) -> f = g) /\
  (forall f g x y, In f (c_running s) -> In g (c_running s) ->
     c_get (c_futs s) f = Some x -> c_get (c_futs s) g = Some y -> c_fkey x = c_fkey y ->
     ~ In f (c_displaced s) -> ~ In g (c_displaced s) -> f = g) /\
  (forall f, In f (c_running s) -> c_isload (c_futs s) f) /\
  NoDup (c_running s) /\
  (forall k s' f created, c_step cfg s (CLoad k) = (s', OLoad f created) ->
     created = negb (c_is_good (c_status cfg (c_now s) (c_futs s) (c_lookup (c_map s) k)))) /\
  (forall k f x, c_get (c_futs s) f = Some x -> c_fkey x = k -> c_fdone x = None ->
     ~ In f (c_displaced s) -> exists g, c_step cfg s (CLoad k) = (s, OLoad g false)) /\
  (forall k f x v e u, c_lookup (c_map s) k = Some f -> c_get (c_futs s) f = Some x ->
     c_fdone x = Some (v, e, u) -> c_now s - u < c_expire cfg e ->
     c_step cfg s (CLoad k) = (s, OLoad f false)).
Proof. exact c_single_flight. Qed.
Print Assumptions cache_single_flight.

(* a completed future keeps its (value, error, stamp) and its key through every further
   history: all Get1/Get2 on one Future return the same pair, forever *)
Theorem cache_future_immutable :
  forall cfg evs evs' f x v e u,
  let s := c_run cfg c_init evs in
  c_get (c_futs s) f = Some x -> c_fdone x = Some (v, e, u) ->
  exists x', c_get (c_futs (c_run cfg s evs')) f = Some x' /\
             c_fdone x' = Some (v, e, u) /\ c_fkey x' = c_fkey x.
Proof. exact c_future_immutable. Qed.
Print Assumptions cache_future_immutable.

(* the pair of a future is the pair of ITS loader invocation or of the Set that created it:
   a future that is complete after a step either was already complete with the same triple,
   or the step is the return (v,e) of the running loader of this very future and key, or
   the step is Set k v e and the future is the one Set created *)
Theorem cache_result_is_one_invocation :
  forall cfg evs ev f x' v e u,
  let s := c_run cfg c_init evs in
  let s' := fst (c_step cfg s ev) in
  c_get (c_futs s') f = Some x' -> c_fdone x' = Some (v, e, u) ->
  (exists x, c_get (c_futs s) f = Some x /\ c_fdone x = Some (v, e, u) /\ c_fkey x = c_fkey x') \/
  (exists i x, ev = CFinish (c_fkey x') i v e /\ u = c_now s /\ In f (c_running s) /\
               c_get (c_futs s) f = Some x /\ c_fdone x = None /\ c_fkey x = c_fkey x') \/
  (ev = CSet (c_fkey x') v e /\ u = c_now s /\ f = length (c_futs s)).
Proof. exact c_result_origin. Qed.
Print Assumptions cache_result_is_one_invocation.

(* no cross-key mix-up through the map, the predecessor or the job queue: the future returned
   by Load k / awaited by Get2 k has key k; a worker that takes a job "of key k" runs the
   loader for a queued future of key k *)
Theorem cache_returned_future_has_requested_key :
  forall cfg evs,
  let s := c_run cfg c_init evs in
  (forall k s' f c, c_step cfg s (CLoad k) = (s', OLoad f c) ->
     exists x, c_get (c_futs s') f = Some x /\ c_fkey x = k) /\
  (forall k f, c_get2 cfg s k = OAwait f -> exists x, c_get (c_futs s) f = Some x /\ c_fkey x = k) /\
  (forall k s' f, c_step cfg s (CStart k) = (s', OStart f) ->
     exists x, c_get (c_futs s) f = Some x /\ c_fkey x = k /\ In f (c_queue s) /\ In f (c_running s')).
Proof. exact c_returned_key. Qed.
Print Assumptions cache_returned_future_has_requested_key.

(* loom/sharding.go: for every supported key type and every power-of-two shard count the
   index is in range (and is the low bits of int64(key) resp. fnv32(key)) *)
Theorem shard_index_in_range :
  forall ty x bytes n, 0 <= n ->
  0 <= c_shard_index ty x bytes (2 ^ n) < 2 ^ n /\
  c_shard_index ty x bytes (2 ^ n) =
    (match ty with KString => c_fnv32 bytes | _ => sext 64 x end) mod 2 ^ n.
Proof. exact c_shard_index_in_range. Qed.
Print Assumptions shard_index_in_range.

(* non-vacuity: two Loads while loading share future 0 and one job; a Set displaces the
   loading future, after which a second loader of the same key can run (the exception the
   property names); the late loader completes only its own, displaced future *)
Example c04_nonvacuous :
  let cfg := {| c_normE := 1000; c_errE := 400 |} in
  let evs := [CLoad 7; CLoad 7; CStart 7; CAdvance 10; CSet 7 55 0; CAdvance 1000; CLoad 7;
              CStart 7; CAdvance 5; CFinish 7 0 91 0; CGet2 7; CAdvance 5; CFinish 7 0 92 3; CLoad 7] in
  c_outputs cfg c_init evs =
    [OLoad 0 true; OLoad 0 false; OStart 0; ONone; ONone; ONone; OLoad 1 true;
     OStart 2; ONone; OFinish 0; OAwait 1; ONone; OFinish 2; OLoad 2 false] /\
  c_displaced (c_run cfg c_init evs) = [0%nat] /\
  option_map c_fdone (c_get (c_futs (c_run cfg c_init evs)) 0) = Some (Some (91, 0, 1015)) /\
  c_shard_index KInt8 (-5) [] 16 = 11 /\ c_shard_index KString 0 [97; 98; 99] 16 = 11.
Proof. vm_compute. repeat split. Qed.
