(* C04 -- cachex: concurrent Loads of a key share one load and agree on its result.
   Only property theorems (full statements), each closed by [exact] of a lemma proved in
   proofs/CacheProofs.v, and Print Assumptions.

   Quantification: every configuration [cfg], every event history [evs] of the machine
   models/Cache.v from the initial state -- any keys, any interleaving of Load / Get2 / Set
   calls with worker actions (job start, loader return with any value/error), sweeps and
   time steps (a negative time step is rejected by the machine, so histories are
   time-monotone) -- unbounded.  A reachable state is [c_run cfg c_init evs].
   "Displaced" = a loading future that a Set replaced in the map (ghost list c_displaced). *)
From Got Require Import Base Cache CacheProofs CacheSteps CacheStepsProofs.
Local Open Scope Z_scope.

(* single flight:
   (1) per key at most one loading future that was not displaced by a Set;
   (2) hence at most one non-displaced loader running per key at any instant;
   (3) every running loader belongs to a loading future, no job runs twice;
   (4) Load creates a job iff the status of the key's entry is not good;
   (5) while a (non-displaced) load of k is in flight, Load k creates no job and changes nothing;
   (6) while the result of k is fresh, Load k returns it, creates no job and changes nothing. *)
Theorem cache_single_flight :
  forall cfg evs,
  let s := c_run cfg c_init evs in
  (forall f g x y, c_get (c_futs s) f = Some x -> c_get (c_futs s) g = Some y ->
     c_fdone x = None -> c_fdone y = None -> c_fkey x = c_fkey y ->
     ~ In f (c_displaced s) -> ~ In g (c_displaced s) -> f = g) /\
  (forall f g x y, In f (c_running s) -> In g (c_running s) ->
     c_get (c_futs s) f = Some x -> c_get (c_futs s) g = Some y -> c_fkey x = c_fkey y ->
     ~ In f (c_displaced s) -> ~ In g (c_displaced s) -> f = g) /\
  (forall f, In f (c_running s) -> c_isload (c_futs s) f) /\
  NoDup (c_running s) /\
  (forall k s' f created, c_step cfg s (CLoad k) = (s', OLoad f created) ->
     created = negb (c_is_good (c_status cfg (c_now s) (c_futs s) (c_lookup (c_map s) k)))) /\
  (forall k f x, c_get (c_futs s) f = Some x -> c_fkey x = k -> c_fdone x = None ->
     ~ In f (c_displaced s) -> exists g, c_step cfg s (CLoad k) = (s, OLoad g false)) /\
  (forall k f x v e u, c_lookup (c_map s) k = Some f -> c_get (c_futs s) f = Some x ->
     c_fdone x = Some (v, e, u) -> c_now s - u < c_expire cfg e ->
     c_step cfg s (CLoad k) = (s, OLoad f false)).
Proof. exact c_single_flight. Qed.
Print Assumptions cache_single_flight.

(* a completed future keeps its (value, error, stamp) and its key through every further
   history: all Get1/Get2 on one Future return the same pair, forever *)
Theorem cache_future_immutable :
  forall cfg evs evs' f x v e u,
  let s := c_run cfg c_init evs in
  c_get (c_futs s) f = Some x -> c_fdone x = Some (v, e, u) ->
  exists x', c_get (c_futs (c_run cfg s evs')) f = Some x' /\
             c_fdone x' = Some (v, e, u) /\ c_fkey x' = c_fkey x.
Proof. exact c_future_immutable. Qed.
Print Assumptions cache_future_immutable.

(* the pair of a future is the pair of ITS loader invocation or of the Set that created it:
   a future that is complete after a step either was already complete with the same triple,
   or the step is the return (v,e) of the running loader of this very future and key, or
   the step is Set k v e and the future is the one Set created *)
Theorem cache_result_is_one_invocation :
  forall cfg evs ev f x' v e u,
  let s := c_run cfg c_init evs in
  let s' := fst (c_step cfg s ev) in
  c_get (c_futs s') f = Some x' -> c_fdone x' = Some (v, e, u) ->
  (exists x, c_get (c_futs s) f = Some x /\ c_fdone x = Some (v, e, u) /\ c_fkey x = c_fkey x') \/
  (exists i x, ev = CFinish (c_fkey x') i v e /\ u = c_now s /\ In f (c_running s) /\
               c_get (c_futs s) f = Some x /\ c_fdone x = None /\ c_fkey x = c_fkey x') \/
  (ev = CSet (c_fkey x') v e /\ u = c_now s /\ f = length (c_futs s)).
Proof. exact c_result_origin. Qed.
Print Assumptions cache_result_is_one_invocation.

(* no cross-key mix-up through the map, the predecessor or the job queue: the future returned
   by Load k / awaited by Get2 k has key k; a worker that takes a job "of key k" runs the
   loader for a queued future of key k *)
Theorem cache_returned_future_has_requested_key :
  forall cfg evs,
  let s := c_run cfg c_init evs in
  (forall k s' f c, c_step cfg s (CLoad k) = (s', OLoad f c) ->
     exists x, c_get (c_futs s') f = Some x /\ c_fkey x = k) /\
  (forall k f, c_get2 cfg s k = OAwait f -> exists x, c_get (c_futs s) f = Some x /\ c_fkey x = k) /\
  (forall k s' f, c_step cfg s (CStart k) = (s', OStart f) ->
     exists x, c_get (c_futs s) f = Some x /\ c_fkey x = k /\ In f (c_queue s) /\ In f (c_running s')).
Proof. exact c_returned_key. Qed.
Print Assumptions cache_returned_future_has_requested_key.

(* loom/sharding.go: for every supported key type and every power-of-two shard count the
   index is in range (and is the low bits of int64(key) resp. fnv32(key)) *)
Theorem shard_index_in_range :
  forall ty x bytes n, 0 <= n ->
  0 <= c_shard_index ty x bytes (2 ^ n) < 2 ^ n /\
  c_shard_index ty x bytes (2 ^ n) =
    (match ty with KString => c_fnv32 bytes | _ => sext 64 x end) mod 2 ^ n.
Proof. exact c_shard_index_in_range. Qed.
Print Assumptions shard_index_in_range.

(* non-vacuity: two Loads while loading share future 0 and one job; a Set displaces the
   loading future, after which a second loader of the same key can run (the exception the
   property names); the late loader completes only its own, displaced future *)
Example c04_nonvacuous :
  let cfg := {| c_normE := 1000; c_errE := 400 |} in
  let evs := [CLoad 7; CLoad 7; CStart 7; CAdvance 10; CSet 7 55 0; CAdvance 1000; CLoad 7;
              CStart 7; CAdvance 5; CFinish 7 0 91 0; CGet2 7; CAdvance 5; CFinish 7 0 92 3; CLoad 7] in
  c_outputs cfg c_init evs =
    [OLoad 0 true; OLoad 0 false; OStart 0; ONone; ONone; ONone; OLoad 1 true;
     OStart 2; ONone; OFinish 0; OAwait 1; ONone; OFinish 2; OLoad 2 false] /\
  c_displaced (c_run cfg c_init evs) = [0%nat] /\
  option_map c_fdone (c_get (c_futs (c_run cfg c_init evs)) 0) = Some (Some (91, 0, 1015)) /\
  c_shard_index KInt8 (-5) [] 16 = 11 /\ c_shard_index KString 0 [97; 98; 99] 16 = 11.
Proof. vm_compute. repeat split. Qed.


(* ================================================================== atomicity of the calls
   models/CacheSteps.v executes Load / Get2 / Set / the worker's setValue / removeRotted one
   shared access at a time (one step per yield site of the hooked code, mutex acquisition
   disabled while the mutex is held, explicit clock ticks between any two steps), in the order
   of the code now in /repo ([CsFixed]: Get2 and Load take the status decision AND the choice
   of the future to hand out under the shard mutex) or in the order before commit 4caabe5
   ([CsOrig]).  As ghost state it carries a run of the ATOMIC machine Cache.v: cs_g is advanced
   at the linearization points of the state-changing calls (job-creating Load: its decision
   step under the lock; worker: CStart at the channel receive, CFinish at the store of
   predecessor, the LAST store of setValue; tick: CAdvance), every Get2 / job-less Load collects
   the atomic output at every instant of its call interval (ct_cands), and cs_mis is raised as
   soon as a real result is not the atomic output at the call's linearization point / at some
   instant of its interval.  cs_bad records a clock tick dt > 0 inside a window cs_in_window:
   between setValue's time.Now() and its store of predecessor (NECESSARY: the stamp is read
   before it is published; with Finish placed at the store of updateTime instead, a reader that
   starts after it can still see the old predecessor, so the store of predecessor is the only
   possible linearization point and the clock must not move in between), and between a Load's
   time.Since and its decision in the same critical section (convenience of the proof: the
   atomic Load is placed at the decision step; no counterexample exists in the explored space).

   FULL STATEMENT (all five operations):
     cache_calls_linearize : forall cfg progs sched, c_cfg_ok cfg ->
       let s := cs_run CsFixed cfg (cs_init progs) sched in cs_bad s = false -> cs_mis s = false.
   PROVED below for programs of Load / Get2 / worker calls (cs_progs_covered), every number of
   threads, keys and calls, every schedule.  Left out: Set (the atomic machine starts "the
   first queued job of a KEY", the real channel is FIFO over all jobs: after a Set displaced a
   job whose sendJob is still pending the two orders differ, so the ghost worker events do not
   match although no caller-visible result is affected) and removeRotted (needs the
   "rotted = absent" simulation of C05 on top).  For these the mismatch flag is evaluated on
   every explored schedule: 0 mismatches in > 2,400,000 enumerated schedules (stream call-steps). *)
Theorem cache_steps_ghost_is_atomic_history :
  forall md cfg progs sched,
  let s := cs_run md cfg (cs_init progs) sched in
  cs_g s = c_run cfg c_init (rev (cs_evs s)).
Proof. exact cs_ghost_is_history. Qed.
Print Assumptions cache_steps_ghost_is_atomic_history.

(* the small-step machine (Fixed order) refines Cache.v: no result of any Load / Get2 / worker
   call ever differs from the output of its atomic event in the atomic history cs_evs -- for a
   job-creating Load at its decision step, for a Get2 / job-less Load at some instant between
   its first and its last step -- and that history is a run of Cache.v from the initial state,
   so every theorem of C04 / C05 about Cache.v holds for the results of the real interleavings *)
Theorem cache_calls_linearize_partial :
  forall cfg progs sched,
  c_cfg_ok cfg -> cs_progs_covered progs = true ->
  let s := cs_run CsFixed cfg (cs_init progs) sched in
  cs_bad s = false ->
  cs_mis s = false /\ cs_g s = c_run cfg c_init (rev (cs_evs s)).
Proof. exact cs_refines. Qed.
Print Assumptions cache_calls_linearize_partial.

(* ORIG order refuted, no clock tick (E = 3600, future 0 = 5400 old = stale, future 1 = its
   refresh, loading, predecessor 0): Get2 reads the map (entry 1) and unlocks; Set replaces the
   entry by future 2; the worker's setValue of future 1 starts afterwards; Get2 loads
   updateTime(1) = zero (Good), the worker stores updateTime and clears the predecessor, Get2
   loads predecessor(1) = nil and returns future 1.  At every instant of the call the atomic
   Get2 answers future 0 (before the Set) or future 2 (after it).  In the Fixed order the same
   programs under the same schedule (and every other one explored) linearize. *)
Theorem cache_get2_set_finish_orig_refuted :
  let cfg := {| c_normE := 3600; c_errE := 1200 |} in
  let m0 := c_run cfg (cs_backdate (c_run cfg c_init [CLoad 0; CStart 0; CFinish 0 0 5 0]) 0 5400) [CLoad 0] in
  let sched := map CsRun [0;0;0;0; 1;1;1;1;1;1; 2;2; 0; 2;2; 0]%nat in
  let s := cs_run CsOrig cfg (cs_init_on m0 [[CsGet2 0]; [CsSet 0 3 0]; [CsFinish 9 0]]) sched in
  (cs_bad s = false /\ cs_mis s = true /\
   cs_log s = [(0%nat, CsGet2 0, CsRVal 0 0, OAwait 1%nat); (2%nat, CsFinish 9 0, CsRFin 1%nat, OFinish 1%nat);
               (1%nat, CsSet 0 3 0, CsRNone, ONone)] /\
   option_map (fun t => nodup cs_out_eq_dec (ct_cands t)) (nth_error (cs_thr s) 0) = Some [OAwait 2%nat; OAwait 0%nat]) /\
  cs_mis (cs_run CsFixed cfg (cs_init_on m0 [[CsGet2 0]; [CsSet 0 3 0]; [CsFinish 9 0]]) (sched ++ map CsRun [0;0;0;2;2;2;2]%nat)) = false.
Proof. vm_compute. repeat split. Qed.
Print Assumptions cache_get2_set_finish_orig_refuted.

(* ORIG order refuted (C05): the entry (future 0) is fresh at Get2's map read; the clock
   advances, a Load finds it stale and starts the refresh (future 1, loading); future 0 rots;
   Get2 evaluates future 0 after its Unlock: rotted: it answers (nil, nil) at once although at
   every instant of the call the key had a servable entry -- OImmediate is not among the atomic
   answers of the call interval (all of them await future 0 or future 1).  Fixed order: Get2
   holds the mutex from the map read to the decision, the Load cannot get in between, and the
   run linearizes (Get2 awaits a future). *)
Theorem cache_get2_stall_orig_refuted :
  let cfg := {| c_normE := 3600; c_errE := 1200 |} in
  let m0 := cs_backdate (c_run cfg c_init [CLoad 0; CStart 0; CFinish 0 0 5 0]) 0 60 in
  let r := map CsRun in
  let sched := r [0;0;0;0]%nat ++ [CsTick 2700; CsTick 2700] ++ r [1;1;1;1;1;1;1]%nat ++ [CsTick 2700] ++ r [0;0;0]%nat in
  let s := cs_run CsOrig cfg (cs_init_on m0 [[CsGet2 0]; [CsLoad 0]]) sched in
  (cs_mis s = true /\
   cs_log s = [(0%nat, CsGet2 0, CsRVal 0 0, OImmediate); (1%nat, CsLoad 0, CsRFut 0%nat true, OLoad 0%nat true)] /\
   cs_fdone (cs_m s) 1 = None /\ c_lookup (c_map (cs_m s)) 0 = Some 1%nat) /\
  let s' := cs_run CsFixed cfg (cs_init_on m0 [[CsGet2 0]; [CsLoad 0]]) (sched ++ r [0;0;0;1;1;1;1;1;1;1;0;0]%nat) in
  cs_mis s' = false /\ cs_bad s' = false /\ (In (0%nat, CsGet2 0, CsRVal 0 0, OImmediate) (cs_log s') -> False).
Proof. vm_compute. split; [repeat split|]. split; [reflexivity|]. split; [reflexivity|]. intros H. repeat (destruct H as [H|H]; [discriminate H|]). exact H. Qed.
Print Assumptions cache_get2_stall_orig_refuted.
