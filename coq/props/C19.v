(* C19 -- aesx: Decrypt inverts Encrypt, the output is standard AES-CBC(PKCS#7)/AES-CFB-128,
   the caller's memory is untouched, the answers do not depend on anything but key, IV,
   mode and input.

   Models: models/Aes.v (FIPS-197 Cipher / InvCipher / KeyExpansion in Gallina),
   models/AesModes.v (package aesx over Go slices with explicit backing arrays),
   models/AesSpec.v (textbook CBC, CFB-128, PKCS#7, S-box formula).
   This file contains only the property theorems (full statements), each closed by [exact]
   of a lemma of proofs/AesProofs.v or proofs/AesModesProofs.v, and Print Assumptions.

   Vocabulary: a cipher [c] is what NewCipher(key, opts...) returned; a slice [s] is the view
   arr[off : off+len : off+cap] of a backing array; [aesm_data s] are its len bytes;
   Encrypt/Decrypt return (Ok result | Panic, caller's backing array afterwards).
   [aess_bytes l]: every element < 256. [aess_block b]: 16 bytes. *)
From Got Require Import Base Aes AesModes AesSpec AesProofs AesModesProofs.
Local Open Scope nat_scope.

(* ---- the block cipher: InvCipher inverts Cipher, all blocks, all keys of 16/24/32 bytes
   (this discharges the "E is a permutation with inverse D" hypothesis of the mode proofs
   for the real cipher) *)
Theorem aes_inv_cipher :
  forall key b,
    aes_valid_key_len (length key) = true -> aess_bytes key -> aess_block b ->
    aes_decrypt_block key (aes_encrypt_block key b) = b /\
    aess_block (aes_encrypt_block key b).
Proof. exact aes_block_roundtrip. Qed.
Print Assumptions aes_inv_cipher.

(* the S-box table of the model is the FIPS-197 5.1.1 formula: affine map of the GF(2^8) inverse *)
Theorem aes_sbox_fips :
  forall x i, (x < 256)%N -> (i < 8)%N ->
    N.testbit (aes_sub x) i = aess_affine_bit (aess_ginv x) i /\
    (x <> 0%N -> aes_gmul x (aess_ginv x) = 1%N) /\ aess_ginv 0 = 0%N.
Proof. intros x i Hx Hi. split; [exact (aes_sbox_is_fips_formula x i Hx Hi) | exact (aes_ginv_spec x Hx)]. Qed.
Print Assumptions aes_sbox_fips.

(* ---- Decrypt (Encrypt p) = p : every key size, every 16-byte IV, every plaintext (any
   length incl. 0 and block multiples, any trailing bytes), the plaintext anywhere in any
   backing array, the ciphertext handed to Decrypt in any slice [s'] holding those bytes.
   Both padding variants (v) -- the defect of the original code was aliasing, not the value. *)
Theorem aes_roundtrip_cbc :
  forall key opts c,
    aesm_new_cipher key opts = Ok c -> aess_bytes key ->
    forall v s,
    aa_mode (aesm_args_of opts) = AesmCBC -> aess_block (aa_iv (aesm_args_of opts)) ->
    aesm_slice_ok s = true -> aess_bytes (asl_arr s) ->
    exists ct, fst (aesm_api_encrypt v c s) = Ok ct /\
               length ct = 16 * (length (aesm_data s) / 16 + 1) /\
               forall s', aesm_data s' = ct -> fst (aesm_api_decrypt c s') = Ok (aesm_data s).
Proof. exact aesm_api_roundtrip_cbc. Qed.
Print Assumptions aes_roundtrip_cbc.

Theorem aes_roundtrip_cfb :
  forall key opts c,
    aesm_new_cipher key opts = Ok c -> aess_bytes key ->
    forall v s,
    aa_mode (aesm_args_of opts) = AesmCFB -> aess_block (aa_iv (aesm_args_of opts)) ->
    aess_bytes (asl_arr s) ->
    exists ct, fst (aesm_api_encrypt v c s) = Ok ct /\
               length ct = length (aesm_data s) /\
               forall s', aesm_data s' = ct -> fst (aesm_api_decrypt c s') = Ok (aesm_data s).
Proof. exact aesm_api_roundtrip_cfb. Qed.
Print Assumptions aes_roundtrip_cfb.

(* ---- Encrypt is the standard construction. CBC: the ciphertext is C_1 .. C_n with
   C_0 = IV, C_i = AES_key (P_i xor C_(i-1)), where P_1 .. P_n are the 16-byte blocks of
   the PKCS#7-padded plaintext; 16 * (len/16 + 1) bytes. *)
Theorem aes_cbc_is_standard :
  forall key opts c,
    aesm_new_cipher key opts = Ok c -> aess_bytes key ->
    forall v s,
    aa_mode (aesm_args_of opts) = AesmCBC -> aess_block (aa_iv (aesm_args_of opts)) ->
    aesm_slice_ok s = true -> aess_bytes (asl_arr s) ->
    exists ps cs,
      concat ps = aess_pkcs7 (aesm_data s) /\ aess_full_blocks ps /\
      aess_cbc (aes_encrypt_block key) (aa_iv (aesm_args_of opts)) ps cs /\
      fst (aesm_api_encrypt v c s) = Ok (concat cs) /\
      length (concat cs) = 16 * (length (aesm_data s) / 16 + 1).
Proof. exact aesm_api_cbc_is_standard. Qed.
Print Assumptions aes_cbc_is_standard.

(* CFB-128: C_0 = IV, C_i = P_i xor MSB (AES_key C_(i-1)), P_1 .. P_n the 16-byte segments of
   the plaintext (last one 1..16 bytes); same length as the plaintext, no padding. *)
Theorem aes_cfb_is_standard :
  forall key opts c,
    aesm_new_cipher key opts = Ok c -> aess_bytes key ->
    forall v s,
    aa_mode (aesm_args_of opts) = AesmCFB -> aess_block (aa_iv (aesm_args_of opts)) ->
    aess_bytes (asl_arr s) ->
    exists ps cs,
      concat ps = aesm_data s /\ aess_segments ps /\
      aess_cfb (aes_encrypt_block key) (aa_iv (aesm_args_of opts)) ps cs /\
      fst (aesm_api_encrypt v c s) = Ok (concat cs) /\
      length (concat cs) = length (aesm_data s).
Proof. exact aesm_api_cfb_is_standard. Qed.
Print Assumptions aes_cfb_is_standard.

(* pkcs5Padding computes PKCS#7; pkcs5Trimming removes exactly that, whatever the data ends with *)
Theorem pkcs_trim_pad :
  forall p, aesm_pkcs_trim (aess_pkcs7 p) = p.
Proof. exact aesm_pkcs_trim_pad. Qed.
Print Assumptions pkcs_trim_pad.

Theorem pkcs_pad_is_pkcs7 :
  forall v s, aesm_slice_ok s = true -> fst (aesm_pkcs_pad v s) = aess_pkcs7 (aesm_data s).
Proof. exact aesm_pkcs_pad_is_pkcs7. Qed.
Print Assumptions pkcs_pad_is_pkcs7.

(* ---- the caller's memory: after Encrypt and after Decrypt the whole backing array --
   the slice, the bytes before it, the spare capacity and the bytes beyond the capacity --
   is what it was. Any cipher (also one whose IV makes the call panic), any slice, any capacity. *)
Theorem aes_input_untouched :
  forall c s,
    snd (aesm_api_encrypt AesmFixed c s) = asl_arr s /\
    snd (aesm_api_decrypt c s) = asl_arr s.
Proof. exact aesm_api_untouched. Qed.
Print Assumptions aes_input_untouched.

(* ---- no state: the answer is a function of (round keys, mode, IV) fixed at NewCipher and
   of the bytes of the input; not of the backing array, offset or capacity, and there is no
   cipher state that a call could change (Encrypt/Decrypt return no new cipher). Hence any
   interleaving of calls by many goroutines yields the sequential answers. *)
Theorem aes_pure :
  forall v c s1 s2,
    aesm_data s1 = aesm_data s2 -> asl_len s1 = asl_len s2 ->
    fst (aesm_api_encrypt v c s1) = fst (aesm_api_encrypt v c s2) /\
    fst (aesm_api_decrypt c s1) = fst (aesm_api_decrypt c s2).
Proof. exact aesm_api_pure. Qed.
Print Assumptions aes_pure.

(* mode and IV selection: the last mode option wins (default CBC), the last non-empty IV
   wins (an empty IV is ignored; default 00 01 .. 0f) *)
Theorem aes_option_selection :
  forall opts,
    aa_mode (aesm_args_of opts) = aess_selected_mode opts /\
    aa_iv (aesm_args_of opts) = aess_selected_iv opts.
Proof. exact aesm_args_of_selected. Qed.
Print Assumptions aes_option_selection.

(* ---- the defect fixed by ca0d742 (D8): the original padding step appended into the
   caller's spare capacity: backing[:5] of a 32-byte array => bytes 5..15 become 0x0b *)
Theorem cbc_encrypt_orig_aliasing_refuted :
  exists c arr,
    aesm_new_cipher (map N.of_nat (seq 0 16)) [] = Ok c /\
    length arr = 32 /\
    let s := {| asl_arr := arr; asl_off := 0; asl_len := 5; asl_cap := 32 |} in
    aesm_slice_ok s = true /\
    firstn 11 (skipn 5 (snd (aesm_api_encrypt AesmOrig c s))) = repeat 11%N 11 /\
    firstn 11 (skipn 5 arr) <> repeat 11%N 11 /\
    snd (aesm_api_encrypt AesmFixed c s) = arr.
Proof.
  eexists. exists (map N.of_nat (seq 100 32)).
  split; [vm_compute; reflexivity|].
  split; [reflexivity|]. split; [reflexivity|].
  split; [vm_compute; reflexivity|].
  split; [vm_compute; discriminate|].
  vm_compute; reflexivity.
Qed.
Print Assumptions cbc_encrypt_orig_aliasing_refuted.

(* the original code was only wrong when the padding fits the capacity *)
Theorem cbc_encrypt_orig_untouched_without_capacity :
  forall c s,
    asl_cap s < asl_len s + (16 - asl_len s mod 16) ->
    snd (aesm_api_encrypt AesmOrig c s) = asl_arr s.
Proof. intros c s. exact (aesm_encrypt_orig_untouched_nocap _ (ac_args c) s). Qed.
Print Assumptions cbc_encrypt_orig_untouched_without_capacity.

(* non-vacuity: the hypotheses are met by a concrete instance (AES-192, CFB then CBC option,
   explicit IV, an 18-byte plaintext at offset 3 of a 40-byte array with capacity 30) and
   the FIPS-197 C.2 vector goes through the model *)
Example c19_nonvacuous :
  let key := map N.of_nat (seq 0 24) in
  let opts := [AesmWithCFB; AesmWithIV (map N.of_nat (seq 200 16)); AesmWithIV []; AesmWithCBC] in
  let s := {| asl_arr := map N.of_nat (seq 50 40); asl_off := 3; asl_len := 18; asl_cap := 30 |} in
  (exists c, aesm_new_cipher key opts = Ok c /\
             exists ct, fst (aesm_api_encrypt AesmFixed c s) = Ok ct /\ length ct = 32 /\
                        fst (aesm_api_decrypt c (aesm_whole ct)) = Ok (map N.of_nat (seq 53 18))) /\
  aess_bytes key /\ aa_mode (aesm_args_of opts) = AesmCBC /\
  aess_block (aa_iv (aesm_args_of opts)) /\ aesm_slice_ok s = true /\ aess_bytes (asl_arr s) /\
  aes_encrypt_block aes_tv_k192 aes_tv_pt =
    [221; 169; 124; 164; 134; 76; 223; 224; 110; 175; 112; 160; 236; 13; 113; 145]%N.
Proof.
  cbv zeta. split.
  - eexists. split; [vm_compute; reflexivity|]. eexists. split; [vm_compute; reflexivity|].
    split; vm_compute; reflexivity.
  - split; [unfold aess_bytes; apply Forall_forall; intros x Hx; apply in_map_iff in Hx;
            destruct Hx as [n [<- Hn]]; apply in_seq in Hn; lia|].
    split; [reflexivity|].
    split; [split; [reflexivity | unfold aess_bytes; apply Forall_forall; intros x Hx;
                                  vm_compute in Hx; repeat (destruct Hx as [<- | Hx]; [reflexivity|]); contradiction]|].
    split; [reflexivity|].
    split; [unfold aess_bytes; apply Forall_forall; intros x Hx; apply in_map_iff in Hx;
            destruct Hx as [n [<- Hn]]; apply in_seq in Hn; lia|].
    exact aes_fips_c2.
Qed.
