(* C19 -- aesx (stub, extended below) *)
From Got Require Import Base Aes AesModes AesProofs.
Local Open Scope N_scope.

Theorem cbc_encrypt_orig_aliasing_refuted :
  exists c arr,
    aesm_new_cipher (map N.of_nat (seq 0 16)) [] = Ok c /\
    length arr = 32%nat /\
    let s := {| asl_arr := arr; asl_off := 0; asl_len := 5; asl_cap := 32 |} in
    aesm_slice_ok s = true /\
    firstn 11 (skipn 5 (snd (aesm_api_encrypt AesmOrig c s))) = repeat 0x0b 11 /\
    firstn 11 (skipn 5 arr) <> repeat 0x0b 11 /\
    snd (aesm_api_encrypt AesmFixed c s) = arr.
Proof.
  eexists. exists (map N.of_nat (seq 100 32)).
  split; [vm_compute; reflexivity|].
  split; [reflexivity|]. split; [reflexivity|].
  split; [vm_compute; reflexivity|].
  split; [vm_compute; discriminate|].
  vm_compute; reflexivity.
Qed.
Print Assumptions cbc_encrypt_orig_aliasing_refuted.
