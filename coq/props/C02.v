(* C02 -- loom.Queue is lock-free: an operation running alone always finishes.
   From EVERY reachable state (every prefill, every set of programs, every prefix of every
   interleaving; the other threads frozen wherever they are) a thread that is inside a
   Push or Pop returns from it within 13 of its own steps (q_solo runs thread i alone and
   reports after how many steps its operation returned). *)
From Got Require Import Base Queue QueueProofs.
Local Open Scope nat_scope.

Theorem c02_solo_completes :
  forall pre progs sched i,
    let s := q_final (q_init pre progs) sched in
    q_busy s i = true ->
    exists k, k <= 13 /\ q_solo 13 s i = Some k.
Proof. exact q_solo_completes. Qed.
Print Assumptions c02_solo_completes.

(* the exact number of solo steps, as a function of the thread's position and the state *)
Theorem c02_solo_exact :
  forall k s i th,
    q_inv s -> nth_error (q_threads s) i = Some th -> q_busy_pc (q_pcof th) = true ->
    q_mu (q_chain s) (q_hi s) (q_ti s) (q_pcof th) <= k ->
    q_solo k s i = Some (q_mu (q_chain s) (q_hi s) (q_ti s) (q_pcof th)).
Proof. exact q_solo_complete. Qed.
Print Assumptions c02_solo_exact.

(* documentation: it is the helping branches that make this true. With them removed, a
   pusher frozen between its link CAS and its tail CAS blocks a second pusher for ever,
   while the real step function lets it finish in 9 steps (non-vacuity: the state has a
   lagging tail) *)
Theorem c02_no_help_refuted :
  q_busy q_stalled_state 1 = true /\ q_solo_nohelp 1000 q_stalled_state 1 = None /\
  q_solo 13 q_stalled_state 1 = Some 9.
Proof. exact q_no_help_refuted. Qed.
Print Assumptions c02_no_help_refuted.
