(* C06 -- cachex stays live: Load and Futures always complete if loaders do.   (PARTIAL)
   Only property theorems, each closed by [exact] of a lemma proved in
   proofs/CacheLiveProofs.v, and Print Assumptions.

   The theorems are about models/CacheLive.v, a small-step ABSTRACTION of the lock / bounded
   job queue / ticker protocol of cachex (keys, values and time erased).  Full statement of the
   property: "provided every loader eventually returns, every Load, Get and Set call returns and
   every Future resolves, for every parallel >= 1 and jobChanSize >= 1, even when more loads are
   outstanding than the job queue can hold and a sweep tick is due".  What is proved: for the
   current send order (after Unlock), every parallel >= 1, jobChanSize >= 1, shard count, and set
   of concurrent calls (arriving at any time), and every interleaving incl. every choice of an
   idle worker between a ready job and a ready tick:
     - no reachable state with unfinished work is a deadlock               (cache_no_deadlock)
     - every client/worker step strictly decreases a natural-number measure (cache_progress_measure)
     - hence every run without new ticks/arrivals is finite, and when no thread can move every
       call has returned, the queue is empty and all workers are idle, i.e. every job was loaded
       and its Future resolved                                               (cache_all_complete)
   Loader termination is built in (a ClwLoading worker can always step); fairness is the usual
   assumption that an enabled thread eventually runs.  What is missing for a full proof: a
   step-level refinement between cache_impl.go and CacheLive.v; the link is the scenario-level
   correspondence of vlib/c06.py (bursts on the real cache under faketime, watchdog, the replay
   of the pre-fix deadlock witness). *)
From Got Require Import Base CacheLive CacheLiveProofs.
Local Open Scope nat_scope.

Theorem cache_no_deadlock :
  forall cfg parallel clients history s,
    cl_ord cfg = SendAfterUnlock -> 1 <= cl_cap cfg -> 1 <= parallel ->
    cl_run cfg (cl_init parallel clients) history = Some s ->
    cl_finished s = false ->
    exists l, cl_is_thread l = true /\ cl_enabled cfg s l = true.
Proof. exact cl_reachable_no_deadlock. Qed.
Print Assumptions cache_no_deadlock.

Theorem cache_progress_measure :
  forall cfg s l s',
    cl_is_thread l = true -> cl_step cfg s l = Some s' -> cl_measure cfg s' < cl_measure cfg s.
Proof. exact cl_measure_decreases. Qed.
Print Assumptions cache_progress_measure.

Theorem cache_all_complete :
  forall cfg parallel clients prefix run s0 s,
    cl_ord cfg = SendAfterUnlock -> 1 <= cl_cap cfg -> 1 <= parallel ->
    cl_run cfg (cl_init parallel clients) prefix = Some s0 ->
    forallb cl_is_thread run = true -> cl_run cfg s0 run = Some s ->
    length run <= cl_measure cfg s0 /\
    ((forall l, cl_is_thread l = true -> cl_enabled cfg s l = false) -> cl_finished s = true).
Proof. exact cl_all_complete. Qed.
Print Assumptions cache_all_complete.

(* the send order before fix ed85568 deadlocks: parallel = 1, jobChanSize = 1, three Loads, one
   tick: a reachable state where no thread can move, a Load still holds its shard lock blocked on
   the full queue, and the only worker waits for that lock inside the sweep *)
Theorem cache_orig_deadlock_refuted :
  exists s,
    cl_run cl_orig_cfg (cl_init 1 [ClWant 0 true; ClWant 0 true; ClWant 0 true]) cl_orig_witness = Some s /\
    (forall l, cl_is_thread l = true -> cl_step cl_orig_cfg s l = None) /\
    nth_error (cl_clients s) 2 = Some (ClHold 0 true) /\ cl_queue s = 1 /\ cl_finished s = false.
Proof. exact cl_orig_deadlock. Qed.
Print Assumptions cache_orig_deadlock_refuted.

(* non-vacuity: the same three Loads, tick and worker choices under the current order run to
   completion (the state the old order got stuck in is left by the client's unlock) *)
Example c06_nonvacuous :
  let cfg := {| cl_ord := SendAfterUnlock; cl_cap := 1; cl_nshards := 1 |} in
  let s0 := cl_init 1 [ClWant 0 true; ClWant 0 true; ClWant 0 true] in
  option_map cl_finished
    (cl_run cfg s0 [LClient 0; LClient 0; LClient 0; LWorker 0 false; LClient 1; LClient 1; LClient 1;
                    LClient 2; LClient 2; LWorker 0 false; LTick; LWorker 0 true; LWorker 0 false;
                    LWorker 0 false; LWorker 0 false; LWorker 0 false; LClient 2; LWorker 0 false;
                    LWorker 0 false]) = Some true /\
  cl_measure cfg s0 = 15.
Proof. vm_compute. split; reflexivity. Qed.
