(* C06 -- cachex stays live: Load and Futures always complete if loaders do.   (PARTIAL)
   Only property theorems, each closed by [exact] of a lemma proved in
   proofs/CacheLiveStepsProofs.v / proofs/CacheLiveProofs.v, and Print Assumptions.

   Full statement of the property: "provided every loader eventually returns, every Load, Get and
   Set call returns and every Future resolves, for every parallel >= 1 and jobChanSize >= 1, even
   when more loads are outstanding than the job queue can hold and a sweep tick is due".

   PART 1 (the cache_steps_ theorems) is about models/CacheLiveSteps.v, the SMALL-STEP model of everything in
   cachex that can block -- one step per shared access (the yield points of cachex/verif_on.go),
   per-shard mutexes, the bounded job channel, [parallel] worker goroutines with their select
   between a job and the sweep tick, the sweep locking every shard in turn, the ticker flag,
   clients running Load / Get2 / Set / Future.Get2 programs -- which is stepped against the real
   code on every run (vlib/c06s.py, stream "liveness-steps").  Proved, for the send order of the
   code in /repo (sendJob after Unlock), every parallel >= 1, jobChanSize >= 1, shard count,
   expiry configuration, client programs, start memory (every loading future queued), every
   interleaving incl. every select choice, any ticker firings and clock advances:
     - no reachable state with a call that has not returned or an unresolved future is a deadlock
                                                                       (cache_steps_no_deadlock)
     - every step of a client or worker strictly decreases a natural-number measure, a clock
       advance leaves it unchanged, a ticker firing adds at most the cost of one sweep
                                                                       (cache_steps_progress_measure)
     - hence between ticker firings there are at most measure-many thread steps, and when no
       thread can move every call has returned, every future is resolved, the channel is empty,
       the workers are back in select and no tick is pending       (cache_steps_all_complete)
     - the old send order (sendJob under the shard mutex) reaches a deadlock with parallel = 1,
       jobChanSize = 1                                        (cache_steps_orig_deadlock_refuted)
     - future ids never dangle: a waiter always waits for a future of the arena
                                                                       (cache_steps_waiters_valid)
   "Loaders return" is in the model (the step that ends a loader is always enabled, its result is
   arbitrary).  What is NOT proved and stays an assumption: weak fairness of the Go scheduler
   (an enabled goroutine eventually runs), so that "finite maximal runs" are what happens; real
   loaders terminating.  The step model equals the code only as far as the per-step
   correspondence check can tell (trusted: harness, scheduler).

   PART 2 (the other cache_ theorems) are the earlier theorems about models/CacheLive.v, a coarser hand-written
   abstraction of the same protocol (keys, values, time erased); kept unchanged. *)
From Got Require Import Base Cache CacheSteps CacheLiveSteps CacheLiveStepsProofs CacheLive CacheLiveProofs CacheDrop CacheDropProofs.
From Coq Require Import Permutation.
Local Open Scope nat_scope.

(* ------------------------------------------------------------------ PART 1: the step model *)
Theorem cache_steps_no_deadlock :
  forall cfg m0 parallel progs history s,
    csl_ord cfg = CslFixed -> 1 <= csl_cap cfg -> 1 <= parallel -> csl_mem_ok m0 = true ->
    csl_run cfg (csl_init_on m0 parallel progs) history = Some s ->
    csl_pending s = true ->
    exists it, csl_is_thread it = true /\ csl_enabled cfg s it = true.
Proof. exact csl_reachable_no_deadlock. Qed.
Print Assumptions cache_steps_no_deadlock.

Theorem cache_steps_progress_measure :
  forall cfg s it s' ev,
    csl_step cfg s it = Some (s', ev) ->
    match it with
    | CslC _ | CslW _ _ _ _ => csl_measure cfg s' < csl_measure cfg s
    | CslAdv _ => csl_measure cfg s' = csl_measure cfg s
    | CslTick => csl_measure cfg s' <= csl_measure cfg s + csl_tick_w cfg s
    end.
Proof. exact csl_measure_step. Qed.
Print Assumptions cache_steps_progress_measure.

Theorem cache_steps_all_complete :
  forall cfg m0 parallel progs prefix run s0 s,
    csl_ord cfg = CslFixed -> 1 <= csl_cap cfg -> 1 <= parallel -> csl_mem_ok m0 = true ->
    csl_run cfg (csl_init_on m0 parallel progs) prefix = Some s0 ->
    forallb (fun it => negb (csl_is_tick it)) run = true ->
    csl_run cfg s0 run = Some s ->
    csl_nthreads run <= csl_measure cfg s0 /\
    ((forall it, csl_is_thread it = true -> csl_enabled cfg s it = false) ->
     csl_pending s = false /\ csl_quiet s = true /\ csl_tk s = false).
Proof. exact csl_all_complete. Qed.
Print Assumptions cache_steps_all_complete.

(* the send order before fix ed85568: parallel = 1, jobChanSize = 1, one shard, three Loads over
   distinct keys, one tick: a reachable state where no thread can move while client 1 is parked
   before sendJob with the shard mutex held, the channel full, and the only worker parked before
   Lock() of that shard inside the sweep *)
Theorem cache_steps_orig_deadlock_refuted :
  exists s,
    csl_run csl_orig_cfg (csl_init 1 csl_orig_progs) csl_orig_witness = Some s /\
    (forall it, csl_is_thread it = true -> csl_step csl_orig_cfg s it = None) /\
    option_map lt_pc (nth_error (csl_cl s) 1) = Some (CslLSH 1 1 1) /\
    length (c_queue (csl_m s)) = 1 /\ csl_pending s = true.
Proof. exact csl_orig_deadlock. Qed.
Print Assumptions cache_steps_orig_deadlock_refuted.

(* the model lets a waiter of a DANGLING future id pass ([csl_complete] answers true for an id
   outside the arena); this never decides anything: in every reachable state (any send order) a
   client parked before wg.Wait() waits for a future of the arena *)
Theorem cache_steps_waiters_valid :
  forall cfg m0 parallel progs history s i t x,
    csl_mvalid m0 ->
    csl_run cfg (csl_init_on m0 parallel progs) history = Some s ->
    nth_error (csl_cl s) i = Some t -> lt_pc t = CslGFW x ->
    exists y, c_get (c_futs (csl_m s)) x = Some y.
Proof. exact csl_waiters_valid. Qed.
Print Assumptions cache_steps_waiters_valid.

(* non-vacuity: the same programs, tick and select choice under the current order: the witness
   schedule is executable (client 1 leaves the critical section before sendJob), nothing is stuck
   there, and a completion of the run ends quiet with nothing pending; the measure of the start
   state is 45 *)
Example c06_steps_nonvacuous :
  let cfg := {| csl_ord := CslFixed; csl_cap := 1; csl_nsh := 1; csl_exp := {| c_normE := 3600; c_errE := 1200 |} |} in
  let s0 := csl_init 1 csl_orig_progs in
  let w := CslW 0 false 9%Z 0%Z in
  option_map (csl_stuck cfg) (csl_run cfg s0 csl_orig_witness) = Some false /\
  option_map (fun s => (csl_pending s, csl_quiet s))
    (csl_run cfg s0 (csl_orig_witness ++ [CslC 1; CslC 2; CslC 2; w; CslC 2; w; w; w; w; w; w; CslC 1; w; w; w; w; CslC 2; w; w; w; w; w; w; w])) = Some (false, true) /\
  csl_measure cfg s0 = 45 /\ csl_mem_ok c_init = true /\ csl_mvalid c_init.
Proof. split; [|split; [|split; [|split]]]; try (vm_compute; reflexivity). exact csl_mvalid_init. Qed.

(* ------------------------------------------------------------------ PART 2: the protocol abstraction *)

Theorem cache_no_deadlock :
  forall cfg parallel clients history s,
    cl_ord cfg = SendAfterUnlock -> 1 <= cl_cap cfg -> 1 <= parallel ->
    cl_run cfg (cl_init parallel clients) history = Some s ->
    cl_finished s = false ->
    exists l, cl_is_thread l = true /\ cl_enabled cfg s l = true.
Proof. exact cl_reachable_no_deadlock. Qed.
Print Assumptions cache_no_deadlock.

Theorem cache_progress_measure :
  forall cfg s l s',
    cl_is_thread l = true -> cl_step cfg s l = Some s' -> cl_measure cfg s' < cl_measure cfg s.
Proof. exact cl_measure_decreases. Qed.
Print Assumptions cache_progress_measure.

Theorem cache_all_complete :
  forall cfg parallel clients prefix run s0 s,
    cl_ord cfg = SendAfterUnlock -> 1 <= cl_cap cfg -> 1 <= parallel ->
    cl_run cfg (cl_init parallel clients) prefix = Some s0 ->
    forallb cl_is_thread run = true -> cl_run cfg s0 run = Some s ->
    length run <= cl_measure cfg s0 /\
    ((forall l, cl_is_thread l = true -> cl_enabled cfg s l = false) -> cl_finished s = true).
Proof. exact cl_all_complete. Qed.
Print Assumptions cache_all_complete.

(* the send order before fix ed85568 deadlocks: parallel = 1, jobChanSize = 1, three Loads, one
   tick: a reachable state where no thread can move, a Load still holds its shard lock blocked on
   the full queue, and the only worker waits for that lock inside the sweep *)
Theorem cache_orig_deadlock_refuted :
  exists s,
    cl_run cl_orig_cfg (cl_init 1 [ClWant 0 true; ClWant 0 true; ClWant 0 true]) cl_orig_witness = Some s /\
    (forall l, cl_is_thread l = true -> cl_step cl_orig_cfg s l = None) /\
    nth_error (cl_clients s) 2 = Some (ClHold 0 true) /\ cl_queue s = 1 /\ cl_finished s = false.
Proof. exact cl_orig_deadlock. Qed.
Print Assumptions cache_orig_deadlock_refuted.

(* non-vacuity: the same three Loads, tick and worker choices under the current order run to
   completion (the state the old order got stuck in is left by the client's unlock) *)
Example c06_nonvacuous :
  let cfg := {| cl_ord := SendAfterUnlock; cl_cap := 1; cl_nshards := 1 |} in
  let s0 := cl_init 1 [ClWant 0 true; ClWant 0 true; ClWant 0 true] in
  option_map cl_finished
    (cl_run cfg s0 [LClient 0; LClient 0; LClient 0; LWorker 0 false; LClient 1; LClient 1; LClient 1;
                    LClient 2; LClient 2; LWorker 0 false; LTick; LWorker 0 true; LWorker 0 false;
                    LWorker 0 false; LWorker 0 false; LWorker 0 false; LClient 2; LWorker 0 false;
                    LWorker 0 false]) = Some true /\
  cl_measure cfg s0 = 15.
Proof. vm_compute. split; reflexivity. Qed.


(* ---------------------------------------------------------------- a cache that is closed (dropped by its owner) while jobs are outstanding *)

(* models/CacheDrop.v: the job channel, closeChan, the workers' select, sendJob's two selects and
   runQueuedJobs (fix 2b5acec), loaders atomic.  For every capacity, every number >= 1 of workers, every list
   of submitted jobs and every history (the close at any point, any branch choices): no job is lost or run
   twice (executed ++ queued ++ not yet submitted is always a permutation of the jobs), and when every sender
   has returned and every worker has left, the channel is empty and every job has been executed exactly once --
   so every Future handed out resolves although nobody consumes the channel any more. *)
Theorem cache_drop_all_jobs_run_once :
  forall cap n jobs evs, (0 < n)%nat ->
    let s := cd_run CdFixed (cd_init cap n jobs) evs in
    Permutation (cd_ran s ++ cd_chan s ++ cd_pending s) jobs /\
    (cd_quiescent s = true -> cd_chan s = [] /\ Permutation (cd_ran s) jobs).
Proof. exact cd_all_jobs_run_once. Qed.
Print Assumptions cache_drop_all_jobs_run_once.

(* the code before 2b5acec (workers just return at the close, sendJob drops the job when it finds the cache
   closed): one job queued when the cache is closed and one sender arriving afterwards: everybody is done and
   nothing was executed; the same history on the fixed code executes both *)
Theorem cache_drop_orig_refuted :
  let s := cd_run CdOrig (cd_init 1 1 [1; 2]%nat) [CdSender 0 true; CdClose; CdWorker 0 false; CdSender 1 false] in
  cd_quiescent s = true /\ cd_ran s = [] /\ cd_chan s = [1%nat].
Proof. exact cd_orig_refuted. Qed.
Print Assumptions cache_drop_orig_refuted.

(* the second select of sendJob (after a successful send) is load-bearing: a Load that is still running when the
   finalizer ran, arrives after the last worker has left and finds room in the channel; without the re-check its
   job stays queued for ever; with it the sender drains the channel itself *)
Theorem cache_drop_send_without_recheck_refuted :
  let s := cd_run CdNoRecheck (cd_init 1 1 [1]%nat) [CdClose; CdWorker 0 false; CdSender 0 true] in
  cd_quiescent s = true /\ cd_ran s = [] /\ cd_chan s = [1%nat].
Proof. exact cd_no_recheck_refuted. Qed.
Print Assumptions cache_drop_send_without_recheck_refuted.

Example cache_drop_late_sender_nonvacuous :
  let s := cd_run CdFixed (cd_init 1 1 [1]%nat) [CdClose; CdWorker 0 false; CdSender 0 true; CdSender 0 true] in
  cd_quiescent s = true /\ cd_ran s = [1%nat] /\ cd_chan s = [].
Proof. exact cd_fixed_late_sender. Qed.

Example cache_drop_nonvacuous :
  let s := cd_run CdFixed (cd_init 1 1 [1; 2]%nat) [CdSender 0 true; CdClose; CdWorker 0 false; CdSender 1 false; CdSender 0 true] in
  cd_quiescent s = true /\ cd_ran s = [1; 2]%nat /\ cd_chan s = [].
Proof. exact cd_fixed_same_history. Qed.
