(* C10 -- taskx.SendDelayed: never early, less than one scheduler tick late, in deadline
   order, exactly once.
   Only property theorems (full statements), each closed by [exact] of a lemma proved in
   proofs/DelayedProofs.v, and Print Assumptions.

   Model: models/Delayed.v -- the loop goroutine of taskx's global delayed queue as an event
   machine.  A history [evs] is any list of
     DlRecv t      the loop takes request t off its channel (t carries the trigger time the
                   code computed: time.Now() at the SendDelayed call + delay),
     DlTick now    the loop takes a tick and reads time.Now() = now,
     DlTake q now  a consumer receives from target queue q,   DlClose q now  q is closed.
   Outputs: DlPlaced t at (t entered its queue's channel at time at), DlAfterClose t at
   (handed to a closed queue: placed or discarded as select chooses), DlGot, DlDisabled.
   An event that is not enabled (a request or a tick while the loop is blocked on a full
   target queue) has no effect and is flagged.

   Quantification: every priority-queue implementation [I] satisfying the interface laws
   [dl_pq_ok I inv] (push/pop keep the multiset, pop returns a minimal trigger time, ties
   arbitrary; container/heap is meant to be plugged in here), every set of target queues and
   capacities [caps], every history [evs] -- any number of outstanding requests (nothing
   depends on the initial capacity 32 of the heap or 128 of the request channel), equal
   deadlines, delay 0 (trigger = send instant), any phase of the tick.
   Hypotheses are boolean checks on the history:
     dl_mono lo evs        stamps of Tick/Take/Close do not decrease (virtual time),
     dl_all_enabled outs   no event of the history was flagged disabled,
     dl_roomy I s0 evs     "the targeted queues have room" (the property's proviso): after no
                           step the loop is left blocked, nothing is handed to a closed queue,
     dl_spaced P t0 evs    each tick reads a time at most P after the previous tick's (t0 for
                           the first): the 1 s ticker with an unblocked loop,
     dl_timely t0 evs      each request is taken by the loop before any tick whose time has
                           reached its trigger (true when delay >= 0 and the loop is not
                           blocked, except for the exact tie send instant = tick instant with
                           the tick taken first). *)
From Got Require Import Base Heap Delayed DelayedProofs DelayedInbox DelayedInboxProofs.
Require Import Permutation Sorted.
Local Open Scope Z_scope.

(* the model never gets stuck: no drain runs out of fuel or pops an empty queue *)
Theorem delayed_run_total :
  forall I inv, dl_pq_ok I inv -> forall caps evs,
    exists sf outs, dl_run I (dl_init I caps) evs = Some (sf, outs).
Proof. exact dl_run_total. Qed.
Print Assumptions delayed_run_total.

(* never early: a task enters its queue (or is handed to a closed queue) at a time >= its
   trigger time -- with or without room in the target queues *)
Theorem delayed_never_early :
  forall I inv, dl_pq_ok I inv -> forall caps evs lo sf outs t a,
    dl_run I (dl_init I caps) evs = Some (sf, outs) -> dl_mono lo evs = true ->
    In (DlPlaced t a) outs \/ In (DlAfterClose t a) outs -> dl_trig t <= a.
Proof. exact dl_never_early. Qed.
Print Assumptions delayed_never_early.

(* exactly once: the received requests are, as a multiset, the tasks handed over so far +
   the tasks still in the priority queue + the tasks the blocked loop is waiting to hand over;
   with distinct request ids no id occurs twice in that list (so no task is handed over
   twice, none is lost) *)
Theorem delayed_exactly_once :
  forall I inv, dl_pq_ok I inv -> forall caps evs sf outs,
    dl_run I (dl_init I caps) evs = Some (sf, outs) -> dl_all_enabled outs = true ->
    Permutation (dl_recvd evs) (dl_forwarded outs ++ pq_elems I (dl_pq sf) ++ dl_wait sf) /\
    (NoDup (map dl_id (dl_recvd evs)) ->
     NoDup (map dl_id (dl_forwarded outs ++ pq_elems I (dl_pq sf) ++ dl_wait sf))).
Proof. exact dl_exactly_once. Qed.
Print Assumptions delayed_exactly_once.

(* while the target queues have room every handed-over task is a placed task *)
Theorem delayed_roomy_all_placed :
  forall I inv, dl_pq_ok I inv -> forall evs s sf outs,
    inv (dl_pq s) -> dl_run I s evs = Some (sf, outs) -> dl_roomy I s evs = true ->
    dl_forwarded outs = map fst (dl_placed outs).
Proof. exact dl_roomy_forwarded_placed. Qed.
Print Assumptions delayed_roomy_all_placed.

(* placed at the first tick after its Recv whose time has reached the trigger, at that
   tick's time (target queues with room) *)
Theorem delayed_at_first_tick :
  forall I inv, dl_pq_ok I inv -> forall caps h1 h2 h3 t now sf outs,
    dl_run I (dl_init I caps) (h1 ++ DlRecv t :: h2 ++ DlTick now :: h3) = Some (sf, outs) ->
    dl_roomy I (dl_init I caps) (h1 ++ DlRecv t :: h2 ++ DlTick now :: h3) = true ->
    (forall n, In n (dl_ticks h2) -> n < dl_trig t) -> dl_trig t <= now ->
    In (DlPlaced t now) outs.
Proof. exact dl_first_tick. Qed.
Print Assumptions delayed_at_first_tick.

(* less than one tick late *)
Theorem delayed_less_than_one_tick_late :
  forall I inv, dl_pq_ok I inv -> forall caps P t0 evs sf outs t a,
    dl_run I (dl_init I caps) evs = Some (sf, outs) ->
    dl_roomy I (dl_init I caps) evs = true -> dl_spaced P t0 evs = true -> dl_timely t0 evs = true ->
    In (DlPlaced t a) outs -> a - dl_trig t < P.
Proof. exact dl_less_than_one_tick_late. Qed.
Print Assumptions delayed_less_than_one_tick_late.

(* released in non-decreasing order of trigger time: globally, hence on every queue *)
Theorem delayed_release_sorted :
  forall I inv, dl_pq_ok I inv -> forall caps t0 evs sf outs,
    dl_run I (dl_init I caps) evs = Some (sf, outs) -> dl_timely t0 evs = true ->
    StronglySorted dl_le (dl_forwarded outs).
Proof. exact dl_release_sorted. Qed.
Print Assumptions delayed_release_sorted.

Theorem delayed_release_sorted_per_queue :
  forall q outs, StronglySorted dl_le (dl_forwarded outs) -> StronglySorted dl_le (dl_placed_on q outs).
Proof. exact dl_placed_on_sorted. Qed.
Print Assumptions delayed_release_sorted_per_queue.

(* the interface laws are satisfiable: the sorted-list priority queue of the extracted model *)
Theorem delayed_sorted_list_pq_ok : dl_pq_ok dl_sorted_pq (StronglySorted dl_le).
Proof. exact dl_sorted_pq_ok. Qed.
Print Assumptions delayed_sorted_list_pq_ok.

(* ... and by the faithful model of container/heap (coq/lib/Heap.v) with taskDelayed.Less: every
   theorem above therefore holds for the loop running on std.PriorityQueue as modelled *)
Theorem delayed_container_heap_pq_ok : dl_pq_ok dl_heap_pq (Heap.hp_heap dl_less).
Proof. exact dl_heap_pq_ok. Qed.
Print Assumptions delayed_container_heap_pq_ok.

(* non-vacuity: a history with ticks 1000 apart, delay 0 (id 1: trigger = send instant 1500),
   equal deadlines (ids 2,3), 40 outstanding requests (more than the heap's initial capacity
   32), two queues; all hypotheses hold and tasks are placed *)
Definition c10_burst : list dl_event :=
  map (fun k => DlRecv {| dl_id := 100 + Z.of_nat k; dl_trig := 2100 + Z.of_nat (k mod 7); dl_q := Z.of_nat (k mod 2) |})
      (seq 0 40).
Definition c10_hist : list dl_event :=
  [DlTick 1000; DlRecv {| dl_id := 1; dl_trig := 1500; dl_q := 0 |};
   DlRecv {| dl_id := 2; dl_trig := 1999; dl_q := 1 |}; DlRecv {| dl_id := 3; dl_trig := 1999; dl_q := 1 |}]
  ++ c10_burst ++ [DlTick 2000; DlTake 1 2000; DlTake 1 2000; DlTake 0 2000; DlTick 3000].

Fixpoint c10_nodupb (l : list Z) : bool :=
  match l with [] => true | x :: r => negb (existsb (Z.eqb x) r) && c10_nodupb r end.

Definition c10_check : bool :=
  let caps := [(0, 64%nat); (1, 64%nat)] in
  dl_mono 0 c10_hist && dl_spaced 1000 0 c10_hist && dl_timely 0 c10_hist &&
  dl_roomy dl_sorted_pq (dl_init dl_sorted_pq caps) c10_hist &&
  match dl_run_sorted caps c10_hist with
  | Some (sf, outs) =>
      dl_all_enabled outs && (length (dl_placed outs) =? 43)%nat &&
      existsb (fun o => match o with DlPlaced t a => (dl_id t =? 1) && (a =? 2000) | _ => false end) outs &&
      c10_nodupb (map dl_id (dl_recvd c10_hist))
  | None => false
  end.

Example c10_nonvacuous : c10_check = true.
Proof. vm_compute. reflexivity. Qed.


(* ---------------------------------------------------------------- the hand-over channel (models/DelayedInbox.v) *)

(* "received before the tick" (dl_timely), the hypothesis of the timing theorems above, is not something a caller
   can observe; "SENT before the tick" is.  For the code that takes in the tasks already handed over before it
   handles a tick (fix a5a97ba), sent-before implies received-before: the inbox-level history expands to a
   loop-level history that is timely. *)
Theorem delayed_sent_before_tick_is_received_before :
  forall t0 evs, dli_sends_timely t0 evs = true -> dl_timely t0 (dli_expand DliFixed [] evs) = true.
Proof. exact dli_sent_before_tick_timely. Qed.
Print Assumptions delayed_sent_before_tick_is_received_before.

(* hence: less than one tick late for every task handed over before any tick that had reached its deadline *)
Theorem delayed_handed_over_less_than_one_tick_late :
  forall I inv, dl_pq_ok I inv -> forall caps P t0 evs sf outs t a,
    let h := dli_expand DliFixed [] evs in
    dl_run I (dl_init I caps) h = Some (sf, outs) ->
    dl_roomy I (dl_init I caps) h = true -> dl_spaced P t0 h = true -> dli_sends_timely t0 evs = true ->
    In (DlPlaced t a) outs -> a - dl_trig t < P.
Proof. exact dli_less_than_one_tick_late. Qed.
Print Assumptions delayed_handed_over_less_than_one_tick_late.

Theorem delayed_handed_over_release_sorted :
  forall I inv, dl_pq_ok I inv -> forall caps t0 evs sf outs,
    dl_run I (dl_init I caps) (dli_expand DliFixed [] evs) = Some (sf, outs) -> dli_sends_timely t0 evs = true ->
    StronglySorted dl_le (dl_forwarded outs).
Proof. exact dli_release_sorted. Qed.
Print Assumptions delayed_handed_over_release_sorted.

(* the code before a5a97ba handled a tick without looking at the channel: a task (deadline 5) handed over before the
   tick at 10, the select taking the ticker first, is released by the tick at 20: 15 after its deadline with ticks 10
   apart; the same history on the fixed code releases it at 10 *)
Theorem delayed_orig_tick_before_inbox_refuted :
  let t := {| dl_id := 1; dl_trig := 5; dl_q := 0 |} in
  let evs := [DliSend t; DliTick 10; DliRecv; DliTick 20] in
  dli_sends_timely 0 evs = true /\
  (exists sf, dli_run_sorted DliOrig [(0, 4%nat)] evs = Some (sf, [DlPlaced t 20])) /\
  (exists sf, dli_run_sorted DliFixed [(0, 4%nat)] evs = Some (sf, [DlPlaced t 10])) /\
  dl_spaced 10 0 (dli_expand DliOrig [] evs) = true /\ ~ (20 - dl_trig t < 10).
Proof. exact dli_orig_refuted. Qed.
Print Assumptions delayed_orig_tick_before_inbox_refuted.
