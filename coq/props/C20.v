(* C20 -- randx.WeightedSampling: "For 1 <= sampleNum <= totalNum and strictly positive
   finite weights of any magnitude, returns exactly sampleNum pairwise distinct indices in
   [0, totalNum) -- a permutation of all indices when sampleNum equals totalNum.  The
   selection follows weighted sampling without replacement: with sampleNum = 1 index i is
   returned with probability w_i / sum(w)."

   Only property theorems (full statements), each closed by [exact] of a lemma of
   proofs/SampleProofs.v / proofs/HeapProofs.v, and Print Assumptions.

   The model (models/Sample.v over lib/Heap.v) takes the KEY SEQUENCE as input
   (key i = rank of ln w_i - ln(-ln u_i)); the theorems hold for every key sequence,
   ties included, hence for every weight vector and every random draw.

   PARTIAL: the last sentence (P(i) = w_i / sum w for sampleNum = 1) is the
   Efraimidis-Spirakis theorem about the DISTRIBUTION of the keys; it needs probability
   theory over IEEE floats that is not installed.  What is proved of it is the algorithmic
   half: c20_sample_k1_argmax / c20_sample_k1_first_argmax (the returned index is the
   arg-max of the keys, the first one under ties) and c20_sample_topk.  The
   distributional half is a fixed-seed frequency TEST in vlib/c20.py (stream
   "frequency-test-k1"), reported as a test. *)
From Got Require Import Base Heap HeapProofs Sample SampleProofs.
Require Import Permutation.
Local Open Scope Z_scope.

(* all-in-one: the call returns normally (no panic, no fuel exhaustion) and the result r
   has exactly k elements, all in [0,n), pairwise distinct, a permutation of 0..n-1 when
   k = n, and is a top-k set of the keys: no returned index has a smaller key than a
   non-returned one (with ties: a valid choice). *)
Theorem c20_sample_spec :
  forall (k n : Z) (key : nat -> Z),
    1 <= k <= n ->
    exists r, smp_sample SmpEmpty k n key = HpOk r /\
      Z.of_nat (length r) = k /\
      Forall (fun x => 0 <= x < n) r /\
      NoDup r /\
      (k = n -> Permutation r (map Z.of_nat (seq 0 (Z.to_nat n)))) /\
      (forall i j, In i r -> 0 <= j < n -> ~ In j r -> key (Z.to_nat j) <= key (Z.to_nat i)).
Proof. exact smp_sample_spec. Qed.
Print Assumptions c20_sample_spec.

Theorem c20_sample_length :
  forall k n key, 1 <= k <= n ->
    exists r, smp_sample SmpEmpty k n key = HpOk r /\ Z.of_nat (length r) = k.
Proof. exact smp_sample_length. Qed.
Print Assumptions c20_sample_length.

Theorem c20_sample_in_range :
  forall k n key r, 1 <= k <= n -> smp_sample SmpEmpty k n key = HpOk r ->
    Forall (fun x => 0 <= x < n) r.
Proof. exact smp_sample_in_range. Qed.
Print Assumptions c20_sample_in_range.

Theorem c20_sample_distinct :
  forall k n key r, 1 <= k <= n -> smp_sample SmpEmpty k n key = HpOk r -> NoDup r.
Proof. exact smp_sample_distinct. Qed.
Print Assumptions c20_sample_distinct.

Theorem c20_sample_perm_when_all :
  forall n key r, 1 <= n -> smp_sample SmpEmpty n n key = HpOk r ->
    Permutation r (map Z.of_nat (seq 0 (Z.to_nat n))).
Proof. exact smp_sample_perm_when_all. Qed.
Print Assumptions c20_sample_perm_when_all.

(* the result is the index set of the k largest keys; under ties a valid choice: every
   returned index has a key >= the key of every index that was not returned *)
Theorem c20_sample_topk :
  forall k n key r, 1 <= k <= n -> smp_sample SmpEmpty k n key = HpOk r ->
    forall i j, In i r -> 0 <= j < n -> ~ In j r -> key (Z.to_nat j) <= key (Z.to_nat i).
Proof. exact smp_sample_topk. Qed.
Print Assumptions c20_sample_topk.

Theorem c20_sample_k1_argmax :
  forall n key, 1 <= n ->
    exists i, smp_sample SmpEmpty 1 n key = HpOk [i] /\ 0 <= i < n /\
              forall j, 0 <= j < n -> key (Z.to_nat j) <= key (Z.to_nat i).
Proof. exact smp_sample_k1_argmax. Qed.
Print Assumptions c20_sample_k1_argmax.

(* under ties the FIRST arg-max is returned (replacement needs a strictly larger key) *)
Theorem c20_sample_k1_first_argmax :
  forall n key, 1 <= n ->
    exists b, smp_sample SmpEmpty 1 n key = HpOk [Z.of_nat b] /\ (b < Z.to_nat n)%nat /\
              (forall j, (j < Z.to_nat n)%nat -> key j <= key b) /\
              (forall j, (j < b)%nat -> key j < key b).
Proof. exact smp_sample_k1_first_argmax. Qed.
Print Assumptions c20_sample_k1_first_argmax.

(* panics exactly on invalid arguments: the explicit panic(message) for
   totalNum < sampleNum or totalNum <= 0, makeslice for sampleNum < 0, and the index
   panic of h.Get(0) on the empty heap for sampleNum = 0 *)
Theorem c20_sample_panics_iff :
  forall k n key, smp_sample SmpEmpty k n key = HpPanic <-> (n < k \/ n <= 0 \/ k <= 0).
Proof. exact smp_sample_panics_iff. Qed.
Print Assumptions c20_sample_panics_iff.

Theorem c20_sample_no_fuel_exhaustion :
  forall k n key, smp_sample SmpEmpty k n key <> HpNoFuel.
Proof. exact smp_sample_no_fuel_exhaustion. Qed.
Print Assumptions c20_sample_no_fuel_exhaustion.

(* the code before commit 5cca028 (heap pre-filled with sampleNum zero items) violates
   distinctness: index 0 is returned more than once *)
Theorem c20_sample_orig_refuted :
  exists k n key r, 1 <= k <= n /\ smp_sample SmpPrefilled k n key = HpOk r /\ ~ NoDup r.
Proof. exact smp_sample_orig_refuted. Qed.
Print Assumptions c20_sample_orig_refuted.

(* the container/heap facts everything rests on (lib/Heap.v), for every element type and
   every strict weak order [less], over every sequence of Push/Pop/Top calls *)
Theorem c20_heap_run :
  forall (A : Type) (less : A -> A -> bool), hp_asym less -> hp_negtrans less ->
  forall (ops : list (hp_op A)) (l : list A),
    hp_heap less l -> forallb hp_basic ops = true -> hp_no_underflow (length l) ops = true ->
    exists l' outs, hp_run less l ops = HpOk (l', outs) /\ hp_heap less l' /\
                    length outs = length ops /\
                    Permutation (l' ++ hp_popped ops outs) (l ++ hp_pushed ops) /\
                    (length l' + length (hp_popped ops outs) = length l + length (hp_pushed ops))%nat.
Proof. exact @hp_run_basic_spec. Qed.
Print Assumptions c20_heap_run.

Theorem c20_heap_pop_min :
  forall (A : Type) (less : A -> A -> bool), hp_asym less -> hp_negtrans less ->
  forall l : list A, hp_heap less l -> l <> [] ->
    exists m l', hp_pop less l = HpOk (l', m) /\ hp_heap less l' /\
                 Permutation l (m :: l') /\ S (length l') = length l /\
                 hp_top l = Some m /\ (forall y, In y l -> less y m = false).
Proof. exact @hp_pop_spec. Qed.
Print Assumptions c20_heap_pop_min.

Theorem c20_heap_push :
  forall (A : Type) (less : A -> A -> bool), hp_asym less -> hp_negtrans less ->
  forall (l : list A) (x : A), hp_heap less l ->
    exists l', hp_push less l x = HpOk l' /\ hp_heap less l' /\
               Permutation l' (x :: l) /\ length l' = S (length l).
Proof. exact @hp_push_spec. Qed.
Print Assumptions c20_heap_push.


(* all five calls of std.PriorityQueue / container/heap, any sequence: the run completes
   iff every call is valid when issued (no Pop on empty, Fix/Remove index in range),
   otherwise it panics; never out of fuel; the heap invariant is kept *)
Theorem c20_heap_run_all :
  forall (A : Type) (less : A -> A -> bool), hp_asym less -> hp_negtrans less ->
  forall (ops : list (hp_op A)) (l : list A),
    hp_heap less l ->
    (hp_ops_valid (length l) ops = true ->
       exists l' outs, hp_run less l ops = HpOk (l', outs) /\ hp_heap less l' /\
                       length outs = length ops) /\
    (hp_ops_valid (length l) ops = false -> hp_run less l ops = HpPanic).
Proof. exact @hp_run_spec. Qed.
Print Assumptions c20_heap_run_all.

Theorem c20_heap_init :
  forall (A : Type) (less : A -> A -> bool), hp_asym less -> hp_negtrans less ->
  forall l : list A,
    exists l', hp_init less l = HpOk l' /\ hp_heap less l' /\ Permutation l l' /\
               length l' = length l.
Proof. exact @hp_init_spec. Qed.
Print Assumptions c20_heap_init.

Theorem c20_heap_remove :
  forall (A : Type) (less : A -> A -> bool), hp_asym less -> hp_negtrans less ->
  forall (l : list A) (i : nat), hp_heap less l -> (i < length l)%nat ->
    exists v l', hp_remove less l i = HpOk (l', v) /\ nth_error l i = Some v /\
                 hp_heap less l' /\ Permutation l (v :: l') /\ S (length l') = length l.
Proof. exact @hp_remove_spec. Qed.
Print Assumptions c20_heap_remove.

Theorem c20_heap_fix :
  forall (A : Type) (less : A -> A -> bool), hp_asym less -> hp_negtrans less ->
  forall (l : list A) (i : nat) (x : A), hp_heap less l -> (i < length l)%nat ->
    exists l', hp_fix less (hp_set l i x) i = HpOk l' /\ hp_heap less l' /\
               Permutation (hp_set l i x) l' /\ length l' = length l.
Proof. exact @hp_fix_spec. Qed.
Print Assumptions c20_heap_fix.

(* non-vacuity: concrete instance with ties; and the distinct-key witness of the defect *)
Example c20_nonvacuous :
  1 <= 3 <= 7 /\
  smp_sample_list SmpEmpty 3 7 [5; 1; 5; 9; 0; 5; 2] = HpOk [0; 3; 2] /\
  smp_sample_list SmpPrefilled 2 3 [-3; -1; -2] = HpOk [0; 0] /\
  smp_sample_list SmpEmpty 2 3 [-3; -1; -2] = HpOk [2; 1].
Proof.
  split; [lia|]. split; [exact smp_example|]. exact smp_sample_orig_refuted_distinct_keys.
Qed.
