(* C20 -- randx.WeightedSampling: "For 1 <= sampleNum <= totalNum and strictly positive
   finite weights of any magnitude, returns exactly sampleNum pairwise distinct indices in
   [0, totalNum) -- a permutation of all indices when sampleNum equals totalNum.  The
   selection follows weighted sampling without replacement: with sampleNum = 1 index i is
   returned with probability w_i / sum(w)."

   Only property theorems (full statements), each closed by [exact] of a lemma of
   proofs/SampleProofs.v / proofs/HeapProofs.v, and Print Assumptions.

   The model (models/Sample.v over lib/Heap.v) takes the KEY SEQUENCE as input
   (key i = rank of ln w_i - ln(-ln u_i)); the theorems hold for every key sequence,
   ties included, hence for every weight vector and every random draw.

   The last sentence (P(i) = w_i / sum w for sampleNum = 1) is about the DISTRIBUTION of
   the keys (Efraimidis-Spirakis).  It is split in three:
   (a) algorithmic half, proved for every key sequence: c20_sample_k1_argmax /
       c20_sample_k1_first_argmax (the returned index is the arg-max of the keys, the first
       one under ties) and c20_sample_topk;
   (b) distributional half, proved for the IDEAL real-valued model (models/SampleProb.v,
       second part of this file, Coq Reals + Coquelicot): u_0..u_(n-1) independent uniform
       on the unit interval, exact keys ln u / w: c20_k1_probability and its companions;
       c20_k1_returns_winner ties the event to the executable model of (a); the first two
       picks of sampling without replacement (sampleNum = 2): c20_k2_probability;
   (c) PARTIAL: that the float64 keys computed with math.Log from math/rand draws behave
       like the ideal ones is NOT proved (no probability theory over IEEE floats); it is
       a fixed-seed frequency TEST in vlib/c20.py (stream "frequency-test-k1"). *)
From Got Require Import Base Heap HeapProofs Sample SampleProofs SampleSeq SampleSeqProofs.
Require Import Permutation.
Local Open Scope Z_scope.

(* all-in-one: the call returns normally (no panic, no fuel exhaustion) and the result r
   has exactly k elements, all in [0,n), pairwise distinct, a permutation of 0..n-1 when
   k = n, and is a top-k set of the keys: no returned index has a smaller key than a
   non-returned one (with ties: a valid choice). *)
Theorem c20_sample_spec :
  forall (k n : Z) (key : nat -> Z),
    1 <= k <= n ->
    exists r, smp_sample SmpEmpty k n key = HpOk r /\
      Z.of_nat (length r) = k /\
      Forall (fun x => 0 <= x < n) r /\
      NoDup r /\
      (k = n -> Permutation r (map Z.of_nat (seq 0 (Z.to_nat n)))) /\
      (forall i j, In i r -> 0 <= j < n -> ~ In j r -> key (Z.to_nat j) <= key (Z.to_nat i)).
Proof. exact smp_sample_spec. Qed.
Print Assumptions c20_sample_spec.

Theorem c20_sample_length :
  forall k n key, 1 <= k <= n ->
    exists r, smp_sample SmpEmpty k n key = HpOk r /\ Z.of_nat (length r) = k.
Proof. exact smp_sample_length. Qed.
Print Assumptions c20_sample_length.

Theorem c20_sample_in_range :
  forall k n key r, 1 <= k <= n -> smp_sample SmpEmpty k n key = HpOk r ->
    Forall (fun x => 0 <= x < n) r.
Proof. exact smp_sample_in_range. Qed.
Print Assumptions c20_sample_in_range.

Theorem c20_sample_distinct :
  forall k n key r, 1 <= k <= n -> smp_sample SmpEmpty k n key = HpOk r -> NoDup r.
Proof. exact smp_sample_distinct. Qed.
Print Assumptions c20_sample_distinct.

Theorem c20_sample_perm_when_all :
  forall n key r, 1 <= n -> smp_sample SmpEmpty n n key = HpOk r ->
    Permutation r (map Z.of_nat (seq 0 (Z.to_nat n))).
Proof. exact smp_sample_perm_when_all. Qed.
Print Assumptions c20_sample_perm_when_all.

(* the result is the index set of the k largest keys; under ties a valid choice: every
   returned index has a key >= the key of every index that was not returned *)
Theorem c20_sample_topk :
  forall k n key r, 1 <= k <= n -> smp_sample SmpEmpty k n key = HpOk r ->
    forall i j, In i r -> 0 <= j < n -> ~ In j r -> key (Z.to_nat j) <= key (Z.to_nat i).
Proof. exact smp_sample_topk. Qed.
Print Assumptions c20_sample_topk.

Theorem c20_sample_k1_argmax :
  forall n key, 1 <= n ->
    exists i, smp_sample SmpEmpty 1 n key = HpOk [i] /\ 0 <= i < n /\
              forall j, 0 <= j < n -> key (Z.to_nat j) <= key (Z.to_nat i).
Proof. exact smp_sample_k1_argmax. Qed.
Print Assumptions c20_sample_k1_argmax.

(* under ties the FIRST arg-max is returned (replacement needs a strictly larger key) *)
Theorem c20_sample_k1_first_argmax :
  forall n key, 1 <= n ->
    exists b, smp_sample SmpEmpty 1 n key = HpOk [Z.of_nat b] /\ (b < Z.to_nat n)%nat /\
              (forall j, (j < Z.to_nat n)%nat -> key j <= key b) /\
              (forall j, (j < b)%nat -> key j < key b).
Proof. exact smp_sample_k1_first_argmax. Qed.
Print Assumptions c20_sample_k1_first_argmax.

(* panics exactly on invalid arguments: the explicit panic(message) for
   totalNum < sampleNum or totalNum <= 0, makeslice for sampleNum < 0, and the index
   panic of h.Get(0) on the empty heap for sampleNum = 0 *)
Theorem c20_sample_panics_iff :
  forall k n key, smp_sample SmpEmpty k n key = HpPanic <-> (n < k \/ n <= 0 \/ k <= 0).
Proof. exact smp_sample_panics_iff. Qed.
Print Assumptions c20_sample_panics_iff.

Theorem c20_sample_no_fuel_exhaustion :
  forall k n key, smp_sample SmpEmpty k n key <> HpNoFuel.
Proof. exact smp_sample_no_fuel_exhaustion. Qed.
Print Assumptions c20_sample_no_fuel_exhaustion.

(* the code before commit 5cca028 (heap pre-filled with sampleNum zero items) violates
   distinctness: index 0 is returned more than once *)
Theorem c20_sample_orig_refuted :
  exists k n key r, 1 <= k <= n /\ smp_sample SmpPrefilled k n key = HpOk r /\ ~ NoDup r.
Proof. exact smp_sample_orig_refuted. Qed.
Print Assumptions c20_sample_orig_refuted.

(* the container/heap facts everything rests on (lib/Heap.v), for every element type and
   every strict weak order [less], over every sequence of Push/Pop/Top calls *)
Theorem c20_heap_run :
  forall (A : Type) (less : A -> A -> bool), hp_asym less -> hp_negtrans less ->
  forall (ops : list (hp_op A)) (l : list A),
    hp_heap less l -> forallb hp_basic ops = true -> hp_no_underflow (length l) ops = true ->
    exists l' outs, hp_run less l ops = HpOk (l', outs) /\ hp_heap less l' /\
                    length outs = length ops /\
                    Permutation (l' ++ hp_popped ops outs) (l ++ hp_pushed ops) /\
                    (length l' + length (hp_popped ops outs) = length l + length (hp_pushed ops))%nat.
Proof. exact @hp_run_basic_spec. Qed.
Print Assumptions c20_heap_run.

Theorem c20_heap_pop_min :
  forall (A : Type) (less : A -> A -> bool), hp_asym less -> hp_negtrans less ->
  forall l : list A, hp_heap less l -> l <> [] ->
    exists m l', hp_pop less l = HpOk (l', m) /\ hp_heap less l' /\
                 Permutation l (m :: l') /\ S (length l') = length l /\
                 hp_top l = Some m /\ (forall y, In y l -> less y m = false).
Proof. exact @hp_pop_spec. Qed.
Print Assumptions c20_heap_pop_min.

Theorem c20_heap_push :
  forall (A : Type) (less : A -> A -> bool), hp_asym less -> hp_negtrans less ->
  forall (l : list A) (x : A), hp_heap less l ->
    exists l', hp_push less l x = HpOk l' /\ hp_heap less l' /\
               Permutation l' (x :: l) /\ length l' = S (length l).
Proof. exact @hp_push_spec. Qed.
Print Assumptions c20_heap_push.


(* all five calls of std.PriorityQueue / container/heap, any sequence: the run completes
   iff every call is valid when issued (no Pop on empty, Fix/Remove index in range),
   otherwise it panics; never out of fuel; the heap invariant is kept *)
Theorem c20_heap_run_all :
  forall (A : Type) (less : A -> A -> bool), hp_asym less -> hp_negtrans less ->
  forall (ops : list (hp_op A)) (l : list A),
    hp_heap less l ->
    (hp_ops_valid (length l) ops = true ->
       exists l' outs, hp_run less l ops = HpOk (l', outs) /\ hp_heap less l' /\
                       length outs = length ops) /\
    (hp_ops_valid (length l) ops = false -> hp_run less l ops = HpPanic).
Proof. exact @hp_run_spec. Qed.
Print Assumptions c20_heap_run_all.

Theorem c20_heap_init :
  forall (A : Type) (less : A -> A -> bool), hp_asym less -> hp_negtrans less ->
  forall l : list A,
    exists l', hp_init less l = HpOk l' /\ hp_heap less l' /\ Permutation l l' /\
               length l' = length l.
Proof. exact @hp_init_spec. Qed.
Print Assumptions c20_heap_init.

Theorem c20_heap_remove :
  forall (A : Type) (less : A -> A -> bool), hp_asym less -> hp_negtrans less ->
  forall (l : list A) (i : nat), hp_heap less l -> (i < length l)%nat ->
    exists v l', hp_remove less l i = HpOk (l', v) /\ nth_error l i = Some v /\
                 hp_heap less l' /\ Permutation l (v :: l') /\ S (length l') = length l.
Proof. exact @hp_remove_spec. Qed.
Print Assumptions c20_heap_remove.

Theorem c20_heap_fix :
  forall (A : Type) (less : A -> A -> bool), hp_asym less -> hp_negtrans less ->
  forall (l : list A) (i : nat) (x : A), hp_heap less l -> (i < length l)%nat ->
    exists l', hp_fix less (hp_set l i x) i = HpOk l' /\ hp_heap less l' /\
               Permutation (hp_set l i x) l' /\ length l' = length l.
Proof. exact @hp_fix_spec. Qed.
Print Assumptions c20_heap_fix.

(* ---------- panicking getWeight callback, and call SEQUENCES (models/SampleSeq.v) ----------
   "State left behind by an earlier call (including one that panicked) must not influence a
   later call."  smp_sample_cb is smp_sample with a callback that panics when asked for index
   pj; it also returns the number of callback invocations made.  smp_run_calls runs a list of
   calls; the Go function has no state outliving a call (fresh make() per call), so no store
   is threaded from call to call -- the sequence streams of vlib/c20.py (c20Q) check the real
   code against exactly this. *)

(* a callback that never panics (or would only panic at an index >= totalNum that is never
   asked for): the call is the call of the first part *)
Theorem c20_sample_cb_conservative :
  forall init k n key,
    fst (smp_sample_cb init k n key None) = smp_sample init k n key /\
    forall j, (Z.to_nat n <= j)%nat ->
      fst (smp_sample_cb init k n key (Some j)) = smp_sample init k n key.
Proof. exact (fun init k n key => conj (smp_sample_cb_none init k n key) (smp_sample_cb_late init k n key)). Qed.
Print Assumptions c20_sample_cb_conservative.

(* valid arguments and getWeight panics at index j < totalNum: the call panics, after
   exactly j+1 callback invocations *)
Theorem c20_sample_cb_panics :
  forall k n key j, 1 <= k <= n -> (j < Z.to_nat n)%nat ->
    smp_sample_cb SmpEmpty k n key (Some j) = (HpPanic, S j).
Proof. exact smp_sample_cb_panics. Qed.
Print Assumptions c20_sample_cb_panics.

(* invalid arguments: panic, with at most one callback invocation, whatever the callback does *)
Theorem c20_sample_cb_invalid_args :
  forall k n key pj, (n < k \/ n <= 0 \/ k <= 0) ->
    fst (smp_sample_cb SmpEmpty k n key pj) = HpPanic /\
    (snd (smp_sample_cb SmpEmpty k n key pj) <= 1)%nat.
Proof. exact smp_sample_cb_invalid_args. Qed.
Print Assumptions c20_sample_cb_invalid_args.

(* the outcome of a call of a sequence is that call's own outcome, whatever calls were made
   before it and after it *)
Theorem c20_calls_history_independent :
  forall (pre post : list smp_call) (c : smp_call),
    nth_error (smp_run_calls (pre ++ c :: post)) (length pre) = Some (smp_call_result c).
Proof. exact smp_run_calls_history_independent. Qed.
Print Assumptions c20_calls_history_independent.

(* FULL STATEMENT for sequences: in every sequence of calls, every call with
   1 <= sampleNum <= totalNum whose callback does not panic returns normally, asks for each
   weight exactly once, and its result has the full specification of the property (exactly
   sampleNum pairwise distinct indices in range, a permutation when sampleNum = totalNum, a
   top-k set of the keys) -- no matter which earlier calls panicked and where *)
Theorem c20_calls_valid_meet_spec :
  forall (cs : list smp_call) (i : nat) (c : smp_call),
    nth_error cs i = Some c -> smp_call_valid c ->
    exists r, nth_error (smp_run_calls cs) i = Some (HpOk r, Z.to_nat (smc_n c)) /\
      Z.of_nat (length r) = smc_k c /\
      Forall (fun x => 0 <= x < smc_n c) r /\
      NoDup r /\
      (smc_k c = smc_n c -> Permutation r (map Z.of_nat (seq 0 (Z.to_nat (smc_n c))))) /\
      (forall a b, In a r -> 0 <= b < smc_n c -> ~ In b r ->
         smp_key_of_list (smc_keys c) (Z.to_nat b) <= smp_key_of_list (smc_keys c) (Z.to_nat a)).
Proof. exact smp_run_calls_valid_spec. Qed.
Print Assumptions c20_calls_valid_meet_spec.

(* non-vacuity: a valid call after a call whose callback panicked at index 2 and after a call
   with invalid arguments *)
Example c20_calls_nonvacuous :
  smp_run_calls [SmcCall 3 7 [5; 1; 5; 9; 0; 5; 2] (Some 2%nat); SmcCall 5 3 [1; 2; 3] None;
                 SmcCall 3 7 [5; 1; 5; 9; 0; 5; 2] None] =
  [(HpPanic, 3%nat); (HpPanic, 0%nat); (HpOk [0; 3; 2], 7%nat)].
Proof. reflexivity. Qed.

(* non-vacuity: concrete instance with ties; and the distinct-key witness of the defect *)
Example c20_nonvacuous :
  1 <= 3 <= 7 /\
  smp_sample_list SmpEmpty 3 7 [5; 1; 5; 9; 0; 5; 2] = HpOk [0; 3; 2] /\
  smp_sample_list SmpPrefilled 2 3 [-3; -1; -2] = HpOk [0; 0] /\
  smp_sample_list SmpEmpty 2 3 [-3; -1; -2] = HpOk [2; 1].
Proof.
  split; [lia|]. split; [exact smp_example|]. exact smp_sample_orig_refuted_distinct_keys.
Qed.


(* ====================================================================================
   Second part: the distribution clause for the IDEAL real-valued model
   (models/SampleProb.v; proofs/SampleProbProofs.v, proofs/SampleProbLink.v).

   Model: item j gets a draw u_j in the open unit interval and the exact key
   sp_key u_j w_j = ln u_j / w_j; "i wins" (sp_wins) = its key is strictly the largest.
   The draws are independent and uniform.  The probability of the event is defined as the
   iterated integral that independence gives:
     - sp_win_prob: integral over u_i of the product over the competitors j of the length
       u_i^(w_j/w_i) of the interval in which u_j loses (c20_key_lose_interval);
     - sp_is_win_prob_ind: the (n-dimensional) iterated integral of the INDICATOR of the
       event, u_i outermost; proved equal to sp_win_prob for every n
       (c20_k1_indicator_integral); for n = 2 both orders of integration are proved to
       give the same value (c20_k1_n2_indicator, c20_k1_n2_indicator_swapped).
   MODELLING ASSUMPTION (not a theorem here): "the probability of an event about
   independent uniform draws is the iterated Riemann integral of its indicator over the
   unit cube, in any order" -- there is no measure theory underneath; for n > 2 only the
   order with u_i outermost is treated.
   NOT modelled: float64 rounding of the keys and of math.Log, the generator (math/rand
   Float64: 2^53-point grid, can return 0), ties (a null set in the ideal model).

   These theorems depend on the classical real numbers of the standard library; the
   std-lib postulates they use are printed by Print Assumptions below and are allow-listed
   by name in vlib/c20.py (REAL_ANALYSIS_BASE). *)
Require Import Reals.
From Coquelicot Require Import Coquelicot.
Require Import List Permutation.   (* after Coquelicot: List.Forall, not AutoDerive's *)
From Got Require Import SampleProb SampleProbProofs SampleProbPair SampleProbLink.
Local Open Scope R_scope.

(* conditional on u_i = u, item j loses exactly when its draw v is below u^(w_j/w_i);
   that bound lies strictly between 0 and 1: the losing set is an interval of that length *)
Theorem c20_key_lose_interval :
  forall u v wi wj, 0 < u < 1 -> 0 < v -> 0 < wi -> 0 < wj ->
    (ln v / wj < ln u / wi <-> v < Rpower u (wj / wi)).
Proof. exact sp_lose_interval. Qed.
Print Assumptions c20_key_lose_interval.

Theorem c20_key_lose_interval_bounds :
  forall u wi wj, 0 < u < 1 -> 0 < wi -> 0 < wj -> 0 < Rpower u (wj / wi) < 1.
Proof. exact sp_lose_interval_bounds. Qed.
Print Assumptions c20_key_lose_interval_bounds.

(* MAIN: sampleNum = 1, any number of items, any strictly positive real weights:
   P(i wins) = w_i / sum w *)
Theorem c20_k1_probability_is_RInt :
  forall (ws : list R) (i : nat),
    Forall (fun w => 0 < w) ws -> (i < length ws)%nat ->
    is_RInt (fun u => fold_right Rmult 1
                        (map (fun wj => Rpower u (wj / nth i ws 0))
                             (firstn i ws ++ skipn (S i) ws)))
            0 1 (nth i ws 0 / fold_right Rplus 0 ws).
Proof. exact sp_k1_is_RInt. Qed.
Print Assumptions c20_k1_probability_is_RInt.

Theorem c20_k1_probability :
  forall (ws : list R) (i : nat),
    sp_pos ws -> (i < length ws)%nat -> sp_win_prob ws i = nth i ws 0 / sp_sum ws.
Proof. exact sp_k1_probability. Qed.
Print Assumptions c20_k1_probability.

Theorem c20_k1_prob_range :
  forall ws i, sp_pos ws -> (i < length ws)%nat -> 0 < sp_win_prob ws i <= 1.
Proof. exact sp_k1_prob_range. Qed.
Print Assumptions c20_k1_prob_range.

(* the winning probabilities of all items add up to 1 *)
Theorem c20_k1_total_probability :
  forall ws, sp_pos ws -> ws <> [] ->
    sp_sum (map (sp_win_prob ws) (seq 0 (length ws))) = 1.
Proof. exact sp_k1_total_probability. Qed.
Print Assumptions c20_k1_total_probability.

(* only the ratios of the weights matter ("weights of any magnitude") *)
Theorem c20_k1_scale_invariant :
  forall c ws i, 0 < c -> sp_pos ws -> (i < length ws)%nat ->
    sp_win_prob (map (Rmult c) ws) i = sp_win_prob ws i.
Proof. exact sp_k1_scale_invariant. Qed.
Print Assumptions c20_k1_scale_invariant.

(* the position of an item and the order of the other items do not matter *)
Theorem c20_k1_order_invariant :
  forall ws i ws' i', sp_pos ws -> sp_pos ws' -> (i < length ws)%nat -> (i' < length ws')%nat ->
    nth i ws 0 = nth i' ws' 0 -> Permutation (sp_others ws i) (sp_others ws' i') ->
    sp_win_prob ws i = sp_win_prob ws' i'.
Proof. exact sp_k1_order_invariant. Qed.
Print Assumptions c20_k1_order_invariant.

(* the same probability as the iterated integral of the indicator of the event over the
   unit cube: two items, u_i outermost ... *)
Theorem c20_k1_n2_indicator :
  forall wi wj, 0 < wi -> 0 < wj ->
    is_RInt (fun u => RInt (fun v => if Rlt_dec (ln v / wj) (ln u / wi) then 1 else 0) 0 1) 0 1
            (wi / (wi + wj)).
Proof. exact sp_k1_n2_indicator. Qed.
Print Assumptions c20_k1_n2_indicator.

(* ... and u_j outermost: the two orders of integration agree (the exchange of the order
   of integration, proved for this event) *)
Theorem c20_k1_n2_indicator_swapped :
  forall wi wj, 0 < wi -> 0 < wj ->
    is_RInt (fun v => RInt (fun u => if Rlt_dec (ln v / wj) (ln u / wi) then 1 else 0) 0 1) 0 1
            (wi / (wi + wj)).
Proof. exact sp_k1_n2_indicator_swapped. Qed.
Print Assumptions c20_k1_n2_indicator_swapped.

(* any number of items: the iterated integral (u_i outermost, then the competitors) of
   the indicator of "u_i beats every competitor" exists, equals w_i / sum w, is unique,
   hence is sp_win_prob *)
Theorem c20_k1_indicator_integral :
  forall ws i, sp_pos ws -> (i < length ws)%nat ->
    sp_is_win_prob_ind ws i (nth i ws 0 / sp_sum ws) /\
    (forall p, sp_is_win_prob_ind ws i p -> p = sp_win_prob ws i).
Proof.
  exact (fun ws i Hp Hi => conj (sp_k1_indicator_integral ws i Hp Hi)
                                (fun p => sp_k1_indicator_integral_unique ws i p Hp Hi)).
Qed.
Print Assumptions c20_k1_indicator_integral.

(* sp_beats_ind is 0/1-valued and is 1 exactly on the event *)
Theorem c20_k1_indicator_is_indicator :
  forall u wi vs wo, length vs = length wo ->
    (sp_beats_ind u wi vs wo = 1 <->
     forall j, (j < length wo)%nat -> sp_key (nth j vs 0) (nth j wo 0) < sp_key u wi) /\
    (sp_beats_ind u wi vs wo = 1 \/ sp_beats_ind u wi vs wo = 0).
Proof. exact sp_beats_ind_spec. Qed.
Print Assumptions c20_k1_indicator_is_indicator.

(* the key of algorithm A-Res named by the property, u^(1/w), orders the items exactly as
   ln u / w does (for all reals: nothing underflows in R) ... *)
Theorem c20_ares_key_order :
  forall u w u' w',
    (Rpower u (1 / w) < Rpower u' (1 / w') <-> ln u / w < ln u' / w').
Proof. exact sp_ares_key_order. Qed.
Print Assumptions c20_ares_key_order.

(* ... and so does the log-domain key the code computes, ln w - ln(-ln u) *)
Theorem c20_gumbel_key_order :
  forall u w u' w', 0 < u < 1 -> 0 < w -> 0 < u' < 1 -> 0 < w' ->
    (ln w - ln (- ln u) < ln w' - ln (- ln u') <-> ln u / w < ln u' / w').
Proof. exact sp_gumbel_key_order. Qed.
Print Assumptions c20_gumbel_key_order.

(* tie to the executable model of the code (first part of this file): whenever the ranks
   given to smp_sample order the items as the ideal keys do, the call with sampleNum = 1
   returns i if i wins, and (no ties) only then *)
Theorem c20_k1_returns_winner :
  forall (key : nat -> Z) (us ws : list R) (i : nat),
    sp_ranks_agree key us ws -> (i < length ws)%nat -> sp_wins us ws i ->
    smp_sample SmpEmpty 1 (Z.of_nat (length ws)) key = HpOk (Z.of_nat i :: nil).
Proof. exact sp_k1_returns_winner. Qed.
Print Assumptions c20_k1_returns_winner.

Theorem c20_k1_returned_is_winner :
  forall (key : nat -> Z) (us ws : list R) (i : nat),
    sp_ranks_agree key us ws -> sp_no_ties us ws -> (i < length ws)%nat ->
    smp_sample SmpEmpty 1 (Z.of_nat (length ws)) key = HpOk (Z.of_nat i :: nil) ->
    sp_wins us ws i.
Proof. exact sp_k1_returned_is_winner. Qed.
Print Assumptions c20_k1_returned_is_winner.

(* apart from ties (a null set) exactly one index wins: the events "i wins" partition the
   draws, in accordance with c20_k1_total_probability *)
Theorem c20_k1_exactly_one_winner :
  forall us ws, ws <> nil -> sp_no_ties us ws ->
    exists i, (i < length ws)%nat /\ sp_wins us ws i /\
              forall j, (j < length ws)%nat -> sp_wins us ws j -> j = i.
Proof. exact sp_exactly_one_winner. Qed.
Print Assumptions c20_k1_exactly_one_winner.

(* ---- sampleNum = 2, "without replacement": P(i has the largest key and j the second
   largest) = w_i/W * w_j/(W - w_i): i is picked with probability w_i/W, then j among the
   remaining items with probability proportional to its weight.  As the double integral
   (the other items integrated out as the product of their interval lengths) ... *)
Theorem c20_k2_probability :
  forall ws i j, sp_pos ws -> (i < length ws)%nat -> (j < length ws)%nat -> j <> i ->
    sp_pair_prob ws i j = nth i ws 0 / sp_sum ws * (nth j ws 0 / (sp_sum ws - nth i ws 0)).
Proof. exact sp_k2_probability. Qed.
Print Assumptions c20_k2_probability.

(* ... and as the iterated integral of the indicator of the event over the unit cube
   (u_i outermost, then u_j, then the other items): exists, has that value, is unique *)
Theorem c20_k2_indicator_integral :
  forall ws i j, sp_pos ws -> (i < length ws)%nat -> (j < length ws)%nat -> j <> i ->
    sp_is_pair_prob_ind ws i j (nth i ws 0 / sp_sum ws * (nth j ws 0 / (sp_sum ws - nth i ws 0))) /\
    (forall p, sp_is_pair_prob_ind ws i j p ->
               p = nth i ws 0 / sp_sum ws * (nth j ws 0 / (sp_sum ws - nth i ws 0))).
Proof.
  exact (fun ws i j Hp Hi Hj Hne =>
           conj (sp_k2_indicator_integral ws i j Hp Hi Hj Hne)
                (fun p => sp_k2_indicator_integral_unique ws i j p Hp Hi Hj Hne)).
Qed.
Print Assumptions c20_k2_indicator_integral.

Theorem c20_k2_indicator_is_indicator :
  forall wi wj wo u v xs, length xs = length wo ->
    (sp_pair_ind wi wj wo (u :: v :: xs) = 1 <->
     sp_key v wj < sp_key u wi /\
     forall l, (l < length wo)%nat -> sp_key (nth l xs 0) (nth l wo 0) < sp_key v wj) /\
    (sp_pair_ind wi wj wo (u :: v :: xs) = 1 \/ sp_pair_ind wi wj wo (u :: v :: xs) = 0).
Proof. exact sp_pair_ind_spec. Qed.
Print Assumptions c20_k2_indicator_is_indicator.

(* summing the pair probabilities over the second pick gives back P(i first) *)
Theorem c20_k2_marginal :
  forall ws i, sp_pos ws -> (i < length ws)%nat -> (2 <= length ws)%nat ->
    sp_sum (map (fun wj => nth i ws 0 / sp_sum ws * (wj / (sp_sum ws - nth i ws 0)))
                (sp_others ws i))
    = nth i ws 0 / sp_sum ws.
Proof. exact sp_k2_marginal. Qed.
Print Assumptions c20_k2_marginal.

(* tie to the executable model: on that event the call with sampleNum = 2 returns
   exactly the indices i and j *)
Theorem c20_k2_returns_top_pair :
  forall (key : nat -> Z) (us ws : list R) (i j : nat),
    sp_ranks_agree key us ws -> (i < length ws)%nat -> (j < length ws)%nat -> i <> j ->
    sp_wins2 us ws i j ->
    exists r, smp_sample SmpEmpty 2 (Z.of_nat (length ws)) key = HpOk r /\
              Permutation r (Z.of_nat i :: Z.of_nat j :: nil).
Proof. exact sp_k2_returns_top_pair. Qed.
Print Assumptions c20_k2_returns_top_pair.

(* non-vacuity: weights 1, 2, 3: the middle item wins with probability 1/3; it is first
   and the last item second with probability 2/6 * 3/4 = 1/4 *)
Example c20_prob_nonvacuous :
  sp_pos [1; 2; 3] /\ sp_win_prob [1; 2; 3] 1 = 1 / 3 /\ sp_pair_prob [1; 2; 3] 1 2 = 1 / 4.
Proof. exact sp_example2. Qed.
