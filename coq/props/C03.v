(* C03 -- Wheel timers fire exactly once, never late and less than one step early.
   Only property theorems (full statements), each closed by [exact] of a lemma proved in
   proofs/WheelProofs.v, and Print Assumptions.

   Model: coq/models/Wheel.v (WFixed = the code in /repo: onTicker stores position before the
   fresh slot, fetchWheelData re-validates position).  Quantification: every step s > 0 and
   bucket count n >= 1 with s*n < 2^63 ns ([wh_cfg_ok]; beyond that Go's maxTimeout wraps),
   every number of ticks, every number of requester threads and every program of
   NewTimer/Reset/AfterFunc per thread ([progs]; all three obtain their channel from
   fetchWheelData), every duration (out-of-range ones panic: [wheel_no_panic]), every schedule
   (list of thread ids, thread 0 = the ticker; one entry = one shared-memory access of that
   thread) -- unbounded.

   Reading of the property.  Time is "the wheel's own tick clock": tick g happens at clock
   time g*s.  A request is the interval between its invocation (k0 = ticks completed) and its
   return (k1 = ticks started).  [wheel_fire_window] + [wheel_fire_once]: the channel it obtains
   is closed by exactly one tick f, k0+i+1 <= f <= k1+i+1, i = max(d/s,1)-1 ([wheel_index_range]);
   [wheel_time_window]: for a request that does not overlap a tick (k0 = k1 = k, made at clock
   time r with k*s <= r < (k+1)*s, any phase) this is D - s < f*s - r <= D with
   D = max(s*floor(d/s), s); [wheel_time_window_overlap]: for a request overlapping ticks the
   fire time is less than one step early measured from the invocation and not late measured
   from the return, so there is an instant inside the call for which the window holds.
   Boundary remark: a request at the very instant of a tick is, on the tick clock, after that
   tick (r = k*s with k ticks completed); a request that is processed before the tick at the
   same wall-clock instant belongs to the previous period (r < (k+1)*s). *)
From Got Require Import Base Wheel WheelProofs.
Local Open Scope nat_scope.

(* the inductive invariant holds in every reachable state *)
Theorem wheel_invariant :
  forall s n ticks progs sched,
    wh_cfg_ok s n -> wh_inv (wh_final WFixed (wh_init s n ticks progs) sched).
Proof. exact wh_reach_inv. Qed.
Print Assumptions wheel_invariant.

(* a request with bucket index i, invoked when k0 ticks had completed and returning when k1
   ticks had started, obtains a channel ch that is closed by tick f, k0+i+1 <= f <= k1+i+1:
   in every later state of the run no other tick is recorded for ch, and as soon as f ticks have
   completed ch is closed (the ticker is never blocked, so tick f does run) *)
Theorem wheel_fire_window :
  forall s n ticks progs sched tid i k0 k1 ch,
    wh_cfg_ok s n ->
    In (tid, WERet i k0 k1 ch) (wh_trace WFixed (wh_init s n ticks progs) sched) ->
    let sf := wh_final WFixed (wh_init s n ticks progs) sched in
    exists f, k0 + i + 1 <= f /\ f <= k1 + i + 1 /\
              (forall g, wh_closed_at sf ch = Some g -> g = f) /\
              (f <= wh_nclosed sf -> wh_closed_at sf ch = Some f).
Proof. exact wh_fire_window. Qed.
Print Assumptions wheel_fire_window.

(* the ghost counters in the events are the real ones: after any prefix [pre], the step of
   thread tid reports i = the bucket index of the requested duration, k0 = ticks completed now
   (invocation), k1 = ticks started now (return); a range panic happens only outside
   [0, s*n); tick numbers count the ticks *)
Theorem wheel_event_counters :
  forall s n ticks progs pre tid,
    wh_cfg_ok s n ->
    let s1 := wh_final WFixed (wh_init s n ticks progs) pre in
    let ev := snd (wh_step WFixed s1 tid) in
    (forall d i k0, ev = WEInv d i k0 -> wh_bucket_index s n d = Some i /\ k0 = wh_nclosed s1) /\
    (forall i k0 k1 ch, ev = WERet i k0 k1 ch -> k1 = wh_nstarted s1) /\
    (forall d, ev = WEPanicRange d -> (d < 0 \/ s * Z.of_nat n <= d)%Z) /\
    (forall g, ev = WETickInv g -> g = S (wh_nstarted s1)) /\
    (forall g ch, ev = WETickRet g ch -> g = S (wh_nclosed s1)).
Proof. exact wh_event_counters. Qed.
Print Assumptions wheel_event_counters.

(* per requester thread: every return event carries the index and k0 of the thread's latest
   invocation, with only internal steps of the same call in between *)
Theorem wheel_thread_protocol :
  forall o s n ticks progs sched k,
    k < length progs ->
    wh_aut_run WAIdle (wh_proj (S k) (wh_trace o (wh_init s n ticks progs) sched))
    = Some (wh_aut_of (wh_final o (wh_init s n ticks progs) sched) k).
Proof. exact wh_thread_protocol. Qed.
Print Assumptions wheel_thread_protocol.

(* exactly once: the close events of any run are, in order, tick 1 closing channel 0, tick 2
   closing channel 1, ..., one per completed tick -- every channel is closed by exactly one
   tick and never again; the log of closed channels agrees *)
Theorem wheel_fire_once :
  forall s n ticks progs sched,
    wh_cfg_ok s n ->
    let sf := wh_final WFixed (wh_init s n ticks progs) sched in
    wh_closes (wh_trace WFixed (wh_init s n ticks progs) sched)
    = map (fun c => (S c, c)) (seq 0 (wh_nclosed sf)) /\
    (forall ch, wh_closed_at sf ch = if ch <? wh_nclosed sf then Some (S ch) else None).
Proof. exact wh_fire_once. Qed.
Print Assumptions wheel_fire_once.

(* no double close, no index out of range; fetchWheelData panics only outside [0, s*n) *)
Theorem wheel_no_panic :
  forall s n ticks progs sched tid,
    wh_cfg_ok s n ->
    let tr := wh_trace WFixed (wh_init s n ticks progs) sched in
    ~ In (tid, WEPanicIndex) tr /\ (forall ch, ~ In (tid, WEPanicClose ch) tr) /\
    (forall d, In (tid, WEPanicRange d) tr -> (d < 0 \/ s * Z.of_nat n <= d)%Z).
Proof. exact wh_no_panic. Qed.
Print Assumptions wheel_no_panic.

(* bucket index: panic iff out of range; i = max(d/s,1)-1, i.e. D = s*(i+1);
   i <= n-2 for n >= 2 and i = 0 for n = 1 (the slot onTicker is replacing is never handed out) *)
Theorem wheel_index_range :
  forall s n d,
    (0 < s)%Z -> (s * Z.of_nat n < 2 ^ 63)%Z ->
    (wh_bucket_index s n d = None <-> (d < 0 \/ s * Z.of_nat n <= d)%Z) /\
    (forall i, wh_bucket_index s n d = Some i ->
       (0 <= d < s * Z.of_nat n)%Z /\ Z.of_nat i = (Z.max (d / s) 1 - 1)%Z /\
       Z.max (s * (d / s)) s = (s * (Z.of_nat i + 1))%Z /\
       (2 <= n -> i <= n - 2) /\ (n = 1 -> i = 0)).
Proof.
  intros s n d Hs Hb. split; [exact (wh_index_panic_iff s n d Hs Hb)|].
  intros i Hi. destruct (wh_index_value s n d i Hs Hb Hi). destruct (wh_index_bound s n d i Hs Hb Hi).
  pose proof (wh_index_D s n d i Hs Hb Hi). auto.
Qed.
Print Assumptions wheel_index_range.

(* tick clock: tick g at time g*s; non-overlapping request at time r after exactly k ticks,
   any phase: f = k+i+1 by wheel_fire_window with k0 = k1 = k *)
Theorem wheel_time_window :
  forall s n d i k r,
    (0 < s)%Z -> (s * Z.of_nat n < 2 ^ 63)%Z ->
    wh_bucket_index s n d = Some i ->
    (k * s <= r < (k + 1) * s)%Z ->
    let D := Z.max (s * (d / s)) s in
    let f := (k + Z.of_nat i + 1)%Z in
    (D - s < f * s - r <= D)%Z.
Proof. exact wh_time_window. Qed.
Print Assumptions wheel_time_window.

Theorem wheel_time_window_overlap :
  forall s n d i k0 k1 r0 r1 f,
    (0 < s)%Z -> (s * Z.of_nat n < 2 ^ 63)%Z ->
    wh_bucket_index s n d = Some i ->
    (k0 * s <= r0 < (k0 + 1) * s)%Z -> (k1 * s <= r1 < (k1 + 1) * s)%Z ->
    (k0 + Z.of_nat i + 1 <= f <= k1 + Z.of_nat i + 1)%Z ->
    let D := Z.max (s * (d / s)) s in
    (D - s < f * s - r0 /\ f * s - r1 <= D)%Z.
Proof. exact wh_time_window_overlap. Qed.
Print Assumptions wheel_time_window_overlap.

(* Reset re-arms with the same guarantee: timer.Reset(x) performs exactly the step (same next
   pc, same event) of a fresh NewTimer(d) for the effective duration d (x if x >= step, else the
   timer's interval), and leaves the interval unchanged; all theorems above are about every
   WERet event, whichever operation produced it *)
Theorem wheel_reset_same :
  forall o s rest ti x,
    let d := fst (wh_eff_duration (wh_s s) ti (WReset x)) in
    let th op := {| wh_rpc_of := WRIdle; wh_todo := op :: rest; wh_tint := ti |} in
    wh_rpc_of (fst (wh_req_step_th o s (th (WReset x)))) = wh_rpc_of (fst (wh_req_step_th o s (th (WhNew d)))) /\
    snd (wh_req_step_th o s (th (WReset x))) = snd (wh_req_step_th o s (th (WhNew d))) /\
    wh_tint (fst (wh_req_step_th o s (th (WReset x)))) = ti /\
    (d = match x with Some v => if (wh_s s <=? v)%Z then v else ti | None => ti end).
Proof. exact wh_reset_same. Qed.
Print Assumptions wheel_reset_same.

(* defect D1 (fixed by 9c333a1): with the original step order (slot replaced before position
   advances, no re-validation) a request that reads between the two stores fires a whole
   revolution late: n = 4, d = 0, k0 = 0, k1 = 1 -> allowed ticks 1..2, fires at tick 5 *)
Theorem wheel_orig_refuted :
  let s0 := wh_init 3600000000000 4 5 [[WhNew 0%Z]] in
  let sched := [0;0;0;0; 1;1;1; 0;0; 0;0;0;0;0;0; 0;0;0;0;0;0; 0;0;0;0;0;0; 0;0;0;0;0;0] in
  In (1, WERet 0 0 1 4) (wh_trace WOrig s0 sched) /\
  wh_closed_at (wh_final WOrig s0 sched) 4 = Some 5 /\ 5 > 1 + 0 + 1.
Proof. exact wh_orig_refuted. Qed.
Print Assumptions wheel_orig_refuted.

(* non-vacuity: n = 3; a request for 1 step (index 0) whose re-validation fails once because a
   tick advanced position between its two loads, and a request for 2 steps (index 1) that
   overlaps a tick; both windows are met, tick 1 and 2 completed *)
Example c03_nonvacuous :
  let s0 := wh_init 3600000000000 3 3 [[WhNew 3600000000000%Z]; [WAfter 7200000000000%Z]] in
  let sched := [1;1;1; 0;0;0;0; 1;1;1;1; 2;2; 0;0; 2;2; 0;0;0;0;0;0] in
  wh_cfg_ok 3600000000000 3 /\
  nth_error (wh_trace WFixed s0 sched) 10 = Some (1, WERet 0 0 1 1) /\
  nth_error (wh_trace WFixed s0 sched) 16 = Some (2, WERet 1 0 1 2) /\
  wh_closed_at (wh_final WFixed s0 sched) 1 = Some 2 /\
  wh_closed_at (wh_final WFixed s0 sched) 2 = None /\
  wh_nclosed (wh_final WFixed s0 sched) = 2.
Proof. unfold wh_cfg_ok. vm_compute. repeat split; try discriminate; lia. Qed.
