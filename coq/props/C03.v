(* C03 -- provisional *)
From Got Require Import Base Wheel WheelProofs.
Local Open Scope Z_scope.

Theorem wheel_time_window :
  forall s n d i k r,
    0 < s -> s * Z.of_nat n < 2 ^ 63 ->
    wh_bucket_index s n d = Some i ->
    k * s <= r < (k + 1) * s ->
    let D := Z.max (s * (d / s)) s in
    let f := k + Z.of_nat i + 1 in
    D - s < f * s - r <= D.
Proof. exact wh_time_window. Qed.
Print Assumptions wheel_time_window.
