(* C09 -- taskx.Queue hands tasks over in send order and Get returns the handler's result.
   Only property theorems (full statements), each closed by [exact] of a lemma proved in
   proofs/TaskQueueProofs.v, and Print Assumptions.

   Model: models/TaskQueue.v.  Quantification: every queue size [cap], every number of
   producers and every program of SendCallback / SendTask calls per producer ([progs], incl.
   nil handlers and nil tasks), every schedule [sched] (list of steps: a producer's next call,
   a consumer receive admitting ANY of the blocked senders, Store, Done, Close at any
   position; the select choice when both branches are ready is part of the step) -- unbounded,
   induction over the schedule.  The consumer executes each received task once (Recv; Store;
   Done).  A task is identified by (producer, index of the call in the producer's program).
   The Get theorems additionally quantify over schedules [gs] that start Get2 waiter goroutines
   on any handle at any position ([tq_gstep]). *)
From Got Require Import Base TaskQueue TaskQueueProofs.
Require Import Sorted.
Local Open Scope nat_scope.

(* FIFO hand-over and exactly once: the tasks that entered the channel are, in order, the
   received tasks followed by the buffered ones; no task id occurs twice on the channel *)
Theorem tq_exactly_once :
  forall cap progs sched,
    let s := tq_final (tq_init cap progs) sched in
    tq_entered s = tq_received s ++ tq_buf s /\ NoDup (map tq_id (tq_entered s)) /\
    NoDup (map tq_id (tq_received s)).
Proof. exact tq_exactly_once_l. Qed.
Print Assumptions tq_exactly_once.

(* per-producer order: the received tasks of producer i are a prefix of its tasks on the
   channel, in strictly increasing call index (send order); while the queue is open they are
   a prefix of ALL its real sends in program order (none skipped) *)
Theorem tq_per_producer_order :
  forall cap progs sched i,
    let s := tq_final (tq_init cap progs) sched in
    (exists rest, tq_ids_of i (tq_entered s) = tq_ids_of i (tq_received s) ++ rest) /\
    StronglySorted lt (map snd (tq_ids_of i (tq_received s))) /\
    (tq_closed s = false ->
     exists rest, tq_sends_from i 0 (nth i progs []) = tq_ids_of i (tq_received s) ++ rest).
Proof. exact tq_per_producer_order_l. Qed.
Print Assumptions tq_per_producer_order.

(* none dropped while open: the send calls of producer i that have returned a task are
   exactly (in order) its tasks received so far or still in the buffer *)
Theorem tq_none_dropped_while_open :
  forall cap progs sched i p,
    let s := tq_final (tq_init cap progs) sched in
    tq_closed s = false -> nth_error (tq_prods s) i = Some p ->
    tq_ret_ids (tq_rets p) = tq_ids_of i (tq_received s ++ tq_buf s).
Proof. exact tq_none_dropped_l. Qed.
Print Assumptions tq_none_dropped_while_open.

(* after Close no producer is blocked, and a producer's call step is always enabled and
   returns (never blocks) -- whatever the buffer holds, full or not *)
Theorem tq_send_after_close_never_blocks :
  forall cap progs sched,
    let s := tq_final (tq_init cap progs) sched in
    tq_closed s = true ->
    (forall i p, nth_error (tq_prods s) i = Some p -> tq_ppc_of p = TqPIdle) /\
    (forall i c p, nth_error (tq_prods s) i = Some p -> tq_prog p <> [] ->
       let '(s', e) := tq_step s (TqProd i c) in
       e <> TqENone /\ (forall j t, e <> TqEBlocked j t) /\ tq_prod_idle s' i = true /\ tq_closed s' = true).
Proof. exact tq_after_close_l. Qed.
Print Assumptions tq_send_after_close_never_blocks.

(* SendCallback(nil): in ANY state (full, closed, ...) the call returns taskEmpty at once
   without touching the channel, and Get2 of taskEmpty is (nil, nil) immediately *)
Theorem tq_nil_handler_empty :
  forall s i c p rest,
    nth_error (tq_prods s) i = Some p -> tq_ppc_of p = TqPIdle -> tq_prog p = TqCallback None :: rest ->
    exists s', tq_step s (TqProd i c) = (s', TqERetEmpty i) /\
      tq_buf s' = tq_buf s /\ tq_sendq s' = tq_sendq s /\ tq_entered s' = tq_entered s /\ tq_cbs s' = tq_cbs s /\
      tq_prods s' = tq_set_prod (tq_prods s) i (tq_ret_prod p rest TqPIdle [TqHEmpty]) /\
      (forall s'', tq_get2 s'' TqHEmpty = Some (0%Z, 0%Z)).
Proof. exact tq_nil_handler_l. Qed.
Print Assumptions tq_nil_handler_empty.

(* Get1/Get2 of a callback task block until the consumer has executed it and then return
   exactly what the handler returned.  For the task of call j of producer i, whose PROGRAM
   says SendCallback(handler returning h): in the state after ANY schedule, Get2 is blocked
   (None) iff the trace so far contains no Done step of task (i, j), and otherwise returns h --
   the pair the program gave to that very call (not a neighbour's, not the zero value).  As
   the statement holds after every schedule it holds after every prefix and every extension:
   Get is blocked at every instant before the Done step, returns h immediately after it, and
   keeps returning h for ever (a later Store of another task, a Close, further sends do not
   change it).  Get1 is the first component. *)
Theorem tq_get_returns_handler_result :
  forall cap progs sched i j h,
    nth_error (nth i progs []) j = Some (TqCallback (Some h)) ->
    let s := tq_final (tq_init cap progs) sched in
    let done := tq_done_in (tq_trace (tq_init cap progs) sched) (i, j) in
    tq_get2 s (TqHTask (i, j)) = (if done then Some h else None) /\
    tq_get1 s (TqHTask (i, j)) = (if done then Some (fst h) else None).
Proof. exact tq_get_full2_l. Qed.
Print Assumptions tq_get_returns_handler_result.

(* the handle: what call j of producer i returned to its caller (the j-th entry of the
   producer's returns) is the handle of call j of ITS program -- TqHTask (i, j) for a real
   SendCallback/SendTask, taskEmpty for a nil handler, nil for a nil task.  So "Get2 of what
   SendCallback(handler) returned" is [tq_get2 s (TqHTask (i, j))] of the theorem above. *)
Theorem tq_call_returns_own_handle :
  forall cap progs sched i p j hd,
    let s := tq_final (tq_init cap progs) sched in
    nth_error (tq_prods s) i = Some p -> nth_error (tq_rets p) j = Some hd ->
    exists op, nth_error (nth i progs []) j = Some op /\ hd = tq_handle_of i j op.
Proof. exact tq_ret_handle_l. Qed.
Print Assumptions tq_call_returns_own_handle.

(* Get2 as goroutines (models/TaskQueue.v, tq_gstep): a schedule may start a Get2 waiter on
   any handle at any position; a waiter returns at once iff its task is done, otherwise it
   parks in wg.Wait(); only the wg.Done() inside the Done step of that taskCallback releases
   parked waiters (all of them, in that step).  For every such schedule [gs] (waiters never
   influence the queue: its state and trace are those of the queue's own sub-schedule) EVERY
   waiter on the task of call (i, j) is parked iff the Done step of (i, j) has not happened and
   otherwise has returned the program's pair h.  Instantiated at the prefixes of [gs]: a waiter
   started before the Done step is parked at every instant up to it and is released by exactly
   that step (no lost wake-up, no early release, whatever the number of waiters); a waiter
   started after it returns at once; both return h. *)
Theorem tq_get_waiters_released_by_done :
  forall cap progs gs i j h,
    nth_error (nth i progs []) j = Some (TqCallback (Some h)) ->
    let g := tq_gfinal (tq_ginit cap progs) gs in
    let done := tq_done_in (tq_gbase_trace (tq_gtrace (tq_ginit cap progs) gs)) (i, j) in
    tq_base g = tq_final (tq_init cap progs) (tq_gbase_sched gs) /\
    tq_gbase_trace (tq_gtrace (tq_ginit cap progs) gs) = tq_trace (tq_init cap progs) (tq_gbase_sched gs) /\
    forall w, In w (tq_waiters g) -> tq_w_on w = TqHTask (i, j) ->
      tq_w_ret w = if done then Some h else None.
Proof. exact tq_get_waiters_l. Qed.
Print Assumptions tq_get_waiters_released_by_done.

(* waiter number k is the same goroutine in every extension of a run: same handle, and a pair
   it has returned never changes *)
Theorem tq_waiter_identity_stable :
  forall gs g k w, nth_error (tq_waiters g) k = Some w ->
    exists w', nth_error (tq_waiters (tq_gfinal g gs)) k = Some w' /\ tq_w_on w' = tq_w_on w /\
               (forall p, tq_w_ret w = Some p -> tq_w_ret w' = Some p).
Proof. exact tq_waiter_stable_l. Qed.
Print Assumptions tq_waiter_identity_stable.

(* the [released] list reported by a step names exactly the waiters that this step took from
   parked to returned, with the pair they return *)
Theorem tq_release_events_exact :
  forall g b g' e rel, tq_gstep g (TqGBase b) = (g', TqGEBase e rel) ->
    forall k p, In (k, p) rel <->
      exists o w, nth_error (tq_waiters g) k = Some o /\ nth_error (tq_waiters g') k = Some w /\
                  tq_w_ret o = None /\ tq_w_ret w = Some p.
Proof. exact tq_gstep_released_l. Qed.
Print Assumptions tq_release_events_exact.

(* the safety half in terms of the received tasks (kept): whenever Get2 of a task returns, the
   task has been received, its execution is complete (it is not the task the consumer is
   executing), and the pair is that task's handler's pair *)
Theorem tq_get_returns_handler_result_partial :
  forall cap progs sched id pr,
    let s := tq_final (tq_init cap progs) sched in
    tq_get2 s (TqHTask id) = Some pr ->
    exists t, In t (tq_received s) /\ tq_id t = id /\ tq_handler t = pr /\ tq_cons_task s <> Some t.
Proof. exact tq_get_partial_l. Qed.
Print Assumptions tq_get_returns_handler_result_partial.

(* non-vacuity: size 1, two producers; producer 1 blocks on the full queue, is admitted by the
   receive, a nil handler, Close, a send after Close is skipped; Get2 of task (0,0) is blocked
   before its Done and returns the handler's pair (5,0) after *)
Definition c09_progs : list (list tq_op) :=
  [[TqCallback (Some (5, 0)%Z); TqCallback None; TqCallback (Some (1, 1)%Z)]; [TqCallback (Some (7, 2)%Z); TqTask None]].
Definition c09_sched : list tq_act :=
  [TqProd 0 true; TqProd 1 true; TqProd 0 true; TqRecv 0; TqProd 1 true; TqStore; TqDone; TqClose; TqProd 0 false].

Example c09_nonvacuous :
  let s0 := tq_init 1 c09_progs in
  tq_trace s0 c09_sched =
    [TqESent 0 {| tq_id := (0, 0); tq_kind_of := TqKCallback; tq_handler := (5, 0)%Z |};
     TqEBlocked 1 {| tq_id := (1, 0); tq_kind_of := TqKCallback; tq_handler := (7, 2)%Z |};
     TqERetEmpty 0;
     TqERecv {| tq_id := (0, 0); tq_kind_of := TqKCallback; tq_handler := (5, 0)%Z |}
             (Some (1, {| tq_id := (1, 0); tq_kind_of := TqKCallback; tq_handler := (7, 2)%Z |}));
     TqERetNil 1;
     TqEStore {| tq_id := (0, 0); tq_kind_of := TqKCallback; tq_handler := (5, 0)%Z |};
     TqEDone {| tq_id := (0, 0); tq_kind_of := TqKCallback; tq_handler := (5, 0)%Z |};
     TqEClose [];
     TqESkipped 0 {| tq_id := (0, 2); tq_kind_of := TqKCallback; tq_handler := (1, 1)%Z |}] /\
  tq_get2 (tq_final s0 (firstn 6 c09_sched)) (TqHTask (0, 0)) = None /\
  tq_get2 (tq_final s0 c09_sched) (TqHTask (0, 0)) = Some (5, 0)%Z /\
  tq_closed (tq_final s0 c09_sched) = true.
Proof. vm_compute. repeat split. Qed.

(* non-vacuity of the Get theorems: size 2, one producer sends two callbacks with DIFFERENT
   handlers (5,0) and (1,1).  Waiter 0 starts on task (0,0) before it is executed and parks;
   waiter 1 parks on task (0,1) while (0,0) is being executed; the Done step of (0,0) releases
   exactly waiter 0 with (5,0) (waiter 1 stays parked); waiter 2 starts on (0,0) after its
   Done and returns (5,0) at once; the Done step of (0,1) releases waiter 1 with (1,1). *)
Definition c09_gprogs : list (list tq_op) := [[TqCallback (Some (5, 0)%Z); TqCallback (Some (1, 1)%Z)]].
Definition c09_gsched : list tq_gact :=
  [TqGBase (TqProd 0 true); TqGBase (TqProd 0 true); TqGGet (TqHTask (0, 0));
   TqGBase (TqRecv 0); TqGBase TqStore; TqGGet (TqHTask (0, 1)); TqGBase TqDone;
   TqGGet (TqHTask (0, 0)); TqGBase (TqRecv 0); TqGBase TqStore; TqGBase TqDone].

Example c09_get_nonvacuous :
  let g0 := tq_ginit 2 c09_gprogs in
  let t0 := {| tq_id := (0, 0); tq_kind_of := TqKCallback; tq_handler := (5, 0)%Z |} in
  let t1 := {| tq_id := (0, 1); tq_kind_of := TqKCallback; tq_handler := (1, 1)%Z |} in
  tq_gtrace g0 c09_gsched =
    [TqGEBase (TqESent 0 t0) []; TqGEBase (TqESent 0 t1) []; TqGEPark 0;
     TqGEBase (TqERecv t0 None) []; TqGEBase (TqEStore t0) []; TqGEPark 1;
     TqGEBase (TqEDone t0) [(0, (5, 0)%Z)];
     TqGERet 2 (5, 0)%Z;
     TqGEBase (TqERecv t1 None) []; TqGEBase (TqEStore t1) [];
     TqGEBase (TqEDone t1) [(1, (1, 1)%Z)]] /\
  (* before the Done step of (0,0): everybody parked, Get2 blocked *)
  map tq_w_ret (tq_waiters (tq_gfinal g0 (firstn 6 c09_gsched))) = [None; None] /\
  tq_get2 (tq_base (tq_gfinal g0 (firstn 6 c09_gsched))) (TqHTask (0, 0)) = None /\
  (* right after it *)
  map tq_w_ret (tq_waiters (tq_gfinal g0 (firstn 7 c09_gsched))) = [Some (5, 0)%Z; None] /\
  tq_get2 (tq_base (tq_gfinal g0 (firstn 7 c09_gsched))) (TqHTask (0, 0)) = Some (5, 0)%Z /\
  tq_get2 (tq_base (tq_gfinal g0 (firstn 7 c09_gsched))) (TqHTask (0, 1)) = None /\
  (* at the end: each task its own pair, for ever *)
  map tq_w_ret (tq_waiters (tq_gfinal g0 c09_gsched)) = [Some (5, 0)%Z; Some (1, 1)%Z; Some (5, 0)%Z] /\
  tq_get1 (tq_base (tq_gfinal g0 c09_gsched)) (TqHTask (0, 1)) = Some 1%Z /\
  (* the hypothesis of the theorems is met by both calls *)
  nth_error (nth 0 c09_gprogs []) 0 = Some (TqCallback (Some (5, 0)%Z)) /\
  nth_error (nth 0 c09_gprogs []) 1 = Some (TqCallback (Some (1, 1)%Z)).
Proof. vm_compute. repeat split. Qed.
