(* C09 -- taskx.Queue hands tasks over in send order and Get returns the handler's result.
   Only property theorems (full statements), each closed by [exact] of a lemma proved in
   proofs/TaskQueueProofs.v, and Print Assumptions.

   Model: models/TaskQueue.v.  Quantification: every queue size [cap], every number of
   producers and every program of SendCallback / SendTask calls per producer ([progs], incl.
   nil handlers and nil tasks), every schedule [sched] (list of steps: a producer's next call,
   a consumer receive admitting ANY of the blocked senders, Store, Done, Close at any
   position; the select choice when both branches are ready is part of the step) -- unbounded,
   induction over the schedule.  The consumer executes each received task once (Recv; Store;
   Done).  A task is identified by (producer, index of the call in the producer's program). *)
From Got Require Import Base TaskQueue TaskQueueProofs.
Require Import Sorted.
Local Open Scope nat_scope.

(* FIFO hand-over and exactly once: the tasks that entered the channel are, in order, the
   received tasks followed by the buffered ones; no task id occurs twice on the channel *)
Theorem tq_exactly_once :
  forall cap progs sched,
    let s := tq_final (tq_init cap progs) sched in
    tq_entered s = tq_received s ++ tq_buf s /\ NoDup (map tq_id (tq_entered s)) /\
    NoDup (map tq_id (tq_received s)).
Proof. exact tq_exactly_once_l. Qed.
Print Assumptions tq_exactly_once.

(* per-producer order: the received tasks of producer i are a prefix of its tasks on the
   channel, in strictly increasing call index (send order); while the queue is open they are
   a prefix of ALL its real sends in program order (none skipped) *)
Theorem tq_per_producer_order :
  forall cap progs sched i,
    let s := tq_final (tq_init cap progs) sched in
    (exists rest, tq_ids_of i (tq_entered s) = tq_ids_of i (tq_received s) ++ rest) /\
    StronglySorted lt (map snd (tq_ids_of i (tq_received s))) /\
    (tq_closed s = false ->
     exists rest, tq_sends_from i 0 (nth i progs []) = tq_ids_of i (tq_received s) ++ rest).
Proof. exact tq_per_producer_order_l. Qed.
Print Assumptions tq_per_producer_order.

(* none dropped while open: the send calls of producer i that have returned a task are
   exactly (in order) its tasks received so far or still in the buffer *)
Theorem tq_none_dropped_while_open :
  forall cap progs sched i p,
    let s := tq_final (tq_init cap progs) sched in
    tq_closed s = false -> nth_error (tq_prods s) i = Some p ->
    tq_ret_ids (tq_rets p) = tq_ids_of i (tq_received s ++ tq_buf s).
Proof. exact tq_none_dropped_l. Qed.
Print Assumptions tq_none_dropped_while_open.

(* after Close no producer is blocked, and a producer's call step is always enabled and
   returns (never blocks) -- whatever the buffer holds, full or not *)
Theorem tq_send_after_close_never_blocks :
  forall cap progs sched,
    let s := tq_final (tq_init cap progs) sched in
    tq_closed s = true ->
    (forall i p, nth_error (tq_prods s) i = Some p -> tq_ppc_of p = TqPIdle) /\
    (forall i c p, nth_error (tq_prods s) i = Some p -> tq_prog p <> [] ->
       let '(s', e) := tq_step s (TqProd i c) in
       e <> TqENone /\ (forall j t, e <> TqEBlocked j t) /\ tq_prod_idle s' i = true /\ tq_closed s' = true).
Proof. exact tq_after_close_l. Qed.
Print Assumptions tq_send_after_close_never_blocks.

(* SendCallback(nil): in ANY state (full, closed, ...) the call returns taskEmpty at once
   without touching the channel, and Get2 of taskEmpty is (nil, nil) immediately *)
Theorem tq_nil_handler_empty :
  forall s i c p rest,
    nth_error (tq_prods s) i = Some p -> tq_ppc_of p = TqPIdle -> tq_prog p = TqCallback None :: rest ->
    exists s', tq_step s (TqProd i c) = (s', TqERetEmpty i) /\
      tq_buf s' = tq_buf s /\ tq_sendq s' = tq_sendq s /\ tq_entered s' = tq_entered s /\ tq_cbs s' = tq_cbs s /\
      tq_prods s' = tq_set_prod (tq_prods s) i (tq_ret_prod p rest TqPIdle [TqHEmpty]) /\
      (forall s'', tq_get2 s'' TqHEmpty = Some (0%Z, 0%Z)).
Proof. exact tq_nil_handler_l. Qed.
Print Assumptions tq_nil_handler_empty.

(* FULL STATEMENT (not proved as one theorem):
     tq_get_returns_handler_result : forall cap progs sched i j h,
       nth_error (nth i progs []) j = Some (TqCallback (Some h)) ->
       tq_get2 (tq_final (tq_init cap progs) sched) (TqHTask (i, j))
         = if tq_done_in (tq_trace (tq_init cap progs) sched) (i, j) then Some h else None.
   PROVED (the safety half): whenever Get2 of a task returns, the task has been received and
   its execution is complete (it is not the task the consumer is executing), and the pair is
   exactly the pair of that task's handler; by tq_exactly_once that task is the only one with
   this id.  MISSING: the converse (the Done step releases the getter -- checked on every run
   by the correspondence: model replay of Get return instants + monitor get-stuck/get-time),
   the link task handler = handler of call j in the program (by construction in tq_step_prod),
   and stability in Coq form (the statement holds for every schedule, hence every extension). *)
Theorem tq_get_returns_handler_result_partial :
  forall cap progs sched id pr,
    let s := tq_final (tq_init cap progs) sched in
    tq_get2 s (TqHTask id) = Some pr ->
    exists t, In t (tq_received s) /\ tq_id t = id /\ tq_handler t = pr /\ tq_cons_task s <> Some t.
Proof. exact tq_get_partial_l. Qed.
Print Assumptions tq_get_returns_handler_result_partial.

(* non-vacuity: size 1, two producers; producer 1 blocks on the full queue, is admitted by the
   receive, a nil handler, Close, a send after Close is skipped; Get2 of task (0,0) is blocked
   before its Done and returns the handler's pair (5,0) after *)
Definition c09_progs : list (list tq_op) :=
  [[TqCallback (Some (5, 0)%Z); TqCallback None; TqCallback (Some (1, 1)%Z)]; [TqCallback (Some (7, 2)%Z); TqTask None]].
Definition c09_sched : list tq_act :=
  [TqProd 0 true; TqProd 1 true; TqProd 0 true; TqRecv 0; TqProd 1 true; TqStore; TqDone; TqClose; TqProd 0 false].

Example c09_nonvacuous :
  let s0 := tq_init 1 c09_progs in
  tq_trace s0 c09_sched =
    [TqESent 0 {| tq_id := (0, 0); tq_kind_of := TqKCallback; tq_handler := (5, 0)%Z |};
     TqEBlocked 1 {| tq_id := (1, 0); tq_kind_of := TqKCallback; tq_handler := (7, 2)%Z |};
     TqERetEmpty 0;
     TqERecv {| tq_id := (0, 0); tq_kind_of := TqKCallback; tq_handler := (5, 0)%Z |}
             (Some (1, {| tq_id := (1, 0); tq_kind_of := TqKCallback; tq_handler := (7, 2)%Z |}));
     TqERetNil 1;
     TqEStore {| tq_id := (0, 0); tq_kind_of := TqKCallback; tq_handler := (5, 0)%Z |};
     TqEDone {| tq_id := (0, 0); tq_kind_of := TqKCallback; tq_handler := (5, 0)%Z |};
     TqEClose [];
     TqESkipped 0 {| tq_id := (0, 2); tq_kind_of := TqKCallback; tq_handler := (1, 1)%Z |}] /\
  tq_get2 (tq_final s0 (firstn 6 c09_sched)) (TqHTask (0, 0)) = None /\
  tq_get2 (tq_final s0 c09_sched) (TqHTask (0, 0)) = Some (5, 0)%Z /\
  tq_closed (tq_final s0 c09_sched) = true.
Proof. vm_compute. repeat split. Qed.
