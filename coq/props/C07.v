(* C07 -- ants: every accepted task completes once with a result matching its attempts.
   Only the property theorems (full statements), each closed by [exact] of a lemma proved in
   proofs/AntsProofs.v, and Print Assumptions.  Model: models/Ants.v (event machine of the
   pool; the log fields at_inv / at_ret / at_dec / at_onerr / at_rel / at_get2 of a task are
   ghost observations, newest first).  All theorems: every pool size N, every task options
   (T > 0, R > 0 as createTaskOptions guarantees), every scripted handler behaviour, every
   event history the machine accepts -- including both orders of a handler-return/deadline
   tie (the [saw] input of AnReturn and the [viaDone] input of AnDecide) -- with or without
   the maximal-progress restriction on the clock.  [an_fixed cfg] selects the code in /repo
   now (per-attempt result channel, fix d4c0a4b).
   Event histories include [AnParentCancel]: the pool was built with WithContextBuilder and the
   dispatchers' (shared) parent context is cancelled at that point of the history; from then on
   every attempt's ctx1 is done at creation, the dispatcher's select may take the ctx1.Done()
   branch at once ([AnDecide k false] is enabled), a callback's ctx1.Done() test succeeds
   ([saw] = true is forced), an honouring handler returns (nil, context.Canceled).  All theorems
   below are proved for those histories too (same statements: "timed out" = the attempt's context
   was done, the stored error is context.DeadlineExceeded in that case as well);
   [ants_cancelled_parent_outcome] adds what is specific to them. *)
From Got Require Import Base Ants AntsProofs AntsCancelProofs AntsGetters AntsGettersProofs.
Local Open Scope Z_scope.

(* <= R handler invocations per task, each for a distinct attempt number in [1, R]; when the
   handler of attempt a+1 has been invoked, attempt a has already been decided with a
   non-nil error (handler error or DeadlineExceeded).  (The logs only grow, and the
   statement holds in every reachable state, in particular right after the AnStart event of
   attempt a+1: the decision of attempt a precedes that start.) *)
Theorem ants_attempts_bounded :
  forall cfg evs s k,
    an_fixed cfg -> an_run cfg an_init evs = Some s ->
    let t := an_tk s k in
    (length (at_inv t) <= ao_R (at_opts t))%nat /\ NoDup (map fst (at_inv t)) /\
    (forall a, In a (map fst (at_inv t)) -> (1 <= a <= ao_R (at_opts t))%nat) /\
    (forall a, (1 <= a)%nat -> In (S a) (map fst (at_inv t)) ->
       exists p f, In (a, p, f) (at_dec t) /\ an_is_nil (snd p) = false).
Proof. exact ants_attempts_bounded_l. Qed.
Print Assumptions ants_attempts_bounded.

(* Once the WaitGroup is open: the decisions are those of attempts n, n-1, ..., 1; result/err
   and every Get2 read equal the pair p of the newest decision; p has a nil error or n = R;
   all earlier decisions have non-nil errors; and every decided pair is justified
   ([an_just]): it is (nil, DeadlineExceeded) or the pair the handler of that attempt
   returned no later than the attempt's deadline (a [at_ret] record with saw = false). *)
Theorem ants_result_matches :
  forall cfg evs s k,
    an_fixed cfg -> an_run cfg an_init evs = Some s -> at_phase (an_tk s k) = AnDone ->
    let t := an_tk s k in
    exists n p f rest,
      at_dec t = (n, p, f) :: rest /\ map an_attempt_of (at_dec t) = rev (seq 1 n) /\
      at_fields t = p /\ (forall g, In g (at_get2 t) -> fst g = p) /\
      (an_is_nil (snd p) = true \/ n = ao_R (at_opts t)) /\ (1 <= n <= ao_R (at_opts t))%nat /\
      (forall x, In x rest -> an_is_nil (snd (an_pair_of x)) = false) /\
      (forall a' p' f', In (a', p', f') (at_dec t) -> an_just t a' p').
Proof. exact ants_result_matches_l. Qed.
Print Assumptions ants_result_matches.

(* wg.Done() runs at most once; when it has run (phase AnDone) it ran at the instant f of the
   final decision, the error callback (if any) ran at that same step, and every Get2 read is
   later; before that no Get2 read exists (Get2 blocks). *)
Theorem ants_get2_once :
  forall cfg evs s k,
    an_fixed cfg -> an_run cfg an_init evs = Some s ->
    let t := an_tk s k in
    (length (at_rel t) <= 1)%nat /\
    (at_phase t = AnDone ->
       exists n p f rest, at_dec t = (n, p, f) :: rest /\ at_rel t = [f] /\ f <= an_now s /\
                          (forall e x, In (e, x) (at_onerr t) -> x = f) /\ (forall g, In g (at_get2 t) -> f <= snd g)) /\
    (at_phase t <> AnDone -> at_rel t = [] /\ (at_phase t <> AnDiscarded -> at_get2 t = [])).
Proof. exact ants_get2_once_l. Qed.
Print Assumptions ants_get2_once.

(* the error callback ran exactly once iff the final error is non-nil (and a callback was
   registered), with that error; for a discarded task once with errDiscard; never before. *)
Theorem ants_onerror_iff :
  forall cfg evs s k,
    an_fixed cfg -> an_run cfg an_init evs = Some s ->
    let t := an_tk s k in
    match at_phase t with
    | AnDone => exists f, at_rel t = [f] /\
                  at_onerr t = (if negb (an_is_nil (snd (at_fields t))) && ao_onerr (at_opts t) then [(snd (at_fields t), f)] else [])
    | AnDiscarded => at_onerr t = (if ao_onerr (at_opts t) then [(AnDiscard, at_sent t)] else [])
    | _ => at_onerr t = []
    end.
Proof. exact ants_onerror_iff_l. Qed.
Print Assumptions ants_onerror_iff.

(* a task rejected as busy: Get2 = (nil, errDiscard), callback got errDiscard at the Send
   instant, the handler never ran, no callback of it is queued, it is in no queue. *)
Theorem ants_discard :
  forall cfg evs s k,
    an_fixed cfg -> an_run cfg an_init evs = Some s -> at_phase (an_tk s k) = AnDiscarded ->
    let t := an_tk s k in
    ao_discard (at_opts t) = true /\ at_fields t = (None, AnDiscard) /\
    (forall g, In g (at_get2 t) -> fst g = (None, AnDiscard)) /\
    at_onerr t = (if ao_onerr (at_opts t) then [(AnDiscard, at_sent t)] else []) /\
    at_inv t = [] /\ at_dec t = [] /\ at_rel t = [] /\
    (forall a d, ~ In (k, a, d) (an_ichan s)) /\ ~ In k (an_tchan s ++ an_sendq s).
Proof. exact ants_discard_l. Qed.
Print Assumptions ants_discard.

(* >= 1 invocation: every attempt whose callback was enqueued ([an_enq] counts them; >= 1 for a
   completed task) is still waiting in the inner channel or its handler has been invoked --
   callbacks are never dropped; and the head callback can start as soon as an inner worker is
   free (under maximal progress the clock cannot advance before it does). *)
Theorem ants_eventually_invoked :
  forall cfg evs s,
    an_fixed cfg -> an_run cfg an_init evs = Some s ->
    (forall k a, (1 <= a <= an_enq (an_tk s k))%nat -> (exists d, In (k, a, d) (an_ichan s)) \/ In a (map fst (at_inv (an_tk s k)))) /\
    (forall k, at_phase (an_tk s k) = AnDone -> (1 <= an_enq (an_tk s k))%nat) /\
    (forall k a d rest, an_ichan s = (k, a, d) :: rest -> (length (an_workers s) < an_N cfg)%nat ->
       an_step cfg s (AnStart k a) <> None /\
       (an_urg cfg = true -> forall dt, 0 < dt -> an_step cfg s (AnAdvance dt) = None)).
Proof. exact ants_eventually_invoked_l. Qed.
Print Assumptions ants_eventually_invoked.

(* Cancelled parent context.  A task picked up strictly after the instant q at which the dispatchers'
   parent context was cancelled, once run() has returned: exactly R attempts were decided (numbers
   R, ..., 1), every one with (nil, DeadlineExceeded); result/err and every Get2 read are (nil,
   DeadlineExceeded); wg.Done() ran once, at f, and the error callback (if registered) ran exactly once,
   at f, with DeadlineExceeded; every one of the R attempts has had its handler invoked or its
   callback is still waiting in innerCallbackChan (none is skipped).  (Tasks in flight at the
   instant of the cancellation are covered by the general theorems above.) *)
Theorem ants_cancelled_parent_outcome :
  forall cfg evs s k q,
    an_fixed cfg -> an_run cfg an_init evs = Some s ->
    an_pc s = Some q -> q < at_pickup (an_tk s k) -> at_phase (an_tk s k) = AnDone ->
    let t := an_tk s k in
    map an_attempt_of (at_dec t) = rev (seq 1 (ao_R (at_opts t))) /\
    (forall a p f, In (a, p, f) (at_dec t) -> p = (None, AnDeadline)) /\
    at_fields t = (None, AnDeadline) /\
    (forall g, In g (at_get2 t) -> fst g = (None, AnDeadline)) /\
    (exists f, at_rel t = [f] /\ at_onerr t = (if ao_onerr (at_opts t) then [(AnDeadline, f)] else [])) /\
    (forall a, (1 <= a <= ao_R (at_opts t))%nat -> (exists d, In (k, a, d) (an_ichan s)) \/ In a (map fst (at_inv t))).
Proof. exact ants_cancelled_parent_outcome_l. Qed.
Print Assumptions ants_cancelled_parent_outcome.

(* after the cancellation at q: q <= now, and the context of every queued callback and of every
   running handler was done by q (the deadline stored with it is <= q) *)
Theorem ants_cancelled_parent_contexts_done :
  forall cfg evs s q,
    an_run cfg an_init evs = Some s -> an_pc s = Some q ->
    q <= an_now s /\
    (forall k a d, In (k, a, d) (an_ichan s) -> d <= q) /\
    (forall k a d r p, In (AnRun k a d r p) (an_workers s) -> d <= q).
Proof. exact ants_cancelled_parent_contexts_done_l. Qed.
Print Assumptions ants_cancelled_parent_contexts_done.

(* The code before the fix (shared-field store by the inner callback): a history after which
   Get2 reports attempt 1's (7, nil) although the only decision was (nil, DeadlineExceeded)
   and onError(DeadlineExceeded) ran; the same history on the current code gives (nil,
   DeadlineExceeded). *)
Theorem ants_orig_late_write_refuted :
  exists s, an_run an_orig_cfg an_init an_late_write_history = Some s /\
    at_phase (an_tk s 0%nat) = AnDone /\
    at_onerr (an_tk s 0%nat) = [(AnDeadline, 1000)] /\
    at_dec (an_tk s 0%nat) = [(1%nat, (None, AnDeadline), 1000)] /\
    at_get2 (an_tk s 0%nat) = [((Some 7, AnNil), 1000)] /\
    an_run {| an_N := 1; an_pub := AnAttemptChannel; an_urg := true |} an_init an_late_write_history <> None /\
    option_map (fun s => at_get2 (an_tk s 0%nat))
      (an_run {| an_N := 1; an_pub := AnAttemptChannel; an_urg := true |} an_init an_late_write_history)
      = Some [((None, AnDeadline), 1000)].
Proof. exact ants_orig_late_write_refuted_l. Qed.
Print Assumptions ants_orig_late_write_refuted.

(* non-vacuity: a 3-task history (the K1 scenario) is accepted with maximal progress and ends
   with all three tasks completed, one of them after a retry-free timeout *)
Example c07_nonvacuous :
  exists s, an_run an_k1_cfg an_init an_k1_history = Some s /\ at_phase (an_tk s 2%nat) = AnDone /\
            an_fixed an_k1_cfg /\ at_pickup (an_tk s 2%nat) = 2016.
Proof.
  destruct ants_get2_bound_refuted_l as (s & H & H1 & _ & H2 & _). exists s. repeat split; assumption.
Qed.

(* non-vacuity for histories with a cancelled parent context (the scenario of the seeded change
   "return early when the dispatcher's ctx is done"): N = 1, T = 1000, R = 3, error callback registered;
   the handler of attempt 1 ignores its context and would return (7, nil) at 400; the parent is cancelled at
   200.  The history is accepted with maximal progress; attempts 1 and 2 are decided at 200, attempt 3 at
   400 (the dispatcher waited in sendInnerCallback for the busy inner worker), each with (nil,
   DeadlineExceeded); the error callback runs once at 400 with DeadlineExceeded; all three handlers are
   invoked (attempt 2's honouring handler returns (nil, Canceled) at once); without AnParentCancel the same
   script ends with (7, nil); after AnParentCancel the model refuses saw = false. *)
Example c07_cancelled_parent_nonvacuous :
  exists s, an_run an_pc_cfg an_init an_pc_history = Some s /\ an_fixed an_pc_cfg /\ an_pc s = Some 200 /\
    In AnParentCancel an_pc_history /\
    let t := an_tk s 0%nat in
    at_phase t = AnDone /\
    at_dec t = [(3%nat, (None, AnDeadline), 400); (2%nat, (None, AnDeadline), 200); (1%nat, (None, AnDeadline), 200)] /\
    at_onerr t = [(AnDeadline, 400)] /\ at_get2 t = [((None, AnDeadline), 400)] /\
    at_inv t = [(3%nat, 400); (2%nat, 400); (1%nat, 0)].
Proof.
  destruct ants_cancelled_parent_witness_l as (s & H1 & H2 & H3 & H4 & H5 & H6 & _ & H8 & H9 & _).
  exists s. repeat split; try assumption. vm_compute. tauto.
Qed.

(* ------------------------------------------------------------------------------------------------
   The STEP model (D20): coq/models/AntsSteps.v -- one step per yield site of ants/verif_on.go
   (Send's len test and enqueue, the two loops' selects, sendInnerCallback, the handler, the
   ctx1.Done() test, the send on the per-attempt channel, the dispatcher's select, the two stores,
   cancel, the read of err, the error callback, wg.Done, Get2's wg.Wait).  It is stepped against the
   real pool by the stream "dispatch-steps" (vlib/c07s.py): the pool's own loops run as logical
   threads of the cooperative scheduler on the virtual clock, and the schedule decides whether an
   attempt finishes in time or times out.  ast_reach md n progs s: s is the state after some schedule
   (list of (thread, choice for a select with two ready branches)) from the initial state with client
   programs progs, n dispatchers, n inner workers.

   Proved here for ALL pool sizes, programs, handler scripts, schedules and select choices:
   (a) ants_steps_task_single_holder: a task is held by at most one thread (the client about to enqueue
       it, or the one dispatcher running it), and is then not in the task channel as well;
   (b) ants_steps_only_dispatcher_writes: a step changes result/err of task t only if the stepping
       thread is parked before one of the two stores of runTaskOnce for t -- with (a): only the
       dispatcher running a task writes its result/err;
   (c) ants_steps_attempt_channel_le1, ants_steps_inner_send_never_blocks: the per-attempt channel never
       holds more than one message and the inner worker's send on it is never blocked;
   (d) ants_steps_orig_late_write_refuted: on the code before d4c0a4b a concrete schedule ends with
       Get2 having returned (nil, DeadlineExceeded), the error callback having run, and the fields
       then overwritten with attempt 1's (7, nil); the same schedule on the fixed model keeps the
       last decision.
   NOT proved on the step model (the statements hold on every run of the dispatch-steps stream, where
   the monitors of vlib/c07s.py restate them, and on the event machine Ants.v above):
     ants_steps_attempts_sequential_bounded (att_natt <= retry; attempt i+1 is created by the step that
       read the failed decision of attempt i), ants_steps_result_matches (at wg.Done the fields hold
       the last element of att_decided, which is the first decision with err = 0 or the retry-th one,
       and each decision is (nil, DeadlineExceeded) or the pair its handler returned),
     ants_steps_get2_after_decision (Get2 returns only in a state with att_done = true, after the last
       store and the error callback) -- only its first half is immediate from the step function (the
       AstGetWait step is blocked unless att_done). *)
From Got Require Import AntsSteps AntsStepsProofs RaceAnts RaceAntsProofs.

Theorem ants_steps_task_single_holder :
  forall md n progs s i j pci pcj t,
    ast_reach md n progs s ->
    ast_pc_of s i = Some pci -> ast_pc_task pci = Some t ->
    ast_pc_of s j = Some pcj -> ast_pc_task pcj = Some t -> i = j.
Proof. exact ast_steps_task_single_holder. Qed.
Print Assumptions ants_steps_task_single_holder.

Theorem ants_steps_held_task_not_queued :
  forall md n progs s i pci t,
    ast_reach md n progs s -> ast_pc_of s i = Some pci -> ast_pc_task pci = Some t -> ~ In t (ast_tchan s).
Proof. exact ast_steps_task_not_queued. Qed.
Print Assumptions ants_steps_held_task_not_queued.

Theorem ants_steps_only_dispatcher_writes :
  forall n progs s tid hint th t x x',
    ast_reach AstFixed n progs s ->
    nth_error (ast_thr s) tid = Some th ->
    nth_error (ast_tasks s) t = Some x ->
    nth_error (ast_tasks (fst (fst (ast_step AstFixed n s tid hint)))) t = Some x' ->
    (att_res x', att_err x') <> (att_res x, att_err x) ->
    (exists a i v e, ath_pc th = AstDStoreRes t a i v e) \/ (exists a i, ath_pc th = AstDStoreTo t a i).
Proof. exact ast_steps_only_dispatcher_writes. Qed.
Print Assumptions ants_steps_only_dispatcher_writes.

Theorem ants_steps_attempt_channel_le1 :
  forall md n progs s a x,
    ast_reach md n progs s -> nth_error (ast_atts s) a = Some x -> (length (ata_chan x) <= 1)%nat.
Proof. exact ast_steps_attempt_chan_le1. Qed.
Print Assumptions ants_steps_attempt_channel_le1.

Theorem ants_steps_inner_send_never_blocks :
  forall md n progs s tid th a v e d,
    ast_reach md n progs s -> nth_error (ast_thr s) tid = Some th -> ath_pc th = AstISend a v e d ->
    ast_is_blocked md n s tid = false.
Proof. exact ast_steps_inner_send_never_blocks. Qed.
Print Assumptions ants_steps_inner_send_never_blocks.

(* (res, err, wg done, decisions of the dispatcher, error-callback arguments) of the one task of the scenario
   ra_lw_progs / ra_lw_sched (models/RaceAnts.v): ra_lw_final md = the state after the whole schedule;
   after 23 steps Get2 has returned, the last two steps are the inner callback that was parked after its ctx1.Done() test *)
Theorem ants_steps_orig_late_write_refuted :
  (ra_task_view (ra_lw_final AstOrig) = [(7, 0, true, [(0, -1); (0, -1)], [-1])] /\
   ra_task_view (ast_run AstOrig 1 (ast_init 1 ra_lw_progs) (firstn 23 ra_lw_sched)) = [(0, -1, true, [(0, -1); (0, -1)], [-1])]) /\
  ra_task_view (ra_lw_final AstFixed) = [(0, -1, true, [(0, -1); (0, -1)], [-1])].
Proof. exact (conj ra_orig_late_write ra_fixed_no_late_write). Qed.
Print Assumptions ants_steps_orig_late_write_refuted.

(* non-vacuity: the scenario is a reachable state of the step model in which a task went through two attempts *)
Example c07_steps_nonvacuous :
  ast_reach AstFixed 1 ra_lw_progs (ra_lw_final AstFixed) /\
  map att_natt (ast_tasks (ra_lw_final AstFixed)) = [2%nat] /\ ast_now (ra_lw_final AstFixed) = 2000.
Proof. split; [exists ra_lw_sched; unfold ra_lw_final; exact eq_refl|]. split; vm_compute; reflexivity. Qed.

(* ------------------------------------------------------------------------------------------------
   (D21) The statements listed above as "NOT proved on the step model" ARE NOW PROVED for every reachable state
   of the FIXED step model (all pool sizes, client programs, handler scripts, schedules, select choices), by
   induction over the schedule with the decision invariant ast_dinv of proofs/AntsStepsDecide.v (what the ghost
   fields att_natt / att_decided / att_onerr / att_done of a task look like at each pc of the dispatcher that
   holds it, while it waits in taskChan, and after wg.Done) and the counting invariant of
   proofs/AntsStepsCount.v / AntsStepsCountN.v (a callback in innerCallbackChan was not started; att_natt = number
   of attempt records of the task, att_started <= number of those whose handler was started).
   No ghost field was added to models/AntsSteps.v.  Values: err 0 = nil, -1 = context.DeadlineExceeded.
   R = aso_retry (att_opt x) is the EFFECTIVE retry count (createTaskOptions: default 1, WithRetry ignores
   counts <= 0), hence the hypothesis 1 <= R where the statement needs it (with R = 0 the model, like the code
   would, calls the error callback with a nil error). *)
From Got Require Import AntsStepsDecide AntsStepsOutcome AntsStepsCount AntsStepsCountN.

(* handler invocations of a task <= attempts created for it <= R; at most one attempt is undecided; attempt k+2
   exists only if the decision of attempt k+1 is stored and is a failure (err <> nil, a timeout included) *)
Theorem ants_steps_attempts_sequential_bounded :
  forall n progs s t x,
    ast_reach AstFixed n progs s -> nth_error (ast_tasks s) t = Some x ->
    (att_started x <= att_natt x)%nat /\ (att_natt x <= aso_retry (att_opt x))%nat /\
    (length (att_decided x) <= att_natt x <= S (length (att_decided x)))%nat /\
    (forall k v e, nth_error (att_decided x) k = Some (v, e) -> (S k < att_natt x)%nat -> e <> 0) /\
    (forall k, (S k < att_natt x)%nat -> exists v e, nth_error (att_decided x) k = Some (v, e) /\ e <> 0).
Proof.
  intros n progs s t x R Hx. split; [exact (ast_steps_started_le_attempts _ _ _ _ _ _ R Hx)|].
  exact (ast_steps_attempts_sequential_bounded n progs s t x R Hx).
Qed.
Print Assumptions ants_steps_attempts_sequential_bounded.

(* while attempt i (0-based) of task t is in flight -- its dispatcher is parked before sendInnerCallback's enqueue,
   before the select, or before one of the two stores -- exactly i decisions are stored, all failures, i+1 attempts
   exist, and neither the error callback nor wg.Done has run: attempt i+1 is created only by the step that read
   the failed decision of attempt i *)
Theorem ants_steps_attempt_in_flight :
  forall n progs s j pc t i x,
    ast_reach AstFixed n progs s -> ast_pc_of s j = Some pc ->
    (exists a, pc = AstDEnq t a i \/ pc = AstDSelect t a i \/ (exists v e, pc = AstDStoreRes t a i v e) \/ pc = AstDStoreTo t a i) ->
    nth_error (ast_tasks s) t = Some x ->
    att_natt x = S i /\ length (att_decided x) = i /\ Forall (fun p => snd p <> 0) (att_decided x) /\
    att_onerr x = [] /\ att_done x = false.
Proof.
  intros n progs s j pc t i x R Hj [a Hpc] Hx.
  apply (ast_steps_attempt_in_flight n progs s j pc t i x R Hj); [|exact Hx].
  destruct Hpc as [->|[->|[(v & e & ->)| ->]]]; reflexivity.
Qed.
Print Assumptions ants_steps_attempt_in_flight.

(* after wg.Done: result/err are the last stored decision; every earlier decision is a failure; the last one is the
   first success (err = nil) or the R-th decision; the error callback ran exactly once, with that err, iff
   err <> nil (and a callback is set) *)
Theorem ants_steps_result_matches :
  forall n progs s t x,
    ast_reach AstFixed n progs s -> nth_error (ast_tasks s) t = Some x -> att_done x = true ->
    (1 <= aso_retry (att_opt x))%nat ->
    length (att_decided x) = att_natt x /\ (1 <= length (att_decided x) <= aso_retry (att_opt x))%nat /\
    (att_res x, att_err x) = last (att_decided x) (0, 0) /\
    Forall (fun p => snd p <> 0) (removelast (att_decided x)) /\
    (att_err x = 0 \/ length (att_decided x) = aso_retry (att_opt x)) /\
    att_onerr x = (if att_err x =? 0 then [] else if aso_onerr (att_opt x) then [att_err x] else []).
Proof. exact ast_steps_result_matches. Qed.
Print Assumptions ants_steps_result_matches.

(* Get2 returns only (result, err) of a task whose wg.Done has run -- so (ants_steps_result_matches) the last
   decision, after the error callback -- or the constant pair of a discarded Send; wg.Done itself comes after the
   final store and the error callback (the outcome is already complete when the dispatcher is parked before it);
   and nothing the outcome consists of changes afterwards, whatever late handlers and other threads do *)
Theorem ants_steps_get2_after_decision :
  (forall md n s tid hint v e,
     snd (fst (ast_step md n s tid hint)) = AstEvRet (AstRPair v e) ->
     (exists t x, ast_pc_of s tid = Some (AstGetWait t) /\ nth_error (ast_tasks s) t = Some x /\
                  att_done x = true /\ v = att_res x /\ e = att_err x) \/
     (exists th k rest, nth_error (ast_thr s) tid = Some th /\ ath_pc th = AstIdle /\ ath_prog th = AstGet k :: rest /\
                  nth_error (ath_handles th) k = Some AstHDiscard /\ v = 0 /\ e = ast_err_discard)) /\
  (forall n progs s j t x,
     ast_reach AstFixed n progs s -> ast_pc_of s j = Some (AstDWgDone t) -> nth_error (ast_tasks s) t = Some x ->
     (1 <= aso_retry (att_opt x))%nat ->
     att_done x = false /\ length (att_decided x) = att_natt x /\
     (att_res x, att_err x) = last (att_decided x) (0, 0) /\
     (att_err x = 0 \/ length (att_decided x) = aso_retry (att_opt x)) /\
     att_onerr x = (if att_err x =? 0 then [] else if aso_onerr (att_opt x) then [att_err x] else [])) /\
  (forall n progs s sched t x,
     ast_reach AstFixed n progs s -> nth_error (ast_tasks s) t = Some x -> att_done x = true ->
     exists x', nth_error (ast_tasks (ast_run AstFixed n s sched)) t = Some x' /\
       att_res x' = att_res x /\ att_err x' = att_err x /\ att_done x' = true /\ att_natt x' = att_natt x /\
       att_decided x' = att_decided x /\ att_onerr x' = att_onerr x).
Proof.
  split; [exact ast_steps_get2_after_done|]. split.
  - intros n progs s j t x R Hj Hx HR.
    destruct (ast_steps_wgdone_after_final n progs s j t x R Hj Hx HR) as [Hd (A & B & C & D & E & F)].
    repeat split; assumption.
  - intros n progs s sched t x R Hx Hd.
    destruct (ast_steps_frozen_after_done n progs s sched t x R Hx Hd) as (x' & H1 & H2).
    exists x'. split; [exact H1|]. unfold ast_core in H2. injection H2 as E1 E2 E3 E4 E5 E6 E7 E8.
    repeat split; congruence.
Qed.
Print Assumptions ants_steps_get2_after_decision.

(* non-vacuity: in the late-write scenario (two attempts, both timed out, error callback set) the finished task
   satisfies the hypotheses, and its outcome is the one the theorems describe *)
Example c07_steps_outcome_nonvacuous :
  exists x, nth_error (ast_tasks (ra_lw_final AstFixed)) 0 = Some x /\ att_done x = true /\
    aso_retry (att_opt x) = 2%nat /\ att_natt x = 2%nat /\ att_started x = 2%nat /\
    att_decided x = [(0, -1); (0, -1)] /\ att_onerr x = [-1].
Proof. eexists. split; [vm_compute; reflexivity|]. repeat split; vm_compute; reflexivity. Qed.

(* (D21) provenance of the decisions, for every reachable state of the fixed step model: decision k of task t is
   (nil, DeadlineExceeded) or the pair returned by the handler invocation of attempt k of t -- there is an attempt
   record with ata_task = t, ata_no = k whose handler has returned (ata_hst = 2), and the pair is the one scripted
   for the invocation index ata_bi recorded when that handler was started (ast_step_pc: the i-th INVOCATION of a
   task's handler behaves as element i of aso_behs).  Proof (proofs/AntsStepsProv.v, AntsStepsProv2.v): the pair is
   carried unchanged from the handler's return (pc AstICtx) through the callback's ctx1.Done() test (AstISend: the
   pair or the timeout pair), the per-attempt channel, the dispatcher's select (AstDStoreRes) to the store; task
   options, an attempt's task / number and, once started, its invocation index never change.  With
   ants_steps_result_matches: what Get2 returns is the timeout pair or the pair of the deciding attempt's handler. *)
From Got Require Import AntsStepsProv AntsStepsProv2.

Theorem ants_steps_decisions_from_handlers :
  forall n progs s t x k p,
    ast_reach AstFixed n progs s -> nth_error (ast_tasks s) t = Some x -> nth_error (att_decided x) k = Some p ->
    p = (0, ast_err_deadline) \/
    exists a y, nth_error (ast_atts s) a = Some y /\ ata_task y = t /\ ata_no y = k /\ ata_hst y = 2%nat /\
      p = (asb_val (nth (ata_bi y) (aso_behs (att_opt x)) ast_dummy_beh),
           asb_err (nth (ata_bi y) (aso_behs (att_opt x)) ast_dummy_beh)).
Proof. exact ast_steps_decisions_from_handlers. Qed.
Print Assumptions ants_steps_decisions_from_handlers.

(* (D21) ">= 1 invocation" on the step model (both modes, every run): callbacks are never dropped while the pool is
   open -- an attempt record whose handler was not started (ata_hst = 0) is still held by the dispatcher about to
   enqueue it (sendInnerCallback) or travels in innerCallbackChan (ata_owner = AwChan), unless the pool has been
   closed (then sendInnerCallback may take the closeChan branch).  Together with att_natt = number of attempt
   records of a task (proofs/AntsStepsCountN.v) and FIFO reception by the inner workers (ast_step_pc), every
   attempt of every task is invoked as soon as the inner workers get to it.  That the scheduler does get to it
   (fairness) is not a statement about states; the C07 monitor checks it when all threads come to rest. *)
From Got Require Import AntsStepsKeep.

Theorem ants_steps_callbacks_never_dropped :
  forall md n progs s a y,
    ast_reach md n progs s -> ast_closed s = false -> nth_error (ast_atts s) a = Some y -> ata_hst y = 0%nat ->
    ata_owner y = AwChan \/ exists i, ata_owner y = AwThread i.
Proof. exact ast_steps_callbacks_never_dropped. Qed.
Print Assumptions ants_steps_callbacks_never_dropped.

(* The other entry points of the Task interface (task.go; models/AntsGetters.v): Get1() is Get2() with the
   error dropped, Err() returns the err field without waiting.  In every reachable state, for every task:
   a Get1 / Get2 call returns iff run() has returned (wg.Done) or the task was discarded -- so Get1 unblocks
   exactly when Get2 does --; when they return, Get1 gives the first component of Get2's pair and Err() the
   second; every read made so far by a waiting call returned that same pair (so the entry points agree with
   each other and over time); for a discarded task the pair is (nil, errDiscard); and the returning call is
   the machine's AnGet2 step, which the theorems above speak about. *)
Theorem ants_getters_agree :
  forall cfg evs s k,
    an_fixed cfg -> an_run cfg an_init evs = Some s ->
    let t := an_tk s k in
    (an_call_get2 s k <> None <-> at_phase t = AnDone \/ at_phase t = AnDiscarded) /\
    (an_call_get1 s k <> None <-> an_call_get2 s k <> None) /\
    (forall p, an_call_get2 s k = Some p ->
       an_call_get1 s k = Some (fst p) /\ an_call_err s k = snd p /\
       (forall g, In g (at_get2 t) -> fst g = p) /\
       (at_phase t = AnDiscarded -> p = (None, AnDiscard)) /\
       exists s', an_step cfg s (AnGet2 k) = Some s' /\ at_get2 (an_tk s' k) = (p, an_now s) :: at_get2 t).
Proof. exact ants_getters_agree_l. Qed.
Print Assumptions ants_getters_agree.

(* Error identity.  The pair decided for an attempt may carry ANY non-nil error value -- an ordinary handler
   error, but also errors the pool uses itself and a handler returned as its own before the deadline: the
   discard error obtained from another, busy pool (AnDiscard), context.DeadlineExceeded (AnDeadline),
   context.Canceled (AnCanceled).  Whatever it is, when the dispatcher takes the pair of attempt a < R from
   doneChan, the task goes on with attempt a + 1 (result/err hold that pair, nothing is released, no error
   callback): no error value ends the retry loop early.  (All theorems above quantify over every ab_err too;
   [at_phase = AnDiscarded], not the error value, is what "rejected as busy" means in ants_discard.) *)
Theorem ants_any_error_is_retried :
  forall cfg s k a c v e s',
    an_fixed cfg ->
    at_phase (an_tk s k) = AnWait a c -> an_chan_find a (at_chan (an_tk s k)) = Some (v, e) ->
    an_is_nil e = false -> (a < ao_R (at_opts (an_tk s k)))%nat ->
    an_step cfg s (AnDecide k true) = Some s' ->
    at_phase (an_tk s' k) = AnEnq (S a) (an_now s) /\ at_fields (an_tk s' k) = (v, e) /\
    at_rel (an_tk s' k) = at_rel (an_tk s k) /\ at_onerr (an_tk s' k) = at_onerr (an_tk s k).
Proof. exact ants_any_error_is_retried_l. Qed.
Print Assumptions ants_any_error_is_retried.

(* ------------------------------------------------------------------------------------------------
   (D21) PARTIAL link between the two ants models -- NOT the simulation ants_steps_refine_events.
   What is proved: the per-task DECISION AUTOMATON of the event machine models/Ants.v is refined by the step model.
   The view [av] of a task (proofs/AntsStepsRefine.v) = its phase without the time stamp (Queued | Enq a | Wait a |
   Done), the fields, the decisions (attempt number from 1, pair) newest first, the error-callback arguments.
   (1) ants_machine_task_automaton: in Ants.v the view of task k changes under AnPick k by Queued -> Enq 1, under
       AnEnqueue k by Enq a -> Wait a, under AnDecide k (per-attempt channel) by Wait a -> av_after R onErr view a f
       for some pair f (av_after is what an_after does to the view: store f as decision a; nil: Done | a < R: Enq (a+1)
       | else onError(err) if registered; Done).
   (2) ants_steps_refine_task_automaton: EVERY step of the fixed step model (any state reachable for any pool size,
       programs, schedule, choices; effective retry >= 1) takes the view of the task its thread holds before or
       after the step -- as seen from that thread's pc: AstDEnq i = Enq (i+1), AstDSelect i = Wait (i+1), the pcs from
       the two stores to wg.Done = the view AFTER the decision whose pair the thread carries / has stored (the
       event machine performs store, err test, retry or onError, wg.Done in its one AnDecide step), not held and
       not done = Queued, done = the view after the last decision -- to the SAME view or to the result of exactly
       one of those three transitions, with the same R and onErr flag; and a task the stepping thread holds neither
       before nor after keeps everything the views are made of.
   (3) ants_steps_view_done: the view of a finished task is its actual outcome (Done, result/err, all stored
       decisions numbered 1.., the error callback's arguments) -- "the same per-task outcomes".
   NOT covered: time (deadlines, AnAdvance, the instants in the logs), the capacity guards of AnPick / AnEnqueue /
   AnStart, the order of events of different tasks, the handlers (AnStart / AnReturn / AnPublish, the attempt's
   channel content: Ants.v scripts handlers per attempt with durations fixed at Send time, the step model per
   invocation with durations decided by the schedule), Send / discard numbering, Get2 events.  So no history of
   the event machine is constructed; what is shown is that both models drive a task through the same automaton. *)
From Got Require Import AntsStepsRefine AntsStepsRefine2.

Theorem ants_machine_task_automaton :
  (forall cfg s k s', an_step cfg s (AnPick k) = Some s' ->
     an_view (an_tk s' k) = av_set_ph (an_view (an_tk s k)) (AvEnq 1)) /\
  (forall cfg s k s' a c, at_phase (an_tk s k) = AnEnq a c -> an_step cfg s (AnEnqueue k) = Some s' ->
     an_view (an_tk s' k) = av_set_ph (an_view (an_tk s k)) (AvWait a)) /\
  (forall cfg s k s' viaDone a c,
     an_pub cfg = AnAttemptChannel -> at_phase (an_tk s k) = AnWait a c -> an_step cfg s (AnDecide k viaDone) = Some s' ->
     exists f, an_view (an_tk s' k) =
               av_after (ao_R (at_opts (an_tk s k))) (ao_onerr (at_opts (an_tk s k))) (an_view (an_tk s k)) a f).
Proof. exact (conj an_pick_view (conj an_enqueue_view an_decide_view)). Qed.
Print Assumptions ants_machine_task_automaton.

Theorem ants_steps_refine_task_automaton :
  forall n progs s tid hint pc pc' t x x',
    ast_reach AstFixed n progs s ->
    ast_pc_of s tid = Some pc -> ast_pc_of (fst (fst (ast_step AstFixed n s tid hint))) tid = Some pc' ->
    nth_error (ast_tasks s) t = Some x ->
    nth_error (ast_tasks (fst (fst (ast_step AstFixed n s tid hint)))) t = Some x' ->
    (ast_holds pc t = true \/ ast_holds pc' t = true ->
       (1 <= aso_retry (att_opt x))%nat ->
       av_step (aso_retry (att_opt x)) (aso_onerr (att_opt x)) (ast_view pc t x) (ast_view pc' t x')) /\
    (ast_holds pc t = false -> ast_holds pc' t = false ->
       att_opt x' = att_opt x /\ att_decided x' = att_decided x /\ att_done x' = att_done x /\
       att_res x' = att_res x /\ att_err x' = att_err x /\ att_onerr x' = att_onerr x).
Proof.
  intros n progs s tid hint pc pc' t x x' R Hpc Hpc' Hx Hx'. split.
  - intros Hh HR. apply (ast_step_view n s tid hint pc pc' t x x'); try assumption.
    + apply (ast_reach_inv _ _ _ _ R).
    + apply (ast_reach_dinv _ _ _ R).
    + apply (ast_reach_nostoreo _ _ _ R).
  - intros H1 H2.
    pose proof (ast_step_core_unheld n s tid hint pc pc' t x x' (ast_reach_inv _ _ _ _ R) (ast_reach_nostoreo _ _ _ R)
                  Hpc Hpc' H1 H2 Hx Hx') as Hc.
    unfold ast_core in Hc. injection Hc as E1 E2 E3 E4 E5 E6 E7 E8. repeat split; congruence.
Qed.
Print Assumptions ants_steps_refine_task_automaton.

Theorem ants_steps_view_done :
  forall n progs s t x,
    ast_reach AstFixed n progs s -> nth_error (ast_tasks s) t = Some x -> att_done x = true ->
    (1 <= aso_retry (att_opt x))%nat ->
    ast_view_free x = {| av_ph := AvDone; av_fields := av_pair (att_res x, att_err x);
                         av_dec := av_decs 1 (att_decided x) []; av_onerr := map av_err (att_onerr x) |}.
Proof. exact ast_view_done. Qed.
Print Assumptions ants_steps_view_done.

(* non-vacuity: in the late-write run the dispatcher's third step is the AnEnqueue transition of task 0
   (Enq 1 -> Wait 1), its fourth (select -> timeout) the AnDecide transition that, R being 2, leads to Enq 2 *)
Example c07_refine_nonvacuous :
  let s3 := ast_run AstFixed 1 (ast_init 1 ra_lw_progs) (firstn 5 ra_lw_sched) in
  let s4 := ast_run AstFixed 1 (ast_init 1 ra_lw_progs) (firstn 6 ra_lw_sched) in
  ast_pc_of s3 1 = Some (AstDEnq 0 0 0) /\ ast_pc_of s4 1 = Some (AstDSelect 0 0 0) /\
  option_map (fun x => av_ph (ast_view (AstDEnq 0 0 0) 0 x)) (nth_error (ast_tasks s3) 0) = Some (AvEnq 1) /\
  option_map (fun x => av_ph (ast_view (AstDSelect 0 0 0) 0 x)) (nth_error (ast_tasks s4) 0) = Some (AvWait 1).
Proof. vm_compute. repeat split. Qed.

(* ------------------------------------------------------------------------------------------------
   The owner drops the pool while tasks are outstanding (models/AntsDrop.v; fix 83eb87d): the wrapper NewPool returns is
   reachable through the caller's handle and through the owner field of every unfinished task; the finalizer (after
   which the pool's goroutines may leave at any select, so that an attempt handed over is never started and a queued
   task never picked) is enabled only when nothing references the wrapper.  For every history of Send (any retry
   count), Drop, collections at any point, picks, handler starts and attempt decisions: the pool is closed only when the
   caller has dropped it AND every task it ever accepted is finished -- and every unfinished task holds the pool. *)
From Got Require Import AntsDrop AntsDropProofs.

Theorem ants_pool_never_closed_while_tasks_outstanding :
  forall evs, let s := pd_run PdFixed pd_init evs in
    pd_closed s = true -> pd_handle s = false /\ pd_all_done s = true.
Proof. exact pd_never_closed_while_outstanding. Qed.
Print Assumptions ants_pool_never_closed_while_tasks_outstanding.

Theorem ants_unfinished_task_holds_pool :
  forall evs x, let s := pd_run PdFixed pd_init evs in
    In x (pd_tasks s) -> pt_ph x <> PdDone -> pt_owner x = true.
Proof. exact pd_unfinished_holds_pool. Qed.
Print Assumptions ants_unfinished_task_holds_pool.

(* the code before 83eb87d (tasks reference the inner object only): closed with a task still queued *)
Theorem ants_pool_drop_orig_refuted :
  let s := pd_run PdOrig pd_init [PdSend 1; PdDrop; PdFinalize]%nat in
  pd_closed s = true /\ map pt_ph (pd_tasks s) = [PdQueued].
Proof. exact pd_orig_refuted. Qed.
Print Assumptions ants_pool_drop_orig_refuted.

(* "no further attempt will be handed to the pool, release it before the last attempt": closed while that very attempt
   waits for an inner goroutine (R = 1: from the pick on; R = 2: after the first attempt failed) *)
Theorem ants_release_before_last_attempt_refuted :
  (let s := pd_run PdReleaseBeforeLast pd_init [PdSend 1; PdPick 0; PdDrop; PdFinalize]%nat in
   pd_closed s = true /\ map pt_ph (pd_tasks s) = [PdWaiting 1]) /\
  (let s := pd_run PdReleaseBeforeLast pd_init [PdSend 2; PdPick 0; PdDrop; PdFinalize; PdStart 0; PdEnd 0 false; PdFinalize]%nat in
   pd_closed s = true /\ map pt_ph (pd_tasks s) = [PdWaiting 2]).
Proof. exact (conj pd_release_before_last_refuted pd_release_before_last_refuted_retry). Qed.
Print Assumptions ants_release_before_last_attempt_refuted.

Example ants_pool_drop_nonvacuous :
  let s1 := pd_run PdFixed pd_init [PdSend 2; PdPick 0; PdDrop; PdFinalize; PdStart 0; PdEnd 0 false; PdFinalize]%nat in
  let s2 := pd_run PdFixed s1 [PdStart 0; PdEnd 0 true; PdFinalize]%nat in
  pd_closed s1 = false /\ map pt_ph (pd_tasks s1) = [PdWaiting 2] /\ pd_closed s2 = true /\ map pt_ph (pd_tasks s2) = [PdDone].
Proof. exact pd_fixed_same_history. Qed.
