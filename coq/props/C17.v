(* C17 -- loom atomics: Flag.AddFlag/RemoveFlag/HasFlag and AddIf64 lose no update, TryLock
   acquires only an unheld mutex, Count is truthful.
   Only property theorems (full statements), each closed by [exact] of a lemma proved in
   proofs/AtomicsProofs.v / proofs/MutexWordProofs.v, and Print Assumptions.

   Quantification (Flag / AddIf64): every initial word, every number of threads, every program
   of AddFlag f / RemoveFlag f / HasFlag f / AddIf64 delta p per thread -- arbitrary masks f
   (all 64 bit positions, bit 63 = negative f, multi-bit masks), arbitrary deltas, arbitrary
   predicates p : Z -> bool, different per call -- and every schedule (list of thread ids; one
   entry = one atomic access of that thread): unbounded.

   "Each call takes effect atomically" is stated in linearization-point form:
   (1) [c17_flag_ops_atomic]: replaying the effect events of the run, in the order in which they
       happen, as ATOMIC updates (v := v | f, v := v & ^f, v := v + delta provided p v) on the
       initial word is legal at every step and ends in the final word; in particular the
       replay of a successful AddIf64 checks p on the value the word has AT THE INSTANT OF THE
       UPDATE, and that of a false AddIf64 checks that p is false on the then-current value;
   (2) [c17_thread_protocol]: for every thread, between invocation and return of each of its
       calls (in program order) there is exactly one effect event, carrying the arguments of
       that call; no event of a thread that is not inside a call changes the word. *)
From Got Require Import Base Atomics AtomicsProofs MutexWord MutexWordProofs MutexExclProofs MutexAcctProofs MutexObs MutexObsProofs.
Local Open Scope Z_scope.

(* ---------------------------------------------------------------- Flag / AddIf64 *)

Theorem c17_flag_ops_atomic :
  forall w progs sched,
    at_apply_trace w (at_trace (at_init w progs) sched)
    = Some (at_word (at_final (at_init w progs) sched)).
Proof. exact at_refines_atomic. Qed.
Print Assumptions c17_flag_ops_atomic.

(* the same fact for a single step, from any reachable state: this is
   "addif_predicate_at_update" -- the event of a step is a legal atomic update of the CURRENT
   shared value (see at_apply_ev: AEIfAdd d p requires p v = true for the current v and yields
   wrap64 (v + d); AEIfFalse p requires p v = false for the current v and leaves v) *)
Theorem c17_addif_predicate_at_update :
  forall w progs sched i,
    let s := at_final (at_init w progs) sched in
    at_apply_ev (at_word s) (snd (at_step s i)) = Some (at_word (fst (at_step s i))).
Proof. exact at_step_atomic_reachable. Qed.
Print Assumptions c17_addif_predicate_at_update.

Theorem c17_thread_protocol :
  forall w progs sched j,
    at_aut_run AAIdle (nth j progs []) (at_proj j (at_trace (at_init w progs) sched))
               (fst (at_aut_of (at_final (at_init w progs) sched) j))
               (snd (at_aut_of (at_final (at_init w progs) sched) j)).
Proof. exact at_thread_protocol. Qed.
Print Assumptions c17_thread_protocol.

(* a bit added by a completed AddFlag and not removed afterwards is set at the end (and
   symmetrically for RemoveFlag); f is arbitrary, so this covers all 64 positions *)
Theorem c17_added_bit_stays :
  forall w progs sched tr1 j f tr2,
    at_trace (at_init w progs) sched = tr1 ++ (j, AEFlagEff true f) :: tr2 ->
    Forall (fun e => at_keeps f (snd e)) tr2 ->
    Z.land (at_word (at_final (at_init w progs) sched)) f = f.
Proof. exact at_added_bit_stays. Qed.
Print Assumptions c17_added_bit_stays.

Theorem c17_removed_bit_stays :
  forall w progs sched tr1 j f tr2,
    at_trace (at_init w progs) sched = tr1 ++ (j, AEFlagEff false f) :: tr2 ->
    Forall (fun e => at_keeps_clear f (snd e)) tr2 ->
    Z.land (at_word (at_final (at_init w progs) sched)) f = 0.
Proof. exact at_removed_bit_stays. Qed.
Print Assumptions c17_removed_bit_stays.

(* an invariant preserved by the ATOMIC meaning of every call of the programs holds for every
   value the word ever takes, under any contention: for AddIf64 delta p the obligation is only
   forall v, I v -> p v = true -> I (v + delta) *)
Theorem c17_addif_preserves :
  forall (I : Z -> Prop) w progs sched,
    Forall (Forall (at_op_preserves I)) progs -> I w ->
    Forall I (at_values (at_init w progs) sched).
Proof. exact at_preserves. Qed.
Print Assumptions c17_addif_preserves.

(* 'never above the limit': any number of AddIf64 calls with any deltas whose predicates
   imply old + delta <= limit (Go's wrapping addition), e.g. at_pred 0 delta limit *)
Theorem c17_never_above_limit :
  forall limit w progs sched,
    Forall (Forall (at_is_limited limit)) progs -> w <= limit ->
    Forall (fun v => v <= limit) (at_values (at_init w progs) sched).
Proof. exact at_never_above_limit. Qed.
Print Assumptions c17_never_above_limit.

(* the word stays an int64 value, so the model's comparison of Z values in a CAS is the
   comparison of int64 values *)
Theorem c17_word_is_int64 :
  forall w progs sched,
    Forall (Forall at_op_i64) progs -> at_i64 w ->
    Forall at_i64 (at_values (at_init w progs) sched).
Proof. exact at_word_range. Qed.
Print Assumptions c17_word_is_int64.

(* ---------------------------------------------------------------- Count *)

Theorem c17_count_truthful :
  forall w, mx_valid_word w ->
    mx_count MxFixed w = mx_waiters w + (if mx_locked w then 1 else 0).
Proof. exact mx_count_truthful. Qed.
Print Assumptions c17_count_truthful.

(* the same on constructed words: n waiters, any flags *)
Theorem c17_count_fields :
  forall n starving woken locked, mx_count MxFixed (mx_mk n starving woken locked) = n + Z.b2z locked.
Proof. exact mx_count_mk. Qed.
Print Assumptions c17_count_fields.

(* the code before commit 8216f43 took the "locked" bit from the shifted word *)
Theorem c17_count_orig_refuted :
  mx_valid_word 17 /\ mx_count MxOrig 17 = 2 /\ mx_waiters 17 + (if mx_locked 17 then 1 else 0) = 3 /\
  mx_valid_word 8 /\ mx_count MxOrig 8 = 2 /\ mx_waiters 8 + (if mx_locked 8 then 1 else 0) = 1.
Proof. exact mx_count_orig_refuted. Qed.
Print Assumptions c17_count_orig_refuted.

(* ---------------------------------------------------------------- TryLock, one access at a time *)

(* Whatever the word is when an access of TryLock happens (the environment may have rewritten
   it arbitrarily since the previous access): TryLock returns true only through a CAS on a
   word whose locked, woken and starving bits are all clear, and that CAS sets the locked bit
   and changes nothing else (w' = w + 1: waiters, woken, starving as before); every other
   access -- failing CAS, load, returning false -- leaves the word unchanged.
   mx_tl_ok pc: the snapshot held before the second CAS passed the test of the load step
   (preserved by the steps, true initially). *)
Theorem c17_trylock_step_spec :
  forall w pc w' r,
    mx_tl_ok pc -> mx_trylock_step w pc = (w', r) -> mx_tl_spec w w' r.
Proof. exact mx_trylock_step_spec. Qed.
Print Assumptions c17_trylock_step_spec.

(* the whole call, for any three words the environment presents *)
Theorem c17_trylock_call_spec :
  forall ws r after,
    mx_trylock_env TLCas1 ws = (r, after) ->
    match r with
    | Some true =>
        exists pre w, after = pre ++ [w + 1] /\ firstn (length after) ws = pre ++ [w] /\
                      mx_locked w = false /\ mx_woken w = false /\ mx_starving w = false /\
                      mx_locked (w + 1) = true /\ mx_waiters (w + 1) = mx_waiters w
    | _ => after = firstn (length after) ws
    end.
Proof. exact mx_trylock_call_spec. Qed.
Print Assumptions c17_trylock_call_spec.

(* ---------------------------------------------------------------- mutual exclusion (re-modelled sync.Mutex) *)

(* PARTIAL in this sense: Lock / Unlock of sync.Mutex are runtime code without yield points; they
   are modelled from the Go source (fast path, lockSlow with the spin branch that sets
   mutexWoken, normal and starvation mode, hand-off AddInt32, unlockSlow, the semaphore as a
   token counter; the runtime_canSpin answers and the 1 ms tests as per-call oracle numbers:
   any number of spin iterations, the threshold found exceeded from any wake-up on).  The check
   steps this model on every run against a copy of Lock/lockSlow/Unlock/unlockSlow generated
   from the source file of the toolchain in use (vlib/mxgen.py, vlib/c17mx.py), not against
   the compiled runtime; the semaphore, canSpin and nanotime stay modelled.
   TryLock's three steps in that model are the record-level image of
   mx_trylock_step, the function that IS stepped against loom/mutex.go
   (the c17_trylock_rec_refines theorems).  throw/fatal are dead ends of the model; they are
   unreachable (c17_mutex_no_inconsistent_state below).

   Over every set of programs of Lock (any oracle bits) / TryLock / Unlock and every schedule:
   the number of threads between a successful acquire -- by the Lock fast path, the lockSlow
   CAS, the starvation hand-off, or either CAS of TryLock -- and their Unlock equals the
   locked bit of the word, hence is at most one.  So TryLock never returns true while another
   Lock/TryLock holder has not unlocked, and a TryLock holder is released by the same Unlock
   steps as any other (the model has one holder flag and one Unlock). *)
Theorem c17_mutex_exclusion :
  forall progs sched,
    let s := mx_final (mx_init progs) sched in
    mx_holders s = (if xl (xword s) then 1 else 0)%nat /\ (mx_holders s <= 1)%nat.
Proof. exact mx_mutex_exclusion. Qed.
Print Assumptions c17_mutex_exclusion.

(* the hand-off addition always happens on a word with locked = 0 and starving = 1 *)
Theorem c17_handoff_wellformed :
  forall progs sched i th e,
    let s := mx_final (mx_init progs) sched in
    nth_error (xthreads s) i = Some th -> xpc th = XLHand e ->
    xl (xword s) = false /\ xs (xword s) = true.
Proof. exact mx_handoff_wellformed. Qed.
Print Assumptions c17_handoff_wellformed.

(* the TryLock steps of the thread model are mx_trylock_step on the encoded word *)
Theorem c17_trylock_rec_refines_cas1 :
  forall r, mx_trylock_step (mx_enc r) TLCas1 =
    if mx_is_zero r then (mx_enc (mx_set_l r true), TLRet true) else (mx_enc r, TLCont TLLoad).
Proof. exact mx_trylock_cas1_refines. Qed.
Print Assumptions c17_trylock_rec_refines_cas1.

Theorem c17_trylock_rec_refines_load :
  forall r, mx_trylock_step (mx_enc r) TLLoad =
    if (xl r || xs r || xk r)%bool then (mx_enc r, TLRet false) else (mx_enc r, TLCont (TLCas2 (mx_enc r))).
Proof. exact mx_trylock_load_refines. Qed.
Print Assumptions c17_trylock_rec_refines_load.

Theorem c17_trylock_rec_refines_cas2 :
  forall r old, xl old = false -> xk old = false -> xs old = false ->
    mx_trylock_step (mx_enc r) (TLCas2 (mx_enc old)) =
    if mx_w_eqb r old then (mx_enc (mx_set_l old true), TLRet true) else (mx_enc r, TLRet false).
Proof. exact mx_trylock_cas2_refines. Qed.
Print Assumptions c17_trylock_rec_refines_cas2.

(* non-vacuity of the exclusion model.  Run 1: thread 0 takes the lock by TryLock, two Lock
   callers queue, are woken one after the other by Unlock (normal mode) and acquire through
   the lockSlow CAS.  Run 2: a waiter woken in normal mode loses the race, finds it has waited
   too long, switches the mutex to starvation mode, and gets the lock by hand-off (XEAcq 2);
   the word ends as 0 with no token left. *)
Example c17_exclusion_nonvacuous :
  let progs := [[XTryLock; XUnlock]; [XLock 1 0; XUnlock]; [XLock 0 9; XUnlock]] in
  let sched := [0;0; 1;1;1;1;1; 2;2;2;2; 0;0;0;0;0; 2;2;2;2;2;2; 1;1;1;1;1;1; 2;2;2;2;2;2;2; 1;1;1;1;1;1]%nat in
  let tr := mx_trace (mx_init progs) sched in
  nth_error tr 1 = Some (0%nat, XEAcq 3) /\ nth_error tr 18 = Some (2%nat, XEAcq 1) /\
  nth_error tr 37 = Some (1%nat, XEAcq 1) /\ nth_error tr 22 = Some (1%nat, XEBlocked) /\
  let progs2 := [[XLock 0 9; XUnlock; XLock 0 9; XUnlock]; [XLock 0 0; XUnlock]] in
  let sched2 := [0;0; 1;1;1;1; 0;0;0;0; 0;0;0;0; 1;1;1; 0;0;0; 1;1;1; 1;1]%nat in
  map snd (mx_trace (mx_init progs2) sched2) =
    [XEInv; XEAcq 0; XEInv; XEInt; XEInt; XEInt; XEInv; XEUnlocked; XEInt; XERet; XEInv; XEInt; XEInt;
     XEAcq 1; XEInt; XEInt; XEInt; XEInv; XEUnlocked; XERet; XEInt; XEInt; XEAcq 2; XEInv; XEUnlocked] /\
  xword (mx_final (mx_init progs2) sched2) = mx_zero /\ xsema (mx_final (mx_init progs2) sched2) = 0%nat.
Proof.
  cbn zeta.
  split; [vm_compute; reflexivity|].
  split; [vm_compute; reflexivity|].
  split; [vm_compute; reflexivity|].
  split; [vm_compute; reflexivity|].
  split; [vm_compute; reflexivity|].
  split; vm_compute; reflexivity.
Qed.

(* ---------------------------------------------------------------- no throw / fatal: waiter-count accounting *)

(* Programs: any list of Lock (any oracle numbers) / TryLock / Unlock per thread, where an
   Unlock is executed only by a thread that holds the mutex (the model's XUnlock of a thread
   whose last Lock/TryLock did not succeed -- TryLock returned false -- is skipped, event
   XESkip: this is "if m.TryLock() { ...; m.Unlock() }" and "m.Lock(); ...; m.Unlock()").
   That is the only well-formedness there is, and it is built into the step function, so the
   theorems quantify over ALL program lists, all oracle numbers and all schedules.

   c17_mutex_no_inconsistent_state: in no reachable state is any thread at the dead pc, and no
   step of any run is the panic event.  The dead pc stands for
     - lockSlow's throw("sync: inconsistent mutex state") before the CAS (awoke but the
       snapshot has mutexWoken clear; taken in the step of the load that produced the snapshot),
     - lockSlow's throw after a wake-up in starvation mode (old&(mutexLocked|mutexWoken) != 0 or
       no waiter),
     - a hand-off AddInt32 on a word where the addition would not be field-wise (locked set,
       no waiter, or starving clear when mutexStarving is subtracted),
     - Unlock's fatal("sync: unlock of unlocked mutex"). *)
Theorem c17_mutex_no_inconsistent_state :
  forall progs sched,
    let s := mx_final (mx_init progs) sched in
    Forall (fun th => xpc th <> XDead) (xthreads s) /\
    Forall (fun e => snd e <> XEPanic) (mx_trace (mx_init progs) sched).
Proof. exact mx_no_inconsistent_state. Qed.
Print Assumptions c17_mutex_no_inconsistent_state.

(* The accounting invariant behind it, on every reachable state.  mx_cnt f s = number of
   threads of weight 1:  mx_wQ at XLSleep (inside runtime_SemacquireMutex or about to call it),
   mx_wW at XLWoke (acquired a token, has not yet re-read the word), mx_wS awake in lockSlow with
   awoke = true, mx_wP at XURel false (unlockSlow's CAS done, Semrelease pending), mx_wG at XLHand
   (about to do the hand-off AddInt32), mx_wD = mx_wG + pending hand-off Semrelease; xsema = tokens
   (Semrelease calls not yet consumed).
   Normal mode: waiters = sleepers that no Unlock has yet paid for (each unlockSlow CAS decrements
   the field and owes one token to one sleeper); mutexWoken bounds the tokens + owed tokens + woken
   or spinning-awoke threads by one.
   Starvation mode: waiters = sleepers + the woken waiter up to and including its hand-off
   AddInt32 (which is what decrements the field), mutexWoken is clear, at most one hand-off is
   in flight and none while the mutex is locked. *)
Theorem c17_mutex_waiter_accounting :
  forall progs sched,
    let s := mx_final (mx_init progs) sched in
    let w := xword s in
    (xs w = false ->
       (xn w + xsema s + mx_cnt mx_wP s = mx_cnt mx_wQ s)%nat /\ mx_cnt mx_wD s = 0%nat /\
       (xsema s + mx_cnt mx_wP s + mx_cnt mx_wW s + mx_cnt mx_wS s <= mx_b2n (xk w))%nat) /\
    (xs w = true ->
       (xn w = mx_cnt mx_wQ s + mx_cnt mx_wW s + mx_cnt mx_wG s)%nat /\ xk w = false /\
       mx_cnt mx_wP s = 0%nat /\ mx_cnt mx_wS s = 0%nat /\
       (xsema s + mx_cnt mx_wW s + mx_cnt mx_wD s <= 1)%nat /\
       (xl w = true -> (xsema s + mx_cnt mx_wW s + mx_cnt mx_wD s = 0)%nat)).
Proof. exact mx_waiter_accounting. Qed.
Print Assumptions c17_mutex_waiter_accounting.

(* strengthening of c17_handoff_wellformed: the hand-off atomic.AddInt32(&m.state, delta),
   delta = mutexLocked - 1<<mutexWaiterShift [- mutexStarving], always meets a word with
   locked = 0, woken = 0, starving = 1 and waiters >= 1; the step acquires, and the new word of the
   model (field-wise: locked set, one waiter less, starving cleared if e) is the integer sum *)
Theorem c17_handoff_wellformed_strong :
  forall progs sched i th e,
    let s := mx_final (mx_init progs) sched in
    nth_error (xthreads s) i = Some th -> xpc th = XLHand e ->
    xl (xword s) = false /\ xk (xword s) = false /\ xs (xword s) = true /\ (1 <= xn (xword s))%nat /\
    snd (mx_step s i) = XEAcq 2 /\
    mx_enc (xword (fst (mx_step s i))) = mx_enc (xword s) + (1 - 8 - (if e then 4 else 0)).
Proof. exact mx_handoff_wellformed_strong. Qed.
Print Assumptions c17_handoff_wellformed_strong.

(* a successful TryLock CAS (how = 3: CAS(0, mutexLocked); how = 4: CAS(old, old|mutexLocked) after
   the load) from ANY word and token count: the word had locked = woken = starving = 0, the step
   sets the locked bit and nothing else (waiters, tokens unchanged), the thread has no weight
   in the accounting before or after, so the accounting relation mx_K (the word/token part of
   the invariant, for whatever counts the other threads contribute) is preserved; the lock is
   then released by the same Unlock steps as one taken by Lock, which by
   c17_mutex_no_inconsistent_state never hit fatal/throw *)
Theorem c17_trylock_acquire_accounting :
  forall r t th r' t' th' how,
    mx_lok th -> mx_step_th r t th = (r', t', th', XEAcq how) -> how = 3%nat \/ how = 4%nat ->
    xl r = false /\ xk r = false /\ xs r = false /\ r' = mx_set_l r true /\ t' = t /\
    (mx_wQ th = 0 /\ mx_wW th = 0 /\ mx_wP th = 0 /\ mx_wD th = 0 /\ mx_wR th = 0 /\ mx_wS th = 0)%nat /\
    (mx_wQ th' = 0 /\ mx_wW th' = 0 /\ mx_wP th' = 0 /\ mx_wD th' = 0 /\ mx_wR th' = 0 /\ mx_wS th' = 0)%nat /\
    (forall Q W P D R, mx_K r t Q W P D R -> mx_K r' t' Q W P D R).
Proof. exact mx_trylock_acquire_accounting. Qed.
Print Assumptions c17_trylock_acquire_accounting.

(* the waiter field never exceeds the number of threads; so with fewer than 2^28 threads the word
   of every reachable state is a non-negative int32 -- the model's unbounded field arithmetic
   is int32 arithmetic, and c17_count_truthful applies to every word Count can load *)
Theorem c17_mutex_word_is_int32 :
  forall progs sched,
    Z.of_nat (length progs) < 2 ^ 28 ->
    mx_valid_word (mx_enc (xword (mx_final (mx_init progs) sched))).
Proof. exact mx_word_valid. Qed.
Print Assumptions c17_mutex_word_is_int32.

Theorem c17_mutex_waiters_le_threads :
  forall progs sched, (xn (xword (mx_final (mx_init progs) sched)) <= length progs)%nat.
Proof. exact mx_waiters_le_threads. Qed.
Print Assumptions c17_mutex_waiters_le_threads.

(* statement sanity check: the dead-end branches of the step function are real -- from
   (unreachable) states each one is taken: awoke without mutexWoken; starvation wake-up on a locked
   word; on a word without waiters; hand-off addition on a locked word; Unlock of an unlocked word *)
Example c17_dead_ends_exist :
  snd (mx_step_th {| xl := true; xk := false; xs := false; xn := 0 |} 0
         (mx_mkth (XLLoad 0 0 true false) false [])) = XEPanic /\
  snd (mx_step_th {| xl := true; xk := false; xs := true; xn := 1 |} 0 (mx_mkth (XLWoke 0 0 true) false [])) = XEPanic /\
  snd (mx_step_th {| xl := false; xk := false; xs := true; xn := 0 |} 0 (mx_mkth (XLWoke 0 0 true) false [])) = XEPanic /\
  snd (mx_step_th {| xl := true; xk := false; xs := true; xn := 1 |} 0 (mx_mkth (XLHand true) false [])) = XEPanic /\
  snd (mx_step_th {| xl := false; xk := false; xs := false; xn := 1 |} 0 (mx_mkth XU1 true [])) = XEPanic.
Proof. exact mx_dead_ends_exist. Qed.

(* non-vacuity.  Run A: TryLock takes the mutex by its second CAS while a Lock caller is queued
   (word: 1 waiter, unlocked, the previous holder between its AddInt32(-1) and unlockSlow's
   CAS), the previous holder's unlockSlow gets out of the way, the TryLock holder's Unlock wakes
   the waiter, who acquires; everything ends idle on the zero word.
   Run B (oracle starve = 1): a waiter is woken twice in normal mode and loses both races; at
   the second wake-up it has waited > 1 ms, switches to starvation mode (state: locked,
   starving, 1 waiter, it sleeps again), and gets the lock by hand-off.
   Run C (oracle spin = 2): a spinning Lock caller sets mutexWoken by the spin CAS, spins once
   more, queues (clearing mutexWoken: 2 waiters), and both waiters are later woken in turn. *)
Example c17_accounting_nonvacuous :
  let progsA := [[XLock 0 9; XUnlock]; [XLock 0 9; XUnlock]; [XTryLock; XUnlock]] in
  let schedA := [0;0; 1;1;1;1; 0;0; 2;2;2;2; 0;0; 2;2;2;2; 1;1;1; 1;1]%nat in
  mx_trace (mx_init progsA) schedA =
    [(0, XEInv); (0, XEAcq 0); (1, XEInv); (1, XEInt); (1, XEInt); (1, XEInt); (0, XEInv); (0, XEUnlocked);
     (2, XEInv); (2, XEInt); (2, XEInt); (2, XEAcq 4); (0, XEInt); (0, XERet); (2, XEInv); (2, XEUnlocked);
     (2, XEInt); (2, XERet); (1, XEInt); (1, XEInt); (1, XEAcq 1); (1, XEInv); (1, XEUnlocked)]%nat /\
  xword (mx_final (mx_init progsA) (firstn 12 schedA)) = {| xl := true; xk := false; xs := false; xn := 1 |} /\
  (let s := mx_final (mx_init progsA) schedA in
   xword s = mx_zero /\ xsema s = 0%nat /\ map xpc (xthreads s) = [XIdle; XIdle; XIdle]) /\
  let progsB := [[XLock 0 9; XUnlock; XLock 0 9; XUnlock; XLock 0 9; XUnlock]; [XLock 0 1; XUnlock]] in
  let schedB := [0;0; 1;1;1;1; 0;0;0;0; 0;0;0;0; 1;1;1; 0;0;0;0; 0;0;0;0; 1;1;1; 0;0;0; 1;1;1; 1;1]%nat in
  map snd (mx_trace (mx_init progsB) schedB) =
    [XEInv; XEAcq 0; XEInv; XEInt; XEInt; XEInt; XEInv; XEUnlocked; XEInt; XERet; XEInv; XEInt; XEInt; XEAcq 1;
     XEInt; XEInt; XEInt; XEInv; XEUnlocked; XEInt; XERet; XEInv; XEInt; XEInt; XEAcq 1; XEInt; XEInt; XEInt;
     XEInv; XEUnlocked; XERet; XEInt; XEInt; XEAcq 2; XEInv; XEUnlocked] /\
  (let s := mx_final (mx_init progsB) (firstn 28 schedB) in
   xword s = {| xl := true; xk := false; xs := true; xn := 1 |} /\
   map xpc (xthreads s) = [XIdle; XLSleep 0 0 true]) /\
  xword (mx_final (mx_init progsB) schedB) = mx_zero /\
  let progsC := [[XLock 0 9; XUnlock]; [XLock 0 9; XUnlock]; [XLock 2 9; XUnlock]] in
  let schedC := [0;0; 1;1;1;1; 2;2;2;2;2;2;2; 0;0;0;0; 2;2;2; 2;2;2;2; 1;1;1;1;1]%nat in
  (let s := mx_final (mx_init progsC) (firstn 10 schedC) in
   xword s = {| xl := true; xk := true; xs := false; xn := 1 |} /\
   map xpc (xthreads s) = [XIdle; XLSleep 0 9 false; XLLoad 1 9 true false]) /\
  xword (mx_final (mx_init progsC) (firstn 13 schedC)) = {| xl := true; xk := false; xs := false; xn := 2 |} /\
  map snd (mx_trace (mx_init progsC) schedC) =
    [XEInv; XEAcq 0; XEInv; XEInt; XEInt; XEInt; XEInv; XEInt; XEInt; XEInt; XEInt; XEInt; XEInt; XEInv;
     XEUnlocked; XEInt; XERet; XEInt; XEInt; XEAcq 1; XEInv; XEUnlocked; XEInt; XERet; XEInt; XEInt; XEAcq 1;
     XEInv; XEUnlocked] /\
  xword (mx_final (mx_init progsC) schedC) = mx_zero.
Proof.
  cbn zeta. repeat split; vm_compute; reflexivity.
Qed.

(* ---------------------------------------------------------------- non-vacuity *)

(* a lost-update attempt: both threads load 0, thread 0 adds bit 63, thread 1's CAS fails and
   retries; AddIf64 with limit 4: the second adder is refused; nobody exceeds the limit *)
Example c17_nonvacuous :
  let f63 := - 2 ^ 63 in
  let s0 := at_init 0 [[AtAdd f63; AtHas 1]; [AtAdd 1]] in
  let sched := [0;1;0;1;0;1;1;1;0]%nat in
  In (1%nat, AECasFail) (at_trace s0 sched) /\
  at_word (at_final s0 sched) = Z.lor f63 1 /\
  In (0%nat, AEHas 1 true) (at_trace s0 sched) /\
  let p := at_pred 0 3 4 in
  let s1 := at_init 0 [[AtAddIf 3 p]; [AtAddIf 3 p]] in
  let sched1 := [0;1;0;1;0;1;1]%nat in
  at_values s1 sched1 = [0;0;0;0;0;3;3;3] /\
  at_is_limited 4 (AtAddIf 3 p) /\
  mx_trylock_env TLCas1 [8; 8; 8] = (Some true, [8; 8; 9]) /\
  mx_trylock_env TLCas1 [8; 8; 9] = (Some false, [8; 8; 9]) /\
  mx_trylock_env TLCas1 [12; 12] = (Some false, [12; 12]).
Proof.
  cbn zeta.
  split; [vm_compute; intuition congruence|].
  split; [vm_compute; reflexivity|].
  split; [vm_compute; intuition congruence|].
  split; [vm_compute; reflexivity|].
  split; [apply at_pred_le_limited|].
  split; [vm_compute; reflexivity|].
  split; vm_compute; reflexivity.
Qed.

(* ---------------------------------------------------------------- Count / IsLocked / IsWoken / IsStarving as stepped calls *)

(* The state-word observers perform exactly ONE load of the state word (yield sites 23 / 24) and return the
   promised function of the word at that load, whatever the environment does to the word during the call
   ([ws] = the words at the successive loads): "Count reports holder plus waiters" of a state the mutex
   really had.  The code is stepped against this on every run (case tag c17k: the harness rewrites the word
   before each load and counts the loads). *)
Theorem c17_observers_single_snapshot :
  forall o ws, mx_valid_word (mx_nth_word ws 0) ->
    mx_obs_run MxoOneLoad o ws = (1%nat, [mx_obs_site o], mx_obs_spec o (mx_nth_word ws 0)).
Proof. exact mx_obs_single_snapshot. Qed.
Print Assumptions c17_observers_single_snapshot.

Theorem c17_observers_report_a_real_state :
  forall o ws, ws <> [] -> Forall mx_valid_word ws ->
    exists w, In w ws /\ snd (mx_obs_run MxoOneLoad o ws) = mx_obs_spec o w.
Proof. exact mx_obs_result_is_some_word. Qed.
Print Assumptions c17_observers_report_a_real_state.

(* a Count assembled from two loads (waiters from the first, the locked bit from a second one, as when
   Count re-uses IsLocked) agrees with Count on every quiescent word, but across a hand-over (word 10 =
   one woken waiter, then word 1 = locked) it reports 2 although exactly one participant existed at
   every instant, and 0 in the other order *)
Theorem c17_count_two_loads_refuted :
  mx_valid_word 10 /\ mx_valid_word 1 /\
  mx_obs_spec MxoCount 10 = 1 /\ mx_obs_spec MxoCount 1 = 1 /\
  snd (mx_obs_run MxoTwoLoads MxoCount [10; 1]) = 2 /\
  snd (mx_obs_run MxoTwoLoads MxoCount [1; 10]) = 0 /\
  (forall w, snd (mx_obs_run MxoTwoLoads MxoCount [w]) = snd (mx_obs_run MxoOneLoad MxoCount [w])).
Proof. exact mx_obs_two_loads_refuted. Qed.
Print Assumptions c17_count_two_loads_refuted.
