(* C12 -- iox decoding of arbitrary bytes is total, in-bounds and allocation-bounded.
   Only property theorems, each closed by [exact] of a lemma of proofs/OctetsProofs.v.
   Quantification: any stream s with oct_wf s (position <= len(buffer), the documented
   invariant; buffer = any list, so any byte string), any read operation op of
   OctetsStream / OctetsReader (oct_op, including OctetsStream.Read(make([]byte,n)) with
   n >= 0 = oct_op_ok), and any sequence of such calls. *)
From Got Require Import Base Octets OctetsSpec OctetsProofs.
Local Open Scope Z_scope.

(* never panics (both for the code as it is and for the pre-fix ReadBytes) *)
Theorem c12_read_total : forall v op s,
  oct_wf s -> oct_op_ok op = true -> fst (fst (oct_read_op v op s)) <> Panic.
Proof. exact read_total_lemma. Qed.
Print Assumptions c12_read_total.

(* an error is one of the package's documented errors (by the type oct_err), and more
   precisely: fixed-width reads only ErrNotEnoughData; Read7BitEncodedInt also ErrBad7BitInt;
   ReadBytes/ReadString also ErrNegativeSize; OctetsStream.Read only ErrInvalidArgument, and
   only for an empty buffer (oct_err_allowed) *)
Theorem c12_read_errors_documented : forall v op s e s' a,
  oct_wf s -> oct_op_ok op = true -> oct_read_op v op s = (Err e, s', a) -> oct_err_allowed op e.
Proof. exact read_errors_lemma. Qed.
Print Assumptions c12_read_errors_documented.

(* cursor stays within [0, Len], never moves backwards; buffer and Len unchanged *)
Theorem c12_read_cursor_in_bounds : forall v op s r s' a,
  oct_wf s -> oct_op_ok op = true -> oct_read_op v op s = (r, s', a) ->
  oct_buf s' = oct_buf s /\ oct_position s <= oct_position s' <= oct_len s' /\ oct_len s' = oct_len s.
Proof. exact read_cursor_in_bounds_lemma. Qed.
Print Assumptions c12_read_cursor_in_bounds.

(* never consumes beyond the available bytes, and the outcome (result, consumed count,
   alloc) is a function of the unread bytes only *)
Theorem c12_read_consumes_available_only : forall v op s r s' a,
  oct_wf s -> oct_op_ok op = true -> oct_read_op v op s = (r, s', a) ->
  0 <= oct_position s' - oct_position s <= oct_len s - oct_position s /\
  (forall s2, oct_wf s2 -> oct_rest s2 = oct_rest s ->
     exists s2', oct_read_op v op s2 = (r, s2', a) /\
                 oct_position s2' - oct_position s2 = oct_position s' - oct_position s).
Proof. exact read_consumes_available_only_lemma. Qed.
Print Assumptions c12_read_consumes_available_only.

(* a failed fixed-width read (bool, byte, int16, int32, int64; stream or reader) leaves
   the stream exactly as it was *)
Theorem c12_read_fixed_fail_consumes_nothing : forall v op s e s' a,
  oct_wf s -> oct_op_fixed op = true -> oct_read_op v op s = (Err e, s', a) -> s' = s /\ a = 0.
Proof. exact read_fixed_fail_consumes_nothing_lemma. Qed.
Print Assumptions c12_read_fixed_fail_consumes_nothing.

(* bytes requested from make() are bounded by the unread input, not by a length field *)
Theorem c12_read_alloc_bounded : forall op s r s' a,
  oct_wf s -> oct_op_ok op = true -> oct_read_op OctFixed op s = (r, s', a) ->
  0 <= a <= oct_len s - oct_position s.
Proof. exact read_alloc_bounded_lemma. Qed.
Print Assumptions c12_read_alloc_bounded.

(* a successful ReadBytes returns exactly the announced number of bytes, and they are the
   input bytes following the length prefix *)
Theorem c12_read_bytes_exact : forall v s d s' a,
  oct_wf s -> oct_read_bytes v s = (Ok d, s', a) ->
  exists size s1,
    oct_read_7bit s = (Ok size, s1, 0) /\ 0 <= size /\
    Z.of_nat (length d) = size /\
    d = firstn (Z.to_nat size) (skipn (oct_pos s1) (oct_buf s)) /\
    oct_buf s' = oct_buf s /\ oct_position s' = oct_position s1 + size /\
    (v = OctFixed -> a = size).
Proof. exact read_bytes_exact_lemma. Qed.
Print Assumptions c12_read_bytes_exact.

Theorem c12_read_string_is_read_bytes : forall v s, oct_read_string v s = oct_read_bytes v s.
Proof. exact read_string_eq. Qed.
Print Assumptions c12_read_string_is_read_bytes.

(* every sequence of read calls, each made whatever the previous ones returned:
   no panic, buffer unchanged, cursor monotone within [pos, Len], alloc bounded by the
   unread input at the time of the call (oct_reads_safe) *)
Theorem c12_reads_safe : forall v ops s,
  oct_wf s -> forallb oct_op_ok ops = true -> oct_reads_safe v s (oct_run_reads v ops s).
Proof. exact reads_safe_lemma. Qed.
Print Assumptions c12_reads_safe.

(* the pre-fix ReadBytes requested 2^31-1 bytes for the 5-byte input ff ff ff ff 07 *)
Theorem c12_read_bytes_orig_alloc_refuted :
  exists input r s' a,
    oct_read_bytes OctOrig (oct_write oct_empty input) = (r, s', a) /\
    a = 2 ^ 31 - 1 /\ oct_len (oct_write oct_empty input) = 5 /\
    oct_read_bytes OctFixed (oct_write oct_empty input) = (Err OctErrNotEnoughData, s', 0).
Proof. exact read_bytes_orig_alloc_refuted_lemma. Qed.
Print Assumptions c12_read_bytes_orig_alloc_refuted.

(* non-vacuity: an over-long 7-bit run, a length prefix larger than the rest, a truncated
   int16, then the last byte *)
Example c12_nonvacuous :
  oct_c12_case OctFixed [128; 128; 128; 128; 16; 3; 65] [Op7Bit; OpBytes; OpInt16 OctViaReader; OpByte OctViaStream] =
  [(Err OctErrBad7BitInt, oct_mk [128; 128; 128; 128; 16; 3; 65] 5, 0);
   (Err OctErrNotEnoughData, oct_mk [128; 128; 128; 128; 16; 3; 65] 6, 0);
   (Err OctErrNotEnoughData, oct_mk [128; 128; 128; 128; 16; 3; 65] 6, 0);
   (Ok (OVByte 65), oct_mk [128; 128; 128; 128; 16; 3; 65] 7, 0)].
Proof. exact c12_example. Qed.
