(* C12 -- iox decoding of arbitrary bytes is total, in-bounds and allocation-bounded.
   Only property theorems, each closed by [exact] of a lemma of proofs/OctetsProofs.v.
   Quantification: any stream s with oct_wf s (position <= len(buffer), the documented
   invariant; buffer = any list, so any byte string), any read operation op of
   OctetsStream / OctetsReader (oct_op, including OctetsStream.Read(make([]byte,n)) with
   n >= 0 = oct_op_ok), and any sequence of such calls.
   The last section discharges oct_wf: the state reached by ANY sequence of stream operations
   (Write, Read, Seek, Tidy, Reset -- C13's model StreamOps.v) corresponds, through the
   bridge of proofs/OctetsBridge.v, to a well-formed state of this model. *)
From Got Require Import Base GoSlice Octets OctetsSpec OctetsProofs StreamOps StreamOpsProofs StreamReads OctetsBridge.
Local Open Scope Z_scope.

(* never panics (both for the code as it is and for the pre-fix ReadBytes) *)
Theorem c12_read_total : forall v op s,
  oct_wf s -> oct_op_ok op = true -> fst (fst (oct_read_op v op s)) <> Panic.
Proof. exact read_total_lemma. Qed.
Print Assumptions c12_read_total.

(* an error is one of the package's documented errors (by the type oct_err), and more
   precisely: fixed-width reads only ErrNotEnoughData; Read7BitEncodedInt also ErrBad7BitInt;
   ReadBytes/ReadString also ErrNegativeSize; OctetsStream.Read only ErrInvalidArgument, and
   only for an empty buffer (oct_err_allowed) *)
Theorem c12_read_errors_documented : forall v op s e s' a,
  oct_wf s -> oct_op_ok op = true -> oct_read_op v op s = (Err e, s', a) -> oct_err_allowed op e.
Proof. exact read_errors_lemma. Qed.
Print Assumptions c12_read_errors_documented.

(* cursor stays within [0, Len], never moves backwards; buffer and Len unchanged *)
Theorem c12_read_cursor_in_bounds : forall v op s r s' a,
  oct_wf s -> oct_op_ok op = true -> oct_read_op v op s = (r, s', a) ->
  oct_buf s' = oct_buf s /\ oct_position s <= oct_position s' <= oct_len s' /\ oct_len s' = oct_len s.
Proof. exact read_cursor_in_bounds_lemma. Qed.
Print Assumptions c12_read_cursor_in_bounds.

(* never consumes beyond the available bytes, and the outcome (result, consumed count,
   alloc) is a function of the unread bytes only *)
Theorem c12_read_consumes_available_only : forall v op s r s' a,
  oct_wf s -> oct_op_ok op = true -> oct_read_op v op s = (r, s', a) ->
  0 <= oct_position s' - oct_position s <= oct_len s - oct_position s /\
  (forall s2, oct_wf s2 -> oct_rest s2 = oct_rest s ->
     exists s2', oct_read_op v op s2 = (r, s2', a) /\
                 oct_position s2' - oct_position s2 = oct_position s' - oct_position s).
Proof. exact read_consumes_available_only_lemma. Qed.
Print Assumptions c12_read_consumes_available_only.

(* a failed fixed-width read (bool, byte, int16, int32, int64; stream or reader) leaves
   the stream exactly as it was *)
Theorem c12_read_fixed_fail_consumes_nothing : forall v op s e s' a,
  oct_wf s -> oct_op_fixed op = true -> oct_read_op v op s = (Err e, s', a) -> s' = s /\ a = 0.
Proof. exact read_fixed_fail_consumes_nothing_lemma. Qed.
Print Assumptions c12_read_fixed_fail_consumes_nothing.

(* bytes requested from make() are bounded by the unread input, not by a length field *)
Theorem c12_read_alloc_bounded : forall op s r s' a,
  oct_wf s -> oct_op_ok op = true -> oct_read_op OctFixed op s = (r, s', a) ->
  0 <= a <= oct_len s - oct_position s.
Proof. exact read_alloc_bounded_lemma. Qed.
Print Assumptions c12_read_alloc_bounded.

(* a successful ReadBytes returns exactly the announced number of bytes, and they are the
   input bytes following the length prefix *)
Theorem c12_read_bytes_exact : forall v s d s' a,
  oct_wf s -> oct_read_bytes v s = (Ok d, s', a) ->
  exists size s1,
    oct_read_7bit s = (Ok size, s1, 0) /\ 0 <= size /\
    Z.of_nat (length d) = size /\
    d = firstn (Z.to_nat size) (skipn (oct_pos s1) (oct_buf s)) /\
    oct_buf s' = oct_buf s /\ oct_position s' = oct_position s1 + size /\
    (v = OctFixed -> a = size).
Proof. exact read_bytes_exact_lemma. Qed.
Print Assumptions c12_read_bytes_exact.

Theorem c12_read_string_is_read_bytes : forall v s, oct_read_string v s = oct_read_bytes v s.
Proof. exact read_string_eq. Qed.
Print Assumptions c12_read_string_is_read_bytes.

(* every sequence of read calls, each made whatever the previous ones returned:
   no panic, buffer unchanged, cursor monotone within [pos, Len], alloc bounded by the
   unread input at the time of the call (oct_reads_safe) *)
Theorem c12_reads_safe : forall v ops s,
  oct_wf s -> forallb oct_op_ok ops = true -> oct_reads_safe v s (oct_run_reads v ops s).
Proof. exact reads_safe_lemma. Qed.
Print Assumptions c12_reads_safe.

(* the pre-fix ReadBytes requested 2^31-1 bytes for the 5-byte input ff ff ff ff 07 *)
Theorem c12_read_bytes_orig_alloc_refuted :
  exists input r s' a,
    oct_read_bytes OctOrig (oct_write oct_empty input) = (r, s', a) /\
    a = 2 ^ 31 - 1 /\ oct_len (oct_write oct_empty input) = 5 /\
    oct_read_bytes OctFixed (oct_write oct_empty input) = (Err OctErrNotEnoughData, s', 0).
Proof. exact read_bytes_orig_alloc_refuted_lemma. Qed.
Print Assumptions c12_read_bytes_orig_alloc_refuted.

(* ------------------------------------------------------------------ the cursor hypothesis, discharged *)
(* StreamOps.v (C13) and Octets.v (C11/C12) are two transcriptions of iox/octets_stream.go.
   brg_rel s o : the StreamOps state s and the Octets state o have the same bytes and the
   same position.  On EVERY pair of corresponding states (also position > len) the
   operations both models have are the same function: *)

(* Len(), Position(), Bytes() = buffer[position:], and the invariants of the two models *)
Theorem c12_models_agree_observers : forall s o,
  brg_rel s o ->
  oct_len o = stm_len s /\ oct_position o = stm_position s /\
  stm_bytes s = brg_opt_res (oct_slice_from (oct_buf o) (oct_pos o)) /\
  (stm_inv s <-> oct_wf o) /\
  (oct_wf o -> stm_bytes s = Ok (oct_rest o) /\ stm_unread s = oct_rest o).
Proof.
  exact (fun s o H => conj (brg_len s o H) (conj (brg_position s o H) (conj (brg_bytes s o H)
           (conj (brg_inv_wf s o H) (brg_bytes_rest s o H))))).
Qed.
Print Assumptions c12_models_agree_observers.

(* the correspondence is one-to-one (StreamOps states with a non-negative position) *)
Theorem c12_models_states_bijective : forall s o,
  (brg_rel s o <-> (0 <= st_pos s /\ o = brg_oct s)) /\ (brg_rel s o <-> s = brg_stm o).
Proof. exact (fun s o => conj (brg_rel_iff s o) (brg_rel_iff_stm s o)). Qed.
Print Assumptions c12_models_states_bijective.

(* Write(p); the raw append of WriteBool/Byte/Int16/Int32/Int64; every typed writer is
   Write of the value's wire format *)
Theorem c12_models_agree_write : forall s o,
  brg_rel s o ->
  (forall p, brg_rel (stm_write s p) (oct_write o p)) /\
  (forall l, brg_rel (stm_write s l) (oct_append o l)) /\
  (forall a x, oct_val_ok x = true ->
     exists o', oct_write_val a o x = Some o' /\ brg_rel (stm_write s (oct_wire x)) o').
Proof.
  exact (fun s o H => conj (fun p => brg_write s o p H) (conj (fun l => brg_append s o l H)
           (fun a x Hx => brg_write_val a s o x H Hx))).
Qed.
Print Assumptions c12_models_agree_write.

(* Read(make([]byte, n)): same bytes, same error, same new position, same panics *)
Theorem c12_models_agree_read : forall s o n,
  brg_rel s o -> brg_read_agree s o (stm_read s n) (oct_stream_read o (Z.of_nat n)).
Proof. exact brg_read. Qed.
Print Assumptions c12_models_agree_read.

(* Tidy(): same result state, same panics; copy() and the checked slice accessors agree *)
Theorem c12_models_agree_tidy : forall s o,
  brg_rel s o -> brg_tidy_agree (stm_tidy s) (oct_tidy o).
Proof. exact brg_tidy. Qed.
Print Assumptions c12_models_agree_tidy.

Theorem c12_models_agree_slices : forall (l : list Z),
  (forall p, gs_slice_from l (Z.of_nat p) = brg_opt_res (oct_slice_from l p)) /\
  (forall a b, gs_slice l a b = brg_opt_res (oct_slice l a b)) /\
  (forall src, gs_copy l src = oct_copy l src).
Proof. exact (fun l => conj (brg_slice_from l) (conj (brg_slice l) (brg_copy l))). Qed.
Print Assumptions c12_models_agree_slices.

(* THE composed property.  For every sequence ops of stream operations (Write of any bytes,
   Read of any size, Seek with ANY offset and whence -- also invalid ones, also outside the
   int64 range --, Tidy, Reset; the code as it is now, with the Seek upper-bound check)
   applied to the empty stream, and every sequence rops of typed read calls made afterwards
   on the same stream: no stream operation panics; the state reached has
   0 <= Position() <= Len(); no read call panics, the buffer is unchanged, every cursor is
   monotone within [Position(), Len()], the bytes requested from make() are bounded by the
   unread bytes at the time of the call (oct_reads_safe); failed fixed-width reads consume
   nothing (brg_fixed_fail_nothing); and this is the function the correspondence check
   compares with the real code (brg_case; its first part is C13's trace).
   No hypothesis on the cursor: it is c13_stm_cursor_in_bounds (StreamOpsProofs.stm_run_inv)
   carried across the bridge. *)
Theorem c12_reads_safe_after_any_ops : forall v ops rops,
  forallb oct_op_ok rops = true ->
  exists s rs,
    stm_run StmFixed stm_init ops = Ok (s, rs) /\ length rs = length ops /\
    brg_rel s (brg_oct s) /\
    0 <= oct_position (brg_oct s) <= oct_len (brg_oct s) /\
    oct_reads_safe v (brg_oct s) (oct_run_reads v rops (brg_oct s)) /\
    brg_fixed_fail_nothing rops (brg_oct s) (oct_run_reads v rops (brg_oct s)) /\
    brg_case StmFixed v ops rops =
      (stm_trace StmFixed stm_init ops, Some (oct_run_reads v rops (brg_oct s))).
Proof. exact reads_safe_after_any_ops_lemma. Qed.
Print Assumptions c12_reads_safe_after_any_ops.

(* ... and in any alternation: segments of stream operations and segments of typed read
   calls in turn, any number of them, on one stream starting empty (read, Tidy, write more,
   Seek back, read again, Reset, ...).  brg_phases_safe: every stream-op segment runs without
   panic, its trace is C13's clean trace, and leaves 0 <= Position() <= Len(); every read
   segment is safe in the sense above (oct_reads_safe, brg_fixed_fail_nothing) on the state
   the previous segment left, leaves the buffer unchanged and the cursor monotone within
   [Position(), Len()], and Bytes() afterwards is exactly the unread rest.  This is the
   function the correspondence check compares with the real code (c12s cases). *)
Theorem c12_reads_safe_in_any_alternation : forall v segs,
  forallb brg_seg_ok segs = true ->
  brg_phases_safe v stm_init segs (brg_phases StmFixed v stm_init segs).
Proof. exact alternation_safe_lemma. Qed.
Print Assumptions c12_reads_safe_in_any_alternation.

(* from any state inside its data, not only the empty stream *)
Theorem c12_reads_safe_in_any_alternation_from : forall v segs s,
  0 <= st_pos s <= stm_len s -> forallb brg_seg_ok segs = true ->
  brg_phases_safe v s segs (brg_phases StmFixed v s segs).
Proof. exact phases_safe_lemma. Qed.
Print Assumptions c12_reads_safe_in_any_alternation_from.

(* the predicate, unfolded once (so that the statement above can be read here) *)
Theorem c12_alternation_safe_unfold : forall v s,
  (forall ops tl t obs,
     brg_phases_safe v s (BrgOps ops :: tl) (BrgOpsObs t :: obs) <->
     exists s1 rs,
       stm_run StmFixed s ops = Ok (s1, rs) /\ length rs = length ops /\
       t = stm_trace StmFixed s ops /\ forallb stm_line_clean t = true /\ length t = length ops /\
       0 <= st_pos s1 <= stm_len s1 /\ brg_phases_safe v s1 tl obs) /\
  (forall rops tl rs b obs,
     brg_phases_safe v s (BrgReads rops :: tl) (BrgReadsObs rs b :: obs) <->
     brg_rel s (brg_oct s) /\ rs = oct_run_reads v rops (brg_oct s) /\
     oct_reads_safe v (brg_oct s) rs /\ brg_fixed_fail_nothing rops (brg_oct s) rs /\
     oct_buf (brg_after_reads (brg_oct s) rs) = oct_buf (brg_oct s) /\
     oct_position (brg_oct s) <= oct_position (brg_after_reads (brg_oct s) rs) <= oct_len (brg_oct s) /\
     b = Ok (oct_rest (brg_after_reads (brg_oct s) rs)) /\
     brg_phases_safe v (brg_stm (brg_after_reads (brg_oct s) rs)) tl obs) /\
  (brg_phases_safe v s [] [] <-> True).
Proof. exact (fun v s => conj (fun ops tl t obs => iff_refl _) (conj (fun rops tl rs b obs => iff_refl _) (iff_refl _))). Qed.
Print Assumptions c12_alternation_safe_unfold.

(* the two-segment alternation is brg_case *)
Theorem c12_alternation_two_is_case : forall sv v ops rops,
  brg_phases sv v stm_init [BrgOps ops; BrgReads rops] =
  BrgOpsObs (fst (brg_case sv v ops rops)) ::
  match snd (brg_trace sv stm_init ops), snd (brg_case sv v ops rops) with
  | Some s, Some rs => [BrgReadsObs rs (stm_bytes (brg_stm (brg_after_reads (brg_oct s) rs)))]
  | _, _ => []
  end.
Proof. exact phases_two. Qed.
Print Assumptions c12_alternation_two_is_case.

(* neither Seek variant ever stores a negative position: every reachable StreamOps state
   has an Octets counterpart *)
Theorem c12_stream_position_never_negative : forall sv ops s rs,
  stm_run sv stm_init ops = Ok (s, rs) -> 0 <= st_pos s /\ brg_rel s (brg_oct s).
Proof.
  exact (fun sv ops s rs H =>
    let Hp := brg_run_pos_nonneg sv ops stm_init s rs (Z.le_refl 0) H in conj Hp (brg_rel_oct s Hp)).
Qed.
Print Assumptions c12_stream_position_never_negative.

(* with the pre-fix Seek (no upper bound) the property is false: after Write(4 bytes);
   Seek(10, SeekStart) -- which the current code rejects -- Position() = 10 > Len() = 4,
   OctetsStream.Read(make([]byte, 1)) panics, ReadByte / ReadInt32 return ErrNotEnoughData
   with the cursor outside the data *)
Theorem c12_reads_after_orig_seek_refuted :
  exists ops s rs,
    stm_run StmOrig stm_init ops = Ok (s, rs) /\ brg_rel s (brg_oct s) /\
    oct_position (brg_oct s) = 10 /\ oct_len (brg_oct s) = 4 /\ ~ oct_wf (brg_oct s) /\
    fst (fst (oct_read_op OctFixed (OpRead 1) (brg_oct s))) = Panic /\
    oct_read_op OctFixed (OpByte OctViaStream) (brg_oct s) = (Err OctErrNotEnoughData, brg_oct s, 0) /\
    oct_read_op OctFixed (OpInt32 OctViaReader) (brg_oct s) = (Err OctErrNotEnoughData, brg_oct s, 0) /\
    ~ oct_reads_safe OctFixed (brg_oct s) (oct_run_reads OctFixed [OpRead 1] (brg_oct s)) /\
    ~ oct_reads_safe OctFixed (brg_oct s) (oct_run_reads OctFixed [OpByte OctViaStream] (brg_oct s)) /\
    stm_run StmFixed stm_init ops = Ok (mk_stm [1; 2; 3; 4] 0, [SRWrote; SRSeek None]).
Proof. exact reads_after_orig_seek_refuted_lemma. Qed.
Print Assumptions c12_reads_after_orig_seek_refuted.

(* non-vacuity of the composed property: write, partial read, a rejected and two accepted
   Seeks, Tidy, more data; then a length-prefixed read, an int16, and two reads that fail *)
Example c12s_nonvacuous :
  brg_case StmFixed OctFixed
    [SWrite [9; 2; 65; 66; 7]; SRead 1%nat; SSeek 9 0; SSeek (-1) 2; SSeek 1 0; STidy; SWrite [1]]
    [OpBytes; OpInt16 OctViaReader; OpInt32 OctViaStream; OpByte OctViaStream] =
  (stm_trace StmFixed stm_init
     [SWrite [9; 2; 65; 66; 7]; SRead 1%nat; SSeek 9 0; SSeek (-1) 2; SSeek 1 0; STidy; SWrite [1]],
   Some [(Ok (OVBytes [65; 66]), oct_mk [2; 65; 66; 7; 1] 3, 2);
         (Ok (OVInt16 263), oct_mk [2; 65; 66; 7; 1] 5, 0);
         (Err OctErrNotEnoughData, oct_mk [2; 65; 66; 7; 1] 5, 0);
         (Err OctErrNotEnoughData, oct_mk [2; 65; 66; 7; 1] 5, 0)]).
Proof. exact c12s_example. Qed.

(* non-vacuity of the alternation: length-prefixed read, Tidy + more data + seeks, reads,
   Reset + new data, reads *)
Example c12s_alternation_nonvacuous :
  brg_phases StmFixed OctFixed stm_init
    [BrgOps [SWrite [2; 65; 66; 7; 1]; SSeek 9 0]; BrgReads [OpBytes];
     BrgOps [STidy; SWrite [3]; SSeek (-1) 1; SSeek 1 1]; BrgReads [OpInt16 OctViaReader; OpInt32 OctViaStream];
     BrgOps [SReset; SWrite [1; 88]]; BrgReads [OpString; OpByte OctViaStream]] =
  [BrgOpsObs (stm_trace StmFixed stm_init [SWrite [2; 65; 66; 7; 1]; SSeek 9 0]);
   BrgReadsObs [(Ok (OVBytes [65; 66]), oct_mk [2; 65; 66; 7; 1] 3, 2)] (Ok [7; 1]);
   BrgOpsObs (stm_trace StmFixed (mk_stm [2; 65; 66; 7; 1] 3) [STidy; SWrite [3]; SSeek (-1) 1; SSeek 1 1]);
   BrgReadsObs [(Ok (OVInt16 769), oct_mk [7; 1; 3] 3, 0); (Err OctErrNotEnoughData, oct_mk [7; 1; 3] 3, 0)] (Ok []);
   BrgOpsObs (stm_trace StmFixed (mk_stm [7; 1; 3] 3) [SReset; SWrite [1; 88]]);
   BrgReadsObs [(Ok (OVString [88]), oct_mk [1; 88] 2, 1); (Err OctErrNotEnoughData, oct_mk [1; 88] 2, 0)] (Ok [])].
Proof. exact c12s_alternation_example. Qed.

(* non-vacuity: an over-long 7-bit run, a length prefix larger than the rest, a truncated
   int16, then the last byte *)
Example c12_nonvacuous :
  oct_c12_case OctFixed [128; 128; 128; 128; 16; 3; 65] [Op7Bit; OpBytes; OpInt16 OctViaReader; OpByte OctViaStream] =
  [(Err OctErrBad7BitInt, oct_mk [128; 128; 128; 128; 16; 3; 65] 5, 0);
   (Err OctErrNotEnoughData, oct_mk [128; 128; 128; 128; 16; 3; 65] 6, 0);
   (Err OctErrNotEnoughData, oct_mk [128; 128; 128; 128; 16; 3; 65] 6, 0);
   (Ok (OVByte 65), oct_mk [128; 128; 128; 128; 16; 3; 65] 7, 0)].
Proof. exact c12_example. Qed.
