(* C16 -- loom.WaitClose closes once: one callback, Close returns after it, channel closed.
   Only property theorems (full statements), each closed by [exact] of a lemma proved in
   proofs/WaitCloseProofs.v (invariant: proofs/WaitCloseInv.v), and Print Assumptions.

   Quantification: every number of threads and every program of Close(nil | callback that
   returns nil / returns an error / panics, each optionally blocking for a while), C(),
   IsClosed(), WaitUtil() per thread ([progs]) on one zero-value WaitClose, and every schedule
   ([sched]: a list of items, [IRun i] = thread i executes up to its next yield point,
   [ITimeout i] = the timer of thread i's WaitUtil fires) -- unbounded, by induction over the
   schedule with the invariant [wc_inv].  Because the theorems hold for every schedule they hold
   for every prefix, i.e. at every instant of every run.

   s = state reached, h = history so far = list of (thread, action).  "A step from s" is
   [wc_step s it = (s', acts)]; its actions come after h.  History readers (models/WaitClose.v):
   wc_performs h   (thread, channel) of every close-performing action (close(closeChan) or
                   closeChan := the global closed channel)
   wc_cb_starts h / wc_cb_ends h   threads that started / ended a callback
   wc_close_rets h                 threads that returned from Close
   wc_ret_chans h                  channels returned by C() or selected on by WaitUtil *)
From Got Require Import Base WaitClose WaitCloseInv WaitCloseProofs WaitCloseHarness.
Local Open Scope nat_scope.

(* the invariant holds in every reachable state *)
Theorem wc_invariant :
  forall progs sched, wc_inv (wc_history (wc_init progs) sched) (wc_final (wc_init progs) sched).
Proof. exact wc_reachable_inv. Qed.
Print Assumptions wc_invariant.

(* At most one callback starts and at most one close is performed, the callback is started by
   the thread that performed the close, and only a started callback ends.  Moreover the callback
   starts in the very step (of that Close call) that performed the close. *)
Theorem wc_one_callback :
  forall progs sched,
    let h := wc_history (wc_init progs) sched in
    length (wc_cb_starts h) <= 1 /\ length (wc_performs h) <= 1 /\
    (forall i, In (i, ACbStart) h -> exists ch, wc_performs h = [(i, ch)]) /\
    (forall i o, In (i, ACbEnd o) h -> wc_cb_starts h = [i]).
Proof. exact wc_one_callback_pf. Qed.
Print Assumptions wc_one_callback.

Theorem wc_callback_of_the_closing_call :
  forall progs sched it s' acts,
    wc_step (wc_final (wc_init progs) sched) it = (s', acts) ->
    In ACbStart acts -> exists ch, In (APerform ch) acts.
Proof. exact wc_cb_started_by_closing_step_pf. Qed.
Print Assumptions wc_callback_of_the_closing_call.

(* At every Close return (by any thread, whether it performed the close, lost the race under the
   mutex or saw Closed in its first load): state = Closed before and after, the close has been
   performed, the channel is closed, and every callback that started has ended. *)
Theorem wc_close_returns_after_cb :
  forall progs sched it s' acts r,
    let s := wc_final (wc_init progs) sched in
    let h := wc_history (wc_init progs) sched in
    wc_step s it = (s', acts) -> In (ARetClose r) acts ->
    sh_st (wc_sh s) = WClosed /\ sh_st (wc_sh s') = WClosed /\
    wc_cb_ends h = wc_cb_starts h /\
    wc_closedb (wc_sh s) (sh_ch (wc_sh s)) = true /\
    exists p, wc_performs h = [(p, sh_ch (wc_sh s))].
Proof. exact wc_close_returns_after_cb_pf. Qed.
Print Assumptions wc_close_returns_after_cb.

(* Once a callback has ended -- however: o = ONil, OErr or OPanic -- the object is closed:
   state = Closed and the channel is closed, in every later state.  And close() itself never
   panics (no close of a nil or already closed channel). *)
Theorem wc_panic_still_closed :
  forall progs sched i o,
    let s := wc_final (wc_init progs) sched in
    let h := wc_history (wc_init progs) sched in
    In (i, ACbEnd o) h ->
    sh_st (wc_sh s) = WClosed /\ wc_closedb (wc_sh s) (sh_ch (wc_sh s)) = true.
Proof. exact wc_panic_still_closed_pf. Qed.
Print Assumptions wc_panic_still_closed.

Theorem wc_close_never_panics :
  forall progs sched i, ~ In (i, APanicClose) (wc_history (wc_init progs) sched).
Proof. exact wc_close_never_panics_pf. Qed.
Print Assumptions wc_close_never_panics.

(* C() never returns nil (and WaitUtil never selects on a nil channel) *)
Theorem wc_c_never_nil :
  forall progs sched, ~ In WNil (wc_ret_chans (wc_history (wc_init progs) sched)).
Proof. exact wc_c_never_nil_pf. Qed.
Print Assumptions wc_c_never_nil.

(* Every channel ever returned by C() is closed in every state after some Close returned --
   indeed from the instant the close is performed, which is before any Close returns. *)
Theorem wc_returned_chans_closed :
  forall progs sched,
    let s := wc_final (wc_init progs) sched in
    let h := wc_history (wc_init progs) sched in
    wc_close_rets h <> [] \/ wc_performs h <> [] ->
    Forall (fun c => wc_closedb (wc_sh s) c = true) (wc_ret_chans h).
Proof. exact wc_returned_chans_closed_pf. Qed.
Print Assumptions wc_returned_chans_closed.

(* IsClosed: true whenever some Close has returned; never true before the close was performed
   (and its callback, if any, finished); and Closed is for ever. *)
Theorem wc_isclosed_stable :
  forall progs sched it s' acts b,
    let s := wc_final (wc_init progs) sched in
    let h := wc_history (wc_init progs) sched in
    wc_step s it = (s', acts) -> In (ARetIsClosed b) acts ->
    (wc_close_rets h <> [] -> b = true) /\
    (b = true -> sh_st (wc_sh s') = WClosed /\ wc_cb_ends h = wc_cb_starts h /\
                 exists p, wc_performs h = [(p, sh_ch (wc_sh s))]).
Proof. exact wc_isclosed_pf. Qed.
Print Assumptions wc_isclosed_stable.

Theorem wc_closed_forever :
  forall progs sched more,
    sh_st (wc_sh (wc_final (wc_init progs) sched)) = WClosed ->
    sh_st (wc_sh (wc_final (wc_init progs) (sched ++ more))) = WClosed.
Proof. exact wc_closed_forever_pf. Qed.
Print Assumptions wc_closed_forever.

(* WaitUtil returns true iff the close event precedes, in the history, the event that ends the
   wait (its timer firing, or the thread being resumed); it returns false only on its timer
   event.  A tie is two adjacent events of the history: either order is a schedule. *)
Theorem wc_waitutil_iff :
  forall progs sched it s' acts b,
    let s := wc_final (wc_init progs) sched in
    let h := wc_history (wc_init progs) sched in
    wc_step s it = (s', acts) -> In (ARetWait b) acts ->
    (b = true <-> wc_performs h <> []) /\
    (b = false -> exists i, it = ITimeout i) /\
    (forall i, it = IRun i -> b = true).
Proof. exact wc_waitutil_iff_pf. Qed.
Print Assumptions wc_waitutil_iff.

(* Mutex discipline: the closeChan field is written only by the owner of the mutex and only
   while state = New (so a reader that saw state <> New reads a frozen field); state and the
   closed-set change only under the mutex; Lock succeeds only on a free mutex, Unlock only by
   the owner; at most one thread is inside a critical section, and the owner is such a thread. *)
Theorem wc_mutex_discipline :
  forall progs sched it s' acts,
    let s := wc_final (wc_init progs) sched in
    wc_step s it = (s', acts) ->
    (sh_ch (wc_sh s') <> sh_ch (wc_sh s) ->
       sh_own (wc_sh s) = Some (wc_item_tid it) /\ sh_st (wc_sh s) = WNew) /\
    (sh_st (wc_sh s') <> sh_st (wc_sh s) -> sh_own (wc_sh s) = Some (wc_item_tid it)) /\
    (sh_clo (wc_sh s') <> sh_clo (wc_sh s) -> sh_own (wc_sh s) = Some (wc_item_tid it)) /\
    (In ALock acts -> sh_own (wc_sh s) = None /\ sh_own (wc_sh s') = Some (wc_item_tid it)) /\
    (In AUnlock acts -> sh_own (wc_sh s) = Some (wc_item_tid it) /\ sh_own (wc_sh s') = None) /\
    (sh_own (wc_sh s') <> sh_own (wc_sh s) -> In ALock acts \/ In AUnlock acts).
Proof. exact wc_field_writes_pf. Qed.
Print Assumptions wc_mutex_discipline.

Theorem wc_mutual_exclusion :
  forall progs sched i j thi thj,
    let s := wc_final (wc_init progs) sched in
    nth_error (wc_threads s) i = Some thi -> nth_error (wc_threads s) j = Some thj ->
    wc_hold (wc_pcof thi) = true -> wc_hold (wc_pcof thj) = true -> i = j.
Proof. exact wc_mutual_exclusion_pf. Qed.
Print Assumptions wc_mutual_exclusion.

(* No deadlock: in every reachable state with an unfinished thread some schedule item is enabled
   (a thread step, or the timer of a WaitUtil whose channel is still open).  An item is enabled
   iff its step executes something; every such step decreases the measure wc_mu, so a run has at
   most 6 effective steps per operation: callbacks and all calls terminate. *)
Theorem wc_no_deadlock :
  forall progs sched,
    let s := wc_final (wc_init progs) sched in
    (exists i th, nth_error (wc_threads s) i = Some th /\ wc_finished_th th = false) ->
    exists it, wc_enabled s it = true.
Proof. exact wc_no_deadlock_pf. Qed.
Print Assumptions wc_no_deadlock.

Theorem wc_enabled_iff_effective :
  forall s it s' acts, wc_step s it = (s', acts) -> wc_enabled s it = wc_effective acts.
Proof. exact wc_enabled_effective_pf. Qed.
Print Assumptions wc_enabled_iff_effective.

Theorem wc_progress :
  forall s it s' acts,
    wc_step s it = (s', acts) ->
    (wc_effective acts = true -> wc_mu s' < wc_mu s) /\ (wc_effective acts = false -> s' = s).
Proof. exact wc_step_measure_pf. Qed.
Print Assumptions wc_progress.

Theorem wc_terminates :
  forall progs sched, wc_eff_steps (wc_init progs) sched <= 6 * length (concat progs).
Proof. exact wc_terminates_pf. Qed.
Print Assumptions wc_terminates.

(* Once the close has been performed -- in particular once any Close has returned -- no WaitUtil keeps waiting,
   whenever its wait began: the channel a waiting call selected on is closed, its step is enabled and is exactly
   "return true" (nothing else changes).  With wc_waitutil_iff: a wait that begins after a Close has returned
   ends true, also when its timer fires in the same instant. *)
Theorem wc_waiting_after_close :
  forall progs sched i th c,
    let s := wc_final (wc_init progs) sched in
    let h := wc_history (wc_init progs) sched in
    wc_close_rets h <> [] \/ wc_performs h <> [] ->
    nth_error (wc_threads s) i = Some th -> wc_pcof th = WWait c ->
    wc_closedb (wc_sh s) c = true /\ wc_enabled s (IRun i) = true /\
    wc_step s (IRun i) =
      ({| wc_sh := wc_sh s;
          wc_threads := wc_set_thread (wc_threads s) i {| wc_pcof := WIdle; wc_todo := wc_todo th |} |},
       [ARetWait true]).
Proof. exact wc_waiting_after_close_pf. Qed.
Print Assumptions wc_waiting_after_close.

(* A call parked before mutex.Lock() (Close, or the lazy initialisation of C / WaitUtil), in ANY state: while
   the mutex is held -- by the lazy initialisation of another call, by a Close before, inside or after its
   callback -- its step changes nothing and returns nothing (so no Close returns by giving up on a held mutex);
   on a free mutex it acquires it and does nothing else. *)
Theorem wc_lock_waiter :
  forall s j th,
    nth_error (wc_threads s) j = Some th -> wc_at_lock (wc_pcof th) = true ->
    (forall k, sh_own (wc_sh s) = Some k -> wc_step s (IRun j) = (s, [ABlocked])) /\
    (sh_own (wc_sh s) = None ->
       exists s', wc_step s (IRun j) = (s', [ALock]) /\ sh_own (wc_sh s') = Some j /\ wc_hold_th s' j = true).
Proof. exact wc_lock_waiter_pf. Qed.
Print Assumptions wc_lock_waiter.

(* The steps the harness executes (models/WaitClose.v, "the steps of the harness": WaitUtil beginning to wait on
   a closed channel returns within the same step; a thread that is really inside Lock() takes the mutex in the
   step that releases it; forced steps of disabled threads) are runs of the model: same final state, same
   history, for some schedule.  So every theorem above, being about all schedules, covers every run the
   harness compares with the code -- from the initial state and after any prefix. *)
Theorem wc_lwrun_is_run :
  forall s inlock hsched, exists sched, wc_lwrun s inlock hsched = wc_run s sched.
Proof. exact wc_lwrun_is_run_pf. Qed.
Print Assumptions wc_lwrun_is_run.

Theorem wc_lwrun_reachable :
  forall progs pre inlock hsched,
  exists sched,
    let '(s2, h2) := wc_lwrun (wc_final (wc_init progs) pre) inlock hsched in
    wc_final (wc_init progs) sched = s2 /\
    wc_history (wc_init progs) sched = wc_history (wc_init progs) pre ++ h2.
Proof. exact wc_lwrun_reachable_pf. Qed.
Print Assumptions wc_lwrun_reachable.

(* documentation: what the order "callback, deferred store, deferred unlock" and the second
   check under the mutex are there for.  With the state stored before the callback a second
   Close returns while the callback is still running; without the re-check two callbacks run. *)
Theorem wc_store_early_refuted :
  exists progs sched,
    let h := wc_history_f FStoreEarly (wc_init progs) sched in
    wc_close_rets h = [1] /\ wc_cb_starts h = [0] /\ wc_cb_ends h = [].
Proof. exact wc_store_early_refuted_pf. Qed.
Print Assumptions wc_store_early_refuted.

Theorem wc_no_recheck_refuted :
  exists progs sched,
    let h := wc_history_f FNoRecheck (wc_init progs) sched in
    wc_cb_starts h = [0; 1] /\ length (wc_performs h) = 2.
Proof. exact wc_no_recheck_refuted_pf. Qed.
Print Assumptions wc_no_recheck_refuted.

(* non-vacuity: 3 threads.  Thread 1's C() loads New and goes for the lazy initialisation;
   thread 0's Close gets the mutex first, installs the global closed channel and starts a
   callback that blocks, then panics; C() and a second Close (thread 2) are parked before the
   held mutex (disabled steps); after the panic the state is stored, the mutex released; C()
   finds Closed under the lock and returns the (closed) global channel, the second Close
   finds Closed under the lock and runs no callback; IsClosed is true. *)
Example wc_nonvacuous :
  let s0 := wc_init [[OpClose (Cb OPanic true)]; [OpC]; [OpClose (Cb ONil false); OpIsClosed]] in
  let sched := map IRun [1;1; 0;0;0;0; 1; 2;2;2; 0; 1;1;1; 2;2;2; 0; 2;2] in
  let h := wc_history s0 sched in
  In (1, ABlocked) h /\ In (2, ABlocked) h /\ In (0, ACbEnd OPanic) h /\
  wc_cb_starts h = [0] /\ wc_performs h = [(0, WGlobal)] /\ wc_ret_chans h = [WGlobal] /\
  wc_close_rets h = [2; 0] /\ In (2, ARetIsClosed true) h /\
  wc_enabled (wc_final s0 sched) (IRun 0) = false /\ wc_mu (wc_final s0 sched) = 0.
Proof. vm_compute. intuition. Qed.

(* non-vacuity of wc_waitutil_iff: the same WaitUtil ends true when the close comes first and
   false when its timer comes first; lazily made channel (thread 0 initialises it) *)
Example wc_nonvacuous_wait :
  let s0 := wc_init [[OpWait]; [OpClose CbNone]] in
  let pre := map IRun [0;0;0;0;0; 1;1;1] in
  In (0, ARetWait true) (wc_history s0 (pre ++ [IRun 1; ITimeout 0])) /\
  In (0, ARetWait false) (wc_history s0 (pre ++ [ITimeout 0; IRun 1])) /\
  In (0, ABlocked) (wc_history s0 (pre ++ [IRun 0])).
Proof. vm_compute. intuition. Qed.

(* non-vacuity of the harness-level steps.  (1) thread 1's Close is parked before the mutex held by thread 0's
   blocking callback and is forced (no-op in the model, really inside Lock() in the code); the step of thread 0
   that ends the callback and unlocks is followed at once by thread 1's acquisition.  (2) a WaitUtil that begins
   to wait after the close returns true within the same harness step; one that began before is woken. *)
Example wc_nonvacuous_harness :
  let s0 := wc_init [[OpClose (Cb ONil true)]; [OpClose CbNone]] in
  let r := wc_lwrun s0 None [(false,0);(false,0);(false,0);(false,0);(false,1);(false,1);(true,1);(false,1);(false,0)] in
  wc_hold_th (fst r) 1 = true /\ sh_own (wc_sh (fst r)) = Some 1 /\
  snd r = [(0, AInv (OpClose (Cb ONil true))); (0, ALoad WNew); (0, ALock); (0, APerform WGlobal); (0, ACbStart);
           (1, AInv (OpClose CbNone)); (1, ALoad WNew); (1, ABlocked); (1, ABlocked);
           (0, ACbEnd ONil); (0, AStore); (0, AUnlock); (1, ALock)] /\
  let w0 := wc_init [[OpWait]; [OpClose CbNone]; [OpWait]] in
  snd (wc_lwrun w0 None (map (pair false) [0;0;0;0;0;0; 1;1;1;1;1; 0; 2;2])) =
    [(0, AInv OpWait); (0, ALoad WNew); (0, ALock); (0, AMake (WMade 0)); (0, AUnlock); (0, AWaitOn (WMade 0));
     (0, ABlocked); (1, AInv (OpClose CbNone)); (1, ALoad WInit); (1, ALock); (1, APerform (WMade 0)); (1, AStore);
     (1, AUnlock); (1, ARetClose RNil); (0, ARetWait true);
     (2, AInv OpWait); (2, ALoad WClosed); (2, AWaitOn (WMade 0)); (2, ARetWait true)].
Proof. vm_compute. repeat split. Qed.
