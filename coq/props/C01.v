(* C01 -- loom.Queue is a linearizable FIFO under any interleaving of Push and Pop.
   Only property theorems (full statements), each closed by [exact] of a lemma proved in
   proofs/QueueProofs.v, and Print Assumptions.

   Quantification: every prefill [pre], every number of threads and every program of
   Push/Pop per thread ([progs]), every schedule (list of thread ids; one entry = one
   shared-memory access of that thread) -- unbounded.

   Linearizability is stated in linearization-point form:
   (1) [c01_refines_fifo]: replaying the linearization-point events of the run, in the order
       in which they happen, on a sequential FIFO queue is legal at every step (a Pop's value
       is the current front, an empty-candidate step sees the sequential queue empty) and ends
       in the abstraction of the final concrete state;
   (2) [c01_thread_protocol]: for every thread, between the invocation and the return of each
       of its operations (invoked in program order) there is exactly one linearization point of
       that operation: Push v -> one QELinPush v strictly before its return; a Pop returning v
       -> QELinRetPop v at its return; a Pop returning nil -> its return is directly preceded
       (in that thread) by an own step QECand, i.e. an instant inside the call at which, by (1),
       the queue was empty.
   (3) [c01_linearizable]: the linearization itself, constructed from the trace (Herlihy-Wing):
       a legal sequential FIFO history containing each returned operation once with its
       result, each placed inside its call interval (hence respecting real-time order).
   (4) [c01_herlihy_wing_linearizable]: the textbook, purely relational statement
       (lib/Linearizability.v: histories of invocation/response events, extension by responses,
       complete(), per-thread equivalence to a legal sequential history, real-time order
       <_H contained in <_S), for the history of invocations and returns of every run;
       [c01_hw_linearization_witness] names the H' and S that are used;
       [c01_fifo_legal_consequences]: what legality means for the values.
   The consequences named in the property are [c01_no_loss_dup_invent], (1) and
   [c01_fifo_legal_consequences]. *)
From Got Require Import Base Queue QueueProofs Linearizability QueueHistory QueueLinProofs QueueHwCheck QueueHwCheckProofs.
From Coq Require Import Permutation.
Local Open Scope nat_scope.

Theorem c01_queue_invariant :
  forall pre progs sched, q_inv (q_final (q_init pre progs) sched).
Proof. exact q_reachable_inv. Qed.
Print Assumptions c01_queue_invariant.

(* Pop never dereferences a nil next pointer *)
Theorem c01_no_nil_dereference :
  forall pre progs sched i, ~ In (i, QEPanic) (q_trace (q_init pre progs) sched).
Proof. intros pre progs sched. apply q_run_no_panic. apply q_init_inv. Qed.
Print Assumptions c01_no_nil_dereference.

Theorem c01_refines_fifo :
  forall pre progs sched,
    q_apply_trace pre (q_trace (q_init pre progs) sched)
    = Some (q_abs (q_final (q_init pre progs) sched)).
Proof. exact q_refines_fifo. Qed.
Print Assumptions c01_refines_fifo.

Theorem c01_thread_protocol :
  forall pre progs sched j,
    q_aut_run QAIdle (nth j progs []) (q_proj j (q_trace (q_init pre progs) sched))
    = Some (q_aut_of (q_final (q_init pre progs) sched) j).
Proof. exact q_thread_protocol. Qed.
Print Assumptions c01_thread_protocol.

(* no value is lost, duplicated or invented, and values leave in the order they entered:
   prefill followed by the pushed values in linearization order = the popped values in
   linearization order followed by what is still in the queue *)
Theorem c01_no_loss_dup_invent :
  forall pre progs sched,
    let tr := q_trace (q_init pre progs) sched in
    pre ++ q_pushed tr = q_popped tr ++ q_abs (q_final (q_init pre progs) sched).
Proof. exact q_no_loss_dup_invent. Qed.
Print Assumptions c01_no_loss_dup_invent.

(* Herlihy-Wing linearizability, with the linearization constructed from the trace:
   [q_lin tr] lists (thread, operation-with-result) in linearization order: Push v at its
   link CAS, Pop -> v at its head CAS, Pop -> nil at the own step (QECand) directly followed,
   in that thread, by the nil return.
   (a) that sequence is a legal sequential FIFO history from the prefill to the final
       abstract queue (every Pop -> v takes the then-front v, every Pop -> nil sees the
       sequential queue empty);
   (b) for every thread j, [q_tcheck] accepts its events: operations are invoked in program
       order, every linearization point of j lies strictly after the invocation and not
       after the return of one of its operations, carries that operation's result, each
       returned operation has exactly one, and no linearization point occurs outside an
       operation -- hence an operation that returned before another was invoked precedes it
       in q_lin (real-time order), and the per-thread part of q_lin is exactly what (b)
       talks about (c). *)
Theorem c01_linearizable :
  forall pre progs sched,
    let tr := q_trace (q_init pre progs) sched in
    q_seq_run pre (map snd (q_lin tr)) = Some (q_abs (q_final (q_init pre progs) sched)) /\
    forall j,
      q_tcheck TIdle (nth j progs []) (q_proj j tr) = true /\
      map snd (filter (fun p => Nat.eqb (fst p) j) (q_lin tr)) = q_lin_thread (q_proj j tr).
Proof. exact q_linearizable. Qed.
Print Assumptions c01_linearizable.

(* Textbook linearizability (Herlihy & Wing 1990), relational, nothing left in prose.
   [q_history tr]: the subsequence of invocation events (HInv j op: thread j calls Push v / Pop)
   and response events (HRes j r: the call of thread j returns) of the trace, internal steps
   and linearization-point markers erased.  [q_fifo_spec pre]: the sequential FIFO queue
   initially holding pre (state = list; Push v appends; Pop removes and returns the head,
   returns nil iff the list is empty).  Unfolded (lib/Linearizability.v), the statement is:
     H is well-formed (every thread alternates invocation, response, ...), and there are
     H' = H ++ (responses to some pending invocations), well-formed, and S such that
     - S is sequential (inv, its res, inv, its res, ...) and every response in S is the one
       the FIFO step function gives, starting from pre                          [hw_legal]
     - for every thread t, complete(H')|t = S|t                                 [hw_equiv]
       (hence S is a permutation of complete(H'): c01_hw_linearization_witness)
     - for all operations a = (thread, call index), b: if the response of a precedes the
       invocation of b in H (and b occurs in S -- automatic when b returned in H), then the
       response of a precedes the invocation of b in S                          [hw_realtime] *)
Theorem c01_herlihy_wing_linearizable :
  forall pre progs sched,
    hw_linearizable (q_history (q_trace (q_init pre progs) sched)) (q_fifo_spec pre).
Proof. exact q_hw_linearizable. Qed.
Print Assumptions c01_herlihy_wing_linearizable.

(* the same with the witnesses named: H' completes exactly the Pushes whose link CAS has
   happened ([q_hw_ext]); S lists the operations in the order of their linearization points
   ([q_hw_seq] = the operations of q_lin, each as inv;res) *)
Theorem c01_hw_linearization_witness :
  forall pre progs sched,
    let tr := q_trace (q_init pre progs) sched in
    let H := q_history tr in
    let H' := H ++ q_hw_ext tr in
    let S := q_hw_seq tr in
    hw_wf H /\
    hw_extension H H' /\
    hw_legal (q_fifo_spec pre) S /\
    hw_equiv (hw_complete H') S /\
    Permutation (hw_complete H') S /\
    hw_realtime H S.
Proof. exact q_hw_witnessed. Qed.
Print Assumptions c01_hw_linearization_witness.

(* "consequently": in every legal sequential history S of the FIFO specification -- so in
   every linearization of every run -- the values popped, in the order of S, followed by
   some rest (the final content) are exactly the initial content followed by the values
   pushed, in the order of S: nothing lost, duplicated or invented, first in first out.  And
   a Pop answers nil in S only in the empty state (definition of q_fifo_step); by
   [hw_realtime]/(2) that point of S lies inside the call interval of that Pop. *)
Theorem c01_fifo_legal_consequences :
  forall pre (S : hw_history q_op q_res),
    hw_legal (q_fifo_spec pre) S ->
    exists rest, pre ++ q_seq_pushes S = q_seq_pops S ++ rest.
Proof. exact q_fifo_legal_consequences. Qed.
Print Assumptions c01_fifo_legal_consequences.

(* the definition is not trivially satisfiable: thread 0's Push 1 has returned, then thread 1
   calls Pop and gets nil.  Legality alone would accept S = Pop -> nil; Push 1 -- it is the
   real-time clause that refuses this history. *)
Theorem c01_hw_definition_rejects :
  ~ hw_linearizable
      [HInv 0 (QPush 1%Z); HRes 0 QRPush; HInv 1 QPop; HRes 1 (QRPop None)]
      (q_fifo_spec []).
Proof. exact q_hw_rejects_stale_nil. Qed.
Print Assumptions c01_hw_definition_rejects.

(* the executable checker that is run (extracted) on the implementation's histories, next to
   the python brute-force monitor, is sound for the textbook definition.  (It only tries
   H' = H, which is complete on histories in which every call returned -- those of the
   harness; it is not claimed to be complete in general.) *)
Theorem c01_hw_check_sound :
  forall pre (H : hw_history q_op q_res),
    q_hw_check pre H = true -> hw_linearizable H (q_fifo_spec pre).
Proof. exact q_hw_check_sound. Qed.
Print Assumptions c01_hw_check_sound.

(* non-vacuity: a concrete 3-thread run with a lagging tail that is helped, a failed CAS,
   an empty Pop and a successful Pop *)
Example c01_nonvacuous :
  let s0 := q_init [] [[QPush 5%Z]; [QPop; QPop]; [QPush 6%Z]] in
  let sched := [1;1;1;1;1; 0;0;0;0;0; 2;2;2;2;2;2;2;2;2;2; 0; 1;1;1;1;1;1] in
  In (1, QECand) (q_trace s0 sched) /\ In (1, QERetEmpty) (q_trace s0 sched) /\
  In (1, QELinRetPop 5%Z) (q_trace s0 sched) /\ In (2, QELinPush 6%Z) (q_trace s0 sched) /\
  q_abs (q_final s0 sched) = [6%Z] /\
  q_lin (q_trace s0 sched) = [(1, SPopNone); (0, SPush 5%Z); (2, SPush 6%Z); (1, SPopSome 5%Z)].
Proof. vm_compute. intuition. Qed.

(* non-vacuity of the textbook statement: three threads with overlapping calls.  Thread 0
   invokes Push 5 first and is then delayed; thread 1 runs Push 6 to completion; thread 2 runs
   Pop to completion (it returns 6); then thread 0 finishes.  The linearization S puts the
   operation that was invoked FIRST last: S = Push 6 (t1); Pop -> 6 (t2); Push 5 (t0).  The
   real-time clause is not vacuous either: t1's Push returned (position 2 of H) before t2's Pop
   was invoked (position 3), and S keeps that order. *)
Example c01_hw_nonvacuous :
  let s0 := q_init [] [[QPush 5%Z]; [QPush 6%Z]; [QPop]] in
  let tr := q_trace s0 [0; 1;1;1;1;1;1; 2;2;2;2;2;2; 0;0;0;0;0] in
  q_history tr = [HInv 0 (QPush 5%Z); HInv 1 (QPush 6%Z); HRes 1 QRPush;
                  HInv 2 QPop; HRes 2 (QRPop (Some 6%Z)); HRes 0 QRPush] /\
  q_hw_ext tr = [] /\
  q_hw_seq tr = [HInv 1 (QPush 6%Z); HRes 1 QRPush; HInv 2 QPop; HRes 2 (QRPop (Some 6%Z));
                 HInv 0 (QPush 5%Z); HRes 0 QRPush] /\
  hw_inv_pos (q_history tr) (0, 0) = Some 0 /\ hw_inv_pos (q_hw_seq tr) (0, 0) = Some 4 /\
  hw_precedes (q_history tr) (1, 0) (2, 0) /\ hw_precedes (q_hw_seq tr) (1, 0) (2, 0) /\
  ~ hw_precedes (q_history tr) (0, 0) (1, 0).
Proof.
  cbn zeta. repeat (split; [vm_compute; reflexivity|]).
  split; [exists 2, 3; vm_compute; repeat split; lia|].
  split; [exists 1, 2; vm_compute; repeat split; lia|].
  intros (i & j & Hi & Hj & Hlt). vm_compute in Hi, Hj. inversion Hi; inversion Hj; lia.
Qed.

(* ... and of the extension: thread 0's Push 5 is linked but has not returned, thread 1's Pop
   took the 5 and returned, thread 2's Pop is pending without effect.  H' appends the response
   of the Push, complete() drops the pending Pop, S = Push 5 (t0); Pop -> 5 (t1). *)
Example c01_hw_nonvacuous_pending :
  let s0 := q_init [] [[QPush 5%Z]; [QPop]; [QPop]] in
  let tr := q_trace s0 [0;0;0;0;0; 1;1;1;1;1;1;1;1;1;1;1; 2] in
  q_history tr = [HInv 0 (QPush 5%Z); HInv 1 QPop; HRes 1 (QRPop (Some 5%Z)); HInv 2 QPop] /\
  q_hw_ext tr = [HRes 0 QRPush] /\
  hw_complete (q_history tr ++ q_hw_ext tr)
    = [HInv 0 (QPush 5%Z); HInv 1 QPop; HRes 1 (QRPop (Some 5%Z)); HRes 0 QRPush] /\
  q_hw_seq tr = [HInv 0 (QPush 5%Z); HRes 0 QRPush; HInv 1 QPop; HRes 1 (QRPop (Some 5%Z))].
Proof. vm_compute. repeat split. Qed.

Example c01_hw_check_examples :
  let s0 := q_init [] [[QPush 5%Z]; [QPush 6%Z]; [QPop]] in
  let tr := q_trace s0 [0; 1;1;1;1;1;1; 2;2;2;2;2;2; 0;0;0;0;0] in
  q_hw_check [] (q_history tr) = true /\
  qh_verify [] (q_history tr) (q_hw_ext tr) (q_hw_seq tr) = true /\
  q_hw_check [] [HInv 0 (QPush 1%Z); HRes 0 QRPush; HInv 1 QPop; HRes 1 (QRPop None)] = false.
Proof. vm_compute. repeat split. Qed.
