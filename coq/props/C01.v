(* C01 -- loom.Queue is a linearizable FIFO under any interleaving of Push and Pop.
   Only property theorems (full statements), each closed by [exact] of a lemma proved in
   proofs/QueueProofs.v, and Print Assumptions.

   Quantification: every prefill [pre], every number of threads and every program of
   Push/Pop per thread ([progs]), every schedule (list of thread ids; one entry = one
   shared-memory access of that thread) -- unbounded.

   Linearizability is stated in linearization-point form:
   (1) [c01_refines_fifo]: replaying the linearization-point events of the run, in the order
       in which they happen, on a sequential FIFO queue is legal at every step (a Pop's value
       is the current front, an empty-candidate step sees the sequential queue empty) and ends
       in the abstraction of the final concrete state;
   (2) [c01_thread_protocol]: for every thread, between the invocation and the return of each
       of its operations (invoked in program order) there is exactly one linearization point of
       that operation: Push v -> one QELinPush v strictly before its return; a Pop returning v
       -> QELinRetPop v at its return; a Pop returning nil -> its return is directly preceded
       (in that thread) by an own step QECand, i.e. an instant inside the call at which, by (1),
       the queue was empty.
   (3) [c01_linearizable]: the linearization itself, constructed from the trace (Herlihy-Wing):
       a legal sequential FIFO history containing each returned operation once with its
       result, each placed inside its call interval (hence respecting real-time order).
   The consequences named in the property are [c01_no_loss_dup_invent] and (1). *)
From Got Require Import Base Queue QueueProofs.
Local Open Scope nat_scope.

Theorem c01_queue_invariant :
  forall pre progs sched, q_inv (q_final (q_init pre progs) sched).
Proof. exact q_reachable_inv. Qed.
Print Assumptions c01_queue_invariant.

(* Pop never dereferences a nil next pointer *)
Theorem c01_no_nil_dereference :
  forall pre progs sched i, ~ In (i, QEPanic) (q_trace (q_init pre progs) sched).
Proof. intros pre progs sched. apply q_run_no_panic. apply q_init_inv. Qed.
Print Assumptions c01_no_nil_dereference.

Theorem c01_refines_fifo :
  forall pre progs sched,
    q_apply_trace pre (q_trace (q_init pre progs) sched)
    = Some (q_abs (q_final (q_init pre progs) sched)).
Proof. exact q_refines_fifo. Qed.
Print Assumptions c01_refines_fifo.

Theorem c01_thread_protocol :
  forall pre progs sched j,
    q_aut_run QAIdle (nth j progs []) (q_proj j (q_trace (q_init pre progs) sched))
    = Some (q_aut_of (q_final (q_init pre progs) sched) j).
Proof. exact q_thread_protocol. Qed.
Print Assumptions c01_thread_protocol.

(* no value is lost, duplicated or invented, and values leave in the order they entered:
   prefill followed by the pushed values in linearization order = the popped values in
   linearization order followed by what is still in the queue *)
Theorem c01_no_loss_dup_invent :
  forall pre progs sched,
    let tr := q_trace (q_init pre progs) sched in
    pre ++ q_pushed tr = q_popped tr ++ q_abs (q_final (q_init pre progs) sched).
Proof. exact q_no_loss_dup_invent. Qed.
Print Assumptions c01_no_loss_dup_invent.

(* Herlihy-Wing linearizability, with the linearization constructed from the trace:
   [q_lin tr] lists (thread, operation-with-result) in linearization order: Push v at its
   link CAS, Pop -> v at its head CAS, Pop -> nil at the own step (QECand) directly followed,
   in that thread, by the nil return.
   (a) that sequence is a legal sequential FIFO history from the prefill to the final
       abstract queue (every Pop -> v takes the then-front v, every Pop -> nil sees the
       sequential queue empty);
   (b) for every thread j, [q_tcheck] accepts its events: operations are invoked in program
       order, every linearization point of j lies strictly after the invocation and not
       after the return of one of its operations, carries that operation's result, each
       returned operation has exactly one, and no linearization point occurs outside an
       operation -- hence an operation that returned before another was invoked precedes it
       in q_lin (real-time order), and the per-thread part of q_lin is exactly what (b)
       talks about (c). *)
Theorem c01_linearizable :
  forall pre progs sched,
    let tr := q_trace (q_init pre progs) sched in
    q_seq_run pre (map snd (q_lin tr)) = Some (q_abs (q_final (q_init pre progs) sched)) /\
    forall j,
      q_tcheck TIdle (nth j progs []) (q_proj j tr) = true /\
      map snd (filter (fun p => Nat.eqb (fst p) j) (q_lin tr)) = q_lin_thread (q_proj j tr).
Proof. exact q_linearizable. Qed.
Print Assumptions c01_linearizable.

(* non-vacuity: a concrete 3-thread run with a lagging tail that is helped, a failed CAS,
   an empty Pop and a successful Pop *)
Example c01_nonvacuous :
  let s0 := q_init [] [[QPush 5%Z]; [QPop; QPop]; [QPush 6%Z]] in
  let sched := [1;1;1;1;1; 0;0;0;0;0; 2;2;2;2;2;2;2;2;2;2; 0; 1;1;1;1;1;1] in
  In (1, QECand) (q_trace s0 sched) /\ In (1, QERetEmpty) (q_trace s0 sched) /\
  In (1, QELinRetPop 5%Z) (q_trace s0 sched) /\ In (2, QELinPush 6%Z) (q_trace s0 sched) /\
  q_abs (q_final s0 sched) = [6%Z] /\
  q_lin (q_trace s0 sched) = [(1, SPopNone); (0, SPush 5%Z); (2, SPush 6%Z); (1, SPopSome 5%Z)].
Proof. vm_compute. intuition. Qed.
