(* C01 -- loom.Queue is a linearizable FIFO under any interleaving of Push and Pop.
   Only property theorems (full statements), each closed by [exact] of a lemma proved in
   proofs/QueueProofs.v, and Print Assumptions.

   Quantification: every prefill [pre], every number of threads and every program of
   Push/Pop per thread ([progs]), every schedule (list of thread ids; one entry = one
   shared-memory access of that thread) -- unbounded.

   Linearizability is stated in linearization-point form:
   (1) [c01_refines_fifo]: replaying the linearization-point events of the run, in the order
       in which they happen, on a sequential FIFO queue is legal at every step (a Pop's value
       is the current front, an empty-candidate step sees the sequential queue empty) and ends
       in the abstraction of the final concrete state;
   (2) [c01_thread_protocol]: for every thread, between the invocation and the return of each
       of its operations (invoked in program order) there is exactly one linearization point of
       that operation: Push v -> one QELinPush v strictly before its return; a Pop returning v
       -> QELinRetPop v at its return; a Pop returning nil -> its return is directly preceded
       (in that thread) by an own step QECand, i.e. an instant inside the call at which, by (1),
       the queue was empty.
   Since every linearization point lies inside the interval of its operation, ordering the
   operations by their linearization points respects the real-time order of non-overlapping
   calls; (1) says that this order is a legal sequential FIFO history (Herlihy-Wing).  The
   consequences named in the property are [c01_no_loss_dup_invent] and (1) itself. *)
From Got Require Import Base Queue QueueProofs.
Local Open Scope nat_scope.

Theorem c01_queue_invariant :
  forall pre progs sched, q_inv (q_final (q_init pre progs) sched).
Proof. exact q_reachable_inv. Qed.
Print Assumptions c01_queue_invariant.

(* Pop never dereferences a nil next pointer *)
Theorem c01_no_nil_dereference :
  forall pre progs sched i, ~ In (i, QEPanic) (q_trace (q_init pre progs) sched).
Proof. intros pre progs sched. apply q_run_no_panic. apply q_init_inv. Qed.
Print Assumptions c01_no_nil_dereference.

Theorem c01_refines_fifo :
  forall pre progs sched,
    q_apply_trace pre (q_trace (q_init pre progs) sched)
    = Some (q_abs (q_final (q_init pre progs) sched)).
Proof. exact q_refines_fifo. Qed.
Print Assumptions c01_refines_fifo.

Theorem c01_thread_protocol :
  forall pre progs sched j,
    q_aut_run QAIdle (nth j progs []) (q_proj j (q_trace (q_init pre progs) sched))
    = Some (q_aut_of (q_final (q_init pre progs) sched) j).
Proof. exact q_thread_protocol. Qed.
Print Assumptions c01_thread_protocol.

(* no value is lost, duplicated or invented, and values leave in the order they entered:
   prefill followed by the pushed values in linearization order = the popped values in
   linearization order followed by what is still in the queue *)
Theorem c01_no_loss_dup_invent :
  forall pre progs sched,
    let tr := q_trace (q_init pre progs) sched in
    pre ++ q_pushed tr = q_popped tr ++ q_abs (q_final (q_init pre progs) sched).
Proof. exact q_no_loss_dup_invent. Qed.
Print Assumptions c01_no_loss_dup_invent.

(* non-vacuity: a concrete 3-thread run with a lagging tail that is helped, a failed CAS,
   an empty Pop and a successful Pop *)
Example c01_nonvacuous :
  let s0 := q_init [] [[QPush 5%Z]; [QPop; QPop]; [QPush 6%Z]] in
  let sched := [1;1;1;1;1; 0;0;0;0;0; 2;2;2;2;2;2;2;2;2;2; 0; 1;1;1;1;1;1] in
  In (1, QECand) (q_trace s0 sched) /\ In (1, QERetEmpty) (q_trace s0 sched) /\
  In (1, QELinRetPop 5%Z) (q_trace s0 sched) /\ In (2, QELinPush 6%Z) (q_trace s0 sched) /\
  q_abs (q_final s0 sched) = [6%Z].
Proof. vm_compute. intuition. Qed.
