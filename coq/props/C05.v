(* C05 -- cachex never serves a result older than 2x expiry and refreshes stale ones once.
   Only property theorems (full statements), each closed by [exact] of a lemma proved in
   proofs/CacheProofs.v, and Print Assumptions.

   Quantification as in C04.v: every configuration, every event history of models/Cache.v.
   [c_expire cfg e] is E: normalExpire for e = 0 (nil error), errorExpire otherwise.
   [c_cfg_ok cfg] = 0 < errorExpire <= normalExpire (asserted by cachex.WithExpire). *)
From Got Require Import Base Cache CacheProofs CacheStatus64 CacheStatus64Proofs CacheGet1 CacheGet1Proofs.
Local Open Scope Z_scope.

(* now-u < E: Load returns the result's future, creates no job, changes nothing; Get2 awaits
   that (complete) future *)
Theorem cache_fresh_served :
  forall cfg evs k f x v e u,
  let s := c_run cfg c_init evs in
  c_lookup (c_map s) k = Some f -> c_get (c_futs s) f = Some x ->
  c_fdone x = Some (v, e, u) -> c_now s - u < c_expire cfg e ->
  c_step cfg s (CLoad k) = (s, OLoad f false) /\ c_get2 cfg s k = OAwait f.
Proof. exact c_fresh_served. Qed.
Print Assumptions cache_fresh_served.

(* E <= now-u < 2E, first Load: returns the stale (complete) future f and creates exactly one
   job: a new loading future g = the map entry, predecessor f, appended to the queue *)
Theorem cache_stale_window_first_load :
  forall cfg evs k f x v e u,
  let s := c_run cfg c_init evs in
  c_lookup (c_map s) k = Some f -> c_get (c_futs s) f = Some x ->
  c_fdone x = Some (v, e, u) -> c_expire cfg e <= c_now s - u < 2 * c_expire cfg e ->
  c_step cfg s (CLoad k) = (c_new_job s k (Some f), OLoad f true) /\
  c_get2 cfg s k = OAwait f /\
  let s1 := c_new_job s k (Some f) in
  c_lookup (c_map s1) k = Some (length (c_futs s)) /\
  c_get (c_futs s1) (length (c_futs s)) = Some {| c_fkey := k; c_fdone := None; c_fpred := Some f |} /\
  c_queue s1 = c_queue s ++ [length (c_futs s)] /\ c_running s1 = c_running s.
Proof. exact c_stale_first. Qed.
Print Assumptions cache_stale_window_first_load.

(* while the refresh g (predecessor f) is loading: f is at least E old; as long as it is
   younger than 2E every Load/Get2 returns f and creates nothing; once it is 2E old they
   return the refresh g (callers wait for the newer load), still creating nothing *)
Theorem cache_stale_window_during_refresh :
  forall cfg evs k g y f x v e u,
  let s := c_run cfg c_init evs in
  c_lookup (c_map s) k = Some g -> c_get (c_futs s) g = Some y -> c_fdone y = None ->
  c_fpred y = Some f -> c_get (c_futs s) f = Some x -> c_fdone x = Some (v, e, u) ->
  c_expire cfg e <= c_now s - u /\
  (c_now s - u < 2 * c_expire cfg e ->
     c_step cfg s (CLoad k) = (s, OLoad f false) /\ c_get2 cfg s k = OAwait f) /\
  (2 * c_expire cfg e <= c_now s - u ->
     c_step cfg s (CLoad k) = (s, OLoad g false) /\ c_get2 cfg s k = OAwait g).
Proof. exact c_stale_during_refresh. Qed.
Print Assumptions cache_stale_window_during_refresh.

(* when the loader of the map entry g returns (v,e): g stays the entry, now complete with
   that pair, and Load/Get2 return it (the refresh replaced the stale result) *)
Theorem cache_refresh_replaces :
  forall cfg evs k i v e g s',
  c_cfg_ok cfg ->
  let s := c_run cfg c_init evs in
  c_lookup (c_map s) k = Some g ->
  c_step cfg s (CFinish k i v e) = (s', OFinish g) ->
  c_lookup (c_map s') k = Some g /\
  c_get (c_futs s') g = Some {| c_fkey := k; c_fdone := Some (v, e, c_now s); c_fpred := None |} /\
  c_step cfg s' (CLoad k) = (s', OLoad g false) /\ c_get2 cfg s' k = OAwait g.
Proof. exact c_refresh_replaces. Qed.
Print Assumptions cache_refresh_replaces.

(* every future handed out by Load or awaited by Get2 is loading or younger than 2E at the
   call; Get2 answers (nil,nil) at once exactly when the key has no entry or a rotted one *)
Theorem cache_never_serves_rotted :
  forall cfg evs,
  c_cfg_ok cfg ->
  let s := c_run cfg c_init evs in
  (forall k s' f c, c_step cfg s (CLoad k) = (s', OLoad f c) -> c_servable cfg s' f) /\
  (forall k f, c_get2 cfg s k = OAwait f -> c_servable cfg s f) /\
  (forall k, c_get2 cfg s k = OImmediate <->
     (c_lookup (c_map s) k = None \/
      exists f x v e u, c_lookup (c_map s) k = Some f /\ c_get (c_futs s) f = Some x /\
        c_fdone x = Some (v, e, u) /\ 2 * c_expire cfg e <= c_now s - u)).
Proof. exact c_never_serves_rotted. Qed.
Print Assumptions cache_never_serves_rotted.

(* a future that is still loading (or not yet created) at a state resolves with a stamp not
   earlier than that state's time: what a waiting caller receives is a newer result *)
Theorem cache_loading_resolves_later :
  forall cfg evs evs' f x' v e u,
  let s := c_run cfg c_init evs in
  let s' := c_run cfg s evs' in
  (forall x, c_get (c_futs s) f = Some x -> c_fdone x = None) ->
  c_get (c_futs s') f = Some x' -> c_fdone x' = Some (v, e, u) -> c_now s <= u.
Proof. exact c_loading_resolves_later. Qed.
Print Assumptions cache_loading_resolves_later.

(* the sweep is unobservable: from any reachable state, running removeRotted first changes
   no output of any continuation (simulation: the maps agree except rotted-vs-absent;
   rotted is permanent because time is monotone; loading entries are never swept) *)
Theorem cache_sweep_transparent :
  forall cfg evs0 evs,
  let s := c_run cfg c_init evs0 in
  c_outputs cfg (c_sweep cfg s) evs = c_outputs cfg s evs.
Proof. exact c_sweep_transparent. Qed.
Print Assumptions cache_sweep_transparent.

(* non-vacuity at E-1, E, 2E-1, 2E for a value (E = 1000) and an error result (E = 400) *)
Definition c05_probe (err dt : Z) : list c_out :=
  let cfg := {| c_normE := 1000; c_errE := 400 |} in
  c_outputs cfg (c_run cfg c_init [CLoad 1; CStart 1; CAdvance 50; CFinish 1 0 77 err; CAdvance dt])
            [CGet2 1; CLoad 1; CLoad 1; CGet2 1; CSweep; CGet2 1].

Example c05_nonvacuous :
  c_cfg_ok {| c_normE := 1000; c_errE := 400 |} /\
  c05_probe 0 999  = [OAwait 0; OLoad 0 false; OLoad 0 false; OAwait 0; ONone; OAwait 0] /\
  c05_probe 0 1000 = [OAwait 0; OLoad 0 true;  OLoad 0 false; OAwait 0; ONone; OAwait 0] /\
  c05_probe 0 1999 = [OAwait 0; OLoad 0 true;  OLoad 0 false; OAwait 0; ONone; OAwait 0] /\
  c05_probe 0 2000 = [OImmediate; OLoad 1 true; OLoad 1 false; OAwait 1; ONone; OAwait 1] /\
  c05_probe 9 399  = [OAwait 0; OLoad 0 false; OLoad 0 false; OAwait 0; ONone; OAwait 0] /\
  c05_probe 9 400  = [OAwait 0; OLoad 0 true;  OLoad 0 false; OAwait 0; ONone; OAwait 0] /\
  c05_probe 9 799  = [OAwait 0; OLoad 0 true;  OLoad 0 false; OAwait 0; ONone; OAwait 0] /\
  c05_probe 9 800  = [OImmediate; OLoad 1 true; OLoad 1 false; OAwait 1; ONone; OAwait 1].
Proof. split; [unfold c_cfg_ok; cbn; lia|]. vm_compute. repeat split. Qed.

(* ---- the int64 arithmetic of getFutureStatus (models/CacheStatus64.v; D12, fix 41fab85).
   Cache.v classifies over unbounded Z; the code computes on time.Duration = int64. With the fix
   (past-expire < expire) the code's classification IS Cache.v's on the whole range of int64
   durations, so the theorems above lose nothing to wrap-around. *)
Theorem cache_status_is_int64_exact :
  forall cfg now x v e u,
  c_fdone x = Some (v, e, u) ->
  0 <= now - u < 2 ^ 63 -> 0 < c_expire cfg e < 2 ^ 63 ->
  c_status_fut cfg now x = cst_code CstFixed (now - u) (c_expire cfg e).
Proof. exact cst_cache_status_is_code. Qed.
Print Assumptions cache_status_is_int64_exact.

(* the pinned comparison (past < 2*expire) was exact only while 2*expire fits an int64 ... *)
Theorem cache_status_orig_exact_below_2_62 :
  forall past expire, 0 <= past < 2 ^ 63 -> 0 < expire < 2 ^ 62 ->
  cst_code CstOrig past expire = cst_ideal past expire.
Proof. exact cst_orig_exact_below. Qed.
Print Assumptions cache_status_orig_exact_below_2_62.

(* ... and for every expiry from 2^62 ns up it had no stale window at all: at every age in [E, 2^63)
   it answered "rotted" where the property says "stale, still served" *)
Theorem cache_status_orig_no_stale_window :
  forall past expire, 2 ^ 62 <= expire < 2 ^ 63 -> expire <= past < 2 ^ 63 ->
  cst_code CstOrig past expire = CRotted /\ cst_ideal past expire = CExpired.
Proof. exact cst_orig_no_stale_window. Qed.
Print Assumptions cache_status_orig_no_stale_window.

(* concrete witness with an expiry NewCache accepts (E = 2^62+2^60 ns, age E+16 ns); replayed on the
   real code under faketime (corpus/C05, stream expiry-beyond-2^62) *)
Theorem cache_status_orig_overflow_refuted :
  exists past expire, 0 <= past < 2 ^ 63 /\ 0 < expire < 2 ^ 63 /\
    cst_newcache_starts expire = true /\
    cst_code CstOrig past expire = CRotted /\ cst_ideal past expire = CExpired /\
    cst_code CstFixed past expire = CExpired.
Proof. exact cst_orig_refuted. Qed.
Print Assumptions cache_status_orig_overflow_refuted.

(* which normalExpire values NewCache accepts at all: time.NewTicker(4*E) panics unless the wrapped
   product is positive *)
Theorem cache_newcache_accepted_expiries :
  forall e, 0 < e < 2 ^ 63 ->
  cst_newcache_starts e = true <-> (e < 2 ^ 61 \/ 2 ^ 62 < e < 2 ^ 62 + 2 ^ 61).
Proof. exact cst_newcache_starts_spec. Qed.
Print Assumptions cache_newcache_accepted_expiries.

(* ---- the sibling entry point Cache.Get1 (models/CacheGet1.v: var v, _ = my.Get2(key); return v)
   In every reachable state, for every key: Get1 takes Get2's decision (awaits the same future or
   answers at once) and hands out the first component of Get2's pair; while the result is fresh it
   is served at once; while a refresh g of the stale result f is running and f is younger than 2E
   the stale value is served at once (the caller does not wait for the refresh); from 2E on the
   caller is handed the running refresh and waits for it *)
Theorem cache_get1_is_get2_first_component :
  forall cfg evs k,
  let s := c_run cfg c_init evs in
  cg_get1 cfg s k = c_get2 cfg s k /\
  cg_get1_result s (cg_get1 cfg s k) =
    match cg_get2_result s (c_get2 cfg s k) with Some (v, e) => Some v | None => None end /\
  (forall f x v e u, c_lookup (c_map s) k = Some f -> c_get (c_futs s) f = Some x ->
     c_fdone x = Some (v, e, u) -> c_now s - u < c_expire cfg e ->
     cg_get1_result s (cg_get1 cfg s k) = Some v) /\
  (forall g y f x v e u, c_lookup (c_map s) k = Some g -> c_get (c_futs s) g = Some y ->
     c_fdone y = None -> c_fpred y = Some f -> c_get (c_futs s) f = Some x ->
     c_fdone x = Some (v, e, u) ->
     (c_now s - u < 2 * c_expire cfg e -> cg_get1_result s (cg_get1 cfg s k) = Some v) /\
     (2 * c_expire cfg e <= c_now s - u ->
        cg_get1 cfg s k = OAwait g /\ cg_get1_result s (cg_get1 cfg s k) = None)).
Proof. exact cg_get1_spec. Qed.
Print Assumptions cache_get1_is_get2_first_component.

(* non-vacuity: E = 1000; result 5 of key 7 completes at 17; at 1100 a Load starts the refresh;
   at 1200 (refresh running, age 1183 in [E, 2E)) Get1 = 5 at once; at 2017 (age 2E) Get1 waits *)
Example c05_get1_nonvacuous :
  let cfg := {| c_normE := 1000; c_errE := 1000 |} in
  let evs := [CLoad 7; CStart 7; CAdvance 17; CFinish 7 0 5 0; CAdvance 1083; CLoad 7; CStart 7; CAdvance 100] in
  let s := c_run cfg c_init evs in
  let s2 := c_run cfg s [CAdvance 817] in
  cg_get1_result s (cg_get1 cfg s 7) = Some 5 /\ cg_get1 cfg s2 7 = OAwait 1%nat /\ cg_get1_result s2 (cg_get1 cfg s2 7) = None.
Proof. vm_compute. repeat split. Qed.
