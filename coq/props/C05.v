From Got Require Import Base Cache CacheProofs.
Theorem c05_placeholder : c_now c_init = 0%Z. Proof. exact c_placeholder. Qed.
Print Assumptions c05_placeholder.
