(* C14 -- sortx.Search returns the first match or the complement of the insertion point.
   This file contains only the property theorems (full statements), each closed by
   [exact] of a lemma proved in proofs/SearchProofs.v, and Print Assumptions. *)
From Got Require Import Base Search SearchProofs.
Require Import Sorted.
Local Open Scope Z_scope.

(* Any predicates consistent with a sorted list (less true exactly on [0,b), equal true
   exactly on [b,e)), any size below 2^63: result is b when a match exists (b<e), else
   the complement of the insertion point b; probes are valid indices; at most
   ceil(log2 (n+1)) less-probes and one equal-probe; the model never runs out of fuel. *)
Theorem c14_search_spec :
  forall n b e less equal,
    0 < n < 2 ^ 63 ->
    consistent n b e less equal ->
    exists out,
      search n less equal = Some out /\
      s_result out = expected_result b e /\
      Forall (valid_index n) (s_less_probes out ++ s_equal_probes out) /\
      Z.of_nat (length (s_less_probes out)) <= Z.log2_up (n + 1) /\
      (length (s_equal_probes out) <= 1)%nat.
Proof. exact search_spec. Qed.
Print Assumptions c14_search_spec.

Theorem c14_search_empty :
  forall n less equal, n <= 0 ->
    search n less equal =
      Some {| s_result := -1; s_less_probes := []; s_equal_probes := [] |}.
Proof. exact search_empty. Qed.
Print Assumptions c14_search_empty.

Theorem c14_negative_iff_absent :
  forall n b e less equal out,
    0 < n < 2 ^ 63 -> consistent n b e less equal ->
    search n less equal = Some out ->
    (s_result out < 0 <-> b = e) /\
    (b < e -> s_result out = b) /\
    (b = e -> Z.lnot (s_result out) = b).
Proof. exact search_negative_iff_absent. Qed.
Print Assumptions c14_negative_iff_absent.

(* element level, ascending integer lists *)
Theorem c14_search_sorted_list :
  forall (l : list Z) t,
    StronglySorted Z.le l -> Z.of_nat (length l) < 2 ^ 63 ->
    exists out,
      search_list_asc l t = Some out /\
      let b := Z.of_nat (count_lt t l) in
      (In t l -> s_result out = b /\ znth l b = t /\
                 forall k, 0 <= k < b -> znth l k < t) /\
      (~ In t l -> s_result out = Z.lnot b /\ s_result out < 0) /\
      Forall (valid_index (Z.of_nat (length l))) (s_less_probes out ++ s_equal_probes out) /\
      Z.of_nat (length (s_less_probes out)) <= Z.log2_up (Z.of_nat (length l) + 1).
Proof. exact search_sorted_list. Qed.
Print Assumptions c14_search_sorted_list.

Theorem c14_no_overflow :
  forall i j, -1 <= i -> i + 2 <= j -> j < 2 ^ 63 ->
    mid_of i j = (i + j) / 2 /\ i < mid_of i j < j.
Proof. exact search_no_overflow. Qed.
Print Assumptions c14_no_overflow.

(* non-vacuity: the hypotheses are met by a concrete non-trivial instance *)
Example c14_nonvacuous :
  StronglySorted Z.le [1; 3; 3; 3; 5; 7; 9; 9; 9; 11] /\
  option_map s_result (search_list_asc [1; 3; 3; 3; 5; 7; 9; 9; 9; 11] 9) = Some 6 /\
  consistent 10 6 9 (fun k => znth [1; 3; 3; 3; 5; 7; 9; 9; 9; 11] k <? 9)
                    (fun k => znth [1; 3; 3; 3; 5; 7; 9; 9; 9; 11] k =? 9).
Proof.
  split; [exact search_example_sorted|]. split; [exact search_example_hit|].
  unfold consistent. repeat split; try lia;
    intros k Hk;
    assert (Hc : k = 0 \/ k = 1 \/ k = 2 \/ k = 3 \/ k = 4 \/ k = 5 \/ k = 6 \/ k = 7 \/ k = 8 \/ k = 9) by lia;
    repeat (destruct Hc as [-> | Hc]; [reflexivity|]); subst; reflexivity.
Qed.
