(* C08 -- ants: at most `size` handlers run at once and timeouts bound the wait.
   Only the property theorems; proofs in proofs/AntsProofs.v; model models/Ants.v.
   Quantified over every pool size N, options, handler behaviours and accepted event
   histories (all tie orders). *)
From Got Require Import Base Ants AntsProofs.
Local Open Scope Z_scope.

(* in every reachable state the number of running handler invocations -- including those of
   attempts that already timed out: a slot stays AnRun until the handler returns -- is <= N
   (also its running maximum, and the number of busy inner workers). No hypothesis on cfg. *)
Theorem ants_concurrency_bound :
  forall cfg evs s,
    an_run cfg an_init evs = Some s ->
    (an_nrun (an_workers s) <= an_N cfg)%nat /\ (an_maxrun s <= an_N cfg)%nat /\ (length (an_workers s) <= an_N cfg)%nat.
Proof. exact ants_concurrency_bound_l. Qed.
Print Assumptions ants_concurrency_bound.

(* a Send is rejected as busy iff discardOnBusy is set and the task channel holds exactly N
   tasks at that step -- N distinct tasks that were accepted and not yet picked up; otherwise
   the task is queued (in the channel, or with its sender blocked on it). *)
Theorem ants_busy_only_if_full :
  forall cfg evs s o s',
    an_fixed cfg -> an_run cfg an_init evs = Some s -> an_step cfg s (AnSend o) = Some s' ->
    (at_phase (an_tk s' (an_next s)) = AnDiscarded <-> ao_discard o = true /\ length (an_tchan s) = an_N cfg) /\
    (forall j, In j (an_tchan s) -> at_phase (an_tk s j) = AnQueued) /\ NoDup (an_tchan s) /\
    (at_phase (an_tk s' (an_next s)) <> AnDiscarded ->
       at_phase (an_tk s' (an_next s)) = AnQueued /\ In (an_next s) (an_tchan s' ++ an_sendq s')).
Proof. exact ants_busy_only_if_full_l. Qed.
Print Assumptions ants_busy_only_if_full.

(* exact accounting, no hypothesis on any handler: under maximal progress Get2 unblocks no later
   than pickup + R*T + L, where L (at_late) is the time the task's dispatcher spent blocked in
   sendInnerCallback beyond the deadline of the attempt it was enqueuing, L <= B (at_blocked) =
   total time blocked there.  Being blocked in sendInnerCallback is the ONLY way the R*T bound
   of the property can be exceeded. *)
Theorem ants_get2_accounting :
  forall cfg evs s k,
    an_fixed cfg -> an_urg cfg = true -> an_run cfg an_init evs = Some s -> at_phase (an_tk s k) = AnDone ->
    let t := an_tk s k in
    exists f, at_rel t = [f] /\ f <= at_pickup t + Z.of_nat (ao_R (at_opts t)) * ao_T (at_opts t) + at_late t /\
              0 <= at_late t <= at_blocked t.
Proof. exact ants_get2_accounting_l. Qed.
Print Assumptions ants_get2_accounting.

(* K1 (open known finding): the R*T bound itself is FALSE in the faithful model without a
   hypothesis on the OTHER tasks.  N=1, T=1000, R=1: A ignores its cancelled context for 10000;
   the prompt task C (every behaviour honours ctx) is picked up at 2016 and released at 10000
   > 2016 + 1000, its dispatcher having been blocked in sendInnerCallback for 7984. *)
Theorem ants_get2_bound_refuted :
  exists s, an_run an_k1_cfg an_init an_k1_history = Some s /\
    let t := an_tk s 2%nat in
    at_phase t = AnDone /\ forallb ab_honours (ao_behs (at_opts t)) = true /\
    at_pickup t = 2016 /\ at_rel t = [10000] /\ at_blocked t = 7984 /\ at_late t = 6984 /\
    at_pickup t + Z.of_nat (ao_R (at_opts t)) * ao_T (at_opts t) < 10000.
Proof. exact ants_get2_bound_refuted_l. Qed.
Print Assumptions ants_get2_bound_refuted.

(* PARTIAL.  Not proved here (full statement, DESIGN.md 5 C08):
     ants_get2_bound_all_prompt :
       under maximal progress, if every handler invocation in the history returns by
       max(start, its ctx deadline) then at_blocked t = 0 for every task, hence Get2 unblocks
       <= R*T after pickup.
   What stands instead: ants_get2_accounting (the bound can only be exceeded by L <= B) and
   ants_get2_bound_refuted (without the hypothesis it is exceeded); the all-prompt case is
   covered by the correspondence check only (stream "all-prompt": the bound monitor must hold
   outright and the replayed model reports B = 0 for every task). *)

(* non-vacuity of the accounting hypotheses: the K1 history is accepted with urg = true, and its
   task 2 meets the accounting bound with equality: 10000 = 2016 + 1*1000 + 6984 *)
Example c08_nonvacuous :
  exists s, an_run an_k1_cfg an_init an_k1_history = Some s /\ an_urg an_k1_cfg = true /\
            at_rel (an_tk s 2%nat) = [10000] /\
            at_pickup (an_tk s 2%nat) + 1 * 1000 + at_late (an_tk s 2%nat) = 10000.
Proof.
  destruct ants_get2_bound_refuted_l as (s & H & _ & _ & H2 & H3 & _ & H5 & _). exists s.
  split; [exact H|split; [reflexivity|split; [exact H3|rewrite H2, H5; reflexivity]]].
Qed.
