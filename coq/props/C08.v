(* C08 -- ants: at most `size` handlers run at once and timeouts bound the wait.
   Only the property theorems; proofs in proofs/AntsProofs.v and proofs/AntsPromptProofs.v; model
   models/Ants.v, promptness predicates models/AntsPrompt.v.
   Quantified over every pool size N, options, handler behaviours and accepted event
   histories (all tie orders). *)
From Got Require Import Base Ants AntsProofs AntsPrompt AntsPromptProofs AntsOptions AntsOptionsProofs.
Local Open Scope Z_scope.

(* in every reachable state the number of running handler invocations -- including those of
   attempts that already timed out: a slot stays AnRun until the handler returns -- is <= N
   (also its running maximum, and the number of busy inner workers). No hypothesis on cfg. *)
Theorem ants_concurrency_bound :
  forall cfg evs s,
    an_run cfg an_init evs = Some s ->
    (an_nrun (an_workers s) <= an_N cfg)%nat /\ (an_maxrun s <= an_N cfg)%nat /\ (length (an_workers s) <= an_N cfg)%nat.
Proof. exact ants_concurrency_bound_l. Qed.
Print Assumptions ants_concurrency_bound.

(* a Send is rejected as busy iff discardOnBusy is set and the task channel holds exactly N
   tasks at that step -- N distinct tasks that were accepted and not yet picked up; otherwise
   the task is queued (in the channel, or with its sender blocked on it). *)
Theorem ants_busy_only_if_full :
  forall cfg evs s o s',
    an_fixed cfg -> an_run cfg an_init evs = Some s -> an_step cfg s (AnSend o) = Some s' ->
    (at_phase (an_tk s' (an_next s)) = AnDiscarded <-> ao_discard o = true /\ length (an_tchan s) = an_N cfg) /\
    (forall j, In j (an_tchan s) -> at_phase (an_tk s j) = AnQueued) /\ NoDup (an_tchan s) /\
    (at_phase (an_tk s' (an_next s)) <> AnDiscarded ->
       at_phase (an_tk s' (an_next s)) = AnQueued /\ In (an_next s) (an_tchan s' ++ an_sendq s')).
Proof. exact ants_busy_only_if_full_l. Qed.
Print Assumptions ants_busy_only_if_full.

(* exact accounting, no hypothesis on any handler: under maximal progress Get2 unblocks no later
   than pickup + R*T + L, where L (at_late) is the time the task's dispatcher spent blocked in
   sendInnerCallback beyond the deadline of the attempt it was enqueuing, L <= B (at_blocked) =
   total time blocked there.  Being blocked in sendInnerCallback is the ONLY way the R*T bound
   of the property can be exceeded. *)
Theorem ants_get2_accounting :
  forall cfg evs s k,
    an_fixed cfg -> an_urg cfg = true -> an_run cfg an_init evs = Some s -> at_phase (an_tk s k) = AnDone ->
    let t := an_tk s k in
    exists f, at_rel t = [f] /\ f <= at_pickup t + Z.of_nat (ao_R (at_opts t)) * ao_T (at_opts t) + at_late t /\
              0 <= at_late t <= at_blocked t.
Proof. exact ants_get2_accounting_l. Qed.
Print Assumptions ants_get2_accounting.

(* K1 (open known finding): the R*T bound itself is FALSE in the faithful model without a
   hypothesis on the OTHER tasks.  N=1, T=1000, R=1: A ignores its cancelled context for 10000;
   the prompt task C (every behaviour honours ctx) is picked up at 2016 and released at 10000
   > 2016 + 1000, its dispatcher having been blocked in sendInnerCallback for 7984. *)
Theorem ants_get2_bound_refuted :
  exists s, an_run an_k1_cfg an_init an_k1_history = Some s /\
    let t := an_tk s 2%nat in
    at_phase t = AnDone /\ forallb ab_honours (ao_behs (at_opts t)) = true /\
    at_pickup t = 2016 /\ at_rel t = [10000] /\ at_blocked t = 7984 /\ at_late t = 6984 /\
    at_pickup t + Z.of_nat (ao_R (at_opts t)) * ao_T (at_opts t) < 10000.
Proof. exact ants_get2_bound_refuted_l. Qed.
Print Assumptions ants_get2_bound_refuted.

(* The positive half of the timing clause.  Hypotheses, all boolean/decidable:
     an_fixed cfg     the code in /repo now (per-attempt result channel, fix d4c0a4b);
     an_urg cfg       MAXIMAL PROGRESS: the clock advances by dt > 0 only when no instantaneous step
                      (channel hand-off, handler return due now, select that can fire, deadline reached)
                      is enabled.  The discrete-event driver of the check and the Go runtime under
                      faketime (virtual time moves only when every goroutine is blocked) satisfy it
                      by construction; on a real clock it is the idealisation "the pool's own
                      bookkeeping takes no time".  Without it no timing bound holds at all;
     an_all_prompt    EVERY handler invocation of the history (of every task, not only of k) returns
                      no later than max(its start, the instant at which its attempt's ctx1 is done -- its
                      deadline, or the cancellation of the dispatchers' parent context, event AnParentCancel):
                      checked at each AnStart event of evs and, for the invocations running then, at an
                      AnParentCancel event (models/AntsPrompt.v).
   Over all pool sizes N, all options (T, R, discardOnBusy, onError) of all tasks, all behaviours, all
   accepted event histories = all tie orders.  Conclusion, for every task k in the final state:
     - its dispatcher was never blocked in sendInnerCallback for a positive duration (B = at_blocked = 0,
       hence L = at_late = 0): when it wants to enqueue, innerCallbackChan has room at that same instant;
     - if run() has returned (AnDone) the release wg.Done() happened at f <= pickup + R*T;
     - if a worker picked the task up and run() has not returned yet (the dispatcher is in
       sendInnerCallback or in its select) the clock is still <= pickup + R*T.
   Proof idea (proofs/AntsPromptProofs.v): if the clock could advance with a dispatcher in
   sendInnerCallback, the callback channel would be non-empty, so all N inner workers run handlers
   returning in the future; being prompt, their deadlines lie in the future, so each belongs to a
   distinct dispatcher waiting in its select: N + 1 dispatchers. *)
Theorem ants_get2_bound_all_prompt :
  forall cfg evs s k,
    an_fixed cfg -> an_urg cfg = true ->
    an_run cfg an_init evs = Some s -> an_all_prompt cfg an_init evs = true ->
    let t := an_tk s k in
    let bound := at_pickup t + Z.of_nat (ao_R (at_opts t)) * ao_T (at_opts t) in
    at_blocked t = 0 /\ at_late t = 0 /\
    (at_phase t = AnDone -> exists f, at_rel t = [f] /\ f <= bound) /\
    (forall a c, at_phase t = AnEnq a c \/ at_phase t = AnWait a c -> an_now s <= bound).
Proof. exact ants_get2_bound_all_prompt_l. Qed.
Print Assumptions ants_get2_bound_all_prompt.

(* the same in the property's words: "a task whose handler returns promptly once its context is
   cancelled unblocks Get2 no later than R*T after a worker picked it up" (all handlers prompt,
   maximal progress).  At every instant of every history: either the clock has not passed
   pickup + R*T, or Get2 is unblocked (the AnGet2 step is enabled: wg.Wait() returns); the WaitGroup
   opened at f <= pickup + R*T and no Get2 read is stamped before f. *)
Theorem ants_get2_within_timeout :
  forall cfg evs s k,
    an_fixed cfg -> an_urg cfg = true ->
    an_run cfg an_init evs = Some s -> an_all_prompt cfg an_init evs = true ->
    let t := an_tk s k in
    let bound := at_pickup t + Z.of_nat (ao_R (at_opts t)) * ao_T (at_opts t) in
    (forall a c, at_phase t = AnEnq a c \/ at_phase t = AnWait a c -> an_now s <= bound) /\
    (at_phase t = AnDone ->
       an_step cfg s (AnGet2 k) <> None /\
       exists f, at_rel t = [f] /\ f <= bound /\ forall g, In g (at_get2 t) -> f <= snd g).
Proof. exact ants_get2_within_timeout_l. Qed.
Print Assumptions ants_get2_within_timeout.

(* the hypothesis on the scripted behaviours alone: if every behaviour of every task ever sent
   honours its context (ab_honours: the handler returns when ctx1 is cancelled), every invocation
   of the history is prompt, whatever the durations and the schedule ... *)
Theorem ants_honouring_handlers_are_prompt :
  forall cfg evs, an_sends_honour evs = true -> an_all_prompt cfg an_init evs = true.
Proof. exact ants_honouring_handlers_are_prompt_l. Qed.
Print Assumptions ants_honouring_handlers_are_prompt.

(* ... hence the bound holds for every task *)
Theorem ants_get2_bound_honouring :
  forall cfg evs s k,
    an_fixed cfg -> an_urg cfg = true ->
    an_run cfg an_init evs = Some s -> an_sends_honour evs = true ->
    let t := an_tk s k in
    let bound := at_pickup t + Z.of_nat (ao_R (at_opts t)) * ao_T (at_opts t) in
    at_blocked t = 0 /\
    (forall a c, at_phase t = AnEnq a c \/ at_phase t = AnWait a c -> an_now s <= bound) /\
    (at_phase t = AnDone -> exists f, at_rel t = [f] /\ f <= bound).
Proof. exact ants_get2_bound_honouring_l. Qed.
Print Assumptions ants_get2_bound_honouring.

(* K1 stays an OPEN known finding: the hypothesis "all handlers prompt" cannot be weakened to "the
   handlers of task k are prompt" (ants_get2_bound_refuted: there an_all_prompt is false because task 0
   ignores its cancelled context). *)

(* non-vacuity of the accounting hypotheses: the K1 history is accepted with urg = true, and its
   task 2 meets the accounting bound with equality: 10000 = 2016 + 1*1000 + 6984 *)
Example c08_nonvacuous :
  exists s, an_run an_k1_cfg an_init an_k1_history = Some s /\ an_urg an_k1_cfg = true /\
            at_rel (an_tk s 2%nat) = [10000] /\
            at_pickup (an_tk s 2%nat) + 1 * 1000 + at_late (an_tk s 2%nat) = 10000.
Proof.
  destruct ants_get2_bound_refuted_l as (s & H & _ & _ & H2 & H3 & _ & H5 & _). exists s.
  split; [exact H|split; [reflexivity|split; [exact H3|rewrite H2, H5; reflexivity]]].
Qed.

(* non-vacuity of the all-prompt theorem: N = 2, three tasks, every hypothesis of
   ants_get2_bound_all_prompt holds (also the scripted one), two handlers run at once; task 0
   (T = 1000, R = 2) times out cooperatively twice -- at 1000 its dispatcher decides on the deadline and
   enqueues attempt 2 before the handler of attempt 1 has returned, at the same instant -- and is
   released exactly at pickup + R*T = 2000 (the bound is tight); task 2 fails once and retries.
   The K1 history is rejected by the hypothesis. *)
Example c08_all_prompt_nonvacuous :
  exists s, an_fixed an_ap_cfg /\ an_urg an_ap_cfg = true /\ an_N an_ap_cfg = 2%nat /\
            an_run an_ap_cfg an_init an_ap_history = Some s /\
            an_all_prompt an_ap_cfg an_init an_ap_history = true /\ an_sends_honour an_ap_history = true /\
            an_maxrun s = 2%nat /\
            (let t := an_tk s 0%nat in
             at_phase t = AnDone /\ at_rel t = [2000] /\ at_blocked t = 0 /\
             at_dec t = [(2%nat, (None, AnDeadline), 2000); (1%nat, (None, AnDeadline), 1000)] /\
             at_pickup t + Z.of_nat (ao_R (at_opts t)) * ao_T (at_opts t) = 2000) /\
            at_rel (an_tk s 1%nat) = [100] /\ at_pickup (an_tk s 2%nat) = 100 /\ at_rel (an_tk s 2%nat) = [200] /\
            an_all_prompt an_k1_cfg an_init an_k1_history = false.
Proof.
  destruct ants_all_prompt_witness_l as (s & H1 & H2 & H3 & H4 & (A1 & A2 & A3 & A4 & A5 & A6) & (B1 & B2 & B3 & B4) & (C1 & C2 & C3 & C4 & C5)).
  exists s. repeat split; auto; vm_compute; reflexivity.
Qed.

(* ------------------------------------------------------------------------------------------------
   The STEP model (D20): coq/models/AntsSteps.v, one step per yield site of ants/verif_on.go, stepped
   against the real pool by the C07 stream "dispatch-steps" (dispatcher and inner-callback loops as
   logical threads of the cooperative scheduler, on the virtual clock).

   ants_steps_concurrency_bound: for every pool size n, all client programs (Send with any options and
   handler scripts, Get2, Close), every schedule and every resolution of the selects, in both modes
   (the fixed code and the code before d4c0a4b), the number of handler invocations in progress never
   exceeds n.  ast_running is incremented by the step in which an inner worker calls the handler and
   decremented by the step in which the handler returns; the invariant is "ast_running = number of
   threads parked inside a handler" and those are inner-worker threads, of which there are n. *)
From Got Require Import AntsSteps AntsStepsProofs.

Theorem ants_steps_concurrency_bound :
  forall (md : ast_mode) (n : nat) (progs : list (list ast_op)) (sched : list (nat * bool)),
    (ast_running (ast_run md n (ast_init n progs) sched) <= n)%nat.
Proof. exact ast_steps_concurrency_bound. Qed.
Print Assumptions ants_steps_concurrency_bound.

(* ------------------------------------------------------------------------------------------------
   (D21) The other two clauses of C08 that do not involve time, on the step model, for every pool size,
   programs, schedules, select choices, both modes:
   ants_steps_busy_only_if_full: a Send returns the discard task only from its len(taskChan) == cap test,
   with discardOnBusy set and exactly n tasks in the task channel;
   ants_steps_channels_bounded: taskChan and innerCallbackChan never hold more than n entries (so "full" is
   "length = n").  The timing bound (K1) is not restated on the step model. *)
From Got Require Import AntsStepsDecide AntsStepsOutcome.

Theorem ants_steps_busy_only_if_full :
  forall md n s tid hint,
    snd (fst (ast_step md n s tid hint)) = AstEvRet AstRDiscard ->
    exists o, ast_pc_of s tid = Some (AstSendLen o) /\ aso_discard o = true /\ length (ast_tchan s) = n.
Proof. exact ast_steps_busy_only_if_full. Qed.
Print Assumptions ants_steps_busy_only_if_full.

Theorem ants_steps_channels_bounded :
  forall md n progs s,
    ast_reach md n progs s -> (length (ast_tchan s) <= n)%nat /\ (length (ast_ichan s) <= n)%nat.
Proof. exact ast_steps_channels_bounded. Qed.
Print Assumptions ants_steps_channels_bounded.

(* ------------------------------------------------------------------------------------------------
   "A pool created with size N", "timeout T and retry count R": which N, T, R a NewPool / Send call
   obtains (models/AntsOptions.v: pool_option.go and task_option.go transcribed as functions of the
   literal option list; several pools in one process).  Proofs in proofs/AntsOptionsProofs.v. *)

(* WithSize / WithContextBuilder: the size is >= 1; it is 1 when no WithSize with a positive argument
   was given (no options at all, WithSize(0), WithSize(-3): non-positive sizes are ignored); the LAST
   positive WithSize wins; WithContextBuilder never changes the size, a nil builder is ignored. *)
Theorem ants_pool_size :
  forall l,
    1 <= apo_size (apo_create l) /\
    ((forall n, In (ApoSize n) l -> n <= 0) -> apo_size (apo_create l) = 1) /\
    ((forall b, ~ In (ApoBuilder (Some b)) l) -> apo_builder (apo_create l) = None) /\
    (forall n, apo_size (apo_create (l ++ [ApoSize n])) = if 0 <? n then n else apo_size (apo_create l)) /\
    (forall b, apo_size (apo_create (l ++ [ApoBuilder b])) = apo_size (apo_create l)).
Proof. exact ants_pool_size_l. Qed.
Print Assumptions ants_pool_size.

(* WithTimeout / WithRetry / WithDiscardOnBusy / WithError: T > 0 and R > 0 always; without a positive
   WithTimeout T = 365 days, without a positive WithRetry R = 1, without WithDiscardOnBusy the task is
   discarded when busy, without WithError there is no callback; the last effective option wins. *)
Theorem ants_task_options :
  forall l,
    let c := ato_create l in
    0 < ato_timeout c /\ 0 < ato_retry c /\
    ((forall t, In (AtoTimeout t) l -> t <= 0) -> ato_timeout c = 365 * ato_day) /\
    ((forall n, In (AtoRetry n) l -> n <= 0) -> ato_retry c = 1) /\
    ((forall b, ~ In (AtoDiscard b) l) -> ato_discard c = true) /\
    ((forall b, ~ In (AtoError b) l) -> ato_onerr c = false) /\
    (forall o, ato_create (l ++ [o]) = ato_apply c o).
Proof. exact ants_task_options_l. Qed.
Print Assumptions ants_task_options.

(* Over ALL sequences of NewPool / Send calls of one process (any number of pools, any option lists, any
   order): with the code in /repo now (AnoFresh: createPoolOptions / createTaskOptions start from a fresh
   struct literal) the configuration obtained by the j-th NewPool call is apo_create of ITS OWN option list
   and the one obtained by the i-th Send call is ato_create of ITS OWN option list -- nothing an earlier
   call did (on the same or on another pool) is visible. *)
Theorem ants_config_own_options_only :
  forall cs,
    ano_pools (ano_calls AnoFresh cs) = ano_want_pools cs /\
    ano_tasks (ano_calls AnoFresh cs) = ano_want_tasks cs.
Proof. exact ants_config_own_options_only_l. Qed.
Print Assumptions ants_config_own_options_only.

(* ... and that is a property of the allocation, not of the option functions: with a package-level default
   struct that the options mutate in place (AnoSharedDefault) the calls NewPool(WithSize(3)); Send(WithRetry(5),
   WithTimeout(1000)); NewPool(); NewPool(WithSize(0)); Send() give pools of sizes 3, 3, 3 (wanted 3, 1, 1)
   and the last Send R = 5, T = 1000 (wanted R = 1, T = 365 days). *)
Theorem ants_shared_default_options_refuted :
  map apo_size (ano_pools (ano_calls AnoSharedDefault ano_leak_calls)) = [3; 3; 3] /\
  map apo_size (ano_want_pools ano_leak_calls) = [3; 1; 1] /\
  map (fun x => (ato_retry (snd x), ato_timeout (snd x))) (ano_tasks (ano_calls AnoSharedDefault ano_leak_calls)) = [(5, 1000); (5, 1000)] /\
  map (fun x => (ato_retry (snd x), ato_timeout (snd x))) (ano_want_tasks ano_leak_calls) = [(5, 1000); (1, 365 * ato_day)].
Proof. exact ants_shared_default_options_refuted_l. Qed.
Print Assumptions ants_shared_default_options_refuted.

(* Several pools in one process (anm_step: pools are created at any time with a literal option list, share
   nothing but the clock, every Send carries its literal task option list): in every reachable state every
   pool is, by itself, in a state reachable by the single-pool machine whose configuration is computed
   from THAT pool's option list, at the common clock -- so every theorem above and in C07.v holds for
   each pool of a multi-pool process with N = its own size. *)
Theorem ants_multi_pool_projection :
  forall urg evs s,
    anm_run urg anm_init evs = Some s ->
    forall p pl, nth_error (anm_pools s) p = Some pl ->
      (exists h, an_run (anm_cfg urg (anm_popts pl)) an_init h = Some (anm_st pl)) /\ an_now (anm_st pl) = anm_now s.
Proof. exact ants_multi_pool_projection_l. Qed.
Print Assumptions ants_multi_pool_projection.

(* the first clause of C08 for a process with several pools: at every instant pool p runs at most N_p
   handler invocations at once, N_p >= 1 computed from p's own NewPool options only; N_p = 1 for NewPool(),
   NewPool(WithSize(0)), NewPool(WithSize(-1)), whatever the other pools of the process were created with. *)
Theorem ants_multi_pool_concurrency :
  forall urg evs s p pl,
    anm_run urg anm_init evs = Some s -> nth_error (anm_pools s) p = Some pl ->
    let N := Z.to_nat (apo_size (apo_create (anm_popts pl))) in
    (an_nrun (an_workers (anm_st pl)) <= N)%nat /\ (an_maxrun (anm_st pl) <= N)%nat /\ (1 <= N)%nat /\
    ((forall n, In (ApoSize n) (anm_popts pl) -> n <= 0) -> N = 1%nat).
Proof. exact ants_multi_pool_concurrency_l. Qed.
Print Assumptions ants_multi_pool_concurrency.

(* non-vacuity: NewPool(WithSize(2)) then NewPool() in one process, two Sends each (the second pool's with
   WithRetry(0) / WithRetry(-1), no WithTimeout): at 500 the first pool has run 2 handlers at once, the
   second 1 (N = 1) while its second task (R = 1, T = 365 days) still waits in the task channel: no
   dispatcher of pool 1 can pick it up. *)
Example c08_multi_pool_nonvacuous :
  anm_w_obs = Some (500, 2%nat, 1%nat, 2%nat, 1%nat, [1%nat], 1%nat, 365 * ato_day, true).
Proof. exact ants_multi_pool_witness_l. Qed.
