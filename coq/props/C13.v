(* C13 -- iox.Buffer / iox.OctetsStream are seekable FIFO byte streams for any op sequence.
   Only property theorems (full statements), each closed by [exact] of a lemma proved in
   proofs/{Fifo,StreamOps,Buffer}Proofs.v, and Print Assumptions.

   Vocabulary.  Fifo.v is the abstract specification: retained bytes + a cursor inside
   them; unread = skipn cur retained; compaction (mandatory in Tidy, optional in front of
   Write/Grow) is the only operation that drops the consumed prefix; Seek arithmetic is over
   unbounded integers.  StreamOps.v / Buffer.v transcribe the Go code with checked slice
   expressions (an out-of-range slice is the value Panic). *)
From Got Require Import Base GoSlice Fifo FifoProofs StreamOps StreamOpsProofs Buffer BufferProofs.
Local Open Scope Z_scope.

(* ------------------------------------------------------------------ abstract FIFO *)

(* Without Seek/Reset, for every op sequence and every choice of optional compactions:
   all bytes read so far, followed by the unread portion, are all bytes written, in order. *)
Theorem c13_fifo_conservation :
  forall (l : list (bool * fifo_op)) f rs,
    forallb (fun co => fifo_op_linear (snd co)) l = true ->
    fifo_run fifo_init l = (f, rs) ->
    fifo_all_reads rs ++ fifo_unread f = fifo_all_writes l.
Proof. exact fifo_conservation. Qed.
Print Assumptions c13_fifo_conservation.

(* For every op sequence (with Seek and Reset): the retained data is a suffix of the bytes
   written since the last Reset, so the byte at retained position p is the byte originally
   written at stream offset d+p; and the cursor is inside the retained data. *)
Theorem c13_fifo_retained_suffix_of_written :
  forall (l : list (bool * fifo_op)) f rs,
    fifo_run fifo_init l = (f, rs) ->
    exists d, (d <= length (fifo_written [] l))%nat /\
              f_ret f = skipn d (fifo_written [] l) /\
              (f_cur f <= length (f_ret f))%nat.
Proof. exact fifo_retained_suffix_of_written. Qed.
Print Assumptions c13_fifo_retained_suffix_of_written.

(* ------------------------------------------------------------------ iox.OctetsStream *)

(* No op sequence panics (no hypothesis at all: any payloads, any read sizes, any offset and
   whence, even outside the int64 range), and Bytes() can be taken afterwards. *)
Theorem c13_stm_no_panic :
  forall ops, exists s rs,
    stm_run StmFixed stm_init ops = Ok (s, rs) /\ length rs = length ops /\
    stm_bytes s = Ok (stm_unread s).
Proof. exact stm_no_panic. Qed.
Print Assumptions c13_stm_no_panic.

(* ... and the per-op trace that the correspondence check compares with the real code
   contains no PANIC entry either: Bytes() succeeds after every single op. *)
Theorem c13_stm_trace_clean :
  forall ops,
    forallb stm_line_clean (stm_trace StmFixed stm_init ops) = true /\
    length (stm_trace StmFixed stm_init ops) = length ops.
Proof. exact (fun ops => stm_trace_clean ops stm_init stm_inv_init). Qed.
Print Assumptions c13_stm_trace_clean.

Theorem c13_stm_cursor_in_bounds :
  forall ops s rs,
    stm_run StmFixed stm_init ops = Ok (s, rs) -> 0 <= st_pos s <= stm_len s.
Proof. exact (fun ops s rs => stm_run_inv ops stm_init s rs stm_inv_init). Qed.
Print Assumptions c13_stm_cursor_in_bounds.

(* Every run is a run of the abstract FIFO (never compacting on Write), returning the same
   data / seek results. Offsets are int64, fewer than 2^63 bytes are written in total. *)
Theorem c13_stm_refines_fifo :
  forall ops s rs,
    Forall stm_op_ok ops -> stm_ops_size ops < 2 ^ 63 ->
    stm_run StmFixed stm_init ops = Ok (s, rs) ->
    fifo_run fifo_init (stm_abs_ops ops) = (stm_abs s, map stm_ret_abs rs).
Proof. exact stm_run_refines. Qed.
Print Assumptions c13_stm_refines_fifo.

Theorem c13_stm_write_appends_unread :
  forall s p s' r,
    stm_inv s -> stm_step StmFixed s (SWrite p) = Ok (s', r) ->
    stm_unread s' = stm_unread s ++ p /\ st_pos s' = st_pos s /\ st_buf s' = st_buf s ++ p.
Proof. exact stm_write_appends_unread. Qed.
Print Assumptions c13_stm_write_appends_unread.

(* Read(n bytes) returns the first n unread bytes (all of them if fewer), consumes exactly
   those, drops nothing from the retained data; the error is returned iff n = 0 *)
Theorem c13_stm_read_takes_prefix_of_unread :
  forall s n s' r,
    stm_inv s -> stm_step StmFixed s (SRead n) = Ok (s', r) ->
    r = SRRead (firstn n (stm_unread s)) (Nat.eqb n 0) /\
    stm_unread s' = skipn n (stm_unread s) /\ st_buf s' = st_buf s.
Proof. exact stm_read_takes_prefix_of_unread. Qed.
Print Assumptions c13_stm_read_takes_prefix_of_unread.

Theorem c13_stm_compaction_preserves_unread :
  forall s s' r,
    stm_inv s -> stm_step StmFixed s STidy = Ok (s', r) ->
    stm_unread s' = stm_unread s /\ st_buf s' = stm_unread s /\ st_pos s' = 0.
Proof. exact stm_compaction_preserves_unread. Qed.
Print Assumptions c13_stm_compaction_preserves_unread.

Theorem c13_stm_seek_fail_unchanged :
  forall s o w s', stm_step StmFixed s (SSeek o w) = Ok (s', SRSeek None) -> s' = s.
Proof. exact stm_seek_fail_unchanged. Qed.
Print Assumptions c13_stm_seek_fail_unchanged.

Theorem c13_stm_seek_ok_within_retained :
  forall s o w s' t,
    stm_inv s -> stm_step StmFixed s (SSeek o w) = Ok (s', SRSeek (Some t)) ->
    0 <= t <= stm_len s /\ st_buf s' = st_buf s /\ st_pos s' = t /\
    stm_unread s' = skipn (Z.to_nat t) (st_buf s).
Proof. exact stm_seek_ok_within_retained. Qed.
Print Assumptions c13_stm_seek_ok_within_retained.

(* which seeks succeed, and where they land: exactly the unbounded-integer specification
   (the int64 wrap-around of num += offset can neither fake nor hide a valid position) *)
Theorem c13_stm_seek_spec :
  forall s o w,
    stm_inv s -> stm_len s < 2 ^ 63 -> - 2 ^ 63 <= o < 2 ^ 63 ->
    stm_seek StmFixed s o w =
      match fifo_seek_target (stm_abs s) o w with
      | Some t => (mk_stm (st_buf s) t, Some t)
      | None => (s, None)
      end.
Proof. exact stm_seek_spec. Qed.
Print Assumptions c13_stm_seek_spec.

Theorem c13_stm_fifo_conservation :
  forall ops s rs,
    forallb stm_op_linear ops = true ->
    stm_run StmFixed stm_init ops = Ok (s, rs) ->
    stm_all_reads rs ++ stm_unread s = stm_all_writes ops.
Proof. exact stm_fifo_conservation. Qed.
Print Assumptions c13_stm_fifo_conservation.

(* after ANY op sequence the unread bytes are the bytes originally written at the absolute
   offset the cursor stands for *)
Theorem c13_stm_unread_is_written :
  forall ops s rs,
    Forall stm_op_ok ops -> stm_ops_size ops < 2 ^ 63 ->
    stm_run StmFixed stm_init ops = Ok (s, rs) ->
    exists d, (d <= length (stm_written ops))%nat /\ st_buf s = skipn d (stm_written ops) /\
              stm_unread s = skipn (d + Z.to_nat (st_pos s)) (stm_written ops).
Proof. exact stm_retained_suffix_of_written. Qed.
Print Assumptions c13_stm_unread_is_written.

(* the Seek of the original code (before fix 6fe9801) violates the property *)
Theorem c13_stream_seek_orig_refuted :
  exists s rs,
    stm_run StmOrig stm_init [SWrite [1; 2; 3; 4]; SSeek 10 0] = Ok (s, rs) /\
    rs = [SRWrote; SRSeek (Some 10)] /\ st_pos s > stm_len s /\
    stm_bytes s = Panic /\ stm_step StmOrig s (SRead 1%nat) = Panic /\ stm_step StmOrig s STidy = Panic.
Proof. exact stm_seek_orig_refuted. Qed.
Print Assumptions c13_stream_seek_orig_refuted.

(* ------------------------------------------------------------------ iox.Buffer *)
(* Hypothesis of the run-level theorems, [buf_ops_ok ops]: Next/Grow sizes are non-negative
   (the property's own quantifier), Seek offsets are int64, and the total size of all
   Write/Grow requests is at most 2^59 bytes (keeps grow away from panic(ErrTooLarge):
   proved via the invariant cap <= max 64 (5 * requested bytes)). *)

Theorem c13_buf_no_panic :
  forall ops, buf_ops_ok ops ->
    exists s rs, buf_run buf_init ops = Ok (s, rs) /\ length rs = length ops /\
                 buf_bytes s = Ok (buf_unread s).
Proof. exact buf_no_panic. Qed.
Print Assumptions c13_buf_no_panic.

(* the compared per-op trace has no PANIC entry: every op returns, Bytes()/String() succeed
   and Seek(0, SeekCurrent) succeeds after every single op *)
Theorem c13_buf_trace_clean :
  forall ops, buf_ops_ok ops ->
    forallb buf_line_clean (buf_trace buf_init ops) = true /\
    length (buf_trace buf_init ops) = length ops.
Proof. exact buf_trace_clean. Qed.
Print Assumptions c13_buf_trace_clean.

Theorem c13_buf_cursor_in_bounds :
  forall ops s rs, buf_ops_ok ops -> buf_run buf_init ops = Ok (s, rs) ->
    0 <= b_off s <= buf_len s /\ buf_Len s = Z.of_nat (length (buf_unread s)) /\
    snd (buf_seek s 0 1) = Some (b_off s).
Proof. exact buf_cursor_in_bounds. Qed.
Print Assumptions c13_buf_cursor_in_bounds.

(* every run is a run of the abstract FIFO returning the same data / seek results, with a
   compaction flag per op (used by Write/Grow only: the capacity logic of grow) *)
Theorem c13_buf_refines_fifo :
  forall ops s rs, buf_ops_ok ops -> buf_run buf_init ops = Ok (s, rs) ->
    exists cs, length cs = length ops /\
      fifo_run fifo_init (combine cs (map buf_op_abs ops)) = (buf_abs s, map buf_ret_abs rs).
Proof. exact buf_refines_fifo. Qed.
Print Assumptions c13_buf_refines_fifo.

Theorem c13_buf_write_appends_unread :
  forall s p s' r,
    buf_inv s -> 2 * buf_cap s + Z.of_nat (length p) <= buf_maxint ->
    buf_step s (BWrite p) = Ok (s', r) ->
    r = BRWrote (Z.of_nat (length p)) /\ buf_unread s' = buf_unread s ++ p /\
    (b_buf s' = b_buf s ++ p /\ b_off s' = b_off s \/ b_buf s' = buf_unread s ++ p /\ b_off s' = 0).
Proof. exact buf_write_appends_unread. Qed.
Print Assumptions c13_buf_write_appends_unread.

(* Buffer.ReadOnce (one Read of an io.Reader into a scratch slice, then Write of what was read) is the Write
   step on the delivered bytes, and leaves the buffer untouched when the reader fails: the op-sequence
   theorems (c13_buf_no_panic, c13_buf_refines_fifo, c13_fifo_conservation, ...) cover sequences in which
   any Write is performed through ReadOnce.  The harness runs a share of all Buffer writes that way. *)
Theorem c13_buf_read_once_is_write :
  forall s d,
    buf_read_once s (Some d) =
    match buf_step s (BWrite d) with
    | Ok (s', BRWrote n) => Ok (s', Some n)
    | Ok (s', _) => Ok (s', None)
    | Err e => Err e
    | Panic => Panic
    end.
Proof. exact buf_read_once_is_write. Qed.
Print Assumptions c13_buf_read_once_is_write.

Theorem c13_buf_read_once_spec :
  forall s rd s' r,
    buf_inv s -> 2 * buf_cap s + Z.of_nat (length (match rd with Some d => d | None => [] end)) <= buf_maxint ->
    buf_read_once s rd = Ok (s', r) ->
    match rd with
    | None => s' = s /\ r = None
    | Some d => r = Some (Z.of_nat (length d)) /\ buf_unread s' = buf_unread s ++ d
    end.
Proof. exact buf_read_once_spec. Qed.
Print Assumptions c13_buf_read_once_spec.

(* Read: first n unread bytes, exactly those consumed, nothing dropped; io.EOF iff the
   buffer has no unread data and len(p) > 0 *)
Theorem c13_buf_read_takes_prefix_of_unread :
  forall s n s' r,
    buf_inv s -> buf_step s (BRead n) = Ok (s', r) ->
    r = BRRead (firstn n (buf_unread s)) (match buf_unread s, n with [], S _ => true | _, _ => false end) /\
    buf_unread s' = skipn n (buf_unread s) /\ b_buf s' = b_buf s.
Proof. exact buf_read_takes_prefix_of_unread. Qed.
Print Assumptions c13_buf_read_takes_prefix_of_unread.

Theorem c13_buf_next_takes_prefix_of_unread :
  forall s n s' r,
    buf_inv s -> 0 <= n -> buf_step s (BNext n) = Ok (s', r) ->
    r = BRNext (firstn (Z.to_nat n) (buf_unread s)) /\
    buf_unread s' = skipn (Z.to_nat n) (buf_unread s) /\ b_buf s' = b_buf s.
Proof. exact buf_next_takes_prefix_of_unread. Qed.
Print Assumptions c13_buf_next_takes_prefix_of_unread.

(* compaction never alters the unread portion: Tidy ... *)
Theorem c13_buf_compaction_preserves_unread_tidy :
  forall s s' r,
    buf_inv s -> buf_step s BTidy = Ok (s', r) ->
    buf_unread s' = buf_unread s /\ b_buf s' = buf_unread s /\ b_off s' = 0 /\ buf_cap s' = buf_cap s.
Proof. exact buf_tidy_preserves_unread. Qed.
Print Assumptions c13_buf_compaction_preserves_unread_tidy.

(* ... Grow (which also guarantees room for n more bytes) ... *)
Theorem c13_buf_compaction_preserves_unread_Grow :
  forall s n s' r,
    buf_inv s -> 0 <= n -> 2 * buf_cap s + n <= buf_maxint ->
    buf_step s (BGrow n) = Ok (s', r) ->
    buf_unread s' = buf_unread s /\ buf_cap s' - buf_len s' >= n /\
    (b_buf s' = b_buf s /\ b_off s' = b_off s \/ b_buf s' = buf_unread s /\ b_off s' = 0).
Proof. exact buf_Grow_preserves_unread. Qed.
Print Assumptions c13_buf_compaction_preserves_unread_Grow.

(* ... and the internal grow in every branch (reset-if-empty, reslice, make, slide down,
   reallocate): it returns the write index m with the unread bytes intact in front of it *)
Theorem c13_buf_compaction_preserves_unread_grow :
  forall s n,
    buf_inv s -> 0 <= n -> 2 * buf_cap s + n <= buf_maxint ->
    exists s' m g,
      buf_grow s n = Ok (s', m) /\ Z.of_nat (length g) = n /\
      skipn (Z.to_nat (b_off s')) (b_buf s') = buf_unread s ++ g /\
      m = Z.of_nat (length (b_buf s')) - n /\ 0 <= b_off s' <= m.
Proof. exact buf_grow_preserves_unread. Qed.
Print Assumptions c13_buf_compaction_preserves_unread_grow.

Theorem c13_buf_seek_fail_unchanged :
  forall s o w s', buf_step s (BSeek o w) = Ok (s', BRSeek None) -> s' = s.
Proof. exact buf_seek_fail_unchanged. Qed.
Print Assumptions c13_buf_seek_fail_unchanged.

Theorem c13_buf_seek_ok_within_retained :
  forall s o w s' t,
    buf_inv s -> buf_step s (BSeek o w) = Ok (s', BRSeek (Some t)) ->
    0 <= t <= buf_len s /\ b_buf s' = b_buf s /\ b_off s' = t /\
    buf_unread s' = skipn (Z.to_nat t) (b_buf s) /\ buf_cap s' = buf_cap s.
Proof. exact buf_seek_ok_within_retained. Qed.
Print Assumptions c13_buf_seek_ok_within_retained.

Theorem c13_buf_seek_spec :
  forall s o w,
    buf_inv s -> buf_len s < 2 ^ 63 -> - 2 ^ 63 <= o < 2 ^ 63 ->
    buf_seek s o w =
      match fifo_seek_target (buf_abs s) o w with
      | Some t => (buf_set_off s t, Some t)
      | None => (s, None)
      end.
Proof. exact buf_seek_spec. Qed.
Print Assumptions c13_buf_seek_spec.

Theorem c13_buf_fifo_conservation :
  forall ops s rs,
    buf_ops_ok ops -> forallb buf_op_linear ops = true ->
    buf_run buf_init ops = Ok (s, rs) ->
    buf_all_reads rs ++ buf_unread s = buf_all_writes ops.
Proof. exact buf_fifo_conservation. Qed.
Print Assumptions c13_buf_fifo_conservation.

Theorem c13_buf_unread_is_written :
  forall ops s rs,
    buf_ops_ok ops -> buf_run buf_init ops = Ok (s, rs) ->
    exists d, (d <= length (buf_written [] ops))%nat /\ b_buf s = skipn d (buf_written [] ops) /\
              buf_unread s = skipn (d + Z.to_nat (b_off s)) (buf_written [] ops).
Proof. exact buf_unread_is_written. Qed.
Print Assumptions c13_buf_unread_is_written.

(* non-vacuity (Buffer): a run through make / slide-down / reallocation with seeks *)
Example c13_nonvacuous_buf :
  let ops := [BWrite (repeat 7 40); BNext 38; BWrite (repeat 8 30); BSeek 1 1; BRead 2%nat;
              BGrow 200; BTidy; BSeek 0 2; BSeek 1 2] in
  buf_ops_ok ops /\
  exists s rs, buf_run buf_init ops = Ok (s, rs) /\ buf_cap s = 328 /\ b_off s = 29 /\
               nth 3 rs BRUnit = BRSeek (Some 1) /\ nth 4 rs BRUnit = BRRead [7; 8] false /\
               nth 8 rs BRUnit = BRSeek None.
Proof.
  cbn zeta. split.
  - split; [repeat constructor; cbn; lia|vm_compute; discriminate].
  - eexists. eexists. split; [vm_compute; reflexivity|]. repeat split.
Qed.

(* non-vacuity: a concrete run with a failed seek, a successful seek back into consumed
   data, a Tidy and further reads; the hypotheses of the refinement theorem hold for it *)
Example c13_nonvacuous :
  let ops := [SWrite [1; 2; 3; 4; 5]; SRead 2%nat; SSeek 9 0; SSeek (-1) 1; STidy; SWrite [6]; SRead 9%nat] in
  Forall stm_op_ok ops /\ stm_ops_size ops < 2 ^ 63 /\
  exists s, stm_run StmFixed stm_init ops =
    Ok (s, [SRWrote; SRRead [1; 2] false; SRSeek None; SRSeek (Some 1); SRUnit; SRWrote;
            SRRead [2; 3; 4; 5; 6] false]).
Proof.
  cbn zeta. split; [repeat constructor; cbn; lia|]. split; [vm_compute; reflexivity|].
  eexists. vm_compute. reflexivity.
Qed.
