(* C13 -- iox.Buffer / iox.OctetsStream are seekable FIFO byte streams for any op sequence.
   Only property theorems (full statements), each closed by [exact] of a lemma proved in
   proofs/{Fifo,StreamOps,Buffer}Proofs.v, and Print Assumptions.

   Vocabulary.  Fifo.v is the abstract specification: retained bytes + a cursor inside
   them; unread = skipn cur retained; compaction (mandatory in Tidy, optional in front of
   Write/Grow) is the only operation that drops the consumed prefix; Seek arithmetic is over
   unbounded integers.  StreamOps.v / Buffer.v transcribe the Go code with checked slice
   expressions (an out-of-range slice is the value Panic). *)
From Got Require Import Base GoSlice Fifo FifoProofs StreamOps StreamOpsProofs.
Local Open Scope Z_scope.

(* ------------------------------------------------------------------ abstract FIFO *)

(* Without Seek/Reset, for every op sequence and every choice of optional compactions:
   all bytes read so far, followed by the unread portion, are all bytes written, in order. *)
Theorem c13_fifo_conservation :
  forall (l : list (bool * fifo_op)) f rs,
    forallb (fun co => fifo_op_linear (snd co)) l = true ->
    fifo_run fifo_init l = (f, rs) ->
    fifo_all_reads rs ++ fifo_unread f = fifo_all_writes l.
Proof. exact fifo_conservation. Qed.
Print Assumptions c13_fifo_conservation.

(* For every op sequence (with Seek and Reset): the retained data is a suffix of the bytes
   written since the last Reset, so the byte at retained position p is the byte originally
   written at stream offset d+p; and the cursor is inside the retained data. *)
Theorem c13_fifo_retained_suffix_of_written :
  forall (l : list (bool * fifo_op)) f rs,
    fifo_run fifo_init l = (f, rs) ->
    exists d, (d <= length (fifo_written [] l))%nat /\
              f_ret f = skipn d (fifo_written [] l) /\
              (f_cur f <= length (f_ret f))%nat.
Proof. exact fifo_retained_suffix_of_written. Qed.
Print Assumptions c13_fifo_retained_suffix_of_written.

(* ------------------------------------------------------------------ iox.OctetsStream *)

(* No op sequence panics (no hypothesis at all: any payloads, any read sizes, any offset and
   whence, even outside the int64 range), and Bytes() can be taken afterwards. *)
Theorem c13_stm_no_panic :
  forall ops, exists s rs,
    stm_run StmFixed stm_init ops = Ok (s, rs) /\ length rs = length ops /\
    stm_bytes s = Ok (stm_unread s).
Proof.
  intros ops. destruct (stm_run_total ops stm_init stm_inv_init) as (s & rs & H1 & H2 & H3).
  exists s, rs. split; [exact H1|]. split; [exact H3|]. exact (stm_bytes_ok s H2).
Qed.
Print Assumptions c13_stm_no_panic.

(* ... and the per-op trace that the correspondence check compares with the real code
   contains no PANIC entry either: Bytes() succeeds after every single op. *)
Theorem c13_stm_trace_clean :
  forall ops,
    forallb stm_line_clean (stm_trace StmFixed stm_init ops) = true /\
    length (stm_trace StmFixed stm_init ops) = length ops.
Proof. exact (fun ops => stm_trace_clean ops stm_init stm_inv_init). Qed.
Print Assumptions c13_stm_trace_clean.

Theorem c13_stm_cursor_in_bounds :
  forall ops s rs,
    stm_run StmFixed stm_init ops = Ok (s, rs) -> 0 <= st_pos s <= stm_len s.
Proof. exact (fun ops s rs => stm_run_inv ops stm_init s rs stm_inv_init). Qed.
Print Assumptions c13_stm_cursor_in_bounds.

(* Every run is a run of the abstract FIFO (never compacting on Write), returning the same
   data / seek results. Offsets are int64, fewer than 2^63 bytes are written in total. *)
Theorem c13_stm_refines_fifo :
  forall ops s rs,
    Forall stm_op_ok ops -> stm_ops_size ops < 2 ^ 63 ->
    stm_run StmFixed stm_init ops = Ok (s, rs) ->
    fifo_run fifo_init (stm_abs_ops ops) = (stm_abs s, map stm_ret_abs rs).
Proof. exact stm_run_refines. Qed.
Print Assumptions c13_stm_refines_fifo.

Theorem c13_stm_write_appends_unread :
  forall s p s' r,
    stm_inv s -> stm_step StmFixed s (SWrite p) = Ok (s', r) ->
    stm_unread s' = stm_unread s ++ p /\ st_pos s' = st_pos s /\ st_buf s' = st_buf s ++ p.
Proof. exact stm_write_appends_unread. Qed.
Print Assumptions c13_stm_write_appends_unread.

(* Read(n bytes) returns the first n unread bytes (all of them if fewer), consumes exactly
   those, drops nothing from the retained data; the error is returned iff n = 0 *)
Theorem c13_stm_read_takes_prefix_of_unread :
  forall s n s' r,
    stm_inv s -> stm_step StmFixed s (SRead n) = Ok (s', r) ->
    r = SRRead (firstn n (stm_unread s)) (Nat.eqb n 0) /\
    stm_unread s' = skipn n (stm_unread s) /\ st_buf s' = st_buf s.
Proof. exact stm_read_takes_prefix_of_unread. Qed.
Print Assumptions c13_stm_read_takes_prefix_of_unread.

Theorem c13_stm_compaction_preserves_unread :
  forall s s' r,
    stm_inv s -> stm_step StmFixed s STidy = Ok (s', r) ->
    stm_unread s' = stm_unread s /\ st_buf s' = stm_unread s /\ st_pos s' = 0.
Proof. exact stm_compaction_preserves_unread. Qed.
Print Assumptions c13_stm_compaction_preserves_unread.

Theorem c13_stm_seek_fail_unchanged :
  forall s o w s', stm_step StmFixed s (SSeek o w) = Ok (s', SRSeek None) -> s' = s.
Proof. exact stm_seek_fail_unchanged. Qed.
Print Assumptions c13_stm_seek_fail_unchanged.

Theorem c13_stm_seek_ok_within_retained :
  forall s o w s' t,
    stm_inv s -> stm_step StmFixed s (SSeek o w) = Ok (s', SRSeek (Some t)) ->
    0 <= t <= stm_len s /\ st_buf s' = st_buf s /\ st_pos s' = t /\
    stm_unread s' = skipn (Z.to_nat t) (st_buf s).
Proof. exact stm_seek_ok_within_retained. Qed.
Print Assumptions c13_stm_seek_ok_within_retained.

(* which seeks succeed, and where they land: exactly the unbounded-integer specification
   (the int64 wrap-around of num += offset can neither fake nor hide a valid position) *)
Theorem c13_stm_seek_spec :
  forall s o w,
    stm_inv s -> stm_len s < 2 ^ 63 -> - 2 ^ 63 <= o < 2 ^ 63 ->
    stm_seek StmFixed s o w =
      match fifo_seek_target (stm_abs s) o w with
      | Some t => (mk_stm (st_buf s) t, Some t)
      | None => (s, None)
      end.
Proof. exact stm_seek_spec. Qed.
Print Assumptions c13_stm_seek_spec.

Theorem c13_stm_fifo_conservation :
  forall ops s rs,
    forallb stm_op_linear ops = true ->
    stm_run StmFixed stm_init ops = Ok (s, rs) ->
    stm_all_reads rs ++ stm_unread s = stm_all_writes ops.
Proof. exact stm_fifo_conservation. Qed.
Print Assumptions c13_stm_fifo_conservation.

(* after ANY op sequence the unread bytes are the bytes originally written at the absolute
   offset the cursor stands for *)
Theorem c13_stm_unread_is_written :
  forall ops s rs,
    Forall stm_op_ok ops -> stm_ops_size ops < 2 ^ 63 ->
    stm_run StmFixed stm_init ops = Ok (s, rs) ->
    exists d, (d <= length (stm_written ops))%nat /\ st_buf s = skipn d (stm_written ops) /\
              stm_unread s = skipn (d + Z.to_nat (st_pos s)) (stm_written ops).
Proof. exact stm_retained_suffix_of_written. Qed.
Print Assumptions c13_stm_unread_is_written.

(* the Seek of the original code (before fix 6fe9801) violates the property *)
Theorem c13_stream_seek_orig_refuted :
  exists s rs,
    stm_run StmOrig stm_init [SWrite [1; 2; 3; 4]; SSeek 10 0] = Ok (s, rs) /\
    rs = [SRWrote; SRSeek (Some 10)] /\ st_pos s > stm_len s /\
    stm_bytes s = Panic /\ stm_step StmOrig s (SRead 1%nat) = Panic /\ stm_step StmOrig s STidy = Panic.
Proof. exact stm_seek_orig_refuted. Qed.
Print Assumptions c13_stream_seek_orig_refuted.

(* non-vacuity: a concrete run with a failed seek, a successful seek back into consumed
   data, a Tidy and further reads; the hypotheses of the refinement theorem hold for it *)
Example c13_nonvacuous :
  let ops := [SWrite [1; 2; 3; 4; 5]; SRead 2%nat; SSeek 9 0; SSeek (-1) 1; STidy; SWrite [6]; SRead 9%nat] in
  Forall stm_op_ok ops /\ stm_ops_size ops < 2 ^ 63 /\
  exists s, stm_run StmFixed stm_init ops =
    Ok (s, [SRWrote; SRRead [1; 2] false; SRSeek None; SRSeek (Some 1); SRUnit; SRWrote;
            SRRead [2; 3; 4; 5; 6] false]).
Proof.
  cbn zeta. split; [repeat constructor; cbn; lia|]. split; [vm_compute; reflexivity|].
  eexists. vm_compute. reflexivity.
Qed.
