(* C15 -- sortx.SliceBy sorts keys and carries values along; Unique* collapse runs.
   This file contains only the property theorems (full statements), each closed by
   [exact] of a lemma proved in proofs/SortProofs.v, proofs/SortSorted.v,
   proofs/SortPivot.v, proofs/UniqueProofs.v, and Print Assumptions.
   Model: models/Sort.v (introsort of sortx/zfuncversion.go over the two slices, with
   Less/Swap as the only accesses, a Less counter and explicit fuel), models/Unique.v. *)
From Got Require Import Base Sort Unique SortProofs SortSorted SortPivot UniqueProofs SortSeq SortSeqProofs.
Require Import Permutation Sorted.
Local Open Scope Z_scope.

(* ---------- SliceBy, for ANY less function (also inconsistent ones) ---------- *)

(* never panics (every Less/Swap index is in range) and never runs out of fuel *)
Theorem c15_sliceby_no_panic :
  forall (K V : Type) (less : K -> K -> bool) (keys : list K) (vals : list V),
    exists s', srt_sliceby less keys vals = SOk s'.
Proof. exact (@sliceby_no_panic). Qed.
Print Assumptions c15_sliceby_no_panic.

(* termination: the loop/recursion nesting of quickSort never exceeds
   maxDepth(n) = 2*bitlen(n) <= 2*(log2 n + 1): any fuel above it suffices *)
Theorem c15_sliceby_fuel_ok :
  forall (K V : Type) (less : K -> K -> bool) (keys : list K) (vals : list V) (fuel : nat),
    let n := srt_prefix_len keys vals in
    (srt_max_depth n < fuel)%nat ->
    Z.of_nat (srt_max_depth n) <= 2 * (Z.log2 n + 1) /\
    exists s', srt_sliceby_fuel less fuel keys vals = SOk s'.
Proof. exact (@sliceby_fuel_ok). Qed.
Print Assumptions c15_sliceby_fuel_ok.

(* the (key, value) pairs at equal indices of the first n = min(len keys, len values)
   positions are a permutation of the original pairs; slice lengths are unchanged *)
Theorem c15_sliceby_perm_coupled :
  forall (K V : Type) (less : K -> K -> bool) (keys : list K) (vals : list V) s',
    srt_sliceby less keys vals = SOk s' ->
    let n := Nat.min (length keys) (length vals) in
    length (st_keys s') = length keys /\ length (st_vals s') = length vals /\
    Permutation (combine (firstn n (st_keys s')) (firstn n (st_vals s')))
                (combine (firstn n keys) (firstn n vals)).
Proof. exact (@sliceby_perm_coupled). Qed.
Print Assumptions c15_sliceby_perm_coupled.

(* elements beyond the first n positions are untouched, in both slices *)
Theorem c15_sliceby_suffix_untouched :
  forall (K V : Type) (less : K -> K -> bool) (keys : list K) (vals : list V) s',
    srt_sliceby less keys vals = SOk s' ->
    let n := Nat.min (length keys) (length vals) in
    skipn n (st_keys s') = skipn n keys /\ skipn n (st_vals s') = skipn n vals.
Proof. exact (@sliceby_suffix_untouched). Qed.
Print Assumptions c15_sliceby_suffix_untouched.

(* O(n log n) Less calls on every input and for every less: count <= 12 n (log2 n + 2) *)
Theorem c15_sliceby_comparisons :
  forall (K V : Type) (less : K -> K -> bool) (keys : list K) (vals : list V) s',
    srt_sliceby less keys vals = SOk s' ->
    let n := srt_prefix_len keys vals in
    Z.of_N (st_cmp s') <= 12 * n * (Z.log2 n + 2).
Proof. exact (@sliceby_comparisons). Qed.
Print Assumptions c15_sliceby_comparisons.


(* ---------- sortedness, for every strict weak order ---------- *)
(* "less is a strict weak order": irreflexive, transitive, incomparability transitive.
   srt_le less x y := less y x = false  ("x is not after y") is then a total preorder. *)
Definition c15_strict_weak_order {K : Type} (less : K -> K -> bool) : Prop :=
  (forall x, less x x = false) /\
  (forall x y z, less x y = true -> less y z = true -> less x z = true) /\
  (forall x y z, less x y = false -> less y z = false -> less x z = false).

(* insertionSort_func sorts its segment [a,b) *)
Theorem c15_insertion_sorted :
  forall (K V : Type) (less : K -> K -> bool), c15_strict_weak_order less ->
  forall a b (s : srt_state K V) u s',
    srt_insertion_sort less a b s = SOk (u, s') -> srt_sorted_on less (st_keys s') a b.
Proof.
  exact (fun K V less H => @srt_insertion_sort_sorted K V less (proj1 H) (proj1 (proj2 H)) (proj2 (proj2 H))).
Qed.
Print Assumptions c15_insertion_sorted.

(* heapSort_func (the depth-limit fallback) sorts its segment [a,b) *)
Theorem c15_heapsort_sorted :
  forall (K V : Type) (less : K -> K -> bool), c15_strict_weak_order less ->
  forall a b (s : srt_state K V) u s',
    0 <= a -> a <= b -> srt_wf b s ->
    srt_heap_sort less a b s = SOk (u, s') -> srt_sorted_on less (st_keys s') a b.
Proof.
  exact (fun K V less H => @srt_heap_sort_sorted K V less (proj1 H) (proj1 (proj2 H)) (proj2 (proj2 H))).
Qed.
Print Assumptions c15_heapsort_sorted.

(* quickSort_func sorts [a,b) provided doPivot_func returns a three-zone partition
   (srt_partition_ok: keys[a,mlo) <= pivot, keys[mlo,mhi) equivalent to the pivot,
   keys[mhi,b) >= pivot, a <= mlo <= mhi <= b) *)
Theorem c15_quicksort_sorted_given_partition :
  forall (K V : Type) (less : K -> K -> bool), c15_strict_weak_order less ->
  srt_partition_ok (V:=V) less ->
  forall fuel depth a b (s : srt_state K V) u s',
    (depth < fuel)%nat -> 0 <= a -> a <= b -> srt_wf b s ->
    srt_quick_sort less fuel a b depth s = SOk (u, s') ->
    srt_sorted_on less (st_keys s') a b.
Proof.
  exact (fun K V less H HP =>
           @srt_quick_sort_sorted K V less (proj1 H) (proj1 (proj2 H)) (proj2 (proj2 H)) HP
             (@srt_heap_sort_sorted K V less (proj1 H) (proj1 (proj2 H)) (proj2 (proj2 H)))).
Qed.
Print Assumptions c15_quicksort_sorted_given_partition.

(* doPivot_func returns a three-zone partition of its segment [a,b) (b - a > 12, the only
   way quickSort calls it): a <= mlo <= mhi <= b and there is a pivot value p with
   keys[a,mlo) not after p, keys[mlo,mhi) equivalent to p, keys[mhi,b) not before p.
   Covers medianOfThree/ninther, the first scan, the main swap loop, the duplicate check
   (dups), the protect loop and the final swap.  Needs only irreflexivity + transitivity. *)
Theorem c15_dopivot_partition :
  forall (K V : Type) (less : K -> K -> bool), c15_strict_weak_order less ->
  forall a b (s : srt_state K V) mlo mhi s',
    0 <= a -> 12 < b - a -> srt_wf b s ->
    srt_do_pivot less a b s = SOk ((mlo, mhi), s') ->
    srt_pivot_post less (st_keys s') a b mlo mhi.
Proof.
  exact (fun K V less H => @dopivot_partition K V less (proj1 H) (proj1 (proj2 H))).
Qed.
Print Assumptions c15_dopivot_partition.

(* the conditional form (kept): sortedness of SliceBy's result given srt_partition_ok;
   the hypothesis is discharged by c15_dopivot_partition in c15_sliceby_sorted below *)
Theorem c15_sliceby_sorted_partial :
  forall (K V : Type) (less : K -> K -> bool), c15_strict_weak_order less ->
  srt_partition_ok (V:=V) less ->
  forall (keys : list K) (vals : list V) s',
    srt_sliceby less keys vals = SOk s' ->
    StronglySorted (srt_le less) (firstn (Nat.min (length keys) (length vals)) (st_keys s')).
Proof.
  exact (fun K V less H HP keys vals s' =>
           @sliceby_sorted_given_partition K V less (proj1 H) (proj1 (proj2 H)) (proj2 (proj2 H))
             keys vals s' HP).
Qed.
Print Assumptions c15_sliceby_sorted_partial.

(* FULL STATEMENT: for every strict weak order, after SliceBy the first
   min(len keys, len values) keys are sorted: no earlier key is after a later one
   (srt_le less x y := less y x = false) *)
Theorem c15_sliceby_sorted :
  forall (K V : Type) (less : K -> K -> bool), c15_strict_weak_order less ->
  forall (keys : list K) (vals : list V) s',
    srt_sliceby less keys vals = SOk s' ->
    StronglySorted (srt_le less) (firstn (Nat.min (length keys) (length vals)) (st_keys s')).
Proof.
  exact (fun K V less H keys vals s' =>
           @sliceby_sorted_given_partition K V less (proj1 H) (proj1 (proj2 H)) (proj2 (proj2 H))
             keys vals s' (@dopivot_partition K V less (proj1 H) (proj1 (proj2 H)))).
Qed.
Print Assumptions c15_sliceby_sorted.

(* ---------- calls that share something: sequences on one backing array, nested calls ----------
   (models/SortSeq.v)  "State left behind by an earlier call must not influence a later call."
   SliceBy has no state of its own (no package-level variable; swappers and lessSwap are locals),
   so the model is a pure function of (keys, values, less) and every theorem above already
   quantifies over every call, in whatever situation it is made.  What the sequence / nested /
   concurrent streams of vlib/c15.py rely on is stated explicitly here:
   * srt_store / srt_store_call / srt_run_calls: calls on sub-slices keys[ko:ko+nk], values[vo:vo+nv]
     of ONE pair of backing arrays, threaded through a sequence (re-slicing within capacity);
   * a less that itself calls SliceBy on other slices is, in the model, a less function like any
     other (the theorems above hold for ANY less): srt_less_nested;
   * concurrent calls on private data: there is nothing shared in the model, each call is the
     same pure function; no interleaving semantics is modelled for C15 (the stream compares each
     goroutine's result with the sequential model answer). *)

(* a call on sub-slices that lie inside the backing arrays never panics; the two slices are
   replaced by the result of the STAND-ALONE SliceBy on their contents (so all theorems above
   apply to it), the number of less calls is that of the stand-alone call *)
Theorem c15_store_call_is_standalone_call :
  forall (st : srt_store) (c : srt_call),
    srt_call_in_bounds (length (sto_keys st)) (length (sto_vals st)) c = true ->
    exists s,
      srt_sliceby (srt_less_mode2 (stc_mode c)) (srt_call_keys st c) (srt_call_vals st c) = SOk s /\
      length (st_keys s) = stc_nk c /\ length (st_vals s) = stc_nv c /\
      srt_store_call st c =
        SOk (StoMk (srt_splice (sto_keys st) (stc_ko c) (st_keys s))
                   (srt_splice (sto_vals st) (stc_vo c) (st_vals s)), st_cmp s).
Proof. exact srt_store_call_spec. Qed.
Print Assumptions c15_store_call_is_standalone_call.

(* ... and everything outside the two slices (before them, after them up to the capacity of the
   backing arrays) is untouched; the arrays keep their lengths *)
Theorem c15_store_call_frame :
  forall (st : srt_store) (c : srt_call) st' n,
    srt_call_in_bounds (length (sto_keys st)) (length (sto_vals st)) c = true ->
    srt_store_call st c = SOk (st', n) ->
    length (sto_keys st') = length (sto_keys st) /\ length (sto_vals st') = length (sto_vals st) /\
    firstn (stc_ko c) (sto_keys st') = firstn (stc_ko c) (sto_keys st) /\
    skipn (stc_ko c + stc_nk c) (sto_keys st') = skipn (stc_ko c + stc_nk c) (sto_keys st) /\
    firstn (stc_vo c) (sto_vals st') = firstn (stc_vo c) (sto_vals st) /\
    skipn (stc_vo c + stc_nv c) (sto_vals st') = skipn (stc_vo c + stc_nv c) (sto_vals st).
Proof. exact srt_store_call_frame. Qed.
Print Assumptions c15_store_call_frame.

(* HISTORY INDEPENDENCE: the result of a call is a function of that call's keys, values and less
   only.  Two stores -- two histories of earlier calls, two capacities, two contents outside the
   slices -- on which the call sees the same keys and values: it returns normally on both, makes
   the same number of less calls and leaves the same contents in its two slices *)
Theorem c15_sliceby_history_independent :
  forall (st1 st2 : srt_store) (c : srt_call),
    srt_call_in_bounds (length (sto_keys st1)) (length (sto_vals st1)) c = true ->
    srt_call_in_bounds (length (sto_keys st2)) (length (sto_vals st2)) c = true ->
    srt_call_keys st1 c = srt_call_keys st2 c ->
    srt_call_vals st1 c = srt_call_vals st2 c ->
    exists st1' st2' n,
      srt_store_call st1 c = SOk (st1', n) /\ srt_store_call st2 c = SOk (st2', n) /\
      srt_slice (sto_keys st1') (stc_ko c) (stc_nk c) = srt_slice (sto_keys st2') (stc_ko c) (stc_nk c) /\
      srt_slice (sto_vals st1') (stc_vo c) (stc_nv c) = srt_slice (sto_vals st2') (stc_vo c) (stc_nv c).
Proof. exact srt_store_call_history_independent. Qed.
Print Assumptions c15_sliceby_history_independent.

(* sequences: if every call's slice expressions are inside the backing arrays, no call of the
   sequence panics or runs out of fuel; the call at position |pre| is the stand-alone store
   call on the store the earlier calls left (same array lengths) *)
Theorem c15_call_sequence :
  forall (st : srt_store) (pre post : list srt_call) (c : srt_call),
    forallb (srt_call_in_bounds (length (sto_keys st)) (length (sto_vals st))) (pre ++ c :: post) = true ->
    (length (srt_run_calls st (pre ++ c :: post)) = length (pre ++ c :: post) /\
     forallb srt_res_ok (srt_run_calls st (pre ++ c :: post)) = true) /\
    exists st_i,
      nth_error (srt_run_calls st (pre ++ c :: post)) (length pre) = Some (srt_store_call st_i c) /\
      length (sto_keys st_i) = length (sto_keys st) /\ length (sto_vals st_i) = length (sto_vals st).
Proof.
  exact (fun st pre post c H =>
           conj (srt_run_calls_no_panic (pre ++ c :: post) st H)
                (srt_run_calls_app st pre c post
                   (proj1 (proj1 (andb_true_iff _ _) (eq_ind _ (fun b => b = true) H _ (forallb_app _ pre (c :: post))))))).
Qed.
Print Assumptions c15_call_sequence.

(* a less that decides x < y by calling SliceBy on a private two-element slice IS x < y, hence a
   strict weak order: c15_sliceby_sorted applies to the outer call made with it *)
Theorem c15_nested_less :
  (forall x y, srt_less_nested 0 x y = (x <? y)) /\ c15_strict_weak_order (srt_less_nested 0).
Proof. exact (conj srt_less_nested0_ltb srt_less_nested0_swo). Qed.
Print Assumptions c15_nested_less.

(* non-vacuity: three calls on one store of capacity 6: a 3-prefix, then the whole array with a
   shifted value slice, then an overwritten middle slice sorted descending *)
Example c15_store_nonvacuous :
  map (fun r => match r with SOk (st, n) => (sto_keys st, sto_vals st, n) | _ => ([], [], 0%N) end)
      (srt_run_calls (StoMk [5; 4; 3; 2; 1; 0] [10; 11; 12; 13; 14; 15])
         [StcMk 0 0 3 0 3 None; StcMk 0 0 6 1 4 None;
          StcMk 1 2 3 0 6 (Some ([7; 8; 9], [0; 1; 2; 3; 4; 5]))]) =
  [([3; 4; 5; 2; 1; 0], [12; 11; 10; 13; 14; 15], 3%N);
   ([2; 3; 4; 5; 1; 0], [12; 14; 11; 10; 13; 15], 5%N);
   ([2; 3; 9; 8; 7; 0], [2; 1; 0; 3; 4; 5], 3%N)].
Proof. reflexivity. Qed.

(* ---------- Unique ---------- *)

(* UniqueInt/UniqueString never panic; the returned slice is the input with every run
   collapsed (unq_collapse), it is a prefix of the backing array and the rest of the
   array is untouched *)
Theorem c15_unique_spec :
  forall (A : Type) (eqb : A -> A -> bool) (l : list A),
    unq_unique eqb l =
      Ok (unq_collapse eqb l, unq_collapse eqb l ++ skipn (length (unq_collapse eqb l)) l).
Proof. exact (@unq_unique_spec). Qed.
Print Assumptions c15_unique_spec.

(* what "collapsed" means, independently of the loop: if the input is the concatenation
   of non-empty runs x1^(n1+1) x2^(n2+1) ... with adjacent x_i different, the result is
   exactly x1 x2 ... (each run collapsed to its first element, order preserved) *)
Theorem c15_unique_runs :
  forall (A : Type) (eqb : A -> A -> bool),
    (forall x y, eqb x y = true <-> x = y) ->
    forall runs : list (A * nat),
      unq_adjacent_distinct (map fst runs) ->
      unq_collapse eqb (unq_expand runs) = map fst runs.
Proof. exact (@unq_collapse_runs). Qed.
Print Assumptions c15_unique_runs.

(* no two adjacent elements of the result are equal; the result is a subsequence *)
Theorem c15_unique_adjacent_distinct :
  forall (A : Type) (eqb : A -> A -> bool),
    (forall x y, eqb x y = true <-> x = y) ->
    forall l, unq_adjacent_distinct (unq_collapse eqb l) /\ unq_subseq (unq_collapse eqb l) l.
Proof.
  exact (fun A eqb H l => conj (unq_collapse_adjacent eqb H l) (unq_collapse_subseq eqb l)).
Qed.
Print Assumptions c15_unique_adjacent_distinct.

(* sorted input -> strictly increasing result *)
Theorem c15_unique_sorted_strict :
  forall l : list Z, StronglySorted Z.le l -> StronglySorted Z.lt (unq_collapse Z.eqb l).
Proof. exact unq_collapse_sorted. Qed.
Print Assumptions c15_unique_sorted_strict.

(* non-vacuity: Z.ltb is a strict weak order; a concrete run *)
Example c15_nonvacuous :
  c15_strict_weak_order Z.ltb /\
  unq_unique_z [1; 1; 2; 2; 2; 3; 1; 1] = Ok ([1; 2; 3; 1], [1; 2; 3; 1; 2; 3; 1; 1]) /\
  (match srt_sliceby_z 0 [3; 9; 7; 2; 100; 0; 4; 6] [0; 1; 2; 3; 4; 5; 6; 7; 8; 9] with
   | SOk s => (st_keys s, st_vals s, st_cmp s)
   | _ => ([], [], 0%N) end) =
  ([0; 2; 3; 4; 6; 7; 9; 100], [5; 3; 0; 6; 7; 2; 1; 4; 8; 9], 19%N).
Proof.
  split; [|split; [exact unq_example|reflexivity]].
  split; [intros x; apply Z.ltb_irrefl|]. split.
  - intros x y z H1 H2. apply Z.ltb_lt in H1. apply Z.ltb_lt in H2. apply Z.ltb_lt. lia.
  - intros x y z H1 H2. apply Z.ltb_ge in H1. apply Z.ltb_ge in H2. apply Z.ltb_ge. lia.
Qed.
