From Got Require Import Base Sort Unique SortProofs.
Theorem c15_stub : True. Proof. exact I. Qed.
Print Assumptions c15_stub.
