(* C15 -- sortx.SliceBy sorts keys and carries values along; Unique* collapse runs.
   This file contains only the property theorems (full statements), each closed by
   [exact] of a lemma proved in proofs/SortProofs.v, proofs/SortSorted.v,
   proofs/SortPivot.v, proofs/UniqueProofs.v, and Print Assumptions.
   Model: models/Sort.v (introsort of sortx/zfuncversion.go over the two slices, with
   Less/Swap as the only accesses, a Less counter and explicit fuel), models/Unique.v. *)
From Got Require Import Base Sort Unique SortProofs SortSorted SortPivot UniqueProofs.
Require Import Permutation Sorted.
Local Open Scope Z_scope.

(* ---------- SliceBy, for ANY less function (also inconsistent ones) ---------- *)

(* never panics (every Less/Swap index is in range) and never runs out of fuel *)
Theorem c15_sliceby_no_panic :
  forall (K V : Type) (less : K -> K -> bool) (keys : list K) (vals : list V),
    exists s', srt_sliceby less keys vals = SOk s'.
Proof. exact (@sliceby_no_panic). Qed.
Print Assumptions c15_sliceby_no_panic.

(* termination: the loop/recursion nesting of quickSort never exceeds
   maxDepth(n) = 2*bitlen(n) <= 2*(log2 n + 1): any fuel above it suffices *)
Theorem c15_sliceby_fuel_ok :
  forall (K V : Type) (less : K -> K -> bool) (keys : list K) (vals : list V) (fuel : nat),
    let n := srt_prefix_len keys vals in
    (srt_max_depth n < fuel)%nat ->
    Z.of_nat (srt_max_depth n) <= 2 * (Z.log2 n + 1) /\
    exists s', srt_sliceby_fuel less fuel keys vals = SOk s'.
Proof. exact (@sliceby_fuel_ok). Qed.
Print Assumptions c15_sliceby_fuel_ok.

(* the (key, value) pairs at equal indices of the first n = min(len keys, len values)
   positions are a permutation of the original pairs; slice lengths are unchanged *)
Theorem c15_sliceby_perm_coupled :
  forall (K V : Type) (less : K -> K -> bool) (keys : list K) (vals : list V) s',
    srt_sliceby less keys vals = SOk s' ->
    let n := Nat.min (length keys) (length vals) in
    length (st_keys s') = length keys /\ length (st_vals s') = length vals /\
    Permutation (combine (firstn n (st_keys s')) (firstn n (st_vals s')))
                (combine (firstn n keys) (firstn n vals)).
Proof. exact (@sliceby_perm_coupled). Qed.
Print Assumptions c15_sliceby_perm_coupled.

(* elements beyond the first n positions are untouched, in both slices *)
Theorem c15_sliceby_suffix_untouched :
  forall (K V : Type) (less : K -> K -> bool) (keys : list K) (vals : list V) s',
    srt_sliceby less keys vals = SOk s' ->
    let n := Nat.min (length keys) (length vals) in
    skipn n (st_keys s') = skipn n keys /\ skipn n (st_vals s') = skipn n vals.
Proof. exact (@sliceby_suffix_untouched). Qed.
Print Assumptions c15_sliceby_suffix_untouched.

(* O(n log n) Less calls on every input and for every less: count <= 12 n (log2 n + 2) *)
Theorem c15_sliceby_comparisons :
  forall (K V : Type) (less : K -> K -> bool) (keys : list K) (vals : list V) s',
    srt_sliceby less keys vals = SOk s' ->
    let n := srt_prefix_len keys vals in
    Z.of_N (st_cmp s') <= 12 * n * (Z.log2 n + 2).
Proof. exact (@sliceby_comparisons). Qed.
Print Assumptions c15_sliceby_comparisons.


(* ---------- sortedness, for every strict weak order ---------- *)
(* "less is a strict weak order": irreflexive, transitive, incomparability transitive.
   srt_le less x y := less y x = false  ("x is not after y") is then a total preorder. *)
Definition c15_strict_weak_order {K : Type} (less : K -> K -> bool) : Prop :=
  (forall x, less x x = false) /\
  (forall x y z, less x y = true -> less y z = true -> less x z = true) /\
  (forall x y z, less x y = false -> less y z = false -> less x z = false).

(* insertionSort_func sorts its segment [a,b) *)
Theorem c15_insertion_sorted :
  forall (K V : Type) (less : K -> K -> bool), c15_strict_weak_order less ->
  forall a b (s : srt_state K V) u s',
    srt_insertion_sort less a b s = SOk (u, s') -> srt_sorted_on less (st_keys s') a b.
Proof.
  exact (fun K V less H => @srt_insertion_sort_sorted K V less (proj1 H) (proj1 (proj2 H)) (proj2 (proj2 H))).
Qed.
Print Assumptions c15_insertion_sorted.

(* heapSort_func (the depth-limit fallback) sorts its segment [a,b) *)
Theorem c15_heapsort_sorted :
  forall (K V : Type) (less : K -> K -> bool), c15_strict_weak_order less ->
  forall a b (s : srt_state K V) u s',
    0 <= a -> a <= b -> srt_wf b s ->
    srt_heap_sort less a b s = SOk (u, s') -> srt_sorted_on less (st_keys s') a b.
Proof.
  exact (fun K V less H => @srt_heap_sort_sorted K V less (proj1 H) (proj1 (proj2 H)) (proj2 (proj2 H))).
Qed.
Print Assumptions c15_heapsort_sorted.

(* quickSort_func sorts [a,b) provided doPivot_func returns a three-zone partition
   (srt_partition_ok: keys[a,mlo) <= pivot, keys[mlo,mhi) equivalent to the pivot,
   keys[mhi,b) >= pivot, a <= mlo <= mhi <= b) *)
Theorem c15_quicksort_sorted_given_partition :
  forall (K V : Type) (less : K -> K -> bool), c15_strict_weak_order less ->
  srt_partition_ok (V:=V) less ->
  forall fuel depth a b (s : srt_state K V) u s',
    (depth < fuel)%nat -> 0 <= a -> a <= b -> srt_wf b s ->
    srt_quick_sort less fuel a b depth s = SOk (u, s') ->
    srt_sorted_on less (st_keys s') a b.
Proof.
  exact (fun K V less H HP =>
           @srt_quick_sort_sorted K V less (proj1 H) (proj1 (proj2 H)) (proj2 (proj2 H)) HP
             (@srt_heap_sort_sorted K V less (proj1 H) (proj1 (proj2 H)) (proj2 (proj2 H)))).
Qed.
Print Assumptions c15_quicksort_sorted_given_partition.

(* doPivot_func returns a three-zone partition of its segment [a,b) (b - a > 12, the only
   way quickSort calls it): a <= mlo <= mhi <= b and there is a pivot value p with
   keys[a,mlo) not after p, keys[mlo,mhi) equivalent to p, keys[mhi,b) not before p.
   Covers medianOfThree/ninther, the first scan, the main swap loop, the duplicate check
   (dups), the protect loop and the final swap.  Needs only irreflexivity + transitivity. *)
Theorem c15_dopivot_partition :
  forall (K V : Type) (less : K -> K -> bool), c15_strict_weak_order less ->
  forall a b (s : srt_state K V) mlo mhi s',
    0 <= a -> 12 < b - a -> srt_wf b s ->
    srt_do_pivot less a b s = SOk ((mlo, mhi), s') ->
    srt_pivot_post less (st_keys s') a b mlo mhi.
Proof.
  exact (fun K V less H => @dopivot_partition K V less (proj1 H) (proj1 (proj2 H))).
Qed.
Print Assumptions c15_dopivot_partition.

(* the conditional form (kept): sortedness of SliceBy's result given srt_partition_ok;
   the hypothesis is discharged by c15_dopivot_partition in c15_sliceby_sorted below *)
Theorem c15_sliceby_sorted_partial :
  forall (K V : Type) (less : K -> K -> bool), c15_strict_weak_order less ->
  srt_partition_ok (V:=V) less ->
  forall (keys : list K) (vals : list V) s',
    srt_sliceby less keys vals = SOk s' ->
    StronglySorted (srt_le less) (firstn (Nat.min (length keys) (length vals)) (st_keys s')).
Proof.
  exact (fun K V less H HP keys vals s' =>
           @sliceby_sorted_given_partition K V less (proj1 H) (proj1 (proj2 H)) (proj2 (proj2 H))
             keys vals s' HP).
Qed.
Print Assumptions c15_sliceby_sorted_partial.

(* FULL STATEMENT: for every strict weak order, after SliceBy the first
   min(len keys, len values) keys are sorted: no earlier key is after a later one
   (srt_le less x y := less y x = false) *)
Theorem c15_sliceby_sorted :
  forall (K V : Type) (less : K -> K -> bool), c15_strict_weak_order less ->
  forall (keys : list K) (vals : list V) s',
    srt_sliceby less keys vals = SOk s' ->
    StronglySorted (srt_le less) (firstn (Nat.min (length keys) (length vals)) (st_keys s')).
Proof.
  exact (fun K V less H keys vals s' =>
           @sliceby_sorted_given_partition K V less (proj1 H) (proj1 (proj2 H)) (proj2 (proj2 H))
             keys vals s' (@dopivot_partition K V less (proj1 H) (proj1 (proj2 H)))).
Qed.
Print Assumptions c15_sliceby_sorted.

(* ---------- Unique ---------- *)

(* UniqueInt/UniqueString never panic; the returned slice is the input with every run
   collapsed (unq_collapse), it is a prefix of the backing array and the rest of the
   array is untouched *)
Theorem c15_unique_spec :
  forall (A : Type) (eqb : A -> A -> bool) (l : list A),
    unq_unique eqb l =
      Ok (unq_collapse eqb l, unq_collapse eqb l ++ skipn (length (unq_collapse eqb l)) l).
Proof. exact (@unq_unique_spec). Qed.
Print Assumptions c15_unique_spec.

(* what "collapsed" means, independently of the loop: if the input is the concatenation
   of non-empty runs x1^(n1+1) x2^(n2+1) ... with adjacent x_i different, the result is
   exactly x1 x2 ... (each run collapsed to its first element, order preserved) *)
Theorem c15_unique_runs :
  forall (A : Type) (eqb : A -> A -> bool),
    (forall x y, eqb x y = true <-> x = y) ->
    forall runs : list (A * nat),
      unq_adjacent_distinct (map fst runs) ->
      unq_collapse eqb (unq_expand runs) = map fst runs.
Proof. exact (@unq_collapse_runs). Qed.
Print Assumptions c15_unique_runs.

(* no two adjacent elements of the result are equal; the result is a subsequence *)
Theorem c15_unique_adjacent_distinct :
  forall (A : Type) (eqb : A -> A -> bool),
    (forall x y, eqb x y = true <-> x = y) ->
    forall l, unq_adjacent_distinct (unq_collapse eqb l) /\ unq_subseq (unq_collapse eqb l) l.
Proof.
  exact (fun A eqb H l => conj (unq_collapse_adjacent eqb H l) (unq_collapse_subseq eqb l)).
Qed.
Print Assumptions c15_unique_adjacent_distinct.

(* sorted input -> strictly increasing result *)
Theorem c15_unique_sorted_strict :
  forall l : list Z, StronglySorted Z.le l -> StronglySorted Z.lt (unq_collapse Z.eqb l).
Proof. exact unq_collapse_sorted. Qed.
Print Assumptions c15_unique_sorted_strict.

(* non-vacuity: Z.ltb is a strict weak order; a concrete run *)
Example c15_nonvacuous :
  c15_strict_weak_order Z.ltb /\
  unq_unique_z [1; 1; 2; 2; 2; 3; 1; 1] = Ok ([1; 2; 3; 1], [1; 2; 3; 1; 2; 3; 1; 1]) /\
  (match srt_sliceby_z 0 [3; 9; 7; 2; 100; 0; 4; 6] [0; 1; 2; 3; 4; 5; 6; 7; 8; 9] with
   | SOk s => (st_keys s, st_vals s, st_cmp s)
   | _ => ([], [], 0%N) end) =
  ([0; 2; 3; 4; 6; 7; 9; 100], [5; 3; 0; 6; 7; 2; 1; 4; 8; 9], 19%N).
Proof.
  split; [|split; [exact unq_example|reflexivity]].
  split; [intros x; apply Z.ltb_irrefl|]. split.
  - intros x y z H1 H2. apply Z.ltb_lt in H1. apply Z.ltb_lt in H2. apply Z.ltb_lt. lia.
  - intros x y z H1 H2. apply Z.ltb_ge in H1. apply Z.ltb_ge in H2. apply Z.ltb_ge. lia.
Qed.
