(* C15 -- sortx.SliceBy sorts keys and carries values along; Unique* collapse runs.
   This file contains only the property theorems (full statements), each closed by
   [exact] of a lemma proved in proofs/SortProofs.v, proofs/SortSorted.v,
   proofs/UniqueProofs.v, and Print Assumptions.
   Model: models/Sort.v (introsort of sortx/zfuncversion.go over the two slices, with
   Less/Swap as the only accesses, a Less counter and explicit fuel), models/Unique.v. *)
From Got Require Import Base Sort Unique SortProofs UniqueProofs.
Require Import Permutation Sorted.
Local Open Scope Z_scope.

(* ---------- SliceBy, for ANY less function (also inconsistent ones) ---------- *)

(* never panics (every Less/Swap index is in range) and never runs out of fuel *)
Theorem c15_sliceby_no_panic :
  forall (K V : Type) (less : K -> K -> bool) (keys : list K) (vals : list V),
    exists s', srt_sliceby less keys vals = SOk s'.
Proof. exact (@sliceby_no_panic). Qed.
Print Assumptions c15_sliceby_no_panic.

(* termination: the loop/recursion nesting of quickSort never exceeds
   maxDepth(n) = 2*bitlen(n) <= 2*(log2 n + 1): any fuel above it suffices *)
Theorem c15_sliceby_fuel_ok :
  forall (K V : Type) (less : K -> K -> bool) (keys : list K) (vals : list V) (fuel : nat),
    let n := srt_prefix_len keys vals in
    (srt_max_depth n < fuel)%nat ->
    Z.of_nat (srt_max_depth n) <= 2 * (Z.log2 n + 1) /\
    exists s', srt_sliceby_fuel less fuel keys vals = SOk s'.
Proof. exact (@sliceby_fuel_ok). Qed.
Print Assumptions c15_sliceby_fuel_ok.

(* the (key, value) pairs at equal indices of the first n = min(len keys, len values)
   positions are a permutation of the original pairs; slice lengths are unchanged *)
Theorem c15_sliceby_perm_coupled :
  forall (K V : Type) (less : K -> K -> bool) (keys : list K) (vals : list V) s',
    srt_sliceby less keys vals = SOk s' ->
    let n := Nat.min (length keys) (length vals) in
    length (st_keys s') = length keys /\ length (st_vals s') = length vals /\
    Permutation (combine (firstn n (st_keys s')) (firstn n (st_vals s')))
                (combine (firstn n keys) (firstn n vals)).
Proof. exact (@sliceby_perm_coupled). Qed.
Print Assumptions c15_sliceby_perm_coupled.

(* elements beyond the first n positions are untouched, in both slices *)
Theorem c15_sliceby_suffix_untouched :
  forall (K V : Type) (less : K -> K -> bool) (keys : list K) (vals : list V) s',
    srt_sliceby less keys vals = SOk s' ->
    let n := Nat.min (length keys) (length vals) in
    skipn n (st_keys s') = skipn n keys /\ skipn n (st_vals s') = skipn n vals.
Proof. exact (@sliceby_suffix_untouched). Qed.
Print Assumptions c15_sliceby_suffix_untouched.

(* O(n log n) Less calls on every input and for every less: count <= 12 n (log2 n + 2) *)
Theorem c15_sliceby_comparisons :
  forall (K V : Type) (less : K -> K -> bool) (keys : list K) (vals : list V) s',
    srt_sliceby less keys vals = SOk s' ->
    let n := srt_prefix_len keys vals in
    Z.of_N (st_cmp s') <= 12 * n * (Z.log2 n + 2).
Proof. exact (@sliceby_comparisons). Qed.
Print Assumptions c15_sliceby_comparisons.

(* ---------- Unique ---------- *)

(* UniqueInt/UniqueString never panic; the returned slice is the input with every run
   collapsed (unq_collapse), it is a prefix of the backing array and the rest of the
   array is untouched *)
Theorem c15_unique_spec :
  forall (A : Type) (eqb : A -> A -> bool) (l : list A),
    unq_unique eqb l =
      Ok (unq_collapse eqb l, unq_collapse eqb l ++ skipn (length (unq_collapse eqb l)) l).
Proof. exact (@unq_unique_spec). Qed.
Print Assumptions c15_unique_spec.

(* what "collapsed" means, independently of the loop: if the input is the concatenation
   of non-empty runs x1^(n1+1) x2^(n2+1) ... with adjacent x_i different, the result is
   exactly x1 x2 ... (each run collapsed to its first element, order preserved) *)
Theorem c15_unique_runs :
  forall (A : Type) (eqb : A -> A -> bool),
    (forall x y, eqb x y = true <-> x = y) ->
    forall runs : list (A * nat),
      unq_adjacent_distinct (map fst runs) ->
      unq_collapse eqb (unq_expand runs) = map fst runs.
Proof. exact (@unq_collapse_runs). Qed.
Print Assumptions c15_unique_runs.

(* no two adjacent elements of the result are equal; the result is a subsequence *)
Theorem c15_unique_adjacent_distinct :
  forall (A : Type) (eqb : A -> A -> bool),
    (forall x y, eqb x y = true <-> x = y) ->
    forall l, unq_adjacent_distinct (unq_collapse eqb l) /\ unq_subseq (unq_collapse eqb l) l.
Proof.
  exact (fun A eqb H l => conj (unq_collapse_adjacent eqb H l) (unq_collapse_subseq eqb l)).
Qed.
Print Assumptions c15_unique_adjacent_distinct.

(* sorted input -> strictly increasing result *)
Theorem c15_unique_sorted_strict :
  forall l : list Z, StronglySorted Z.le l -> StronglySorted Z.lt (unq_collapse Z.eqb l).
Proof. exact unq_collapse_sorted. Qed.
Print Assumptions c15_unique_sorted_strict.

(* non-vacuity *)
Example c15_nonvacuous :
  unq_unique_z [1; 1; 2; 2; 2; 3; 1; 1] = Ok ([1; 2; 3; 1], [1; 2; 3; 1; 2; 3; 1; 1]).
Proof. exact unq_example. Qed.
