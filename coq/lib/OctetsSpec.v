(* OctetsSpec.v -- wire-format specifications used by C11, written independently of the
   code's shape (no shifts, no loops over "num > 127"):
     le_bytes n x   the n low-order bytes of x (two's complement), least significant first
     le_value l     the number a little-endian byte list denotes
     uleb128 n      unsigned LEB128 of n >= 0: the byte count is computed first from log2 n,
                    then that many 7-bit groups are emitted, all but the last with bit 7 set
     uleb_value l   the number a LEB128 byte list denotes *)
From Got Require Import Base.
Local Open Scope Z_scope.

Fixpoint le_bytes (n : nat) (x : Z) : list Z :=
  match n with
  | O => []
  | S k => x mod 256 :: le_bytes k (x / 256)
  end.

Fixpoint le_value (l : list Z) : Z :=
  match l with
  | [] => 0
  | b :: r => b + 256 * le_value r
  end.

(* k continuation bytes followed by one final byte *)
Fixpoint uleb128_groups (k : nat) (n : Z) : list Z :=
  match k with
  | O => [n]
  | S k' => (128 + n mod 128) :: uleb128_groups k' (n / 128)
  end.

Definition uleb128_conts (n : Z) : nat := Z.to_nat (Z.log2 n / 7).
Definition uleb128 (n : Z) : list Z := uleb128_groups (uleb128_conts n) n.

Fixpoint uleb_value (l : list Z) : Z :=
  match l with
  | [] => 0
  | b :: r => b mod 128 + 128 * uleb_value r
  end.

(* shape of a canonical LEB128 string: continuation bit on all bytes but the last, last
   byte non-zero unless it is the only one *)
Fixpoint uleb_shape (l : list Z) : bool :=
  match l with
  | [] => false
  | [b] => (0 <=? b) && (b <? 128)
  | b :: ((_ :: _) as r) => (128 <=? b) && (b <? 256) && uleb_shape r && negb (last r 0 =? 0)
  end.

(* length prefix + raw bytes *)
Definition prefixed (data : list Z) : list Z := uleb128 (Z.of_nat (length data)) ++ data.
