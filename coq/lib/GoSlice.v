(* GoSlice.v -- checked Go slice expressions and copy() over lists (used by C13 models).
   An out-of-range slice expression is the value Panic, never a defaulted result. *)
From Got Require Import Base.

Definition gs_bind {A B : Type} (r : res A unit) (f : A -> res B unit) : res B unit :=
  match r with
  | Ok a => f a
  | Err e => Err e
  | Panic => Panic
  end.

(* l[a:]  : requires 0 <= a <= len(l) *)
Definition gs_slice_from {A : Type} (l : list A) (a : Z) : res (list A) unit :=
  if (0 <=? a) && (a <=? Z.of_nat (length l)) then Ok (skipn (Z.to_nat a) l) else Panic.

(* s[a:b] on a slice whose backing array (from the slice's start up to its capacity) is
   arr : requires 0 <= a <= b <= cap = length arr *)
Definition gs_slice {A : Type} (arr : list A) (a b : Z) : res (list A) unit :=
  if (0 <=? a) && (a <=? b) && (b <=? Z.of_nat (length arr))
  then Ok (firstn (Z.to_nat (b - a)) (skipn (Z.to_nat a) arr)) else Panic.

(* copy(dst, src): new contents of dst; copies min(len dst, len src) elements.
   Go's copy is memmove-like, so overlapping source and destination behave as if the
   source had been snapshotted first -- which is what a functional model does. *)
Definition gs_copy {A : Type} (dst src : list A) : list A :=
  firstn (length dst) src ++ skipn (length src) dst.
Definition gs_copy_n {A : Type} (dst src : list A) : nat := Nat.min (length dst) (length src).

(* general-purpose lemmas *)
Lemma gs_copy_length {A} (dst src : list A) : length (gs_copy dst src) = length dst.
Proof.
  unfold gs_copy. rewrite app_length, firstn_length, skipn_length. lia.
Qed.

Lemma gs_copy_short {A} (dst src : list A) :
  (length src <= length dst)%nat -> gs_copy dst src = src ++ skipn (length src) dst.
Proof.
  intros H. unfold gs_copy. rewrite firstn_all2 by lia. reflexivity.
Qed.

Lemma gs_copy_exact {A} (dst src : list A) :
  length src = length dst -> gs_copy dst src = src.
Proof.
  intros H. rewrite gs_copy_short by lia. rewrite H, skipn_all. apply app_nil_r.
Qed.

Lemma gs_copy_long {A} (dst src : list A) :
  (length dst <= length src)%nat -> gs_copy dst src = firstn (length dst) src.
Proof.
  intros H. unfold gs_copy. rewrite skipn_all2 by lia. apply app_nil_r.
Qed.

Lemma gs_skipn_skipn {A} (a b : nat) (l : list A) : skipn a (skipn b l) = skipn (b + a) l.
Proof.
  revert l. induction b as [|b IH]; intros l; cbn [Nat.add].
  - reflexivity.
  - destruct l as [|x l]; [rewrite !skipn_nil; reflexivity|]. cbn [skipn]. apply IH.
Qed.

Lemma gs_firstn_skipn_app {A} (a b : nat) (l : list A) :
  firstn a l ++ firstn b (skipn a l) = firstn (a + b) l.
Proof.
  revert l. induction a as [|a IH]; intros l; cbn [Nat.add].
  - reflexivity.
  - destruct l as [|x l]; [rewrite skipn_nil, !firstn_nil; reflexivity|]. cbn. f_equal. apply IH.
Qed.
