(* Base.v -- common imports, fixed-width integer helpers and small list lemmas.
   Definitions here are executable; lemmas are general-purpose. *)
From Coq Require Export List ZArith Arith Lia Bool.
From Coq Require Export ZifyBool ZifyNat ZifyN.
Export ListNotations.

Ltac Zify.zify_post_hook ::= Z.div_mod_to_equations.

Open Scope Z_scope.

(* Go fixed-width integer behaviour, written out only where a property is about it *)
Definition wrapu (w : Z) (x : Z) : Z := x mod 2 ^ w.
Definition sext (w : Z) (x : Z) : Z :=
  let y := x mod 2 ^ w in if y <? 2 ^ (w - 1) then y else y - 2 ^ w.
Definition byte_lane (k : Z) (x : Z) : Z := (x / 2 ^ k) mod 256.

(* three-valued result of a model call: value, documented error, or Go panic *)
Inductive res (A E : Type) : Type :=
| Ok (a : A)
| Err (e : E)
| Panic.
Arguments Ok {A E} a.
Arguments Err {A E} e.
Arguments Panic {A E}.

Lemma wrapu_range w x : 0 <= w -> 0 <= wrapu w x < 2 ^ w.
Proof. intros Hw. unfold wrapu. apply Z.mod_pos_bound. apply Z.pow_pos_nonneg; lia. Qed.

Lemma wrapu_small w x : 0 <= x < 2 ^ w -> wrapu w x = x.
Proof. intros H. unfold wrapu. apply Z.mod_small. exact H. Qed.

Lemma sext_range w x : 1 <= w -> - 2 ^ (w - 1) <= sext w x < 2 ^ (w - 1).
Proof.
  intros Hw. unfold sext.
  assert (H2 : 2 ^ w = 2 * 2 ^ (w - 1)).
  { replace w with (Z.succ (w - 1)) at 1 by lia. rewrite Z.pow_succ_r by lia. reflexivity. }
  assert (Hp : 0 < 2 ^ (w - 1)) by (apply Z.pow_pos_nonneg; lia).
  assert (Hm : 0 <= x mod 2 ^ w < 2 ^ w) by (apply Z.mod_pos_bound; lia).
  destruct (x mod 2 ^ w <? 2 ^ (w - 1)) eqn:E; lia.
Qed.

Lemma sext_id w x : 1 <= w -> - 2 ^ (w - 1) <= x < 2 ^ (w - 1) -> sext w x = x.
Proof.
  intros Hw Hx. unfold sext.
  assert (H2 : 2 ^ w = 2 * 2 ^ (w - 1)).
  { replace w with (Z.succ (w - 1)) at 1 by lia. rewrite Z.pow_succ_r by lia. reflexivity. }
  assert (Hp : 0 < 2 ^ (w - 1)) by (apply Z.pow_pos_nonneg; lia).
  destruct (Z_lt_ge_dec x 0) as [Hn | Hn].
  - assert (Hm : x mod 2 ^ w = x + 2 ^ w).
    { symmetry. apply Z.mod_unique with (q := -1); lia. }
    rewrite Hm. destruct (x + 2 ^ w <? 2 ^ (w - 1)) eqn:E; lia.
  - rewrite Z.mod_small by lia. destruct (x <? 2 ^ (w - 1)) eqn:E; lia.
Qed.
