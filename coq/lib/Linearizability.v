(* Linearizability.v -- the textbook definition of linearizability (Herlihy & Wing,
   "Linearizability: a correctness condition for concurrent objects", TOPLAS 1990, section 2;
   Herlihy & Shavit, "The art of multiprocessor programming", section 3.6), generic in the type
   [Op] of operations-with-arguments and the type [Res] of results.  Definitions only; the
   lemmas are in proofs/LinearizabilityProofs.v, the instance for loom.Queue in
   proofs/QueueLinProofs.v.

   A HISTORY is a finite sequence of invocation and response events, each tagged with the
   thread (process) that issues it.  There is one object, so events carry no object name.

     H|t                the subhistory of thread t                            [hw_proj t H]
     well-formed        every H|t alternates inv, res, inv, ... starting with an
                        invocation (a thread has at most one call in flight)    [hw_wf]
     operation          an invocation together with the next response of the same thread.  In
                        a well-formed history the k-th response of t matches the k-th
                        invocation of t, so an operation is named by (t, k)   [hw_opid]
     pending            an invocation with no later response of its thread
     complete(H)        H without its pending invocations                      [hw_complete]
     extension H'       H followed by zero or more responses (to pending invocations: H' is
                        required to be well-formed)                            [hw_extension]
     H equivalent to S  H|t = S|t for every thread t                           [hw_equiv]
     sequential         inv, its response, inv, its response, ...              [hw_sequential]
     legal              a sequential history whose responses are those of the sequential
                        specification (a deterministic state machine)          [hw_legal]
     a <_H b            res(a) precedes inv(b) in H                            [hw_precedes]

   H is LINEARIZABLE w.r.t. the specification iff it has an extension H' and there is a legal
   sequential history S such that
     L1  complete(H') is equivalent to S, and
     L2  <_H is contained in <_S.                                              [hw_linearizable] *)
From Coq Require Import List Arith Bool.
Import ListNotations.
Local Open Scope nat_scope.

Section HW.
Context {Op Res : Type}.

Inductive hw_event :=
| HInv (t : nat) (o : Op)        (* thread t invokes o *)
| HRes (t : nat) (r : Res).      (* the pending call of thread t returns r *)

Definition hw_history := list hw_event.

Definition hw_thread (e : hw_event) : nat := match e with HInv t _ | HRes t _ => t end.
Definition hw_is_inv (t : nat) (e : hw_event) : bool :=
  match e with HInv t' _ => Nat.eqb t' t | HRes _ _ => false end.
Definition hw_is_res (t : nat) (e : hw_event) : bool :=
  match e with HRes t' _ => Nat.eqb t' t | HInv _ _ => false end.

(* H|t *)
Definition hw_proj (t : nat) (H : hw_history) : hw_history :=
  filter (fun e => Nat.eqb (hw_thread e) t) H.

(* alternation of one thread's events; [pending]: a call of the thread is in flight *)
Fixpoint hw_alt (pending : bool) (l : hw_history) : bool :=
  match l with
  | [] => true
  | HInv _ _ :: r => negb pending && hw_alt true r
  | HRes _ _ :: r => pending && hw_alt false r
  end.

Definition hw_wf (H : hw_history) : Prop := forall t, hw_alt false (hw_proj t H) = true.

(* complete(H): drop the invocations that have no later response of their thread *)
Fixpoint hw_complete (H : hw_history) : hw_history :=
  match H with
  | [] => []
  | HInv t o :: r => if existsb (hw_is_res t) r then HInv t o :: hw_complete r else hw_complete r
  | HRes t x :: r => HRes t x :: hw_complete r
  end.

Definition hw_all_res (l : hw_history) : Prop :=
  Forall (fun e => match e with HRes _ _ => True | HInv _ _ => False end) l.

(* H' extends H by responses to (some of the) pending invocations *)
Definition hw_extension (H H' : hw_history) : Prop :=
  exists ext, H' = H ++ ext /\ hw_all_res ext /\ hw_wf H'.

Definition hw_equiv (H S : hw_history) : Prop := forall t, hw_proj t H = hw_proj t S.

Inductive hw_sequential : hw_history -> Prop :=
| hw_seq_nil : hw_sequential []
| hw_seq_op t o r S : hw_sequential S -> hw_sequential (HInv t o :: HRes t r :: S).

(* sequential specification: a deterministic state machine; [hw_step s o] is the state after
   o and the result o returns when applied in state s *)
Record hw_spec := {
  hw_state : Type;
  hw_init : hw_state;
  hw_step : hw_state -> Op -> hw_state * Res
}.

Fixpoint hw_legal_from (sp : hw_spec) (s : hw_state sp) (S : hw_history) : Prop :=
  match S with
  | [] => True
  | HInv _ o :: HRes _ r :: S' =>
      r = snd (hw_step sp s o) /\ hw_legal_from sp (fst (hw_step sp s o)) S'
  | _ => False
  end.
Definition hw_legal (sp : hw_spec) (S : hw_history) : Prop :=
  hw_sequential S /\ hw_legal_from sp (hw_init sp) S.

(* position of the k-th event satisfying P *)
Fixpoint hw_find (P : hw_event -> bool) (k : nat) (H : hw_history) : option nat :=
  match H with
  | [] => None
  | e :: r =>
      if P e then match k with
                  | O => Some 0
                  | S k' => option_map S (hw_find P k' r)
                  end
      else option_map S (hw_find P k r)
  end.

(* operation (t, k): the k-th call of thread t (k = 0, 1, ...) *)
Definition hw_opid := (nat * nat)%type.
Definition hw_inv_pos (H : hw_history) (a : hw_opid) : option nat := hw_find (hw_is_inv (fst a)) (snd a) H.
Definition hw_res_pos (H : hw_history) (a : hw_opid) : option nat := hw_find (hw_is_res (fst a)) (snd a) H.

(* a <_H b : the response of a precedes the invocation of b in H *)
Definition hw_precedes (H : hw_history) (a b : hw_opid) : Prop :=
  exists i j, hw_res_pos H a = Some i /\ hw_inv_pos H b = Some j /\ i < j.

(* b has been invoked in H *)
Definition hw_invoked (H : hw_history) (b : hw_opid) : Prop := exists j, hw_inv_pos H b = Some j.

(* L2.  [a <_H b] requires a to be complete in H, so a occurs in S by L1.  If b is complete in
   H it occurs in S by L1 as well and the premise [hw_invoked S b] holds: this is the clause
   "<_H is contained in <_S" of the textbook.  The clause below also constrains an operation
   b that is pending in H and was completed in H' (it then occurs in S): it, too, must come
   after every operation that returned before it was invoked -- this is the slightly stronger
   reading in which pending invocations count as operations of H. *)
Definition hw_realtime (H S : hw_history) : Prop :=
  forall a b, hw_precedes H a b -> hw_invoked S b -> hw_precedes S a b.

Definition hw_linearizable (H : hw_history) (sp : hw_spec) : Prop :=
  hw_wf H /\
  exists H' S,
    hw_extension H H' /\
    hw_legal sp S /\
    hw_equiv (hw_complete H') S /\
    hw_realtime H S.

End HW.

Arguments hw_event : clear implicits.
Arguments hw_history : clear implicits.
Arguments hw_spec : clear implicits.
