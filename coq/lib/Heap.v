(* Heap.v -- executable model of Go 1.23 container/heap (src/container/heap/heap.go)
   over a list with CHECKED indices.  Definitions only; lemmas are in
   proofs/HeapProofs.v (prefix hp_).  Used by models/Sample.v (C20) and meant to be
   reused by the delayed-queue model (C10, std.PriorityQueue over container/heap).

   INTERFACE  (everything is generic in the element type A and in
               less : A -> A -> bool, the model of heap.Interface.Less on VALUES)

     hp_res T            ::= HpOk t | HpPanic | HpNoFuel
                             HpPanic  = a Go run-time panic (index out of range)
                             HpNoFuel = the loop fuel of up/down ran out; proved
                                        unreachable (hp_up_fuel_ok / hp_down_fuel_ok)
     the heap            is a  list A  (element k of the list = element k of the Go slice)
     hp_swap l i j       : option (list A)      h.Swap(i,j), None = index out of range
     hp_less less l i j  : option bool          h.Less(i,j), None = index out of range
     hp_up   less fuel l j        : hp_res (list A)          heap.up(h, j)
     hp_down less fuel l i0 n     : hp_res (list A * bool)   heap.down(h, i0, n) (bool = "moved")
     hp_init less l               : hp_res (list A)          heap.Init
     hp_push less l x             : hp_res (list A)          heap.Push   (h.Push = append)
     hp_pop  less l               : hp_res (list A * A)      heap.Pop    (h.Pop = remove last)
                                                             empty heap -> HpPanic (Swap(0,-1))
     hp_fix  less l i             : hp_res (list A)          heap.Fix(h, i)
     hp_remove less l i           : hp_res (list A * A)      heap.Remove(h, i)
     hp_top l                     : option A                 element 0 (std.PriorityQueue.Top)
     hp_set_checked l i x         : option (list A)          h[i] = x, None = out of range
     hp_op A ::= HpPush x | HpPop | HpTop | HpFixAt i x | HpRemoveAt i
     hp_apply less l op           : hp_res (list A * option A)   one std.PriorityQueue call
     hp_run   less l ops          : hp_res (list A * list (option A))   a call sequence
     hp_heap less l  : Prop       the heap invariant: for every valid child index c > 0,
                                  less l[c] l[(c-1)/2] = false
     hp_asym less, hp_negtrans less : Prop   what the lemmas assume of less (strict part of
                                  a total preorder)
     bookkeeping for statements about call sequences:
       hp_basic op (Push/Pop/Top only), hp_no_underflow n ops, hp_pushed ops,
       hp_popped ops outs, hp_op_valid n op, hp_size_after n op, hp_ops_valid n ops
     instance used by the differential test against std.PriorityQueue:
       hp_zitem = Z * Z (priority, id),  hp_zless a b = fst a <? fst b

   Indices are nat.  Go computes them in int; the only place where this matters is
   (j-1)/2 for j = 0, which is 0 in Go (truncated division of -1) and 0 in nat
   (truncated subtraction), and "j1 < 0 after int overflow" in down, unreachable for
   slices (length < 2^62). *)
From Got Require Import Base.

Inductive hp_res (T : Type) : Type :=
| HpOk (t : T)
| HpPanic
| HpNoFuel.
Arguments HpOk {T} t.
Arguments HpPanic {T}.
Arguments HpNoFuel {T}.

Section HeapModel.
  Context {A : Type}.
  Variable less : A -> A -> bool.

  (* l[i] = v for an index already known to be valid (identity when it is not) *)
  Fixpoint hp_set (l : list A) (i : nat) (v : A) : list A :=
    match l, i with
    | [], _ => []
    | _ :: t, O => v :: t
    | h :: t, S i' => h :: hp_set t i' v
    end.

  Definition hp_set_checked (l : list A) (i : nat) (v : A) : option (list A) :=
    match nth_error l i with
    | Some _ => Some (hp_set l i v)
    | None => None
    end.

  (* h.Swap(i, j): h[i], h[j] = h[j], h[i] *)
  Definition hp_swap (l : list A) (i j : nat) : option (list A) :=
    match nth_error l i, nth_error l j with
    | Some x, Some y => Some (hp_set (hp_set l i y) j x)
    | _, _ => None
    end.

  (* h.Less(i, j) *)
  Definition hp_less (l : list A) (i j : nat) : option bool :=
    match nth_error l i, nth_error l j with
    | Some x, Some y => Some (less x y)
    | _, _ => None
    end.

  (* func up(h, j): for { i := (j-1)/2; if i == j || !h.Less(j, i) { break }; h.Swap(i, j); j = i } *)
  Fixpoint hp_up (fuel : nat) (l : list A) (j : nat) : hp_res (list A) :=
    match fuel with
    | O => HpNoFuel
    | S f =>
        let i := ((j - 1) / 2)%nat in
        if (i =? j)%nat then HpOk l
        else match hp_less l j i with
             | None => HpPanic
             | Some false => HpOk l
             | Some true =>
                 match hp_swap l i j with
                 | None => HpPanic
                 | Some l' => hp_up f l' i
                 end
             end
    end.

  Definition hp_up_fuel (j : nat) : nat := S j.

  (* the loop of func down(h, i0, n); returns the final list and the final i *)
  Fixpoint hp_down_loop (fuel : nat) (l : list A) (i n : nat) : hp_res (list A * nat) :=
    match fuel with
    | O => HpNoFuel
    | S f =>
        let j1 := (2 * i + 1)%nat in
        if (n <=? j1)%nat then HpOk (l, i)                (* j1 >= n : break *)
        else
          let j2 := (j1 + 1)%nat in
          (* j := j1; if j2 < n && h.Less(j2, j1) { j = j2 } *)
          match (if (j2 <? n)%nat then hp_less l j2 j1 else Some false) with
          | None => HpPanic
          | Some b =>
              let j := if b then j2 else j1 in
              match hp_less l j i with                    (* if !h.Less(j, i) { break } *)
              | None => HpPanic
              | Some false => HpOk (l, i)
              | Some true =>
                  match hp_swap l i j with
                  | None => HpPanic
                  | Some l' => hp_down_loop f l' j n
                  end
              end
          end
    end.

  Definition hp_down_fuel (n : nat) : nat := S n.

  (* func down(h, i0, n) bool : "return i > i0" *)
  Definition hp_down (fuel : nat) (l : list A) (i0 n : nat) : hp_res (list A * bool) :=
    match hp_down_loop fuel l i0 n with
    | HpOk (l', i) => HpOk (l', (i0 <? i)%nat)
    | HpPanic => HpPanic
    | HpNoFuel => HpNoFuel
    end.

  (* func Init(h): n := h.Len(); for i := n/2 - 1; i >= 0; i-- { down(h, i, n) } *)
  Fixpoint hp_init_loop (cnt : nat) (l : list A) (n : nat) : hp_res (list A) :=
    match cnt with
    | O => HpOk l
    | S i =>                                   (* iteration with index i = cnt - 1 *)
        match hp_down (hp_down_fuel n) l i n with
        | HpOk (l', _) => hp_init_loop i l' n
        | HpPanic => HpPanic
        | HpNoFuel => HpNoFuel
        end
    end.

  Definition hp_init (l : list A) : hp_res (list A) :=
    let n := length l in hp_init_loop (n / 2)%nat l n.

  (* func Push(h, x): h.Push(x); up(h, h.Len()-1) *)
  Definition hp_push (l : list A) (x : A) : hp_res (list A) :=
    let l1 := l ++ [x] in
    hp_up (hp_up_fuel (length l1 - 1)) l1 (length l1 - 1).

  (* h.Pop(): h, v = h[:h.Len()-1], h[h.Len()-1] *)
  Definition hp_pop_last (l : list A) : hp_res (list A * A) :=
    match length l with
    | O => HpPanic
    | S n => match nth_error l n with
             | Some x => HpOk (firstn n l, x)
             | None => HpPanic
             end
    end.

  (* func Pop(h): n := h.Len()-1; h.Swap(0, n); down(h, 0, n); return h.Pop() *)
  Definition hp_pop (l : list A) : hp_res (list A * A) :=
    match length l with
    | O => HpPanic                                  (* h.Swap(0, -1) *)
    | S n =>
        match hp_swap l 0 n with
        | None => HpPanic
        | Some l1 =>
            match hp_down (hp_down_fuel n) l1 0 n with
            | HpOk (l2, _) => hp_pop_last l2
            | HpPanic => HpPanic
            | HpNoFuel => HpNoFuel
            end
        end
    end.

  (* func Fix(h, i): if !down(h, i, h.Len()) { up(h, i) } *)
  Definition hp_fix (l : list A) (i : nat) : hp_res (list A) :=
    match hp_down (hp_down_fuel (length l)) l i (length l) with
    | HpOk (l1, true) => HpOk l1
    | HpOk (l1, false) => hp_up (hp_up_fuel i) l1 i
    | HpPanic => HpPanic
    | HpNoFuel => HpNoFuel
    end.

  (* func Remove(h, i): n := h.Len()-1; if n != i { h.Swap(i, n); if !down(h, i, n) { up(h, i) } }; return h.Pop() *)
  Definition hp_remove (l : list A) (i : nat) : hp_res (list A * A) :=
    match length l with
    | O => HpPanic                                  (* n = -1 <> i : h.Swap(i, -1) *)
    | S n =>
        if (n =? i)%nat then hp_pop_last l
        else match hp_swap l i n with
             | None => HpPanic
             | Some l1 =>
                 match hp_down (hp_down_fuel n) l1 i n with
                 | HpOk (l2, true) => hp_pop_last l2
                 | HpOk (l2, false) =>
                     match hp_up (hp_up_fuel i) l2 i with
                     | HpOk l3 => hp_pop_last l3
                     | HpPanic => HpPanic
                     | HpNoFuel => HpNoFuel
                     end
                 | HpPanic => HpPanic
                 | HpNoFuel => HpNoFuel
                 end
             end
    end.

  Definition hp_top (l : list A) : option A := nth_error l 0.

  (* the calls of std.PriorityQueue (std/priority_queue.go) *)
  Inductive hp_op : Type :=
  | HpPush (x : A)                 (* Push(x)      *)
  | HpPop                          (* Pop()        *)
  | HpTop                          (* Top()        *)
  | HpFixAt (i : nat) (x : A)      (* Fix(x, i): s[i] = x; heap.Fix(s, i) *)
  | HpRemoveAt (i : nat).          (* Remove(i)    *)

  (* one call: new array and the value returned (None = no value / nil) *)
  Definition hp_apply (l : list A) (op : hp_op) : hp_res (list A * option A) :=
    match op with
    | HpPush x => match hp_push l x with
                  | HpOk l' => HpOk (l', None) | HpPanic => HpPanic | HpNoFuel => HpNoFuel end
    | HpPop => match hp_pop l with
               | HpOk (l', v) => HpOk (l', Some v) | HpPanic => HpPanic | HpNoFuel => HpNoFuel end
    | HpTop => HpOk (l, hp_top l)
    | HpFixAt i x => match hp_set_checked l i x with
                     | None => HpPanic
                     | Some l1 => match hp_fix l1 i with
                                  | HpOk l' => HpOk (l', None) | HpPanic => HpPanic | HpNoFuel => HpNoFuel end
                     end
    | HpRemoveAt i => match hp_remove l i with
                      | HpOk (l', v) => HpOk (l', Some v) | HpPanic => HpPanic | HpNoFuel => HpNoFuel end
    end.

  (* a sequence of calls; outputs in call order *)
  Fixpoint hp_run (l : list A) (ops : list hp_op) : hp_res (list A * list (option A)) :=
    match ops with
    | [] => HpOk (l, [])
    | op :: rest =>
        match hp_apply l op with
        | HpOk (l', o) =>
            match hp_run l' rest with
            | HpOk (l'', os) => HpOk (l'', o :: os)
            | HpPanic => HpPanic
            | HpNoFuel => HpNoFuel
            end
        | HpPanic => HpPanic
        | HpNoFuel => HpNoFuel
        end
    end.

  (* heap invariant: no child is strictly less than its parent *)
  Definition hp_heap (l : list A) : Prop :=
    forall c x p, (0 < c)%nat ->
      nth_error l c = Some x -> nth_error l ((c - 1) / 2) = Some p -> less x p = false.

  (* what the lemmas need of [less]: it is the strict part of a total preorder
     ("x <= y" := less y x = false is total and transitive) *)
  Definition hp_asym : Prop := forall x y, less x y = true -> less y x = false.
  Definition hp_negtrans : Prop :=
    forall x y z, less y x = false -> less z y = false -> less z x = false.

  (* bookkeeping for call sequences made of Push/Pop/Top only *)
  Definition hp_basic (op : hp_op) : bool :=
    match op with HpPush _ | HpPop | HpTop => true | _ => false end.

  (* no Pop on an empty queue, starting from a queue of size n *)
  Fixpoint hp_no_underflow (n : nat) (ops : list hp_op) : bool :=
    match ops with
    | [] => true
    | HpPush _ :: r => hp_no_underflow (S n) r
    | HpPop :: r => match n with O => false | S m => hp_no_underflow m r end
    | _ :: r => hp_no_underflow n r
    end.

  Fixpoint hp_pushed (ops : list hp_op) : list A :=
    match ops with
    | [] => []
    | HpPush x :: r => x :: hp_pushed r
    | _ :: r => hp_pushed r
    end.

  (* validity of arbitrary call sequences: no Pop on an empty queue, Fix/Remove index in range *)
  Definition hp_op_valid (n : nat) (op : hp_op) : bool :=
    match op with
    | HpPush _ | HpTop => true
    | HpPop => (0 <? n)%nat
    | HpFixAt i _ => (i <? n)%nat
    | HpRemoveAt i => (i <? n)%nat
    end.

  Definition hp_size_after (n : nat) (op : hp_op) : nat :=
    match op with
    | HpPush _ => S n
    | HpPop | HpRemoveAt _ => (n - 1)%nat
    | HpTop | HpFixAt _ _ => n
    end.

  Fixpoint hp_ops_valid (n : nat) (ops : list hp_op) : bool :=
    match ops with
    | [] => true
    | op :: r => hp_op_valid n op && hp_ops_valid (hp_size_after n op) r
    end.

  (* values returned by the Pop calls of a run *)
  Fixpoint hp_popped (ops : list hp_op) (outs : list (option A)) : list A :=
    match ops, outs with
    | HpPop :: r, Some v :: os => v :: hp_popped r os
    | _ :: r, _ :: os => hp_popped r os
    | _, _ => []
    end.
End HeapModel.

Arguments hp_op A : clear implicits.

(* instance for the differential test against std.PriorityQueue: (priority, id) items
   ordered by priority only, so equal priorities are distinguishable *)
Definition hp_zitem : Type := (Z * Z)%type.
Definition hp_zless (a b : hp_zitem) : bool := fst a <? fst b.
Definition hp_zapply (l : list hp_zitem) (op : hp_op hp_zitem) := hp_apply hp_zless l op.
Definition hp_zinit (l : list hp_zitem) := hp_init hp_zless l.
