(* Race.v -- a vector-clock data-race monitor (DJIT+/TSan style: the notion of race the Go
   race detector implements) as an executable function over traces of memory events, and
   the publication protocol as a small-step machine.
   Definitions only; proofs in proofs/RaceProofs.v.

   Events of thread t:
     RRead x / RWrite x  plain (non-atomic) access to location x
     RRel o              release on sync object o : atomic store, Unlock, wg.Done,
                         channel send/close, go statement (o = the child)
     RAcq o              acquire : atomic load, Lock, wg.Wait return, channel receive,
                         first step of a goroutine
     RAcqRel o           CompareAndSwap / Add
   A plain access races when the previous conflicting access (last write; for a write also
   every previous read) is not ordered before it by the release/acquire chain. *)
From Got Require Import Base.
Local Open Scope nat_scope.

Definition rc_vc := nat -> nat.                    (* thread id -> clock *)

Inductive rc_ev :=
| RRead (x : nat) | RWrite (x : nat) | RRel (o : nat) | RAcq (o : nat) | RAcqRel (o : nat).

Record rc_mon := {
  rc_C : nat -> rc_vc;          (* clock of each thread *)
  rc_L : nat -> rc_vc;          (* clock of each sync object *)
  rc_Wt : nat -> nat;           (* last writer of each location *)
  rc_Wc : nat -> nat;           (* its clock at that write (0 = never written) *)
  rc_R : nat -> rc_vc;          (* per location: clock of the last read by each thread *)
  rc_raced : bool
}.

Definition rc_join (a b : rc_vc) : rc_vc := fun j => Nat.max (a j) (b j).
Definition rc_upd {A} (f : nat -> A) (i : nat) (v : A) : nat -> A :=
  fun j => if j =? i then v else f j.
Definition rc_inc (a : rc_vc) (t : nat) : rc_vc := rc_upd a t (S (a t)).

Definition rc_init : rc_mon :=
  {| rc_C := fun t => fun j => if j =? t then 1 else 0;
     rc_L := fun _ => fun _ => 0;
     rc_Wt := fun _ => 0; rc_Wc := fun _ => 0;
     rc_R := fun _ => fun _ => 0;
     rc_raced := false |}.

(* n = number of threads: reads are compared for thread ids below n *)
Definition rc_step (n : nat) (m : rc_mon) (t : nat) (e : rc_ev) : rc_mon :=
  let Ct := rc_C m t in
  match e with
  | RRead x =>
      let ok := rc_Wc m x <=? Ct (rc_Wt m x) in
      {| rc_C := rc_C m; rc_L := rc_L m; rc_Wt := rc_Wt m; rc_Wc := rc_Wc m;
         rc_R := rc_upd (rc_R m) x (rc_upd (rc_R m x) t (Ct t));
         rc_raced := rc_raced m || negb ok |}
  | RWrite x =>
      let okw := rc_Wc m x <=? Ct (rc_Wt m x) in
      let okr := forallb (fun u => rc_R m x u <=? Ct u) (seq 0 n) in
      {| rc_C := rc_C m; rc_L := rc_L m;
         rc_Wt := rc_upd (rc_Wt m) x t; rc_Wc := rc_upd (rc_Wc m) x (Ct t);
         rc_R := rc_R m;
         rc_raced := rc_raced m || negb (okw && okr) |}
  | RRel o =>
      {| rc_C := rc_upd (rc_C m) t (rc_inc Ct t);
         rc_L := rc_upd (rc_L m) o (rc_join (rc_L m o) Ct);
         rc_Wt := rc_Wt m; rc_Wc := rc_Wc m; rc_R := rc_R m; rc_raced := rc_raced m |}
  | RAcq o =>
      {| rc_C := rc_upd (rc_C m) t (rc_join Ct (rc_L m o));
         rc_L := rc_L m;
         rc_Wt := rc_Wt m; rc_Wc := rc_Wc m; rc_R := rc_R m; rc_raced := rc_raced m |}
  | RAcqRel o =>
      let Ct' := rc_join Ct (rc_L m o) in
      {| rc_C := rc_upd (rc_C m) t (rc_inc Ct' t);
         rc_L := rc_upd (rc_L m) o Ct';
         rc_Wt := rc_Wt m; rc_Wc := rc_Wc m; rc_R := rc_R m; rc_raced := rc_raced m |}
  end.

Definition rc_run (n : nat) (tr : list (nat * rc_ev)) : rc_mon :=
  fold_left (fun m p => rc_step n m (fst p) (snd p)) tr rc_init.

(* ------------------------------------------------------------------ publication protocol *)
(* One writer (thread 0) performs plain writes to the locations [pb_ws] (any list, repeats
   allowed) and then a release on each object of [pb_os], in order.  Reader j (thread
   S j) acquires object (fst r_j) -- observing whether it has been released yet -- and, only
   if it has, performs plain reads of the locations (snd r_j).  (wg.Wait / a channel
   receive that blocks until the release is the same thing: the reader does not proceed
   before the release.)  Any number of readers, any schedule. *)
Record rc_pub := { pb_ws : list nat; pb_os : list nat; pb_readers : list (nat * list nat) }.

Inductive rc_rpc := RP0 | RPReading (k : nat) | RPStop.

Record rc_pst := {
  ps_wpc : nat;                  (* writer: number of program steps done *)
  ps_flags : nat -> bool;        (* object released yet? *)
  ps_rpcs : list rc_rpc;         (* readers *)
  ps_mon : rc_mon
}.

Definition rc_pinit (p : rc_pub) : rc_pst :=
  {| ps_wpc := 0; ps_flags := fun _ => false; ps_rpcs := map (fun _ => RP0) (pb_readers p);
     ps_mon := rc_init |}.

Definition rc_nthreads (p : rc_pub) : nat := S (length (pb_readers p)).

Definition rc_set_nth {A} (l : list A) (i : nat) (x : A) : list A :=
  firstn i l ++ x :: skipn (S i) l.

(* [unguarded]: the reader reads without looking at what its acquire observed (the
   pre-fix getFutureStatus pattern) *)
Definition rc_pstep (unguarded : bool) (p : rc_pub) (s : rc_pst) (t : nat) : rc_pst :=
  let n := rc_nthreads p in
  match t with
  | O =>
      let k := ps_wpc s in
      if k <? length (pb_ws p) then
        {| ps_wpc := S k; ps_flags := ps_flags s; ps_rpcs := ps_rpcs s;
           ps_mon := rc_step n (ps_mon s) 0 (RWrite (nth k (pb_ws p) 0)) |}
      else if k <? length (pb_ws p) + length (pb_os p) then
        let o := nth (k - length (pb_ws p)) (pb_os p) 0 in
        {| ps_wpc := S k; ps_flags := rc_upd (ps_flags s) o true; ps_rpcs := ps_rpcs s;
           ps_mon := rc_step n (ps_mon s) 0 (RRel o) |}
      else s
  | S j =>
      match nth_error (ps_rpcs s) j, nth_error (pb_readers p) j with
      | Some RP0, Some (o, xs) =>
          {| ps_wpc := ps_wpc s; ps_flags := ps_flags s;
             ps_rpcs := rc_set_nth (ps_rpcs s) j
                          (if ps_flags s o || unguarded then RPReading 0 else RPStop);
             ps_mon := rc_step n (ps_mon s) t (RAcq o) |}
      | Some (RPReading k), Some (o, xs) =>
          if k <? length xs then
            {| ps_wpc := ps_wpc s; ps_flags := ps_flags s;
               ps_rpcs := rc_set_nth (ps_rpcs s) j (RPReading (S k));
               ps_mon := rc_step n (ps_mon s) t (RRead (nth k xs 0)) |}
          else s
      | _, _ => s
      end
  end.

Definition rc_prun (unguarded : bool) (p : rc_pub) (sched : list nat) : rc_pst :=
  fold_left (rc_pstep unguarded p) sched (rc_pinit p).

(* ------------------------------------------------------------------ lock discipline *)
(* Every thread executes critical sections Lock m; accesses; Unlock m on ONE mutex (object
   0): program of a thread = list of sections, a section = list of (is_write, location). *)
Record rc_lst := {
  ls_owner : option nat;
  ls_pcs : list (nat * nat * bool);   (* per thread: section index, position in it, inside? *)
  ls_mon : rc_mon
}.

Definition rc_linit (progs : list (list (list (bool * nat)))) : rc_lst :=
  {| ls_owner := None; ls_pcs := map (fun _ => (0, 0, false)) progs; ls_mon := rc_init |}.

Definition rc_lstep (progs : list (list (list (bool * nat)))) (s : rc_lst) (t : nat) : rc_lst :=
  let n := length progs in
  match nth_error (ls_pcs s) t, nth_error progs t with
  | Some (sec, pos, inside), Some prog =>
      match nth_error prog sec with
      | None => s
      | Some accs =>
          if negb inside then
            match ls_owner s with
            | Some _ => s                                        (* blocked *)
            | None => {| ls_owner := Some t; ls_pcs := rc_set_nth (ls_pcs s) t (sec, 0, true);
                         ls_mon := rc_step n (ls_mon s) t (RAcq 0) |}
            end
          else
            match nth_error accs pos with
            | Some (w, x) =>
                {| ls_owner := ls_owner s; ls_pcs := rc_set_nth (ls_pcs s) t (sec, S pos, true);
                   ls_mon := rc_step n (ls_mon s) t (if w then RWrite x else RRead x) |}
            | None =>
                {| ls_owner := None; ls_pcs := rc_set_nth (ls_pcs s) t (S sec, 0, false);
                   ls_mon := rc_step n (ls_mon s) t (RRel 0) |}
            end
      end
  | _, _ => s
  end.

Definition rc_lrun (progs : list (list (list (bool * nat)))) (sched : list nat) : rc_lst :=
  fold_left (rc_lstep progs) sched (rc_linit progs).
