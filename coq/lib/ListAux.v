(* ListAux.v -- small list lemmas shared by proof files. *)
From Coq Require Import List Arith Lia.
Import ListNotations.

Lemma la_nth_error_set_same {A} (l : list A) i x y :
  nth_error l i = Some y -> nth_error (firstn i l ++ x :: skipn (S i) l) i = Some x.
Proof.
  revert i. induction l as [|z l IH]; intros i H; destruct i; cbn in *; try discriminate; try reflexivity.
  apply IH. exact H.
Qed.

Lemma la_nth_error_set_other {A} (l : list A) i j x :
  i <> j -> nth_error (firstn i l ++ x :: skipn (S i) l) j = nth_error l j \/ length l <= i.
Proof.
  revert i j. induction l as [|y l IH]; intros i j Hij.
  - right. cbn. lia.
  - destruct i as [|i]; destruct j as [|j]; try lia; cbn [firstn skipn app nth_error length].
    + left. reflexivity.
    + left. reflexivity.
    + destruct (IH i j) as [H|H]; [lia|left; exact H|right; lia].
Qed.

Lemma la_nth_error_set_other' {A} (l : list A) i j x y :
  i <> j -> nth_error l i = Some y ->
  nth_error (firstn i l ++ x :: skipn (S i) l) j = nth_error l j.
Proof.
  intros Hij Hi. destruct (la_nth_error_set_other l i j x Hij) as [H|H]; [exact H|].
  assert (i < length l) by (apply nth_error_Some; congruence). lia.
Qed.

Lemma la_set_length {A} (l : list A) i x y :
  nth_error l i = Some y -> length (firstn i l ++ x :: skipn (S i) l) = length l.
Proof.
  intros Hi. assert (i < length l) by (apply nth_error_Some; congruence).
  rewrite app_length, firstn_length_le by lia. cbn [length]. rewrite skipn_length. lia.
Qed.
