(* RaceAnts.v -- the memory events of the steps of the ants small-step model (models/AntsSteps.v, the
   machine the C07 stream "dispatch-steps" steps against the real pool through the yield hooks of
   ants/verif_on.go).  Every thread step is labelled with the memory events (lib/Race.v) the code
   between the two yield points performs, in source order.

   Plain location  ra_loc t         taskCallback.result and .err of task t (ONE location for both
                                    fields: they are always written together; stricter than two)
   Sync objects    ra_tmsg t        the taskChan message that carries task t: send = RRel, the receive
                                    that yields t = RAcq (only the matching send synchronizes)
                   ra_wg t          taskCallback.wg of t: wg.Done = RRel, return of wg.Wait = RAcq
                   ra_imsg a        the innerCallbackChan message that carries the callback of attempt a
                   ra_rmsg a        the message on attempt a's doneChan (AstOrig: the close of doneChan)
                   ra_ctx a         the context of attempt a: cancel() = RRel, a wait / test that finds
                                    it done = RAcq (a deadline that fired is a release by the timer
                                    goroutine, which has no plain access: the acquire is harmless)
   t / a = index in the arena of tasks / attempts of the model.

   source                                               events
   ---------------------------------------------------------------------------------------------
   newTaskCallback (&taskCallback{}: fields zeroed)      RWrite (ra_loc n)        n = arena length
   taskChan <- task / task := <-taskChan                 RRel (ra_tmsg t) / RAcq (ra_tmsg t)
   innerCallbackChan <- cb / cb := <-innerCallbackChan   RRel (ra_imsg a) / RAcq (ra_imsg a)
   doneChan <- r / r := <-doneChan                       RRel (ra_rmsg a) / RAcq (ra_rmsg a)
   <-ctx1.Done() taken (select, handler waiting)         RAcq (ra_ctx a)
   cancel()                                              RRel (ra_ctx a)
   my.result, my.err = ..                                RWrite (ra_loc t)
   if my.err == nil ; onError(my.err)                    RRead (ra_loc t)
   wg.Done()                                             RRel (ra_wg t)
   Get2: wg.Wait(); return my.result, my.err             RAcq (ra_wg t); RRead (ra_loc t)
   AstOrig, inner callback: my.result, my.err = ..       RWrite (ra_loc t)
   closeChan (close / receive) and len(taskChan) are not labelled: fewer edges, stricter.
   A blocked step performs nothing. *)
From Got Require Import Base Race RaceHB AntsSteps.
Local Open Scope nat_scope.

Definition ra_loc (t : nat) : nat := t.
Definition ra_tmsg (t : nat) : nat := 5 * t.
Definition ra_wg (t : nat) : nat := 5 * t + 1.
Definition ra_imsg (a : nat) : nat := 5 * a + 2.
Definition ra_rmsg (a : nat) : nat := 5 * a + 3.
Definition ra_ctx (a : nat) : nat := 5 * a + 4.

Definition ra_wait_evs (s : ast_state) (a : nat) : list rc_ev :=
  if asb_wait (ast_att_beh s a) then [RAcq (ra_ctx a)] else [].

(* the events of the step [ast_step md n s tid hint]; b = the branch that step reports *)
Definition ra_events (md : ast_mode) (n : nat) (s : ast_state) (tid : nat) (hint : bool) : list rc_ev :=
  match nth_error (ast_thr s) tid with
  | None => []
  | Some th =>
      let '(s1, ev, b) := ast_step md n s tid hint in
      match ev with
      | AstEvBlocked | AstEvDone => []
      | _ =>
        match ath_pc th with
        | AstSendLen o => match ev with AstEvYield _ => [RWrite (ra_loc (length (ast_tasks s)))] | _ => [] end
        | AstSendEnq t => if b then [] else [RRel (ra_tmsg t)]
        | AstGetWait t => [RAcq (ra_wg t); RRead (ra_loc t)]
        | AstDRecv => if b then [] else match ast_tchan s with t :: _ => [RAcq (ra_tmsg t)] | [] => [] end
        | AstDEnq t a i => if b then [] else [RRel (ra_imsg a)]
        | AstDSelect t a i => if b then [RAcq (ra_ctx a)] else [RAcq (ra_rmsg a)]
        | AstDStoreRes t _ _ _ _ | AstDStoreTo t _ _ => [RWrite (ra_loc t)]
        | AstDCancel t a i => [RRel (ra_ctx a)]
        | AstDReadErr t i => [RRead (ra_loc t)]
        | AstDOnErr t => if aso_onerr (ast_task_opt s t) then [RRead (ra_loc t)] else []
        | AstDWgDone t => [RRel (ra_wg t)]
        | AstIRecv =>
            if b then [] else
            match ast_ichan s with
            | a :: _ => RAcq (ra_imsg a) :: (if asb_yield (ast_att_beh s1 a) then [] else ra_wait_evs s1 a)
            | [] => []
            end
        | AstIMid a => ra_wait_evs s a
        | AstICtx a _ _ => if b then [RAcq (ra_ctx a)] else []
        | AstISend a _ _ _ => [RRel (ra_rmsg a)]
        | AstIStoreO a _ _ => [RWrite (ra_loc (ast_att_task s a))]
        | _ => []
        end
      end
  end.

Fixpoint ra_trace_from (md : ast_mode) (n : nat) (s : ast_state) (sched : list (nat * bool)) : hb_trace :=
  match sched with
  | [] => []
  | (tid, h) :: r =>
      map (pair tid) (ra_events md n s tid h) ++ ra_trace_from md n (ast_next md n s (tid, h)) r
  end.

Definition ra_trace (md : ast_mode) (n : nat) (progs : list (list ast_op)) (sched : list (nat * bool)) : hb_trace :=
  ra_trace_from md n (ast_init n progs) sched.

Definition ra_nthreads (n : nat) (progs : list (list ast_op)) : nat := length progs + 2 * n.

(* ---------------------------------------------------------------- the late-write scenario (d4c0a4b)
   N = 1, one task: timeout 1000, retry 2, error callback; invocation 1 yields inside the handler and returns
   (7, nil), invocation 2 yields and returns (nil, error 3).  Threads: 0 client (Send, Get2), 1 dispatcher,
   2 inner worker.  Schedule: Send; the dispatcher picks the task up and enqueues attempt 1; the inner worker
   starts the handler, the handler returns, the inner worker passes its ctx1.Done() test (context still
   live); the dispatcher's select now blocks: the clock jumps to the deadline, the dispatcher stores
   (nil, DeadlineExceeded), cancels, reads err, starts attempt 2 and again times out (the inner worker is still
   parked), stores, runs the error callback, wg.Done; Get2 returns; and only now the inner worker performs the
   step it was parked before. *)
Definition ra_lw_beh (v e : Z) : ast_beh := {| asb_yield := true; asb_wait := false; asb_val := v; asb_err := e |}.
Definition ra_lw_progs : list (list ast_op) :=
  [[AstSend {| aso_timeout := 1000; aso_retry := 2; aso_discard := false; aso_onerr := true;
               aso_behs := [ra_lw_beh 7 0; ra_lw_beh 0 3] |}; AstGet 0]].
Definition ra_lw_sched : list (nat * bool) :=
  map (fun t => (t, false))
    [0; 0; 0;  1; 1; 1;  2; 2; 2; 2;            (* Send; pick up, enqueue; inner: start, handler, return, ctx test passed *)
     1; 1; 1; 1;                                (* select -> timeout, store, cancel, read err -> attempt 2 *)
     1; 1; 1; 1; 1; 1; 1;                       (* enqueue, select -> timeout, store, cancel, read err, onError, wg.Done *)
     0; 0;                                      (* Get2 *)
     2; 2].                                     (* the parked inner worker goes on *)
