(* Unique.v -- executable model of sortx.UniqueInt / sortx.UniqueString (sortx/unique.go).
   The two Go functions are the same code at two element types; the model is
   polymorphic in the element type with a boolean equality.
     size := len(a); if size < 2 { return a }
     j := 0
     for i := 1; i < size; i++ {
        if a[i] != a[j] { if j+1 != i { a[j+1] = a[i] }; j++ } }
     return a[:j+1]
   Result: (returned slice, backing array after the call).  Every index expression is
   checked: out of range = Panic. *)
From Got Require Import Base.

Section UniqueModel.
  Context {A : Type}.
  Variable eqb : A -> A -> bool.

  Fixpoint unq_set (l : list A) (n : nat) (x : A) : option (list A) :=
    match l with
    | [] => None
    | y :: t => match n with
                | O => Some (x :: t)
                | S n' => match unq_set t n' x with Some t' => Some (y :: t') | None => None end
                end
    end.

  (* n = size - i iterations remain *)
  Fixpoint unq_loop (n : nat) (i j : nat) (a : list A) : res (list A * nat) unit :=
    match n with
    | O => Ok (a, j)
    | S n' =>
        match nth_error a i, nth_error a j with
        | Some ai, Some aj =>
            if negb (eqb ai aj) then
              if negb (Nat.eqb (j + 1) i) then
                match unq_set a (j + 1) ai with
                | Some a' => unq_loop n' (S i) (S j) a'
                | None => Panic
                end
              else unq_loop n' (S i) (S j) a
            else unq_loop n' (S i) j a
        | _, _ => Panic
        end
    end.

  (* returns (result slice, array after) *)
  Definition unq_unique (a : list A) : res (list A * list A) unit :=
    let size := length a in
    if Nat.ltb size 2 then Ok (a, a)
    else match unq_loop (size - 1) 1 0 a with
         | Ok (a', j) =>
             if Nat.leb (j + 1) (length a') then Ok (firstn (j + 1) a', a') else Panic
         | Err e => Err e
         | Panic => Panic
         end.

  (* specification: every run of equal adjacent elements collapsed to its first *)
  Fixpoint unq_collapse_from (x : A) (l : list A) : list A :=
    match l with
    | [] => []
    | y :: t => if eqb y x then unq_collapse_from x t else y :: unq_collapse_from y t
    end.
  Definition unq_collapse (l : list A) : list A :=
    match l with
    | [] => []
    | x :: t => x :: unq_collapse_from x t
    end.
End UniqueModel.

Definition unq_unique_z (a : list Z) : res (list Z * list Z) unit := unq_unique Z.eqb a.
