(* AntsPrompt.v -- the "all handlers are prompt" hypothesis of property C08, as executable
   boolean predicates over an event history of the ants pool model (models/Ants.v).

   A handler invocation is PROMPT when it returns no later than max(start, instant at which the
   attempt's context ctx1 is done): it either finishes before ctx1 is done (by its timeout or by
   the cancellation of the dispatchers' parent context) or returns as soon as ctx1 is done.  The return instant of an invocation is fixed by the model when the
   inner worker enters the handler (event AnStart: [an_due b start d]), so promptness of every
   invocation of a history is a check at its AnStart events, plus a check of the running
   invocations at an AnParentCancel event (the only event that moves a done-instant).

   Definitions only; proofs are in proofs/AntsPromptProofs.v. *)
From Got Require Import Base Ants.
Local Open Scope Z_scope.

(* the invocation that event e starts in state s (if e is an AnStart the model accepts in s:
   k, a is the head of innerCallbackChan, d its ctx1 deadline) returns by max(now, d) *)
Definition an_start_prompt (s : an_state) (e : an_event) : bool :=
  match e with
  | AnStart k a =>
      match an_ichan s with
      | (_, _, d) :: _ =>
          an_due (an_beh_of (at_opts (an_tk s k)) a) (an_now s) d <=? Z.max (an_now s) d
      | [] => true
      end
  | AnParentCancel =>
      (* cancel() of the dispatchers' parent context makes every ctx1 done now: an invocation that is
         still running is prompt only if it returns now (it honours its context or is due anyway) *)
      match an_pc s with
      | Some _ => true
      | None => forallb (fun sl => match sl with
                                   | AnRun k a _ r _ => ab_honours (an_beh_of (at_opts (an_tk s k)) a) || (r <=? an_now s)
                                   | AnPub _ _ _ _ => true
                                   end) (an_workers s)
      end
  | _ => true
  end.

(* every handler invocation of the history evs, run from s, is prompt *)
Fixpoint an_all_prompt (cfg : an_cfg) (s : an_state) (evs : list an_event) : bool :=
  match evs with
  | [] => true
  | e :: r =>
      an_start_prompt s e &&
      match an_step cfg s e with Some s' => an_all_prompt cfg s' r | None => true end
  end.

(* a sufficient condition on the scripted behaviours alone: every behaviour of every task ever
   sent honours its context (returns when ctx1 is cancelled) *)
Definition an_opts_honour (o : an_opts) : bool := forallb ab_honours (ao_behs o).
Definition an_event_honours (e : an_event) : bool :=
  match e with AnSend o => an_opts_honour o | _ => true end.
Definition an_sends_honour (evs : list an_event) : bool := forallb an_event_honours evs.
