(* AntsSteps.v -- small-step model of the ants pool (pool_impl.go, task_callback_ants.go,
   task_option.go, task_discard.go), ONE STEP PER YIELD SITE of ants/verif_on.go (tools/hooks/
   ants-verif-hooks.patch).  It is stepped against the real code by the C07 stream "dispatch-steps"
   (harness/cmd/coopft, vlib/c07s.py, ocaml/drv_antsteps.ml): the pool's dispatcher and
   inner-callback loops run as logical threads of the cooperative scheduler, on the virtual clock.
   Definitions only, all executable; proofs in proofs/AntsSteps*.v.

   Threads (one list; the pc tells the kind):
     client        runs a program of Send / Get2 / Close calls
     dispatcher    goDispatchTask:  for { select { task := <-taskChan: task.run | <-closeChan: return } }
     inner worker  goDispatchInnerCallback: for { select { cb := <-innerCallbackChan: cb() | <-closeChan: return } }
   A step of thread tid performs the shared access / channel operation the thread is parked at and
   the local code up to its next yield site.  A thread is BLOCKED (step = no-op, event AstEvBlocked)
   when the channel operation it is parked at cannot proceed: send on a full channel, receive from
   an empty one, with the pool open (a closed pool enables the close branch of the select);
   wg.Wait before wg.Done.  When both branches of a select can proceed Go chooses at random: the
   step takes the choice as its argument [hint] (true = the second branch: closeChan / ctx1.Done()).

   Time.  Under the cooperative scheduler on the playground clock every other thread is parked, so
   the virtual clock advances only when the running thread blocks on something that a timer ends:
   the dispatcher stepped into select { <-doneChan | <-ctx1.Done() } with no message and a live
   context, or a handler waiting for ctx.Done().  The clock then jumps to that context's deadline
   ([ast_now] := deadline) and every context whose deadline has passed is done.

   Values: results and errors are integers; err 0 = nil, -1 = context.DeadlineExceeded,
   -2 = errDiscard, other values = handler errors.  result 0 = nil.

   Ghost fields (not observable in the code, used by the theorems): [att_owner] / [ata_owner]
   (where the task / the attempt's callback currently is), [att_decided] (the pairs stored by
   the dispatcher, in order), [att_started], [att_onerr], [ast_running]. *)
From Got Require Import Base.
Local Open Scope nat_scope.

(* one handler invocation (the i-th INVOCATION of a task's handler behaves as element i of aso_behs,
   whichever attempt it belongs to): optionally yield in the middle (stays "running" while other threads
   move), optionally wait for ctx.Done(), then return (val, err) *)
Record ast_beh := { asb_yield : bool; asb_wait : bool; asb_val : Z; asb_err : Z }.

(* effective task options (createTaskOptions) + the scripted behaviour of each attempt *)
Record ast_opt := { aso_timeout : Z; aso_retry : nat; aso_discard : bool; aso_onerr : bool;
                    aso_behs : list ast_beh }.

Inductive ast_op :=
| AstSend (o : ast_opt)
| AstGet (k : nat)          (* Get2 on the Task returned by this thread's k-th Send *)
| AstClose.                 (* what the pool's finalizer does *)

Inductive ast_handle := AstHTask (t : nat) | AstHDiscard.

Inductive ast_mode := AstFixed | AstOrig.   (* AstOrig: the code before commit d4c0a4b *)

Inductive ast_pc :=
| AstIdle                                   (* client: between calls *)
| AstSendLen (o : ast_opt)                  (* before the len(taskChan) == cap test *)
| AstSendEnq (t : nat)                      (* before select { taskChan <- task | closeChan } *)
| AstGetWait (t : nat)                      (* before wg.Wait() *)
| AstDStart                                 (* dispatcher not started *)
| AstDRecv                                  (* before select { <-taskChan | closeChan } *)
| AstDEnq (t a i : nat)                     (* sendInnerCallback: before select { innerChan <- cb | closeChan } *)
| AstDSelect (t a i : nat)                  (* before select { <-doneChan | <-ctx1.Done() } *)
| AstDStoreRes (t a i : nat) (v e : Z)      (* before my.result, my.err = r.result, r.err *)
| AstDStoreTo (t a i : nat)                 (* before my.result, my.err = nil, DeadlineExceeded *)
| AstDCancel (t a i : nat)                  (* before the deferred cancel() *)
| AstDReadErr (t i : nat)                   (* before if my.err == nil *)
| AstDOnErr (t : nat)                       (* before the error callback *)
| AstDWgDone (t : nat)                      (* before wg.Done() *)
| AstIStart
| AstIRecv                                  (* before select { <-innerCallbackChan | closeChan } *)
| AstIMid (a : nat)                         (* inside the handler (harness yield site) *)
| AstICtx (a : nat) (v e : Z)               (* handler returned (v, e); before the ctx1.Done() test *)
| AstISend (a : nat) (v e : Z) (dead : bool) (* before doneChan <- ... *)
| AstIStoreO (a : nat) (v e : Z)            (* AstOrig only: before my.result, my.err = result, err *)
| AstExit.                                  (* the loop returned (pool closed) *)

Inductive ast_where := AwThread (tid : nat) | AwChan | AwGone.

Record ast_task := {
  att_opt : ast_opt;
  att_res : Z; att_err : Z;
  att_done : bool;                 (* wg.Done() happened *)
  att_natt : nat;                  (* attempts created *)
  att_started : nat;               (* handler invocations started *)
  att_decided : list (Z * Z);      (* pairs stored by the dispatcher, oldest first *)
  att_onerr : list Z;              (* arguments of the error callback calls *)
  att_owner : ast_where
}.

Record ast_att := {
  ata_task : nat; ata_no : nat;
  ata_deadline : Z; ata_cancelled : bool;
  ata_chan : list (Z * Z);         (* the per-attempt channel, capacity 1 *)
  ata_hst : nat;                   (* handler: 0 not started, 1 running, 2 returned *)
  ata_bi : nat;                    (* which invocation of the task's handler this is (index into aso_behs) *)
  ata_owner : ast_where            (* where the callback is *)
}.

Record ast_thread := { ath_pc : ast_pc; ath_prog : list ast_op; ath_handles : list ast_handle }.

Record ast_state := {
  ast_thr : list ast_thread;
  ast_tasks : list ast_task;
  ast_atts : list ast_att;
  ast_tchan : list nat;            (* taskChan: task ids, head = next to be received *)
  ast_ichan : list nat;            (* innerCallbackChan: attempt ids *)
  ast_closed : bool;
  ast_now : Z;
  ast_running : nat;               (* handler invocations in progress *)
  ast_discards : nat               (* error-callback calls with errDiscard *)
}.

Inductive ast_ret :=
| AstRTask (t : nat) | AstRDiscard | AstRPair (v e : Z) | AstRExit | AstRClosed | AstRBad.

Inductive ast_ev := AstEvYield (site : Z) | AstEvRet (r : ast_ret) | AstEvBlocked | AstEvDone.

(* yield sites of ants/verif_on.go; 100 = the harness's own site inside a handler *)
Definition ast_site_send_len := 1%Z.
Definition ast_site_send_enq := 2%Z.
Definition ast_site_disp_recv := 3%Z.
Definition ast_site_inner_enq := 4%Z.
Definition ast_site_inner_recv := 5%Z.
Definition ast_site_ctx_test := 6%Z.
Definition ast_site_att_send_dead := 7%Z.
Definition ast_site_att_send_res := 8%Z.
Definition ast_site_disp_select := 9%Z.
Definition ast_site_store_res := 10%Z.
Definition ast_site_store_to := 11%Z.
Definition ast_site_cancel := 12%Z.
Definition ast_site_read_err := 13%Z.
Definition ast_site_on_error := 14%Z.
Definition ast_site_wg_done := 15%Z.
Definition ast_site_get_wait := 16%Z.
Definition ast_site_handler := 100%Z.

Definition ast_err_deadline := (-1)%Z.
Definition ast_err_discard := (-2)%Z.

Definition ast_set {A} (l : list A) (i : nat) (x : A) : list A := firstn i l ++ x :: skipn (S i) l.

Definition ast_upd {A} (l : list A) (i : nat) (f : A -> A) : list A :=
  match nth_error l i with Some x => ast_set l i (f x) | None => l end.

Definition ast_dummy_opt : ast_opt :=
  {| aso_timeout := 1%Z; aso_retry := 1; aso_discard := false; aso_onerr := false; aso_behs := [] |}.
Definition ast_dummy_beh : ast_beh := {| asb_yield := false; asb_wait := false; asb_val := 0%Z; asb_err := 0%Z |}.

Definition ast_new_task (o : ast_opt) (tid : nat) : ast_task :=
  {| att_opt := o; att_res := 0%Z; att_err := 0%Z; att_done := false; att_natt := 0; att_started := 0;
     att_decided := []; att_onerr := []; att_owner := AwThread tid |}.

(* field updates *)
Definition ast_with_thr (s : ast_state) (thr : list ast_thread) : ast_state :=
  {| ast_thr := thr; ast_tasks := ast_tasks s; ast_atts := ast_atts s; ast_tchan := ast_tchan s;
     ast_ichan := ast_ichan s; ast_closed := ast_closed s; ast_now := ast_now s;
     ast_running := ast_running s; ast_discards := ast_discards s |}.
Definition ast_with_tasks (s : ast_state) (x : list ast_task) : ast_state :=
  {| ast_thr := ast_thr s; ast_tasks := x; ast_atts := ast_atts s; ast_tchan := ast_tchan s;
     ast_ichan := ast_ichan s; ast_closed := ast_closed s; ast_now := ast_now s;
     ast_running := ast_running s; ast_discards := ast_discards s |}.
Definition ast_with_atts (s : ast_state) (x : list ast_att) : ast_state :=
  {| ast_thr := ast_thr s; ast_tasks := ast_tasks s; ast_atts := x; ast_tchan := ast_tchan s;
     ast_ichan := ast_ichan s; ast_closed := ast_closed s; ast_now := ast_now s;
     ast_running := ast_running s; ast_discards := ast_discards s |}.
Definition ast_with_tchan (s : ast_state) (x : list nat) : ast_state :=
  {| ast_thr := ast_thr s; ast_tasks := ast_tasks s; ast_atts := ast_atts s; ast_tchan := x;
     ast_ichan := ast_ichan s; ast_closed := ast_closed s; ast_now := ast_now s;
     ast_running := ast_running s; ast_discards := ast_discards s |}.
Definition ast_with_ichan (s : ast_state) (x : list nat) : ast_state :=
  {| ast_thr := ast_thr s; ast_tasks := ast_tasks s; ast_atts := ast_atts s; ast_tchan := ast_tchan s;
     ast_ichan := x; ast_closed := ast_closed s; ast_now := ast_now s;
     ast_running := ast_running s; ast_discards := ast_discards s |}.
Definition ast_with_closed (s : ast_state) (x : bool) : ast_state :=
  {| ast_thr := ast_thr s; ast_tasks := ast_tasks s; ast_atts := ast_atts s; ast_tchan := ast_tchan s;
     ast_ichan := ast_ichan s; ast_closed := x; ast_now := ast_now s;
     ast_running := ast_running s; ast_discards := ast_discards s |}.
Definition ast_with_now (s : ast_state) (x : Z) : ast_state :=
  {| ast_thr := ast_thr s; ast_tasks := ast_tasks s; ast_atts := ast_atts s; ast_tchan := ast_tchan s;
     ast_ichan := ast_ichan s; ast_closed := ast_closed s; ast_now := x;
     ast_running := ast_running s; ast_discards := ast_discards s |}.
Definition ast_with_running (s : ast_state) (x : nat) : ast_state :=
  {| ast_thr := ast_thr s; ast_tasks := ast_tasks s; ast_atts := ast_atts s; ast_tchan := ast_tchan s;
     ast_ichan := ast_ichan s; ast_closed := ast_closed s; ast_now := ast_now s;
     ast_running := x; ast_discards := ast_discards s |}.
Definition ast_with_discards (s : ast_state) (x : nat) : ast_state :=
  {| ast_thr := ast_thr s; ast_tasks := ast_tasks s; ast_atts := ast_atts s; ast_tchan := ast_tchan s;
     ast_ichan := ast_ichan s; ast_closed := ast_closed s; ast_now := ast_now s;
     ast_running := ast_running s; ast_discards := x |}.

Definition ast_set_pc (s : ast_state) (tid : nat) (pc : ast_pc) : ast_state :=
  ast_with_thr s (ast_upd (ast_thr s) tid (fun th =>
    {| ath_pc := pc; ath_prog := ath_prog th; ath_handles := ath_handles th |})).

Definition ast_upd_task (s : ast_state) (t : nat) (f : ast_task -> ast_task) : ast_state :=
  ast_with_tasks s (ast_upd (ast_tasks s) t f).
Definition ast_upd_att (s : ast_state) (a : nat) (f : ast_att -> ast_att) : ast_state :=
  ast_with_atts s (ast_upd (ast_atts s) a f).

Definition ast_task_opt (s : ast_state) (t : nat) : ast_opt :=
  match nth_error (ast_tasks s) t with Some x => att_opt x | None => ast_dummy_opt end.

Definition ast_ctx_done (s : ast_state) (a : nat) : bool :=
  match nth_error (ast_atts s) a with
  | Some x => ata_cancelled x || (ata_deadline x <=? ast_now s)%Z
  | None => true
  end.

Definition ast_att_chan (s : ast_state) (a : nat) : list (Z * Z) :=
  match nth_error (ast_atts s) a with Some x => ata_chan x | None => [] end.

Definition ast_att_deadline (s : ast_state) (a : nat) : Z :=
  match nth_error (ast_atts s) a with Some x => ata_deadline x | None => ast_now s end.

Definition ast_att_beh (s : ast_state) (a : nat) : ast_beh :=
  match nth_error (ast_atts s) a with
  | Some x => nth (ata_bi x) (aso_behs (ast_task_opt s (ata_task x))) ast_dummy_beh
  | None => ast_dummy_beh
  end.

Definition ast_att_task (s : ast_state) (a : nat) : nat :=
  match nth_error (ast_atts s) a with Some x => ata_task x | None => 0 end.

(* task setters *)
Definition ast_t_store (v e : Z) (x : ast_task) : ast_task :=
  {| att_opt := att_opt x; att_res := v; att_err := e; att_done := att_done x; att_natt := att_natt x;
     att_started := att_started x; att_decided := att_decided x ++ [(v, e)]; att_onerr := att_onerr x;
     att_owner := att_owner x |}.
(* AstOrig: the inner callback's direct store: not a decision of the dispatcher *)
Definition ast_t_store_late (v e : Z) (x : ast_task) : ast_task :=
  {| att_opt := att_opt x; att_res := v; att_err := e; att_done := att_done x; att_natt := att_natt x;
     att_started := att_started x; att_decided := att_decided x; att_onerr := att_onerr x;
     att_owner := att_owner x |}.
Definition ast_t_decide (v e : Z) (x : ast_task) : ast_task :=
  {| att_opt := att_opt x; att_res := att_res x; att_err := att_err x; att_done := att_done x; att_natt := att_natt x;
     att_started := att_started x; att_decided := att_decided x ++ [(v, e)]; att_onerr := att_onerr x;
     att_owner := att_owner x |}.
Definition ast_t_done (x : ast_task) : ast_task :=
  {| att_opt := att_opt x; att_res := att_res x; att_err := att_err x; att_done := true; att_natt := att_natt x;
     att_started := att_started x; att_decided := att_decided x; att_onerr := att_onerr x;
     att_owner := AwGone |}.
Definition ast_t_natt (x : ast_task) : ast_task :=
  {| att_opt := att_opt x; att_res := att_res x; att_err := att_err x; att_done := att_done x; att_natt := S (att_natt x);
     att_started := att_started x; att_decided := att_decided x; att_onerr := att_onerr x;
     att_owner := att_owner x |}.
Definition ast_t_started (x : ast_task) : ast_task :=
  {| att_opt := att_opt x; att_res := att_res x; att_err := att_err x; att_done := att_done x; att_natt := att_natt x;
     att_started := S (att_started x); att_decided := att_decided x; att_onerr := att_onerr x;
     att_owner := att_owner x |}.
Definition ast_t_onerr (x : ast_task) : ast_task :=
  {| att_opt := att_opt x; att_res := att_res x; att_err := att_err x; att_done := att_done x; att_natt := att_natt x;
     att_started := att_started x; att_decided := att_decided x; att_onerr := att_onerr x ++ [att_err x];
     att_owner := att_owner x |}.
Definition ast_t_owner (w : ast_where) (x : ast_task) : ast_task :=
  {| att_opt := att_opt x; att_res := att_res x; att_err := att_err x; att_done := att_done x; att_natt := att_natt x;
     att_started := att_started x; att_decided := att_decided x; att_onerr := att_onerr x;
     att_owner := w |}.

(* attempt setters *)
Definition ast_a_cancel (x : ast_att) : ast_att :=
  {| ata_task := ata_task x; ata_no := ata_no x; ata_deadline := ata_deadline x; ata_cancelled := true;
     ata_chan := ata_chan x; ata_hst := ata_hst x; ata_bi := ata_bi x; ata_owner := ata_owner x |}.
Definition ast_a_chan (c : list (Z * Z)) (x : ast_att) : ast_att :=
  {| ata_task := ata_task x; ata_no := ata_no x; ata_deadline := ata_deadline x; ata_cancelled := ata_cancelled x;
     ata_chan := c; ata_hst := ata_hst x; ata_bi := ata_bi x; ata_owner := ata_owner x |}.
Definition ast_a_sent (c : list (Z * Z)) (x : ast_att) : ast_att :=
  {| ata_task := ata_task x; ata_no := ata_no x; ata_deadline := ata_deadline x; ata_cancelled := ata_cancelled x;
     ata_chan := c; ata_hst := ata_hst x; ata_bi := ata_bi x; ata_owner := AwGone |}.
Definition ast_a_hst (h : nat) (x : ast_att) : ast_att :=
  {| ata_task := ata_task x; ata_no := ata_no x; ata_deadline := ata_deadline x; ata_cancelled := ata_cancelled x;
     ata_chan := ata_chan x; ata_hst := h; ata_bi := ata_bi x; ata_owner := ata_owner x |}.
Definition ast_a_start (tid bi : nat) (x : ast_att) : ast_att :=
  {| ata_task := ata_task x; ata_no := ata_no x; ata_deadline := ata_deadline x; ata_cancelled := ata_cancelled x;
     ata_chan := ata_chan x; ata_hst := 1; ata_bi := bi; ata_owner := AwThread tid |}.
Definition ast_a_owner (w : ast_where) (x : ast_att) : ast_att :=
  {| ata_task := ata_task x; ata_no := ata_no x; ata_deadline := ata_deadline x; ata_cancelled := ata_cancelled x;
     ata_chan := ata_chan x; ata_hst := ata_hst x; ata_bi := ata_bi x; ata_owner := w |}.

(* a blocking wait on the context of attempt a: the clock jumps to its deadline when it is live *)
Definition ast_wait_ctx (s : ast_state) (a : nat) : ast_state :=
  if ast_ctx_done s a then s else ast_with_now s (ast_att_deadline s a).

(* runTaskOnce up to sendInnerCallback's yield: context.WithTimeout, make(chan attemptResult, 1) *)
Definition ast_start_attempt (s : ast_state) (tid t i : nat) : ast_state * ast_ev :=
  let a := length (ast_atts s) in
  let x := {| ata_task := t; ata_no := i; ata_deadline := (ast_now s + aso_timeout (ast_task_opt s t))%Z;
              ata_cancelled := false; ata_chan := []; ata_hst := 0; ata_bi := 0; ata_owner := AwThread tid |} in
  let s1 := ast_with_atts s (ast_atts s ++ [x]) in
  let s2 := ast_upd_task s1 t ast_t_natt in
  (ast_set_pc s2 tid (AstDEnq t a i), AstEvYield ast_site_inner_enq).

(* the handler of attempt a from its (optional) wait to its return *)
Definition ast_finish_handler (s : ast_state) (tid a : nat) : ast_state * ast_ev :=
  let b := ast_att_beh s a in
  let s1 := if asb_wait b then ast_wait_ctx s a else s in
  let s2 := ast_upd_att s1 a (ast_a_hst 2) in
  let s3 := ast_with_running s2 (pred (ast_running s2)) in
  (ast_set_pc s3 tid (AstICtx a (asb_val b) (asb_err b)), AstEvYield ast_site_ctx_test).

(* which branch of a two-way select is taken: None = blocked *)
Definition ast_choose (first second hint : bool) : option bool :=
  if first then (if second then Some hint else Some false)
  else (if second then Some true else None).

Definition ast_blocked_res (s : ast_state) : ast_state * ast_ev * bool := (s, AstEvBlocked, false).

Definition ast_step_pc (md : ast_mode) (n : nat) (s : ast_state) (tid : nat) (th : ast_thread) (hint : bool)
  : ast_state * ast_ev * bool :=
  match ath_pc th with
  | AstIdle =>
      match ath_prog th with
      | [] => (s, AstEvDone, false)
      | op :: rest =>
          let pop pc hs := ast_with_thr s (ast_upd (ast_thr s) tid (fun _ =>
                             {| ath_pc := pc; ath_prog := rest; ath_handles := hs |})) in
          match op with
          | AstSend o => (pop (AstSendLen o) (ath_handles th), AstEvYield ast_site_send_len, false)
          | AstGet k =>
              match nth_error (ath_handles th) k with
              | Some (AstHTask t) => (pop (AstGetWait t) (ath_handles th), AstEvYield ast_site_get_wait, false)
              | Some AstHDiscard => (pop AstIdle (ath_handles th), AstEvRet (AstRPair 0%Z ast_err_discard), false)
              | None => (pop AstIdle (ath_handles th), AstEvRet AstRBad, false)
              end
          | AstClose =>
              if ast_closed s then (pop AstIdle (ath_handles th), AstEvRet AstRBad, false)
              else (ast_with_closed (pop AstIdle (ath_handles th)) true, AstEvRet AstRClosed, false)
          end
      end
  | AstSendLen o =>
      if aso_discard o && (length (ast_tchan s) =? n) then
        let s1 := if aso_onerr o then ast_with_discards s (S (ast_discards s)) else s in
        (ast_with_thr s1 (ast_upd (ast_thr s1) tid (fun _ =>
           {| ath_pc := AstIdle; ath_prog := ath_prog th; ath_handles := ath_handles th ++ [AstHDiscard] |})),
         AstEvRet AstRDiscard, false)
      else
        let t := length (ast_tasks s) in
        let s1 := ast_with_tasks s (ast_tasks s ++ [ast_new_task o tid]) in
        (ast_set_pc s1 tid (AstSendEnq t), AstEvYield ast_site_send_enq, false)
  | AstSendEnq t =>
      match ast_choose (length (ast_tchan s) <? n) (ast_closed s) hint with
      | None => ast_blocked_res s
      | Some b =>
          let s1 := if b then ast_upd_task s t (ast_t_owner AwGone)
                    else ast_upd_task (ast_with_tchan s (ast_tchan s ++ [t])) t (ast_t_owner AwChan) in
          (ast_with_thr s1 (ast_upd (ast_thr s1) tid (fun _ =>
             {| ath_pc := AstIdle; ath_prog := ath_prog th; ath_handles := ath_handles th ++ [AstHTask t] |})),
           AstEvRet (AstRTask t), b)
      end
  | AstGetWait t =>
      match nth_error (ast_tasks s) t with
      | Some x => if att_done x then (ast_set_pc s tid AstIdle, AstEvRet (AstRPair (att_res x) (att_err x)), false)
                  else ast_blocked_res s
      | None => ast_blocked_res s
      end
  | AstDStart => (ast_set_pc s tid AstDRecv, AstEvYield ast_site_disp_recv, false)
  | AstDRecv =>
      match ast_choose (negb (length (ast_tchan s) =? 0)) (ast_closed s) hint with
      | None => ast_blocked_res s
      | Some true => (ast_set_pc s tid AstExit, AstEvRet AstRExit, true)
      | Some false =>
          match ast_tchan s with
          | [] => ast_blocked_res s
          | t :: rest =>
              let s1 := ast_upd_task (ast_with_tchan s rest) t (ast_t_owner (AwThread tid)) in
              if 0 <? aso_retry (ast_task_opt s1 t) then
                let '(s2, ev) := ast_start_attempt s1 tid t 0 in (s2, ev, false)
              else (ast_set_pc s1 tid (AstDOnErr t), AstEvYield ast_site_on_error, false)
          end
      end
  | AstDEnq t a i =>
      match ast_choose (length (ast_ichan s) <? n) (ast_closed s) hint with
      | None => ast_blocked_res s
      | Some b =>
          let s1 := if b then ast_upd_att s a (ast_a_owner AwGone)
                    else ast_upd_att (ast_with_ichan s (ast_ichan s ++ [a])) a (ast_a_owner AwChan) in
          (ast_set_pc s1 tid (AstDSelect t a i), AstEvYield ast_site_disp_select, b)
      end
  | AstDSelect t a i =>
      let has := negb (length (ast_att_chan s a) =? 0) in
      let b := match ast_choose has (ast_ctx_done s a) hint with Some b => b | None => true end in
      let s0 := ast_wait_ctx s a in
      if b then (ast_set_pc (if has then s else s0) tid (AstDStoreTo t a i), AstEvYield ast_site_store_to, true)
      else match md, ast_att_chan s a with
           | AstFixed, (v, e) :: rest =>
               (ast_set_pc (ast_upd_att s a (ast_a_chan rest)) tid (AstDStoreRes t a i v e),
                AstEvYield ast_site_store_res, false)
           | AstOrig, _ :: _ =>
               (* <-doneChan on the closed channel: nothing is stored by the dispatcher; the pair it
                  finds in the fields is what it decides *)
               let x := nth t (ast_tasks s) (ast_new_task ast_dummy_opt 0) in
               (ast_set_pc (ast_upd_task s t (ast_t_decide (att_res x) (att_err x))) tid (AstDCancel t a i),
                AstEvYield ast_site_cancel, false)
           | _, [] => ast_blocked_res s
           end
  | AstDStoreRes t a i v e =>
      (ast_set_pc (ast_upd_task s t (ast_t_store v e)) tid (AstDCancel t a i), AstEvYield ast_site_cancel, false)
  | AstDStoreTo t a i =>
      (ast_set_pc (ast_upd_task s t (ast_t_store 0%Z ast_err_deadline)) tid (AstDCancel t a i),
       AstEvYield ast_site_cancel, false)
  | AstDCancel t a i =>
      (ast_set_pc (ast_upd_att s a ast_a_cancel) tid (AstDReadErr t i), AstEvYield ast_site_read_err, false)
  | AstDReadErr t i =>
      match nth_error (ast_tasks s) t with
      | Some x =>
          if (att_err x =? 0)%Z then (ast_set_pc s tid (AstDWgDone t), AstEvYield ast_site_wg_done, false)
          else if S i <? aso_retry (att_opt x) then
            let '(s2, ev) := ast_start_attempt s tid t (S i) in (s2, ev, false)
          else (ast_set_pc s tid (AstDOnErr t), AstEvYield ast_site_on_error, false)
      | None => ast_blocked_res s
      end
  | AstDOnErr t =>
      let s1 := if aso_onerr (ast_task_opt s t) then ast_upd_task s t ast_t_onerr else s in
      (ast_set_pc s1 tid (AstDWgDone t), AstEvYield ast_site_wg_done, false)
  | AstDWgDone t =>
      (ast_set_pc (ast_upd_task s t ast_t_done) tid AstDRecv, AstEvYield ast_site_disp_recv, false)
  | AstIStart => (ast_set_pc s tid AstIRecv, AstEvYield ast_site_inner_recv, false)
  | AstIRecv =>
      match ast_choose (negb (length (ast_ichan s) =? 0)) (ast_closed s) hint with
      | None => ast_blocked_res s
      | Some true => (ast_set_pc s tid AstExit, AstEvRet AstRExit, true)
      | Some false =>
          match ast_ichan s with
          | [] => ast_blocked_res s
          | a :: rest =>
              let t := ast_att_task s a in
              let bi := match nth_error (ast_tasks s) t with Some x => att_started x | None => 0 end in
              let s1 := ast_upd_att (ast_with_ichan s rest) a (ast_a_start tid bi) in
              let s2 := ast_upd_task s1 t ast_t_started in
              let s3 := ast_with_running s2 (S (ast_running s2)) in
              if asb_yield (ast_att_beh s3 a) then
                (ast_set_pc s3 tid (AstIMid a), AstEvYield ast_site_handler, false)
              else let '(s4, ev) := ast_finish_handler s3 tid a in (s4, ev, false)
          end
      end
  | AstIMid a => let '(s1, ev) := ast_finish_handler s tid a in (s1, ev, false)
  | AstICtx a v e =>
      if ast_ctx_done s a then
        (ast_set_pc s tid (AstISend a 0%Z ast_err_deadline true), AstEvYield ast_site_att_send_dead, true)
      else match md with
           | AstFixed => (ast_set_pc s tid (AstISend a v e false), AstEvYield ast_site_att_send_res, false)
           | AstOrig => (ast_set_pc s tid (AstIStoreO a v e), AstEvYield ast_site_att_send_res, false)
           end
  | AstIStoreO a v e =>
      (ast_set_pc (ast_upd_task s (ast_att_task s a) (ast_t_store_late v e)) tid (AstISend a v e false),
       AstEvYield ast_site_att_send_dead, false)
  | AstISend a v e dead =>
      match ast_att_chan s a with
      | [] => (ast_set_pc (ast_upd_att s a (ast_a_sent [(v, e)])) tid AstIRecv, AstEvYield ast_site_inner_recv, false)
      | _ :: _ => ast_blocked_res s
      end
  | AstExit => (s, AstEvDone, false)
  end.

(* step of thread tid; the third component tells which branch a select took (true = closeChan /
   ctx1.Done()) *)
Definition ast_step (md : ast_mode) (n : nat) (s : ast_state) (tid : nat) (hint : bool)
  : ast_state * ast_ev * bool :=
  match nth_error (ast_thr s) tid with
  | Some th => ast_step_pc md n s tid th hint
  | None => (s, AstEvDone, false)
  end.

Definition ast_next (md : ast_mode) (n : nat) (s : ast_state) (it : nat * bool) : ast_state :=
  fst (fst (ast_step md n s (fst it) (snd it))).

(* schedule = list of (thread, hint) *)
Definition ast_run (md : ast_mode) (n : nat) (s : ast_state) (sched : list (nat * bool)) : ast_state :=
  fold_left (ast_next md n) sched s.

(* clients with their programs, then n dispatchers, then n inner workers *)
Definition ast_init (n : nat) (progs : list (list ast_op)) : ast_state :=
  {| ast_thr := map (fun p => {| ath_pc := AstIdle; ath_prog := p; ath_handles := [] |}) progs
                ++ repeat {| ath_pc := AstDStart; ath_prog := []; ath_handles := [] |} n
                ++ repeat {| ath_pc := AstIStart; ath_prog := []; ath_handles := [] |} n;
     ast_tasks := []; ast_atts := []; ast_tchan := []; ast_ichan := []; ast_closed := false;
     ast_now := 0%Z; ast_running := 0; ast_discards := 0 |}.

Definition ast_is_blocked (md : ast_mode) (n : nat) (s : ast_state) (tid : nat) : bool :=
  match snd (fst (ast_step md n s tid false)) with AstEvBlocked => true | _ => false end.

Definition ast_is_finished (s : ast_state) (tid : nat) : bool :=
  match nth_error (ast_thr s) tid with
  | Some th => match ath_pc th, ath_prog th with
               | AstIdle, [] => true | AstExit, _ => true | _, _ => false end
  | None => true
  end.
