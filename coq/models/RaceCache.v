(* RaceCache.v -- the memory events of the steps of the cachex small-step model
   (models/CacheSteps.v, the machine [cs_step CsFixed] that the C04 stream "call-steps" steps
   against the real cachex code through the yield hooks of cachex/verif_on.go).

   Every thread step of [cs_step CsFixed] is labelled with the memory events (lib/Race.v) the
   code between the two yield points performs, in source order, so that a schedule of the MODEL
   produces a trace of (thread, event) on which the relational happens-before race of
   lib/RaceHB.v is defined.  One shard, as in CacheSteps.v.

   Sync objects    rc_mu            the shard mutex            Lock = RAcq, Unlock = RRel
                   rc_ut f          Future.updateTime of f     atomic.LoadPointer = RAcq, StorePointer = RRel
                   rc_pr f          Future.predecessor of f    the same
                   rc_wg f          Future.wg of f             wg.Done = RRel, return of wg.Wait = RAcq
                   rc_ch f          the jobChan message that carries future f (a future is sent at
                                    most once): send = RRel, the receive that yields f = RAcq.
                                    ONLY the matching send synchronizes with a receive (no edge
                                    between different messages, no capacity edge: fewer edges).
   Plain locations rc_mp            the shard map d (one location for the whole map: stricter than
                                    one per key)
                   rc_val f, rc_err f   Future.value / Future.err of f
                   rc_tz f          the time.Time cell &time.Time{} newFuture stores into updateTime
                   rc_tn f          the cell &now setValue stores into updateTime
                                    (getUpdateTime dereferences the loaded pointer: a plain read of
                                    rc_tn f when the load observed setValue's store, of rc_tz f else)
   f = index of the future in the arena [c_futs] of the model memory.

   cachex source (cache_impl.go, future.go)            events
   ------------------------------------------------------------------------------------------
   futures.Lock()                                      RAcq rc_mu
   futures.Unlock()                                    RRel rc_mu
   futures.d[key] (read), range futures.d              RRead rc_mp  (once per iteration of range)
   futures.d[key] = next, delete(futures.d, key)       RWrite rc_mp
   newFuture(p):  &Future{} (value, err zeroed)        RWrite (rc_val n); RWrite (rc_err n)
                  &time.Time{}                         RWrite (rc_tz n)
                  StorePointer(&updateTime, ..)        RRel (rc_ut n)
                  StorePointer(&predecessor, p)        RRel (rc_pr n)
                  wg.Add(1)                            -           (n = length of the arena)
   setValue:      my.value = ..; my.err = ..           RWrite (rc_val f); RWrite (rc_err f)
                  var now = time.Now()                 RWrite (rc_tn f)
                  StorePointer(&updateTime, &now)      RRel (rc_ut f)
                  StorePointer(&predecessor, nil)      RRel (rc_pr f)
                  wg.Done()                            RRel (rc_wg f)
   getUpdateTime: LoadPointer(&updateTime); *p         RAcq (rc_ut f); RRead (rc_tn f | rc_tz f)
   getFutureStatus: future.err  (ONLY after a non-zero updateTime was loaded: the early return
                  "if updateTime.IsZero() { return kFutureGood }" precedes it)
                                                       RRead (rc_err f)
   getPredecessor: LoadPointer(&predecessor)           RAcq (rc_pr f)
   sendJob:       my.jobChan <- job                    RRel (rc_ch n)
   worker:        job := <-jobChan                     RAcq (rc_ch f)
   Future.Get2:   wg.Wait(); my.value; my.err          RAcq (rc_wg x); RRead (rc_val x); RRead (rc_err x)
   time.Now / time.Since read the clock: no shared memory.  my.futures[index], my.jobChan,
   my.args are written once in NewCache before the cache is handed out: not modelled.

   The allocation of a Future counts as a write of its plain fields (the Go memory model:
   "the initialization of variable v with the zero value behaves as a write"; the race
   detector treats malloc the same way).  It is this write that the worker's setValue must be
   ordered after, which is what the job channel is needed for.

   The initial memory m0 of a run ([cs_init_on m0 progs]) is taken to have been built by a
   set-up thread (thread id = number of threads; it takes no model step) whose events come
   first: for every future of m0 the events of newFuture, then of setValue if it is complete,
   or of the send if it is queued; finally one critical section that writes the map.  No
   go-statement edge from the set-up thread to the other threads is assumed.

   Definitions only; proofs in proofs/RaceCacheProofs.v. *)
From Coq Require Import String.
From Got Require Import Base Race RaceHB Cache CacheSteps RaceInst.
Local Open Scope nat_scope.

Definition rc_mu : nat := 0.
Definition rc_ut (f : nat) : nat := 1 + 4 * f.
Definition rc_pr (f : nat) : nat := 2 + 4 * f.
Definition rc_wg (f : nat) : nat := 3 + 4 * f.
Definition rc_ch (f : nat) : nat := 4 + 4 * f.

Definition rc_mp : nat := 0.
Definition rc_val (f : nat) : nat := 1 + 4 * f.
Definition rc_err (f : nat) : nat := 2 + 4 * f.
Definition rc_tz (f : nat) : nat := 3 + 4 * f.
Definition rc_tn (f : nat) : nat := 4 + 4 * f.

(* newFuture, n = the id the new future gets *)
Definition rc_new (n : nat) : list rc_ev :=
  [RWrite (rc_val n); RWrite (rc_err n); RWrite (rc_tz n); RRel (rc_ut n); RRel (rc_pr n)].

(* setValue up to the yield before the store of updateTime *)
Definition rc_setv (f : nat) : list rc_ev :=
  [RWrite (rc_val f); RWrite (rc_err f); RWrite (rc_tn f)].

(* getUpdateTime *)
Definition rc_getut (m : c_state) (f : nat) : list rc_ev :=
  [RAcq (rc_ut f); RRead (match cs_fdone m f with Some _ => rc_tn f | None => rc_tz f end)].

Definition rc_unlock : list rc_ev := [RRel rc_mu].

(* next = newFuture(pred); futures.d[key] = next; Unlock *)
Definition rc_create (m : c_state) : list rc_ev :=
  rc_new (length (c_futs m)) ++ [RWrite rc_mp; RRel rc_mu].

(* removeRotted: the range statement fetches the next entry, or finds none and unlocks *)
Definition rc_sweep_next (rest : list (Z * nat)) : list rc_ev :=
  RRead rc_mp :: match rest with [] => [RRel rc_mu] | _ :: _ => [] end.

(* the events of the step [cs_tstep CsFixed] of a thread parked at pc; same case analysis.
   [unguarded] = the getFutureStatus of the code before the fix D3 (future.err read even when
   the loaded updateTime is zero); false everywhere except in the refutation *)
Definition rc_status_ev (unguarded : bool) (m : c_state) (f : nat) : list rc_ev :=
  rc_getut m f ++
  match cs_fdone m f with
  | None => if unguarded then [RRead (rc_err f)] else []
  | Some _ => []
  end.

Definition rc_label_gen (unguarded : bool) (cfg : c_cfg) (m : c_state) (pc : cs_pc) : list rc_ev :=
  let n := length (c_futs m) in
  match pc with
  | CsIdle => []
  | CsLBL _ | CsGBL _ | CsSBL _ _ _ | CsZBL => [RAcq rc_mu]
  (* Load *)
  | CsLAL k => RRead rc_mp :: match c_lookup (c_map m) k with None => rc_create m | Some _ => [] end
  | CsLLU _ f => rc_status_ev unguarded m f
  | CsLRE _ f past =>
      RRead (rc_err f) ::
      match cs_status_of cfg past (cs_err_of m f) with CGood => [] | _ => rc_create m end
  | CsLAU _ _ _ => []
  | CsLSJ _ _ nx => [RRel (rc_ch nx)]
  (* Get2 *)
  | CsGAL k => RRead rc_mp :: match c_lookup (c_map m) k with None => rc_unlock | Some _ => [] end
  | CsGAU _ => []
  | CsGLU f => rc_status_ev unguarded m f
  | CsGRE f past =>
      RRead (rc_err f) ::
      match cs_status_of cfg past (cs_err_of m f) with CGood => [] | _ => rc_unlock end
  | CsGFW x => [RAcq (rc_wg x); RRead (rc_val x); RRead (rc_err x)]
  (* fetchIfFutureStatusGood *)
  | CsRLP _ f => RAcq (rc_pr f) :: match cs_fpred m f with None => rc_unlock | Some _ => [] end
  | CsRPU _ _ p =>
      rc_status_ev unguarded m p ++ match cs_fdone m p with None => rc_unlock | Some _ => [] end
  | CsRPE _ _ p _ => [RRead (rc_err p); RRel rc_mu]
  | CsXAU _ _ => []
  (* Set *)
  | CsSAL _ _ _ => rc_new n ++ rc_setv n
  | CsSSU _ _ _ _ => [RRel (rc_ut n)]
  | CsSSP _ _ _ _ => [RRel (rc_pr n); RRel (rc_wg n); RWrite rc_mp; RRel rc_mu]
  | CsSAU => []
  (* worker *)
  | CsWLD f _ _ => rc_setv f
  | CsWSU f _ _ _ => [RRel (rc_ut f)]
  | CsWSP f _ _ _ => [RRel (rc_pr f); RRel (rc_wg f)]
  (* removeRotted *)
  | CsZAL => rc_sweep_next (c_map m)
  | CsZLU _ f rest =>
      rc_status_ev unguarded m f ++ match cs_fdone m f with None => rc_sweep_next rest | Some _ => [] end
  | CsZRE _ f past rest =>
      RRead (rc_err f) ::
      match cs_status_of cfg past (cs_err_of m f) with CRotted => [RWrite rc_mp] | _ => [] end
      ++ rc_sweep_next rest
  | CsZAU => []
  end.

Definition rc_label : c_cfg -> c_state -> cs_pc -> list rc_ev := rc_label_gen false.

(* the first step of a call ([cs_tstart]): only the worker's channel receive touches shared memory *)
Definition rc_label_start (m : c_state) (op : cs_op) : list rc_ev :=
  match op with
  | CsFinish _ _ => match c_queue m with f :: _ => [RAcq (rc_ch f)] | [] => [] end
  | _ => []
  end.

(* the events of one schedule item; same case analysis as cs_step *)
Definition rc_events_gen (unguarded : bool) (cfg : c_cfg) (s : cs_state) (it : cs_item) : list rc_ev :=
  match it with
  | CsTick _ => []
  | CsRun tid =>
      match nth_error (cs_thr s) tid with
      | None => []
      | Some t =>
          if cs_blocked s t then []
          else
            match ct_op t with
            | Some _ => rc_label_gen unguarded cfg (cs_m s) (ct_pc t)
            | None => match ct_prog t with
                      | [] => []
                      | op :: _ => rc_label_start (cs_m s) op
                      end
            end
      end
  end.

Definition rc_events : c_cfg -> cs_state -> cs_item -> list rc_ev := rc_events_gen false.

Definition rc_tid (it : cs_item) : nat := match it with CsRun tid => tid | CsTick _ => 0 end.

(* the trace a schedule produces from s: the state advances by cs_step CsFixed *)
Fixpoint rc_trace_from_gen (unguarded : bool) (cfg : c_cfg) (s : cs_state) (sched : list cs_item) : hb_trace :=
  match sched with
  | [] => []
  | it :: r =>
      map (pair (rc_tid it)) (rc_events_gen unguarded cfg s it)
      ++ rc_trace_from_gen unguarded cfg (fst (cs_step CsFixed cfg s it)) r
  end.

Definition rc_trace_from : c_cfg -> cs_state -> list cs_item -> hb_trace := rc_trace_from_gen false.

(* ---- the set-up thread *)
Definition rc_setup_fut (m0 : c_state) (f : nat) : list rc_ev :=
  rc_new f ++
  match cs_fdone m0 f with
  | Some _ => rc_setv f ++ [RRel (rc_ut f); RRel (rc_pr f); RRel (rc_wg f)]
  | None => if existsb (Nat.eqb f) (c_queue m0) then [RRel (rc_ch f)] else []
  end.

Definition rc_setup (m0 : c_state) : list rc_ev :=
  flat_map (rc_setup_fut m0) (seq 0 (length (c_futs m0))) ++ [RAcq rc_mu; RWrite rc_mp; RRel rc_mu].

(* number of thread ids of a trace: the model threads and the set-up thread *)
Definition rc_nthr (progs : list (list cs_op)) : nat := S (length progs).

Definition rc_trace_gen (unguarded : bool) (cfg : c_cfg) (m0 : c_state) (progs : list (list cs_op))
    (sched : list cs_item) : hb_trace :=
  map (pair (length progs)) (rc_setup m0) ++ rc_trace_from_gen unguarded cfg (cs_init_on m0 progs) sched.

Definition rc_trace : c_cfg -> c_state -> list (list cs_op) -> list cs_item -> hb_trace := rc_trace_gen false.

(* ---- well-formed initial memories: ids in range, the queued jobs distinct and not complete.
   (Every memory built by the set-up language of the C04 stream - Cache.v events from c_init plus
   back-dating - is of this kind.) *)
Fixpoint rc_nodupb (l : list nat) : bool :=
  match l with
  | [] => true
  | x :: r => negb (existsb (Nat.eqb x) r) && rc_nodupb r
  end.

Definition rc_mem_ok (m0 : c_state) : bool :=
  let n := length (c_futs m0) in
  forallb (fun kf => snd kf <? n) (c_map m0)
  && forallb (fun x => match c_fpred x with Some p => p <? n | None => true end) (c_futs m0)
  && forallb (fun f => (f <? n) && match cs_fdone m0 f with None => true | Some _ => false end) (c_queue m0)
  && rc_nodupb (c_queue m0).

(* ---- the access-table rows (RaceInst.ri_access_table, regenerated from the source by the C18
   check on every run) the labelling was read off *)
Local Open Scope string_scope.
Definition rc_rows : list string := [
  "cachex/cache_impl.go:cacheImpl.Get2|R:futures S:futures.Lock R:d C:getFutureStatus if( ){ C:fetchIfFutureStatusGood } S:futures.Unlock switch{ case{ C:Get2 ret } case{ C:Get2 ret } } ret";
  "cachex/cache_impl.go:cacheImpl.Load|R:futures S:futures.Lock R:d C:getFutureStatus if( ){ C:newFuture W:d[] } if( ){ C:fetchIfFutureStatusGood } S:futures.Unlock if( ){ C:sendJob } switch{ case{ ret } case{ ret } case{ ret } } ret";
  "cachex/cache_impl.go:cacheImpl.Set|R:futures S:futures.Lock C:newFuture C:setValue W:d[] S:futures.Unlock";
  "cachex/cache_impl.go:cacheImpl.fetchIfFutureStatusGood|C:getPredecessor C:getFutureStatus if( ){ ret } ret";
  "cachex/cache_impl.go:cacheImpl.getFutureStatus|if( ){ C:getUpdateTime if( ){ ret } if( R:err ){ } if( ){ ret } else{ if( ){ ret } else{ ret } } } ret";
  "cachex/cache_impl.go:cacheImpl.removeRotted|for{ R:futures S:futures.Lock for{ R:d C:getFutureStatus if( ){ R:d } } S:futures.Unlock }";
  "cachex/cache_impl.go:cacheImpl.sendJob|select{ case{ send:jobChan } case{ recv:closeChan C:loader C:setValue ret } } select{ case{ recv:closeChan } case{ default } }";
  "cachex/cache_impl.go:cacheImpl.startJobGoroutines|R:jobChan R:closeChan for{ go{ func{ for{ select{ case{ recv:jobChan C:loader C:setValue } case{ recv:C C:removeRotted } case{ recv:closeChan ret } } } } } }";
  "cachex/future.go:Future.Get1|S:wg.Wait R:value ret";
  "cachex/future.go:Future.Get2|S:wg.Wait R:value R:err ret";
  "cachex/future.go:Future.getPredecessor|A:LoadPointer:predecessor ret";
  "cachex/future.go:Future.getUpdateTime|A:LoadPointer:updateTime if( ){ ret } ret";
  "cachex/future.go:Future.setValue|W:value W:err A:StorePointer:updateTime A:StorePointer:predecessor S:wg.Done";
  "cachex/future.go:newFuture|A:StorePointer:updateTime A:StorePointer:predecessor S:wg.Add ret"
].
Definition rc_rows_in_table : bool :=
  forallb (fun r => existsb (String.eqb r) ri_access_table) rc_rows.
