(* AesModes.v -- executable model of package aesx (cipher.go, cbc_cipher.go, cfb_cipher.go,
   option.go, consts.go) on top of an abstract 16-byte block function pair (E, D), plus the
   instantiation with the FIPS-197 cipher of Aes.v.

   Go slices are modelled explicitly: the caller's input is a view
       arr[off : off+len : off+cap]
   of a backing array [arr], and Encrypt/Decrypt return the result together with the
   contents of the caller's backing array after the call. The switch AesmOrig | AesmFixed
   selects the padding step before / after commit ca0d742 (append into the caller's spare
   capacity vs. copy into a fresh buffer).

   crypto/cipher's CBC (cbc.go: CryptBlocks) and CFB (cfb.go: XORKeyStream, one call on a
   fresh stream) are re-modelled here; their panics ("IV length must equal block size",
   "input not full blocks") are the value Panic. Definitions only. *)
From Got Require Import Base Aes.
Local Open Scope nat_scope.

(* ---- slices *)
Record aesm_slice := { asl_arr : list N; asl_off : nat; asl_len : nat; asl_cap : nat }.

Definition aesm_slice_ok (s : aesm_slice) : bool :=
  (asl_len s <=? asl_cap s) && (asl_off s + asl_cap s <=? length (asl_arr s)).

Definition aesm_data (s : aesm_slice) : list N :=
  firstn (asl_len s) (skipn (asl_off s) (asl_arr s)).

(* append(s, extra...): (contents of the resulting slice, caller's backing array afterwards).
   In place when the capacity suffices, otherwise a new array (the caller's is untouched). *)
Definition aesm_append (s : aesm_slice) (extra : list N) : list N * list N :=
  if asl_len s + length extra <=? asl_cap s
  then let k := asl_off s + asl_len s in
       (aesm_data s ++ extra,
        firstn k (asl_arr s) ++ extra ++ skipn (k + length extra) (asl_arr s))
  else (aesm_data s ++ extra, asl_arr s).

Inductive aesm_variant := AesmOrig | AesmFixed.

Definition aesm_block_size : nat := 16.

(* pkcs5Padding(input, aes.BlockSize) *)
Definition aesm_pkcs_pad (v : aesm_variant) (s : aesm_slice) : list N * list N :=
  let padding := aesm_block_size - asl_len s mod aesm_block_size in
  let pad_text := repeat (N.of_nat padding mod 256)%N padding in
  match v with
  | AesmOrig => aesm_append s pad_text
  | AesmFixed => (aesm_data s ++ pad_text, asl_arr s)
  end.

(* pkcs5Trimming: driven by the last byte only; no validation of the padding bytes *)
Definition aesm_pkcs_trim (l : list N) : list N :=
  match length l with
  | O => l
  | size =>
    let padding := last l 0%N in
    let upper := (Z.of_nat size - Z.of_N padding)%Z in
    if (upper <? 0)%Z then l else firstn (Z.to_nat upper) l
  end.

(* ---- options *)
Inductive aesm_mode := AesmCBC | AesmCFB.
Inductive aesm_option := AesmWithCBC | AesmWithCFB | AesmWithIV (iv : list N).
Record aesm_args := { aa_mode : aesm_mode; aa_iv : list N }.

Definition aesm_common_iv : list N := [0; 1; 2; 3; 4; 5; 6; 7; 8; 9; 10; 11; 12; 13; 14; 15]%N.

Definition aesm_apply_option (a : aesm_args) (o : aesm_option) : aesm_args :=
  match o with
  | AesmWithCBC => {| aa_mode := AesmCBC; aa_iv := aa_iv a |}
  | AesmWithCFB => {| aa_mode := AesmCFB; aa_iv := aa_iv a |}
  | AesmWithIV iv => match iv with
                     | [] => a
                     | _ => {| aa_mode := aa_mode a; aa_iv := iv |}
                     end
  end.

Definition aesm_args_of (opts : list aesm_option) : aesm_args :=
  fold_left aesm_apply_option opts {| aa_mode := AesmCBC; aa_iv := aesm_common_iv |}.

Section Modes.
  Variables E D : list N -> list N.

  (* cipher.BlockMode CryptBlocks of the CBC encrypter: one block per step *)
  Fixpoint aesm_cbc_encrypt_blocks (fuel : nat) (iv src : list N) : list N :=
    match fuel with
    | O => []
    | S f =>
      match src with
      | [] => []
      | _ => let c := E (aes_xor_bytes (firstn 16 src) iv) in
             c ++ aesm_cbc_encrypt_blocks f c (skipn 16 src)
      end
    end.

  Fixpoint aesm_cbc_decrypt_blocks (fuel : nat) (iv src : list N) : list N :=
    match fuel with
    | O => []
    | S f =>
      match src with
      | [] => []
      | _ => let c := firstn 16 src in
             aes_xor_bytes (D c) iv ++ aesm_cbc_decrypt_blocks f c (skipn 16 src)
      end
    end.

  (* copy(next, chunk) *)
  Definition aesm_copy_into (next chunk : list N) : list N :=
    chunk ++ skipn (length chunk) next.

  (* cfb.XORKeyStream, a single call on a fresh stream (outUsed = len(out) at entry, so
     every iteration starts with a refill out = E(next)) *)
  Fixpoint aesm_cfb_stream (fuel : nat) (decrypt : bool) (next src : list N) : list N :=
    match fuel with
    | O => []
    | S f =>
      match src with
      | [] => []
      | _ => let out := E next in
             let chunk := firstn 16 src in
             let dst := aes_xor_bytes chunk out in
             let next' := aesm_copy_into next (if decrypt then chunk else dst) in
             dst ++ aesm_cfb_stream f decrypt next' (skipn 16 src)
      end
    end.

  (* cbcCipher.Encrypt / cfbCipher.Encrypt: (result, caller's backing array afterwards) *)
  Definition aesm_encrypt (v : aesm_variant) (a : aesm_args) (s : aesm_slice)
    : res (list N) unit * list N :=
    if negb (length (aa_iv a) =? 16) then (Panic, asl_arr s)
    else match aa_mode a with
         | AesmCBC =>
           let '(padded, arr') := aesm_pkcs_pad v s in
           if length padded mod 16 =? 0
           then (Ok (aesm_cbc_encrypt_blocks (length padded) (aa_iv a) padded), arr')
           else (Panic, arr')
         | AesmCFB =>
           let data := aesm_data s in
           (Ok (aesm_cfb_stream (length data) false (aa_iv a) data), asl_arr s)
         end.

  Definition aesm_decrypt (a : aesm_args) (s : aesm_slice) : res (list N) unit * list N :=
    if negb (length (aa_iv a) =? 16) then (Panic, asl_arr s)
    else let data := aesm_data s in
         match aa_mode a with
         | AesmCBC =>
           if length data mod 16 =? 0
           then (Ok (aesm_pkcs_trim (aesm_cbc_decrypt_blocks (length data) (aa_iv a) data)), asl_arr s)
           else (Panic, asl_arr s)
         | AesmCFB =>
           (Ok (aesm_cfb_stream (length data) true (aa_iv a) data), asl_arr s)
         end.
End Modes.

(* ---- the package API with the FIPS-197 block cipher *)
Record aesm_cipher := { ac_rks : list (list N); ac_args : aesm_args }.

(* NewCipher: aes.NewCipher's KeySizeError is turned into a panic by the code *)
Definition aesm_new_cipher (key : list N) (opts : list aesm_option) : res aesm_cipher unit :=
  if aes_valid_key_len (length key)
  then Ok {| ac_rks := aes_key_schedule key; ac_args := aesm_args_of opts |}
  else Panic.

Definition aesm_api_encrypt (v : aesm_variant) (c : aesm_cipher) (s : aesm_slice)
  : res (list N) unit * list N :=
  aesm_encrypt (aes_cipher (ac_rks c)) v (ac_args c) s.

Definition aesm_api_decrypt (c : aesm_cipher) (s : aesm_slice) : res (list N) unit * list N :=
  aesm_decrypt (aes_cipher (ac_rks c)) (aes_inv_cipher (ac_rks c)) (ac_args c) s.

(* whole-slice view of a freshly allocated array (the result of a previous call) *)
Definition aesm_whole (l : list N) : aesm_slice :=
  {| asl_arr := l; asl_off := 0; asl_len := length l; asl_cap := length l |}.
