(* Octets.v -- executable model of iox.OctetsStream / OctetsWriter / OctetsReader
   (iox/octets_stream.go, octets_writer.go, octets_reader.go, errors.go; the unsafe casts
   convert.String / convert.Bytes are modelled as the identity on byte lists).

   Conventions
   * a byte is a Z (0..255 for every byte Go can hold; the functions are total on Z);
     fixed-width signed values are Z, Go's conversions are written out with
     wrapu / sext from Base.v, shifts and bit operations with Z.shiftl/Z.shiftr/Z.lor/Z.land
     exactly where the Go code has them.
   * a stream is (buffer, position); writers append to buffer, readers move position.
   * every index / slice expression goes through a checked accessor; a failed check is
     the result [Panic].
   * a read returns (result, new stream, alloc) where alloc is the number of bytes the
     call requests from make().
   * oct_variant: OctFixed is the code in /repo now; OctOrig is ReadBytes before the
     commit "fix: iox.OctetsReader.ReadBytes checks the announced size against the
     remaining bytes before allocating".
   Definitions only; lemmas are in proofs/OctetsProofs.v, specifications (le_bytes,
   uleb128) in lib/OctetsSpec.v. *)
From Got Require Import Base.
Local Open Scope Z_scope.

Inductive oct_err :=
| OctErrInvalidArgument
| OctErrBad7BitInt
| OctErrNegativeSize
| OctErrNotEnoughData.

Inductive oct_variant := OctOrig | OctFixed.

Record oct_stream := { oct_buf : list Z; oct_pos : nat }.

Definition oct_rd (A : Type) : Type := (res A oct_err * oct_stream * Z)%type.

(* Len() / Position() *)
Definition oct_len (s : oct_stream) : Z := Z.of_nat (length (oct_buf s)).
Definition oct_position (s : oct_stream) : Z := Z.of_nat (oct_pos s).

Definition oct_set_pos (s : oct_stream) (p : nat) : oct_stream :=
  {| oct_buf := oct_buf s; oct_pos := p |}.
Definition oct_append (s : oct_stream) (l : list Z) : oct_stream :=
  {| oct_buf := oct_buf s ++ l; oct_pos := oct_pos s |}.

(* checked accessors: l[k], l[lo:], l[lo:hi] (hi checked against len, which is <= cap) *)
Definition oct_index (l : list Z) (k : nat) : option Z := nth_error l k.
Definition oct_slice_from (l : list Z) (lo : nat) : option (list Z) :=
  if (lo <=? length l)%nat then Some (skipn lo l) else None.
Definition oct_slice (l : list Z) (lo hi : Z) : option (list Z) :=
  if (0 <=? lo) && (lo <=? hi) && (hi <=? Z.of_nat (length l))
  then Some (firstn (Z.to_nat (hi - lo)) (skipn (Z.to_nat lo) l)) else None.

(* byte(x) conversion *)
Definition oct_byte (x : Z) : Z := wrapu 8 x.

(* ------------------------------------------------------------------ OctetsStream reads *)

(* func (my *OctetsStream) ReadByte() (byte, error) *)
Definition oct_read_byte (s : oct_stream) : oct_rd Z :=
  if (length (oct_buf s) <=? oct_pos s)%nat            (* my.position >= len(my.buffer) *)
  then (Err OctErrNotEnoughData, s, 0)
  else match oct_index (oct_buf s) (oct_pos s) with
       | None => (Panic, s, 0)
       | Some b => (Ok b, oct_set_pos s (S (oct_pos s)), 0)
       end.

(* ReadBool: var b, err = my.ReadByte(); return b == 1, err *)
Definition oct_read_bool (s : oct_stream) : oct_rd bool :=
  match oct_read_byte s with
  | (Ok b, s', a) => (Ok (b =? 1), s', a)
  | (Err e, s', a) => (Err e, s', a)
  | (Panic, s', a) => (Panic, s', a)
  end.

(* ReadInt16: if my.position+2 > len(my.buffer) {err}; b = my.buffer[my.position:];
   int16(b[0]) | int16(b[1])<<8 ; position += 2.  The bit pattern of the int16 expression
   is the low 16 bits of b0 | b1<<8, hence sext 16 of the untruncated lor. *)
Definition oct_read_int16 (s : oct_stream) : oct_rd Z :=
  if (length (oct_buf s) <? oct_pos s + 2)%nat
  then (Err OctErrNotEnoughData, s, 0)
  else match oct_slice_from (oct_buf s) (oct_pos s) with
       | None => (Panic, s, 0)
       | Some b =>
           match oct_index b 0, oct_index b 1 with
           | Some b0, Some b1 =>
               (Ok (sext 16 (Z.lor b0 (Z.shiftl b1 8))), oct_set_pos s (oct_pos s + 2), 0)
           | _, _ => (Panic, s, 0)
           end
       end.

Definition oct_read_int32 (s : oct_stream) : oct_rd Z :=
  if (length (oct_buf s) <? oct_pos s + 4)%nat
  then (Err OctErrNotEnoughData, s, 0)
  else match oct_slice_from (oct_buf s) (oct_pos s) with
       | None => (Panic, s, 0)
       | Some b =>
           match oct_index b 0, oct_index b 1, oct_index b 2, oct_index b 3 with
           | Some b0, Some b1, Some b2, Some b3 =>
               (Ok (sext 32 (Z.lor (Z.lor (Z.lor b0 (Z.shiftl b1 8)) (Z.shiftl b2 16)) (Z.shiftl b3 24))),
                oct_set_pos s (oct_pos s + 4), 0)
           | _, _, _, _ => (Panic, s, 0)
           end
       end.

Definition oct_read_int64 (s : oct_stream) : oct_rd Z :=
  if (length (oct_buf s) <? oct_pos s + 8)%nat
  then (Err OctErrNotEnoughData, s, 0)
  else match oct_slice_from (oct_buf s) (oct_pos s) with
       | None => (Panic, s, 0)
       | Some b =>
           match oct_index b 0, oct_index b 1, oct_index b 2, oct_index b 3,
                 oct_index b 4, oct_index b 5, oct_index b 6, oct_index b 7 with
           | Some b0, Some b1, Some b2, Some b3, Some b4, Some b5, Some b6, Some b7 =>
               (Ok (sext 64
                      (Z.lor (Z.lor (Z.lor (Z.lor (Z.lor (Z.lor (Z.lor b0 (Z.shiftl b1 8)) (Z.shiftl b2 16))
                         (Z.shiftl b3 24)) (Z.shiftl b4 32)) (Z.shiftl b5 40)) (Z.shiftl b6 48)) (Z.shiftl b7 56))),
                oct_set_pos s (oct_pos s + 8), 0)
           | _, _, _, _, _, _, _, _ => (Panic, s, 0)
           end
       end.

(* func (my *OctetsStream) Read(buffer []byte) (int, error), n = len(buffer).
   Result value: the bytes copied into buffer[0:readSize] (their count is the int result). *)
Definition oct_stream_read (s : oct_stream) (n : Z) : oct_rd (list Z) :=
  if n =? 0 then (Err OctErrInvalidArgument, s, 0)
  else
    let remain := oct_len s - oct_position s in
    if remain =? 0 then (Ok [], s, 0)
    else
      let rs := if n >? remain then remain else n in
      match oct_slice (oct_buf s) (oct_position s) (oct_position s + rs) with
      | None => (Panic, s, 0)
      | Some l => (Ok l, oct_set_pos s (Z.to_nat (oct_position s + rs)), 0)
      end.

(* ------------------------------------------------------------------ OctetsStream writes *)

Definition oct_write_bool (s : oct_stream) (b : bool) : oct_stream :=
  oct_append s [if b then 1 else 0].
Definition oct_write_byte (s : oct_stream) (b : Z) : oct_stream := oct_append s [b].
Definition oct_write_int16 (s : oct_stream) (d : Z) : oct_stream :=
  oct_append s [oct_byte d; oct_byte (Z.shiftr d 8)].
Definition oct_write_int32 (s : oct_stream) (d : Z) : oct_stream :=
  oct_append s [oct_byte d; oct_byte (Z.shiftr d 8); oct_byte (Z.shiftr d 16); oct_byte (Z.shiftr d 24)].
Definition oct_write_int64 (s : oct_stream) (d : Z) : oct_stream :=
  oct_append s [oct_byte d; oct_byte (Z.shiftr d 8); oct_byte (Z.shiftr d 16); oct_byte (Z.shiftr d 24);
                oct_byte (Z.shiftr d 32); oct_byte (Z.shiftr d 40); oct_byte (Z.shiftr d 48); oct_byte (Z.shiftr d 56)].
(* Write(buffer): if len(buffer) > 0 { append } *)
Definition oct_write (s : oct_stream) (data : list Z) : oct_stream :=
  if (0 <? length data)%nat then oct_append s data else s.

(* ------------------------------------------------------------------ OctetsWriter *)

(* Write7BitEncodedInt: num = uint32(d); for num > 127 { WriteByte(byte(num | 0xFFFFFF80)); num >>= 7 };
   WriteByte(byte(num)).  None = the fuel did not suffice (proved unreachable with fuel 5). *)
Fixpoint oct_write7_loop (fuel : nat) (num : Z) (s : oct_stream) : option oct_stream :=
  if num >? 127 then
    match fuel with
    | O => None
    | S f => oct_write7_loop f (Z.shiftr num 7) (oct_write_byte s (oct_byte (Z.lor num 4294967168)))
    end
  else Some (oct_write_byte s (oct_byte num)).

Definition oct_write_7bit (s : oct_stream) (d : Z) : option oct_stream :=
  oct_write7_loop 5 (wrapu 32 d) s.

(* WriteBytes: size = len(data); Write7BitEncodedInt(int32(size)); stream.Write(data) *)
Definition oct_write_bytes (s : oct_stream) (data : list Z) : option oct_stream :=
  match oct_write_7bit s (sext 32 (Z.of_nat (length data))) with
  | None => None
  | Some s1 => Some (oct_write s1 data)
  end.
(* WriteString: convert.Bytes(s) then WriteBytes *)
Definition oct_write_string (s : oct_stream) (data : list Z) : option oct_stream :=
  oct_write_bytes s data.

(* the writer's fixed-width methods only delegate: return my.stream.WriteX(v) *)
Definition oct_wtr_write_bool := oct_write_bool.
Definition oct_wtr_write_byte := oct_write_byte.
Definition oct_wtr_write_int16 := oct_write_int16.
Definition oct_wtr_write_int32 := oct_write_int32.
Definition oct_wtr_write_int64 := oct_write_int64.

(* ------------------------------------------------------------------ OctetsReader *)

(* the reader's fixed-width methods only delegate: return my.stream.ReadX() *)
Definition oct_rdr_read_bool := oct_read_bool.
Definition oct_rdr_read_byte := oct_read_byte.
Definition oct_rdr_read_int16 := oct_read_int16.
Definition oct_rdr_read_int32 := oct_read_int32.
Definition oct_rdr_read_int64 := oct_read_int64.

(* Read7BitEncodedInt: for i := 0; i < 28; i += 7 { b = ReadByte(); num |= uint32(b&0x7F) << i;
   if b <= 127 {return int32(num)} } -- [iters] counts the remaining iterations (4 at entry);
   after the loop: b = ReadByte(); if b > 15 {ErrBad7BitInt}; int32(num) | int32(b)<<28 *)
Fixpoint oct_read7_loop (iters : nat) (i num : Z) (s : oct_stream) : oct_rd Z :=
  match iters with
  | O =>
      match oct_read_byte s with
      | (Ok b, s', a) =>
          if b >? 15 then (Err OctErrBad7BitInt, s', a)
          else (Ok (sext 32 (Z.lor num (Z.shiftl b 28))), s', a)
      | (Err e, s', a) => (Err e, s', a)
      | (Panic, s', a) => (Panic, s', a)
      end
  | S k =>
      match oct_read_byte s with
      | (Ok b, s', a) =>
          let num' := Z.lor num (wrapu 32 (Z.shiftl (Z.land b 127) i)) in
          if b <=? 127 then (Ok (sext 32 num'), s', a)
          else oct_read7_loop k (i + 7) num' s'
      | (Err e, s', a) => (Err e, s', a)
      | (Panic, s', a) => (Panic, s', a)
      end
  end.

Definition oct_read_7bit (s : oct_stream) : oct_rd Z := oct_read7_loop 4 0 0 s.

(* ReadBytes *)
Definition oct_read_bytes (v : oct_variant) (s : oct_stream) : oct_rd (list Z) :=
  match oct_read_7bit s with
  | (Ok size, s1, a1) =>
      if size <? 0 then (Err OctErrNegativeSize, s1, a1)
      else if size =? 0 then (Ok [], s1, a1)
      else if (match v with
               | OctFixed => size >? oct_len s1 - oct_position s1
               | OctOrig => false
               end)
      then (Err OctErrNotEnoughData, s1, a1)
      else (* data = make([]byte, size) *)
        match oct_stream_read s1 size with
        | (Ok l, s2, a2) =>
            if sext 32 (Z.of_nat (length l)) =? size          (* int32(num) != size *)
            then (Ok l, s2, a1 + size + a2)
            else (Err OctErrNotEnoughData, s2, a1 + size + a2)
        | (Err e, s2, a2) => (Err e, s2, a1 + size + a2)
        | (Panic, s2, a2) => (Panic, s2, a1 + size + a2)
        end
  | (Err e, s1, a1) => (Err e, s1, a1)
  | (Panic, s1, a1) => (Panic, s1, a1)
  end.

(* ReadString: ReadBytes then convert.String (no copy) *)
Definition oct_read_string (v : oct_variant) (s : oct_stream) : oct_rd (list Z) :=
  match oct_read_bytes v s with
  | (Ok l, s', a) => (Ok l, s', a)
  | (Err e, s', a) => (Err e, s', a)
  | (Panic, s', a) => (Panic, s', a)
  end.

(* ------------------------------------------------------------------ typed values, operations *)

Inductive oct_api := OctViaStream | OctViaReader.

Inductive oct_val :=
| OVBool (b : bool)
| OVByte (x : Z)
| OVInt16 (x : Z)
| OVInt32 (x : Z)
| OVInt64 (x : Z)
| OV7Bit (x : Z)
| OVBytes (l : list Z)
| OVString (l : list Z)
| OVRaw (l : list Z).        (* bytes moved by OctetsStream.Read / Write *)

Inductive oct_op :=
| OpBool (a : oct_api)
| OpByte (a : oct_api)
| OpInt16 (a : oct_api)
| OpInt32 (a : oct_api)
| OpInt64 (a : oct_api)
| Op7Bit
| OpBytes
| OpString
| OpRead (n : Z).            (* OctetsStream.Read(make([]byte, n)) *)

Definition oct_rd_map {A B : Type} (f : A -> B) (r : oct_rd A) : oct_rd B :=
  match r with
  | (Ok x, s, a) => (Ok (f x), s, a)
  | (Err e, s, a) => (Err e, s, a)
  | (Panic, s, a) => (Panic, s, a)
  end.

Definition oct_read_op (v : oct_variant) (op : oct_op) (s : oct_stream) : oct_rd oct_val :=
  match op with
  | OpBool OctViaStream => oct_rd_map OVBool (oct_read_bool s)
  | OpBool OctViaReader => oct_rd_map OVBool (oct_rdr_read_bool s)
  | OpByte OctViaStream => oct_rd_map OVByte (oct_read_byte s)
  | OpByte OctViaReader => oct_rd_map OVByte (oct_rdr_read_byte s)
  | OpInt16 OctViaStream => oct_rd_map OVInt16 (oct_read_int16 s)
  | OpInt16 OctViaReader => oct_rd_map OVInt16 (oct_rdr_read_int16 s)
  | OpInt32 OctViaStream => oct_rd_map OVInt32 (oct_read_int32 s)
  | OpInt32 OctViaReader => oct_rd_map OVInt32 (oct_rdr_read_int32 s)
  | OpInt64 OctViaStream => oct_rd_map OVInt64 (oct_read_int64 s)
  | OpInt64 OctViaReader => oct_rd_map OVInt64 (oct_rdr_read_int64 s)
  | Op7Bit => oct_rd_map OV7Bit (oct_read_7bit s)
  | OpBytes => oct_rd_map OVBytes (oct_read_bytes v s)
  | OpString => oct_rd_map OVString (oct_read_string v s)
  | OpRead n => oct_rd_map OVRaw (oct_stream_read s n)
  end.

(* writing a typed value; the Go parameter conversion (bool/byte/int16/... argument types)
   is the identity on values of the type, see oct_val_ok *)
Definition oct_write_val (a : oct_api) (s : oct_stream) (x : oct_val) : option oct_stream :=
  match x, a with
  | OVBool b, OctViaStream => Some (oct_write_bool s b)
  | OVBool b, OctViaReader => Some (oct_wtr_write_bool s b)
  | OVByte x, OctViaStream => Some (oct_write_byte s x)
  | OVByte x, OctViaReader => Some (oct_wtr_write_byte s x)
  | OVInt16 x, OctViaStream => Some (oct_write_int16 s x)
  | OVInt16 x, OctViaReader => Some (oct_wtr_write_int16 s x)
  | OVInt32 x, OctViaStream => Some (oct_write_int32 s x)
  | OVInt32 x, OctViaReader => Some (oct_wtr_write_int32 s x)
  | OVInt64 x, OctViaStream => Some (oct_write_int64 s x)
  | OVInt64 x, OctViaReader => Some (oct_wtr_write_int64 s x)
  | OV7Bit x, _ => oct_write_7bit s x
  | OVBytes l, _ => oct_write_bytes s l
  | OVString l, _ => oct_write_string s l
  | OVRaw l, _ => Some (oct_write s l)
  end.

(* the read call matching a value *)
Definition oct_op_of (a : oct_api) (x : oct_val) : oct_op :=
  match x with
  | OVBool _ => OpBool a
  | OVByte _ => OpByte a
  | OVInt16 _ => OpInt16 a
  | OVInt32 _ => OpInt32 a
  | OVInt64 _ => OpInt64 a
  | OV7Bit _ => Op7Bit
  | OVBytes _ => OpBytes
  | OVString _ => OpString
  | OVRaw l => OpRead (Z.of_nat (length l))
  end.

(* the value is a value of its Go type *)
Definition oct_val_ok (x : oct_val) : bool :=
  match x with
  | OVBool _ => true
  | OVByte x => (0 <=? x) && (x <? 256)
  | OVInt16 x => (- 2 ^ 15 <=? x) && (x <? 2 ^ 15)
  | OVInt32 x => (- 2 ^ 31 <=? x) && (x <? 2 ^ 31)
  | OVInt64 x => (- 2 ^ 63 <=? x) && (x <? 2 ^ 63)
  | OV7Bit x => (- 2 ^ 31 <=? x) && (x <? 2 ^ 31)
  | OVBytes l => Z.of_nat (length l) <? 2 ^ 31
  | OVString l => Z.of_nat (length l) <? 2 ^ 31
  | OVRaw l => (0 <? length l)%nat
  end.

Fixpoint oct_write_all (s : oct_stream) (xs : list (oct_api * oct_val)) : option oct_stream :=
  match xs with
  | [] => Some s
  | (a, x) :: r => match oct_write_val a s x with
                   | None => None
                   | Some s' => oct_write_all s' r
                   end
  end.

(* a sequence of read calls on one stream; every call is made, whatever the previous
   ones returned *)
Fixpoint oct_run_reads (v : oct_variant) (ops : list oct_op) (s : oct_stream) : list (oct_rd oct_val) :=
  match ops with
  | [] => []
  | op :: r => let x := oct_read_op v op s in x :: oct_run_reads v r (snd (fst x))
  end.

(* ------------------------------------------------------------------ entry points for the drivers *)

Definition oct_empty : oct_stream := {| oct_buf := []; oct_pos := 0 |}.

(* C11: write the values into an empty stream (len after each write), then read them back *)
Fixpoint oct_write_trace (s : oct_stream) (xs : list (oct_api * oct_val)) : option (list Z * oct_stream) :=
  match xs with
  | [] => Some ([], s)
  | (a, x) :: r =>
      match oct_write_val a s x with
      | None => None
      | Some s' => match oct_write_trace s' r with
                   | None => None
                   | Some (ls, s'') => Some (oct_len s' :: ls, s'')
                   end
      end
  end.

Definition oct_c11_case (xs : list (oct_api * oct_val)) : option (list Z * oct_stream * list (oct_rd oct_val)) :=
  match oct_write_trace oct_empty xs with
  | None => None
  | Some (ls, s) => Some (ls, s, oct_run_reads OctFixed (map (fun ax => oct_op_of (fst ax) (snd ax)) xs) s)
  end.

(* C12: arbitrary input bytes (stream filled by Write), arbitrary read calls *)
Definition oct_c12_case (v : oct_variant) (input : list Z) (ops : list oct_op) : list (oct_rd oct_val) :=
  oct_run_reads v ops (oct_write oct_empty input).

(* ------------------------------------------------------------------ interleaved use (C11) *)

(* copy(dst, src): n = min(len(dst), len(src)) elements of src (memmove semantics: the
   source is read as it was before the call, also when the two overlap) over dst[0:n] *)
Definition oct_copy (dst src : list Z) : list Z :=
  let n := Nat.min (length dst) (length src) in firstn n src ++ skipn n dst.

(* func (my *OctetsStream) Tidy():
     if my.position > 0 { copy(my.buffer, my.buffer[my.position:])
                          my.buffer = my.buffer[:len(my.buffer)-my.position]; my.position = 0 }
   None = a slice expression out of range (panic) *)
Definition oct_tidy (s : oct_stream) : option oct_stream :=
  if (0 <? oct_pos s)%nat then
    match oct_slice_from (oct_buf s) (oct_pos s) with
    | None => None
    | Some src =>
        let b1 := oct_copy (oct_buf s) src in
        match oct_slice b1 0 (oct_len s - oct_position s) with
        | None => None
        | Some b2 => Some {| oct_buf := b2; oct_pos := 0 |}
        end
    end
  else Some s.

(* a schedule step: the next write, the next read, Tidy() *)
Inductive oct_sop := OctSW | OctSR | OctST.

(* what a step shows: the stream after a write / after Tidy; Position() before a read and
   the read's result *)
Inductive oct_sobs :=
| OctObW (s : oct_stream)
| OctObR (p0 : nat) (r : oct_rd oct_val)
| OctObT (s : oct_stream).

(* run a schedule: [ws] the values still to be written (in order), [pend] the values
   written and not yet read (oldest first); a write takes the head of ws, a read is the
   call matching the head of pend.  None = a write ran out of fuel, Tidy panicked, or the
   schedule asks for a write with ws empty / a read with pend empty. *)
Fixpoint oct_run_sched (v : oct_variant) (sch : list oct_sop) (ws pend : list (oct_api * oct_val))
    (s : oct_stream) : option (list oct_sobs * oct_stream) :=
  match sch with
  | [] => Some ([], s)
  | OctSW :: r =>
      match ws with
      | [] => None
      | (a, x) :: ws' =>
          match oct_write_val a s x with
          | None => None
          | Some s1 =>
              match oct_run_sched v r ws' (pend ++ [(a, x)]) s1 with
              | None => None
              | Some (obs, s') => Some (OctObW s1 :: obs, s')
              end
          end
      end
  | OctSR :: r =>
      match pend with
      | [] => None
      | (a, x) :: pend' =>
          let rd := oct_read_op v (oct_op_of a x) s in
          match oct_run_sched v r ws pend' (snd (fst rd)) with
          | None => None
          | Some (obs, s') => Some (OctObR (oct_pos s) rd :: obs, s')
          end
      end
  | OctST :: r =>
      match oct_tidy s with
      | None => None
      | Some s1 =>
          match oct_run_sched v r ws pend s1 with
          | None => None
          | Some (obs, s') => Some (OctObT s1 :: obs, s')
          end
      end
  end.

(* FIFO discipline: at every prefix of the schedule #reads <= #writes (+ npend) and
   #writes <= nws *)
Fixpoint oct_fifo_from (sch : list oct_sop) (npend nws : nat) : bool :=
  match sch with
  | [] => true
  | OctSW :: r => match nws with O => false | S w => oct_fifo_from r (S npend) w end
  | OctSR :: r => match npend with O => false | S p => oct_fifo_from r p nws end
  | OctST :: r => oct_fifo_from r npend nws
  end.

(* schedules with Tidy: n values *)
Definition oct_fifo_sched_tidy (sch : list oct_sop) (n : nat) : bool := oct_fifo_from sch 0 n.

(* schedules of writes and reads only: true = next write, false = next read *)
Definition oct_sop_of_bool (b : bool) : oct_sop := if b then OctSW else OctSR.
Definition oct_fifo_sched (sch : list bool) (n : nat) : bool :=
  oct_fifo_from (map oct_sop_of_bool sch) 0 n.

Definition oct_sched_writes (sch : list oct_sop) : nat :=
  length (filter (fun o => match o with OctSW => true | _ => false end) sch).
Definition oct_sched_reads (sch : list oct_sop) : nat :=
  length (filter (fun o => match o with OctSR => true | _ => false end) sch).

(* the reads of an observation list: (Position() before, result) *)
Definition oct_obs_reads (obs : list oct_sobs) : list (nat * oct_rd oct_val) :=
  flat_map (fun o => match o with OctObR p r => [(p, r)] | _ => [] end) obs.

(* C11 interleaved case: the schedule on an empty stream *)
Definition oct_c11i_case (sch : list oct_sop) (xs : list (oct_api * oct_val)) : option (list oct_sobs * oct_stream) :=
  oct_run_sched OctFixed sch xs [] oct_empty.
