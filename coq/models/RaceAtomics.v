(* RaceAtomics.v -- the memory events of the steps of the loom.Flag / loom.AddIf64 model
   (models/Atomics.v, the machine C17 steps against loom/flag.go and loom/atomic.go).

   Every step of [at_step] is labelled with the memory events (lib/Race.v) of the code it stands
   for.  The semantics is NOT forked: [ra_step_pc] is a case analysis on the same pc / todo /
   word that [at_step_pc] inspects, the state advances by [at_step] itself, and
   RaceAtomicsProofs.ra_lrun_projects shows that the labelled run projects to [at_run].

   Sync object 0 = the shared int64 word (the Flag value / the target of AddIf64).
     atomic.LoadInt64(addr)                         = RAcq 0
     atomic.CompareAndSwapInt64(addr, ..) success   = RAcqRel 0
     atomic.CompareAndSwapInt64(addr, ..) failure   = RAcq 0   (an atomic read: observes, does not
                                                                publish; fewer edges than RAcqRel)
   The invocation steps and the local computation (last | flag, the predicate of AddIf64 - a
   closure over its own arguments) touch no shared location.  There is NO plain access: the
   race-freedom theorem for this component says exactly that (a trace without plain accesses has
   no conflicting pair), and the word is never reachable by a plain access of these functions.

   [plain] = true is a faulty variant used for the refutation only: AddFlag / RemoveFlag written
   as a plain read-modify-write (last := *addr ... *addr = next): the load is a plain read of
   the cell (location 0), the update a plain read followed, when the model's CAS succeeds, by a
   plain write.  HasFlag and AddIf64 stay atomic in the variant.

   Definitions only; proofs in proofs/RaceAtomicsProofs.v. *)
From Got Require Import Base Race RaceHB Atomics.
Local Open Scope nat_scope.

Definition ra_word : nat := 0.    (* sync object *)
Definition ra_cell : nat := 0.    (* location (faulty variant only) *)

Definition ra_load (plain : bool) : list rc_ev :=
  if plain then [RRead ra_cell] else [RAcq ra_word].
Definition ra_cas (plain ok : bool) : list rc_ev :=
  if plain then RRead ra_cell :: (if ok then [RWrite ra_cell] else [])
  else [if ok then RAcqRel ra_word else RAcq ra_word].

(* the events of the step of a thread parked at pc on word w; same case analysis as at_step_pc *)
Definition ra_step_pc (plain : bool) (w : Z) (pc : at_pc) (todo : list at_op) : list rc_ev :=
  match pc with
  | AIdle =>
      match todo with
      | AtHas _ :: _ => [RAcq ra_word]                 (* HasFlag: invocation, load, return *)
      | _ => []                                        (* invocation up to the first yield / nothing *)
      end
  | AFlagLoad _ _ => ra_load plain
  | AFlagCas _ _ last => ra_cas plain (w =? last)%Z
  | AIfLoad _ _ => [RAcq ra_word]
  | AIfCas _ _ expect => ra_cas false (w =? expect)%Z
  end.

Definition ra_events (plain : bool) (s : at_state) (i : nat) : list rc_ev :=
  match nth_error (at_threads s) i with
  | None => []
  | Some th => ra_step_pc plain (at_word s) (at_pcof th) (at_todo th)
  end.

(* the trace a schedule produces: the model state advances by at_step *)
Fixpoint ra_trace_gen (plain : bool) (s : at_state) (sched : list nat) : hb_trace :=
  match sched with
  | [] => []
  | i :: r => map (pair i) (ra_events plain s i) ++ ra_trace_gen plain (fst (at_step s i)) r
  end.

Definition ra_trace (s : at_state) (sched : list nat) : hb_trace := ra_trace_gen false s sched.

(* the labelled run: the run of at_run with the memory events of every step attached *)
Fixpoint ra_lrun (s : at_state) (sched : list nat) : at_state * list (nat * at_event * list rc_ev) :=
  match sched with
  | [] => (s, [])
  | i :: rest =>
      let '(s1, ev) := at_step s i in
      let '(s2, tr) := ra_lrun s1 rest in
      (s2, (i, ev, ra_events false s i) :: tr)
  end.

Definition ra_flatten (l : list (nat * at_event * list rc_ev)) : hb_trace :=
  flat_map (fun x => map (pair (fst (fst x))) (snd x)) l.

(* the access-table rows the labelling was read off *)
From Coq Require Import String.
From Got Require Import RaceInst.
Local Open Scope string_scope.
Definition ra_rows : list string := [
  "loom/flag.go:Flag.AddFlag|for{ A:LoadInt64:addr if( A:CompareAndSwapInt64:addr ){ } }";
  "loom/flag.go:Flag.RemoveFlag|for{ A:LoadInt64:addr if( A:CompareAndSwapInt64:addr ){ } }";
  "loom/flag.go:Flag.HasFlag|A:LoadInt64:addr ret";
  "loom/atomic.go:AddIf64|if( ){ ret } for{ A:LoadInt64:addr if( C:predicate ){ ret } if( A:CompareAndSwapInt64:addr ){ ret } }"
].
Definition ra_rows_in_table : bool :=
  forallb (fun r => existsb (String.eqb r) ri_access_table) ra_rows.
