(* Fifo.v -- abstract specification of a seekable FIFO byte stream (C13).
   State: the retained bytes and a read cursor inside them. The unread portion is
   [skipn cur retained]. Compaction is the ONLY operation that may drop the consumed
   prefix [firstn cur retained]; it is mandatory for Tidy and optional (flag [c]) in front
   of Write / Grow ("the buffer's own growth"). Seek arithmetic is over unbounded Z. *)
From Got Require Import Base.

Record fifo := mk_fifo { f_ret : list Z; f_cur : nat }.

Definition fifo_init : fifo := mk_fifo [] 0.
Definition fifo_unread (f : fifo) : list Z := skipn (f_cur f) (f_ret f).
Definition fifo_compact (f : fifo) : fifo := mk_fifo (skipn (f_cur f) (f_ret f)) 0.

Inductive fifo_op :=
| FWrite (p : list Z)
| FRead (n : nat)
| FSeek (offset whence : Z)
| FTidy
| FReset
| FGrow.

Inductive fifo_ret :=
| FRData (d : list Z)
| FRSeek (r : option Z)
| FRUnit.

(* io.SeekStart = 0, io.SeekCurrent = 1, io.SeekEnd = 2; anything else is invalid.
   The target must lie inside the retained data: 0 <= target <= length retained. *)
Definition fifo_seek_target (f : fifo) (offset whence : Z) : option Z :=
  let len := Z.of_nat (length (f_ret f)) in
  let base := if whence =? 0 then Some 0
              else if whence =? 1 then Some (Z.of_nat (f_cur f))
              else if whence =? 2 then Some len
              else None in
  match base with
  | None => None
  | Some b => let t := b + offset in
              if (0 <=? t) && (t <=? len) then Some t else None
  end.

Definition fifo_step (c : bool) (f : fifo) (op : fifo_op) : fifo * fifo_ret :=
  match op with
  | FWrite p =>
      let f1 := if c then fifo_compact f else f in
      (mk_fifo (f_ret f1 ++ p) (f_cur f1), FRUnit)
  | FGrow => (if c then fifo_compact f else f, FRUnit)
  | FRead n =>
      let d := firstn n (fifo_unread f) in
      (mk_fifo (f_ret f) (f_cur f + length d), FRData d)
  | FSeek offset whence =>
      match fifo_seek_target f offset whence with
      | Some t => (mk_fifo (f_ret f) (Z.to_nat t), FRSeek (Some t))
      | None => (f, FRSeek None)
      end
  | FTidy => (fifo_compact f, FRUnit)
  | FReset => (fifo_init, FRUnit)
  end.

Fixpoint fifo_run (f : fifo) (l : list (bool * fifo_op)) : fifo * list fifo_ret :=
  match l with
  | [] => (f, [])
  | (c, op) :: tl =>
      let '(f1, r) := fifo_step c f op in
      let '(f2, rs) := fifo_run f1 tl in
      (f2, r :: rs)
  end.

(* ghost bookkeeping used by the theorems *)
Fixpoint fifo_written (acc : list Z) (l : list (bool * fifo_op)) : list Z :=
  match l with
  | [] => acc
  | (_, FWrite p) :: tl => fifo_written (acc ++ p) tl
  | (_, FReset) :: tl => fifo_written [] tl
  | _ :: tl => fifo_written acc tl
  end.

Definition fifo_all_writes (l : list (bool * fifo_op)) : list Z :=
  flat_map (fun co => match snd co with FWrite p => p | _ => [] end) l.

Definition fifo_all_reads (rs : list fifo_ret) : list Z :=
  flat_map (fun r => match r with FRData d => d | _ => [] end) rs.

Definition fifo_op_linear (op : fifo_op) : bool :=
  match op with FSeek _ _ | FReset => false | _ => true end.
