(* RaceWaitClose.v -- the memory events of the steps of the loom.WaitClose model
   (models/WaitClose.v).

   Every step of [wc_step] (= the code between two yield points of loom/wait_close.go) is
   labelled with the memory events (lib/Race.v) that code performs, in source order.

   Sync objects:  0 = the word wc.state as an atomic object, 1 = wc.mutex.
   Locations:     0 = the word wc.state as a memory cell, 1 = the field wc.closeChan.

   atomic.LoadInt32(&wc.state)       = RAcq 0
   atomic.StoreInt32(&wc.state, v)   = RWrite 0; RRel 0     wc.state is ALSO read plainly
        (Close and checkInitSlow test "wc.state" without atomic): the race detector reports a
        plain access that is concurrent with an atomic WRITE of the same word, so an atomic
        store is a write of the cell as well as a release.  (An atomic load conflicts with
        no plain READ and with no atomic store, so it is an acquire only; the code contains
        no plain write of wc.state.)
   wc.mutex.Lock() / Unlock()        = RAcq 1 / RRel 1
   "wcClosed != wc.state", "wcInitialized == wc.state", "wcNew == wc.state" (under the mutex)
                                     = RRead 0
   wc.closeChan = ... (checkInitSlow, Close)                     = RWrite 1
   close(wc.closeChan) (Close), return wc.closeChan (C), case <-wc.closeChan (WaitUtil)
                                     = RRead 1    (the channel operations themselves - close,
        receive - synchronise too; they are NOT used: fewer happens-before edges)
   The callback of Close, the timer and the select of WaitUtil touch no field of wc.

   Definitions only; proofs in proofs/RaceWaitCloseProofs.v. *)
From Got Require Import Base Race RaceHB WaitClose.
Local Open Scope nat_scope.

Definition rw_state : nat := 0.    (* sync object *)
Definition rw_mutex : nat := 1.    (* sync object *)
Definition rw_xstate : nat := 0.   (* location *)
Definition rw_xchan : nat := 1.    (* location *)

(* deferred: atomic.StoreInt32(&wc.state, wcClosed); wc.mutex.Unlock() *)
Definition rw_store_unlock : list rc_ev := [RWrite rw_xstate; RRel rw_state; RRel rw_mutex].

(* the events of the step of a thread parked at pc; same case analysis as wc_step_pc *)
Definition rw_step_pc (g : wc_shared) (tmo : bool) (pc : wc_pc) : list rc_ev :=
  if tmo then []
  else
  match pc with
  | WIdle => []
  | WK1 _ => [RAcq rw_state]
  | WK2 _ | WC2 _ =>
      match sh_own g with
      | Some _ => []                                    (* blocked *)
      | None => [RAcq rw_mutex]
      end
  | WK3 cb =>
      RRead rw_xstate ::                                (* if wcClosed != wc.state *)
      (if wc_is_closed_st (sh_st g) then [RRel rw_mutex]
       else
         RRead rw_xstate ::                             (* if wcInitialized == wc.state *)
         (match sh_st g with
          | WInit => RRead rw_xchan                     (* close(wc.closeChan) *)
          | _ => RWrite rw_xchan                        (* wc.closeChan = globalClosedChan *)
          end) ::
         match wc_perform g with
         | None => [RRel rw_mutex]                      (* close() panicked: deferred Unlock *)
         | Some _ =>
             match cb with
             | Cb _ true => []                          (* the callback yields: mutex still held *)
             | _ => rw_store_unlock
             end
         end)
  | WK4 _ => rw_store_unlock
  | WK6 _ => []
  | WC1 _ =>
      RAcq rw_state ::
      (if wc_is_new_st (sh_st g) then [] else [RRead rw_xchan])
  | WC3 _ =>
      RRead rw_xstate ::                                (* if wcNew == wc.state *)
      (if wc_is_new_st (sh_st g) then [RWrite rw_xchan; RWrite rw_xstate; RRel rw_state] else [])
      ++ [RRel rw_mutex]
  | WC4 _ => [RRead rw_xchan]
  | WI1 => [RAcq rw_state]
  | WWait _ => []
  end.

Definition rw_step (s : wc_state) (it : wc_item) : list rc_ev :=
  match nth_error (wc_threads s) (wc_item_tid it) with
  | None => []
  | Some th =>
      rw_step_pc (wc_sh s) (match it with ITimeout _ => true | IRun _ => false end) (wc_pcof th)
  end.

(* the trace a schedule produces: the model state advances by wc_step *)
Fixpoint rw_trace (s : wc_state) (sched : list wc_item) : hb_trace :=
  match sched with
  | [] => []
  | it :: r => map (pair (wc_item_tid it)) (rw_step s it) ++ rw_trace (fst (wc_step s it)) r
  end.
