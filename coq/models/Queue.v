(* Queue.v -- executable small-step model of loom.Queue (loom/queue.go), the
   Michael-Scott lock-free queue.  One model step = one call of queueLoad/queueCas (the
   only shared-memory accesses; each has a verif yield point at its top) plus the local
   computation up to the next such call.  An extra step per operation is the invocation
   (the thread runs from the call to its first shared access).

   Pointers.  Nodes are garbage collected, never reused, and node.next is CASed from nil
   exactly once, so the linked list is the list [q_chain] of values in link order
   (q_chain[0] is the initial dummy) and a node pointer is its position in the chain.
   "p.next" is [S p] when [S p < length q_chain], nil otherwise.  The private node of a
   pusher is not in the chain until its link CAS succeeds.  (Modelled, not verified:
   DESIGN.md section 7.)

   Definitions only; proofs are in proofs/QueueProofs.v. *)
From Got Require Import Base.
Local Open Scope nat_scope.

Inductive q_op := QPush (v : Z) | QPop.

(* result of an operation *)
Inductive q_res := QRPush | QRPop (v : option Z).

(* program counter with locals; the pc names the NEXT shared access of the thread *)
Inductive q_pc :=
| QIdle                                   (* between operations *)
| QP1 (v : Z)                             (* Push: tail := load q.tail *)
| QP2 (v : Z) (t : nat)                   (* next := load tail.next *)
| QP3 (v : Z) (t : nat) (nx : bool)       (* tail == load q.tail ?   nx: next != nil *)
| QP4 (v : Z) (t : nat)                   (* CAS(tail.next, nil, n) *)
| QP5 (v : Z) (t : nat)                   (* CAS(q.tail, tail, next): help, then retry *)
| QP6 (t : nat)                           (* CAS(q.tail, tail, n); return *)
| QD1                                     (* Pop: head := load q.head *)
| QD2 (h : nat)                           (* tail := load q.tail *)
| QD3 (h t : nat)                         (* next := load head.next *)
| QD4 (h t : nat) (nx : bool)             (* head == load q.head ? *)
| QD5 (h t : nat)                         (* CAS(q.tail, tail, next): help, then retry *)
| QD6 (h : nat) (v : Z)                   (* CAS(q.head, head, next); v = next.value *)
| QDead.                                  (* nil dereference (never reached: q_no_panic) *)

Record q_thread := { q_pcof : q_pc; q_todo : list q_op }.

Record q_state := {
  q_chain : list Z;      (* values in link order, position 0 = initial dummy *)
  q_hi : nat;            (* q.head *)
  q_ti : nat;            (* q.tail *)
  q_threads : list q_thread
}.

(* what a step does, for the history and the linearization argument *)
Inductive q_event :=
| QEInv (o : q_op)            (* invocation *)
| QEInt                       (* internal step, abstract queue unchanged *)
| QECand                      (* Pop read head.next = nil: abstract queue empty now *)
| QELinPush (v : Z)           (* successful link CAS: linearization point of Push v *)
| QERetPush                   (* Push returns *)
| QELinRetPop (v : Z)         (* successful head CAS: linearization point and return of Pop *)
| QERetEmpty                  (* Pop returns nil *)
| QEPanic                     (* nil dereference *)
| QENone.                     (* thread finished or unknown: state unchanged *)

Definition q_abs (s : q_state) : list Z := skipn (S (q_hi s)) (q_chain s).

Definition q_init_chain (pre : list Z) : list Z := 0%Z :: pre.

(* a queue that already holds [pre] (pushed sequentially), and one program per thread *)
Definition q_init (pre : list Z) (progs : list (list q_op)) : q_state :=
  {| q_chain := q_init_chain pre; q_hi := 0; q_ti := length pre;
     q_threads := map (fun p => {| q_pcof := QIdle; q_todo := p |}) progs |}.

Definition q_set_thread (s : q_state) (i : nat) (th : q_thread) : list q_thread :=
  firstn i (q_threads s) ++ th :: skipn (S i) (q_threads s).

Definition q_has_next (s : q_state) (p : nat) : bool := S p <? length (q_chain s).

(* one step of a thread with pc [pc]: new shared state components, new pc, event *)
Definition q_step_pc (s : q_state) (pc : q_pc) (todo : list q_op)
  : list Z * nat * nat * q_pc * list q_op * q_event :=
  let ch := q_chain s in let hi := q_hi s in let ti := q_ti s in
  match pc with
  | QIdle =>
      match todo with
      | [] => (ch, hi, ti, QIdle, [], QENone)
      | QPush v :: rest => (ch, hi, ti, QP1 v, rest, QEInv (QPush v))
      | QPop :: rest => (ch, hi, ti, QD1, rest, QEInv QPop)
      end
  | QP1 v => (ch, hi, ti, QP2 v ti, todo, QEInt)
  | QP2 v t => (ch, hi, ti, QP3 v t (q_has_next s t), todo, QEInt)
  | QP3 v t nx =>
      if t =? ti then (ch, hi, ti, (if nx then QP5 v t else QP4 v t), todo, QEInt)
      else (ch, hi, ti, QP1 v, todo, QEInt)
  | QP4 v t =>
      if q_has_next s t then (ch, hi, ti, QP1 v, todo, QEInt)          (* CAS fails *)
      else (ch ++ [v], hi, ti, QP6 t, todo, QELinPush v)               (* linked *)
  | QP5 v t =>
      (ch, hi, (if t =? ti then S t else ti), QP1 v, todo, QEInt)
  | QP6 t =>
      (ch, hi, (if t =? ti then S t else ti), QIdle, todo, QERetPush)
  | QD1 => (ch, hi, ti, QD2 hi, todo, QEInt)
  | QD2 h => (ch, hi, ti, QD3 h ti, todo, QEInt)
  | QD3 h t =>
      let nx := q_has_next s h in
      (ch, hi, ti, QD4 h t nx, todo, if nx then QEInt else QECand)
  | QD4 h t nx =>
      if h =? hi then
        if h =? t then
          if nx then (ch, hi, ti, QD5 h t, todo, QEInt)
          else (ch, hi, ti, QIdle, todo, QERetEmpty)
        else
          (* v := next.value : nil dereference if next = nil *)
          if nx then (ch, hi, ti, QD6 h (nth (S h) ch 0%Z), todo, QEInt)
          else (ch, hi, ti, QDead, todo, QEPanic)
      else (ch, hi, ti, QD1, todo, QEInt)
  | QD5 h t =>
      (ch, hi, (if t =? ti then S t else ti), QD1, todo, QEInt)
  | QD6 h v =>
      if h =? hi then (ch, S h, ti, QIdle, todo, QELinRetPop v)
      else (ch, hi, ti, QD1, todo, QEInt)
  | QDead => (ch, hi, ti, QDead, todo, QENone)
  end.

Definition q_step (s : q_state) (i : nat) : q_state * q_event :=
  match nth_error (q_threads s) i with
  | None => (s, QENone)
  | Some th =>
      match q_step_pc s (q_pcof th) (q_todo th) with
      | (ch, hi, ti, pc', todo', ev) =>
          ({| q_chain := ch; q_hi := hi; q_ti := ti;
              q_threads := q_set_thread s i {| q_pcof := pc'; q_todo := todo' |} |}, ev)
      end
  end.

(* run a schedule; the trace has one (thread, event) entry per scheduled step *)
Fixpoint q_run (s : q_state) (sched : list nat) : q_state * list (nat * q_event) :=
  match sched with
  | [] => (s, [])
  | i :: rest =>
      let '(s1, ev) := q_step s i in
      let '(s2, tr) := q_run s1 rest in
      (s2, (i, ev) :: tr)
  end.

Definition q_final (s : q_state) (sched : list nat) : q_state := fst (q_run s sched).
Definition q_trace (s : q_state) (sched : list nat) : list (nat * q_event) := snd (q_run s sched).

(* a thread is busy when it is inside an operation *)
Definition q_busy_pc (pc : q_pc) : bool :=
  match pc with QIdle | QDead => false | _ => true end.
Definition q_busy (s : q_state) (i : nat) : bool :=
  match nth_error (q_threads s) i with Some th => q_busy_pc (q_pcof th) | None => false end.
(* a thread can still take a step that does something *)
Definition q_enabled (s : q_state) (i : nat) : bool :=
  match nth_error (q_threads s) i with
  | Some th => match q_pcof th, q_todo th with
               | QIdle, [] => false | QDead, _ => false | _, _ => true end
  | None => false
  end.

(* kind of the shared access a thread is parked at (what the harness observes as the
   yield site): 0 = none (idle/finished), 1 = load, 2 = CAS *)
Definition q_site_pc (pc : q_pc) : nat :=
  match pc with
  | QIdle | QDead => 0
  | QP1 _ | QP2 _ _ | QP3 _ _ _ | QD1 | QD2 _ | QD3 _ _ | QD4 _ _ _ => 1
  | QP4 _ _ | QP5 _ _ | QP6 _ | QD5 _ _ | QD6 _ _ => 2
  end.
Definition q_site (s : q_state) (i : nat) : nat :=
  match nth_error (q_threads s) i with Some th => q_site_pc (q_pcof th) | None => 0 end.

(* solo run: k consecutive steps of thread i; returns the number of steps after which
   the thread's current operation returned (None: not within k steps) *)
Fixpoint q_solo (k : nat) (s : q_state) (i : nat) : option nat :=
  match k with
  | O => None
  | S k' =>
      let '(s1, ev) := q_step s i in
      match ev with
      | QERetPush | QELinRetPop _ | QERetEmpty => Some 1
      | _ => match q_solo k' s1 i with Some n => Some (S n) | None => None end
      end
  end.

(* variant without the helping branches (documentation of C02: q_no_help_refuted):
   P5/D5 do not touch the tail *)
Definition q_step_nohelp (s : q_state) (i : nat) : q_state * q_event :=
  match nth_error (q_threads s) i with
  | None => (s, QENone)
  | Some th =>
      match q_pcof th with
      | QP5 v t => ({| q_chain := q_chain s; q_hi := q_hi s; q_ti := q_ti s;
                       q_threads := q_set_thread s i {| q_pcof := QP1 v; q_todo := q_todo th |} |}, QEInt)
      | QD5 h t => ({| q_chain := q_chain s; q_hi := q_hi s; q_ti := q_ti s;
                       q_threads := q_set_thread s i {| q_pcof := QD1; q_todo := q_todo th |} |}, QEInt)
      | _ => q_step s i
      end
  end.
Fixpoint q_solo_nohelp (k : nat) (s : q_state) (i : nat) : option nat :=
  match k with
  | O => None
  | S k' =>
      let '(s1, ev) := q_step_nohelp s i in
      match ev with
      | QERetPush | QELinRetPop _ | QERetEmpty => Some 1
      | _ => match q_solo_nohelp k' s1 i with Some n => Some (S n) | None => None end
      end
  end.
