(* SampleProb.v -- the IDEAL, real-valued model of the random keys of
   randx.WeightedSampling (randx/sample.go).  Definitions only (prefix sp_).  Proof-only
   file: nothing here is extracted (no .ext entry), the reals are not executable.

   The code draws u_j = rand.Float64 for every item j and computes the float64 key
       k_j = lnWeight(w_j) - math.Log(-math.Log(u_j))
   (sp_gumbel_key below, over R).  It is a strictly increasing function of
       ln u_j / w_j                          (sp_key)
   which in turn is the logarithm of the key u_j^(1/w_j) of algorithm A-Res of
   Efraimidis and Spirakis (sp_ares_key).  models/Sample.v takes only the ORDER of the keys
   as input and proves that with sampleNum = 1 the returned index is the arg-max key.
   This file models the other half: u_0 .. u_(n-1) independent and uniform on the open
   unit interval, every computation exact in R.

   NOT modelled (stays with the statistical test of vlib/c20.py): float64 rounding of the
   keys, math.Log, the generator (math/rand Float64 is uniform on a grid of 2^53 points and
   can return 0), ties between keys (a null set here, possible on the grid). *)
Require Import Reals ZArith.
From Coquelicot Require Import Coquelicot.
Require Import List.
Import ListNotations.
Local Open Scope R_scope.

(* ---- keys ---- *)
Definition sp_key (u w : R) : R := ln u / w.
Definition sp_ares_key (u w : R) : R := Rpower u (1 / w).
Definition sp_gumbel_key (u w : R) : R := ln w - ln (- ln u).

(* ---- the event "index i has the strictly largest key" ---- *)
Definition sp_wins (us ws : list R) (i : nat) : Prop :=
  forall j, (j < length ws)%nat -> j <> i ->
    sp_key (nth j us 0) (nth j ws 0) < sp_key (nth i us 0) (nth i ws 0).

(* the integer ranks handed to the executable model (models/Sample.v takes the key
   sequence as key : nat -> Z) order the items exactly as the ideal keys do *)
Definition sp_ranks_agree (key : nat -> Z) (us ws : list R) : Prop :=
  forall a b, (a < length ws)%nat -> (b < length ws)%nat ->
    ((key a < key b)%Z <->
     sp_key (nth a us 0) (nth a ws 0) < sp_key (nth b us 0) (nth b ws 0)).

Definition sp_no_ties (us ws : list R) : Prop :=
  forall a b, (a < length ws)%nat -> (b < length ws)%nat -> a <> b ->
    sp_key (nth a us 0) (nth a ws 0) <> sp_key (nth b us 0) (nth b ws 0).

Definition sp_pos (ws : list R) : Prop := Forall (fun w => 0 < w) ws.
Definition sp_unit (us : list R) : Prop := Forall (fun u => 0 < u < 1) us.

(* ---- finite sums and products, the weights of the competitors of i ---- *)
Definition sp_sum (l : list R) : R := fold_right Rplus 0 l.
Definition sp_prod (l : list R) : R := fold_right Rmult 1 l.
Definition sp_others (ws : list R) (i : nat) : list R := firstn i ws ++ skipn (S i) ws.

(* ---- P(i wins), sampleNum = 1 ----
   Conditional on u_i = u the competitor j loses iff u_j lies in the interval
   (0, u^(w_j/w_i)) (sp_lose_interval in the proofs), an event of probability u^(w_j/w_i)
   for a uniform u_j; the competitors are independent, so the conditional probability that
   all of them lose is the product; integrating over u_i gives: *)
Definition sp_integrand (ws : list R) (i : nat) (u : R) : R :=
  sp_prod (map (fun wj => Rpower u (wj / nth i ws 0)) (sp_others ws i)).
Definition sp_win_prob (ws : list R) (i : nat) : R := RInt (sp_integrand ws i) 0 1.

(* ---- the same probability as an iterated integral of the indicator of the event ----
   indicator of a strict inequality between reals *)
Definition sp_lt_ind (a b : R) : R := if Rlt_dec a b then 1 else 0.

(* indicator of "u (weight wi) beats every v_j (weight w_j)", vs and wo in step *)
Fixpoint sp_beats_ind (u wi : R) (vs wo : list R) : R :=
  match vs, wo with
  | v :: vs', wj :: wo' => sp_lt_ind (sp_key v wj) (sp_key u wi) * sp_beats_ind u wi vs' wo'
  | _, _ => 1
  end.

(* [sp_is_iint n f l]: l is the iterated integral of f over the n-dimensional unit cube,
   first coordinate outermost.  The inner integral has to exist for the interior points
   of the outer range only (the two end points are a null set). *)
Fixpoint sp_is_iint (n : nat) (f : list R -> R) (l : R) : Prop :=
  match n with
  | O => f [] = l
  | S m => exists g : R -> R,
             (forall x, 0 < x < 1 -> sp_is_iint m (fun t => f (x :: t)) (g x)) /\
             is_RInt g 0 1 l
  end.

(* P(i wins) as the (1 + number of competitors)-dimensional iterated integral of the
   indicator: u_i outermost, then the competitors in list order *)
Definition sp_is_win_prob_ind (ws : list R) (i : nat) (p : R) : Prop :=
  sp_is_iint (S (length (sp_others ws i)))
    (fun t => match t with
              | u :: vs => sp_beats_ind u (nth i ws 0) vs (sp_others ws i)
              | [] => 0
              end) p.

(* ---- sampleNum = 2: "i has the largest key and j the second largest" ----
   (the first two picks of weighted sampling WITHOUT replacement: i is drawn with
   probability w_i / W, then j among the rest with probability w_j / (W - w_i)) *)
Definition sp_wins2 (us ws : list R) (i j : nat) : Prop :=
  sp_key (nth j us 0) (nth j ws 0) < sp_key (nth i us 0) (nth i ws 0) /\
  forall l, (l < length ws)%nat -> l <> i -> l <> j ->
    sp_key (nth l us 0) (nth l ws 0) < sp_key (nth j us 0) (nth j ws 0).

(* the weights of the items other than i and j *)
Definition sp_others2 (ws : list R) (i j : nat) : list R :=
  sp_others (sp_others ws i) (if (j <? i)%nat then j else pred j).

(* indicator of the event on the rearranged draw  u_i :: u_j :: the others *)
Definition sp_pair_ind (wi wj : R) (wo : list R) (t : list R) : R :=
  match t with
  | u :: v :: xs => sp_lt_ind (sp_key v wj) (sp_key u wi) * sp_beats_ind v wj xs wo
  | _ => 0
  end.

Definition sp_is_pair_prob_ind (ws : list R) (i j : nat) (p : R) : Prop :=
  sp_is_iint (S (S (length (sp_others2 ws i j))))
             (sp_pair_ind (nth i ws 0) (nth j ws 0) (sp_others2 ws i j)) p.

(* the same with the integrals over the other items already replaced by the product of
   the interval lengths v^(w_l/w_j): a double integral *)
Definition sp_pair_prob (ws : list R) (i j : nat) : R :=
  RInt (fun u =>
    RInt (fun v => sp_lt_ind (sp_key v (nth j ws 0)) (sp_key u (nth i ws 0)) *
                   sp_prod (map (fun wl => Rpower v (wl / nth j ws 0)) (sp_others2 ws i j)))
         0 1) 0 1.
