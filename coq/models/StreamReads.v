(* StreamReads.v -- ONE iox.OctetsStream used first through its stream operations (Write,
   Read, Seek, Tidy, Reset: model StreamOps.v, C13) and then through the typed readers
   (OctetsStream.ReadByte ... / OctetsReader: model Octets.v, C11/C12).

   The two models describe the same Go struct {buffer []byte; position int} with different
   carriers for the position (StreamOps: Z, because the original Seek could store any
   non-negative int64; Octets: nat). [brg_oct] / [brg_stm] translate a state of one into the
   state of the other; proofs/OctetsBridge.v shows that the operations both models have are
   the same function under this translation.  Definitions only. *)
From Got Require Import Base GoSlice StreamOps Octets.
Local Open Scope Z_scope.

(* same bytes, same position (a negative position has no Octets counterpart; no run of
   either Seek variant produces one: OctetsBridge.brg_run_pos_nonneg) *)
Definition brg_oct (s : stm_state) : oct_stream :=
  {| oct_buf := st_buf s; oct_pos := Z.to_nat (st_pos s) |}.
Definition brg_stm (o : oct_stream) : stm_state := mk_stm (oct_buf o) (oct_position o).

(* the per-op trace of StreamOps.stm_trace (return value, Bytes(), Len(), Position() after
   every op), but: a panicking Bytes() does not end the run (only a panicking op does), and
   the state reached is returned *)
Fixpoint brg_trace (sv : stm_variant) (s : stm_state) (ops : list stm_op) : list stm_line * option stm_state :=
  match ops with
  | [] => ([], Some s)
  | op :: tl =>
      match stm_step sv s op with
      | Ok (s1, r) =>
          let t := brg_trace sv s1 tl in
          (SLObs r (stm_bytes s1) (stm_len s1) (stm_position s1) :: fst t, snd t)
      | _ => ([SLPanic], None)
      end
  end.

(* c12s case: the stream ops on the empty stream, then the typed read calls on the state
   reached.  None = an op panicked (no state), or the position is negative *)
Definition brg_case (sv : stm_variant) (v : oct_variant) (ops : list stm_op) (rops : list oct_op)
    : list stm_line * option (list (oct_rd oct_val)) :=
  let t := brg_trace sv stm_init ops in
  (fst t,
   match snd t with
   | Some s => if 0 <=? st_pos s then Some (oct_run_reads v rops (brg_oct s)) else None
   | None => None
   end).

(* ---------------------------------------------------------------- alternating use
   segments of stream operations and segments of typed read calls, in turn, on one stream.
   Observed: the trace of every stream-op segment; the results of every read segment and
   Bytes() after it.  The run ends at a panicking stream op (or at a negative position,
   which no run produces). *)
Inductive brg_seg := BrgOps (ops : list stm_op) | BrgReads (rops : list oct_op).
Inductive brg_seg_obs :=
| BrgOpsObs (t : list stm_line)
| BrgReadsObs (rs : list (oct_rd oct_val)) (bytes : res (list Z) unit).

(* the stream after a sequence of read calls *)
Fixpoint brg_after_reads (o : oct_stream) (rs : list (oct_rd oct_val)) : oct_stream :=
  match rs with [] => o | (_, o', _) :: tl => brg_after_reads o' tl end.

Fixpoint brg_phases (sv : stm_variant) (v : oct_variant) (s : stm_state) (segs : list brg_seg) : list brg_seg_obs :=
  match segs with
  | [] => []
  | BrgOps ops :: tl =>
      let t := brg_trace sv s ops in
      BrgOpsObs (fst t) :: match snd t with Some s1 => brg_phases sv v s1 tl | None => [] end
  | BrgReads rops :: tl =>
      if 0 <=? st_pos s then
        let rs := oct_run_reads v rops (brg_oct s) in
        let s1 := brg_stm (brg_after_reads (brg_oct s) rs) in
        BrgReadsObs rs (stm_bytes s1) :: brg_phases sv v s1 tl
      else []
  end.

