(* Ants.v -- executable timed event-machine model of the goroutine pool in /repo/ants
   (pool.go, pool_impl.go, task_callback_ants.go, task_discard.go, task_option.go).

   A pool of size N has N dispatch goroutines (goDispatchTask), N inner workers
   (goDispatchInnerCallback), a task channel and an inner-callback channel of capacity N.
   The model is a nondeterministic machine [an_step cfg s e]: the event [e] says what the Go
   runtime resolved (a task was sent, a dispatcher picked a task, a dispatcher got its
   callback into the inner channel, an inner worker started the handler of (task, attempt),
   the handler returned, the callback published its pair, the dispatcher's select fired on
   doneChan or on ctx1.Done(), Get2 read the fields, the clock advanced); the step is
   [None] when the code cannot do that in state [s].  Theorems quantify over all event
   lists.  Scripted per-attempt handler behaviour (duration, honours ctx?, returned pair)
   travels with the Send event, so it is universally quantified as well.

   Switches: [an_pub] = AnAttemptChannel is the code in /repo now (fix d4c0a4b: the
   attempt's pair travels over a per-attempt buffered channel, only the dispatcher writes
   result/err); AnSharedFields is the code before it (the callback stores into the shared
   fields, then closes doneChan).  [an_urg] = true adds maximal progress: the clock
   advances by dt > 0 only if no instantaneous step is enabled and no due time is passed.

   Granularity.  One event per channel operation / select of the pool.  The dispatcher's
   "store result, test err == nil, retry or onError, wg.Done" after its select is one
   step: with AnAttemptChannel nobody else touches result/err before wg.Done, so nothing
   can interleave (for AnSharedFields this only removes interleavings).  Channels are FIFO
   lists; a direct hand-off to a waiting receiver is "append, then the receiver's step".
   Go's channel/WaitGroup/context-deadline semantics are modelled, not verified.

   Parent context (pool_option.go WithContextBuilder): every dispatcher goroutine gets a parent
   context and runTaskOnce derives ctx1 = context.WithTimeout(parent, T) from it.  The model has
   ONE parent shared by all dispatchers; the input event [AnParentCancel] cancels it ([an_pc] =
   the instant).  The instant at which a ctx1 created at c is done is then [an_dl s (c + T)] =
   min(c + T, cancel instant): after the cancellation every attempt's context is done at creation,
   so the dispatcher's select can take the ctx1.Done() branch as soon as it looks (AnDecide
   viaDone=false) or doneChan if the callback published first (tie order is the [viaDone] input
   as for ordinary deadline ties); the callback's own ctx1.Done() test sees it done ([saw]); an
   honouring handler returns (nil, context.Canceled) at once.  The deadline [d] stored with a
   queued callback / running handler is this EFFECTIVE done-instant of its ctx1 (AnParentCancel
   lowers it to the cancel instant).  The code stores context.DeadlineExceeded in both places
   whatever ctx1.Err() is, so a decided pair never carries AnCanceled.

   Definitions only; proofs are in proofs/AntsProofs.v. *)
From Got Require Import Base.
Local Open Scope Z_scope.

Inductive an_publish := AnSharedFields | AnAttemptChannel.

(* errors: nil, a handler error, context.DeadlineExceeded, errDiscard, context.Canceled *)
Inductive an_err := AnNil | AnE (id : Z) | AnDeadline | AnDiscard | AnCanceled.
Definition an_pair := (option Z * an_err)%type.      (* (result, err); None = nil result *)

Definition an_is_nil (e : an_err) : bool := match e with AnNil => true | _ => false end.

(* scripted behaviour of one handler invocation *)
Record an_beh := { ab_dur : Z; ab_honours : bool; ab_val : option Z; ab_err : an_err }.

(* effective task options (createTaskOptions: timeout > 0, retry > 0) + one behaviour per attempt *)
Record an_opts := { ao_T : Z; ao_R : nat; ao_discard : bool; ao_onerr : bool; ao_behs : list an_beh }.

Definition an_beh_default : an_beh := {| ab_dur := 0; ab_honours := true; ab_val := None; ab_err := AnNil |}.
Definition an_beh_of (o : an_opts) (a : nat) : an_beh := nth (a - 1) (ao_behs o) an_beh_default.

(* a handler started at s with ctx deadline d: when it returns and what it returns.
   An ignoring handler sleeps dur; an honouring one waits for min(timer dur, ctx.Done()) and
   returns (nil, ctx.Err()) when cancelled; ce = ctx.Err() once ctx1 is done (DeadlineExceeded, or
   Canceled when the parent context was cancelled before the deadline). *)
Definition an_cut (b : an_beh) (s d : Z) : bool := ab_honours b && (d <? s + ab_dur b).
Definition an_due (b : an_beh) (s d : Z) : Z := if an_cut b s d then Z.max s d else s + ab_dur b.
Definition an_hpair (ce : an_err) (b : an_beh) (s d : Z) : an_pair :=
  if an_cut b s d then (None, ce) else (ab_val b, ab_err b).

Inductive an_phase :=
| AnUnsent
| AnQueued                      (* accepted: in the task channel or its sender is blocked on it *)
| AnEnq (a : nat) (c : Z)       (* runTaskOnce of attempt a: ctx1 created at c, sendInnerCallback pending *)
| AnWait (a : nat) (c : Z)      (* callback enqueued; select { doneChan | ctx1.Done() } *)
| AnDone                        (* run returned: wg.Done() executed *)
| AnDiscarded.                  (* rejected as busy: taskDiscard *)

(* handler return record: attempt, returned pair, callback saw ctx1 done, time, ctx deadline *)
Definition an_retrec := (nat * an_pair * bool * Z * Z)%type.

Record an_task := {
  at_opts : an_opts;
  at_phase : an_phase;
  at_fields : an_pair;                 (* my.result, my.err *)
  at_chan : list (nat * an_pair);      (* doneChan of attempt a holds / was closed with this pair *)
  (* ghost: observation log of this task, newest first *)
  at_sent : Z;
  at_pickup : Z;
  at_blocked : Z;                      (* total time the dispatcher was blocked in sendInnerCallback *)
  at_late : Z;                         (* the part of it that lay beyond the attempt's own deadline *)
  at_inv : list (nat * Z);             (* handler invocations: attempt, start time *)
  at_ret : list an_retrec;
  at_dec : list (nat * an_pair * Z);   (* dispatcher decisions: attempt, pair stored in the fields, time *)
  at_onerr : list (an_err * Z);        (* error callback calls *)
  at_rel : list Z;                     (* wg.Done() times *)
  at_get2 : list (an_pair * Z)         (* Get2 reads after the WaitGroup opened *)
}.

Definition an_task0 : an_task :=
  {| at_opts := {| ao_T := 0; ao_R := 0; ao_discard := false; ao_onerr := false; ao_behs := [] |};
     at_phase := AnUnsent; at_fields := (None, AnNil); at_chan := [];
     at_sent := 0; at_pickup := 0; at_blocked := 0; at_late := 0; at_inv := []; at_ret := []; at_dec := [];
     at_onerr := []; at_rel := []; at_get2 := [] |}.

Definition at_set_phase (t : an_task) (x : an_phase) : an_task :=
  {| at_opts := at_opts t; at_phase := x; at_fields := at_fields t; at_chan := at_chan t;
     at_sent := at_sent t; at_pickup := at_pickup t; at_blocked := at_blocked t; at_late := at_late t; at_inv := at_inv t;
     at_ret := at_ret t; at_dec := at_dec t; at_onerr := at_onerr t; at_rel := at_rel t; at_get2 := at_get2 t |}.
Definition at_set_fields (t : an_task) (x : an_pair) : an_task :=
  {| at_opts := at_opts t; at_phase := at_phase t; at_fields := x; at_chan := at_chan t;
     at_sent := at_sent t; at_pickup := at_pickup t; at_blocked := at_blocked t; at_late := at_late t; at_inv := at_inv t;
     at_ret := at_ret t; at_dec := at_dec t; at_onerr := at_onerr t; at_rel := at_rel t; at_get2 := at_get2 t |}.
Definition at_set_chan (t : an_task) (x : list (nat * an_pair)) : an_task :=
  {| at_opts := at_opts t; at_phase := at_phase t; at_fields := at_fields t; at_chan := x;
     at_sent := at_sent t; at_pickup := at_pickup t; at_blocked := at_blocked t; at_late := at_late t; at_inv := at_inv t;
     at_ret := at_ret t; at_dec := at_dec t; at_onerr := at_onerr t; at_rel := at_rel t; at_get2 := at_get2 t |}.
Definition at_set_pickup (t : an_task) (x : Z) : an_task :=
  {| at_opts := at_opts t; at_phase := at_phase t; at_fields := at_fields t; at_chan := at_chan t;
     at_sent := at_sent t; at_pickup := x; at_blocked := at_blocked t; at_late := at_late t; at_inv := at_inv t;
     at_ret := at_ret t; at_dec := at_dec t; at_onerr := at_onerr t; at_rel := at_rel t; at_get2 := at_get2 t |}.
Definition at_set_blocked (t : an_task) (x : Z) : an_task :=
  {| at_opts := at_opts t; at_phase := at_phase t; at_fields := at_fields t; at_chan := at_chan t;
     at_sent := at_sent t; at_pickup := at_pickup t; at_blocked := x; at_late := at_late t; at_inv := at_inv t;
     at_ret := at_ret t; at_dec := at_dec t; at_onerr := at_onerr t; at_rel := at_rel t; at_get2 := at_get2 t |}.
Definition at_set_late (t : an_task) (x : Z) : an_task :=
  {| at_opts := at_opts t; at_phase := at_phase t; at_fields := at_fields t; at_chan := at_chan t;
     at_sent := at_sent t; at_pickup := at_pickup t; at_blocked := at_blocked t; at_late := x; at_inv := at_inv t;
     at_ret := at_ret t; at_dec := at_dec t; at_onerr := at_onerr t; at_rel := at_rel t; at_get2 := at_get2 t |}.
Definition at_set_inv (t : an_task) (x : list (nat * Z)) : an_task :=
  {| at_opts := at_opts t; at_phase := at_phase t; at_fields := at_fields t; at_chan := at_chan t;
     at_sent := at_sent t; at_pickup := at_pickup t; at_blocked := at_blocked t; at_late := at_late t; at_inv := x;
     at_ret := at_ret t; at_dec := at_dec t; at_onerr := at_onerr t; at_rel := at_rel t; at_get2 := at_get2 t |}.
Definition at_set_ret (t : an_task) (x : list an_retrec) : an_task :=
  {| at_opts := at_opts t; at_phase := at_phase t; at_fields := at_fields t; at_chan := at_chan t;
     at_sent := at_sent t; at_pickup := at_pickup t; at_blocked := at_blocked t; at_late := at_late t; at_inv := at_inv t;
     at_ret := x; at_dec := at_dec t; at_onerr := at_onerr t; at_rel := at_rel t; at_get2 := at_get2 t |}.
Definition at_set_dec (t : an_task) (x : list (nat * an_pair * Z)) : an_task :=
  {| at_opts := at_opts t; at_phase := at_phase t; at_fields := at_fields t; at_chan := at_chan t;
     at_sent := at_sent t; at_pickup := at_pickup t; at_blocked := at_blocked t; at_late := at_late t; at_inv := at_inv t;
     at_ret := at_ret t; at_dec := x; at_onerr := at_onerr t; at_rel := at_rel t; at_get2 := at_get2 t |}.
Definition at_set_onerr (t : an_task) (x : list (an_err * Z)) : an_task :=
  {| at_opts := at_opts t; at_phase := at_phase t; at_fields := at_fields t; at_chan := at_chan t;
     at_sent := at_sent t; at_pickup := at_pickup t; at_blocked := at_blocked t; at_late := at_late t; at_inv := at_inv t;
     at_ret := at_ret t; at_dec := at_dec t; at_onerr := x; at_rel := at_rel t; at_get2 := at_get2 t |}.
Definition at_set_rel (t : an_task) (x : list Z) : an_task :=
  {| at_opts := at_opts t; at_phase := at_phase t; at_fields := at_fields t; at_chan := at_chan t;
     at_sent := at_sent t; at_pickup := at_pickup t; at_blocked := at_blocked t; at_late := at_late t; at_inv := at_inv t;
     at_ret := at_ret t; at_dec := at_dec t; at_onerr := at_onerr t; at_rel := x; at_get2 := at_get2 t |}.
Definition at_set_get2 (t : an_task) (x : list (an_pair * Z)) : an_task :=
  {| at_opts := at_opts t; at_phase := at_phase t; at_fields := at_fields t; at_chan := at_chan t;
     at_sent := at_sent t; at_pickup := at_pickup t; at_blocked := at_blocked t; at_late := at_late t; at_inv := at_inv t;
     at_ret := at_ret t; at_dec := at_dec t; at_onerr := at_onerr t; at_rel := at_rel t; at_get2 := x |}.

(* inner callback waiting in innerCallbackChan: task, attempt, instant at which its ctx1 is done *)
Definition an_cb := (nat * nat * Z)%type.

(* a busy inner worker *)
Inductive an_slot :=
| AnRun (k a : nat) (d r : Z) (p : an_pair)    (* handler running; it will return p at r *)
| AnPub (k a : nat) (saw : bool) (p : an_pair).  (* handler returned p, ctx1.Done() test gave saw; publish pending *)

Record an_state := {
  an_now : Z;
  an_next : nat;                  (* number of Send calls so far = id of the next task *)
  an_tk : nat -> an_task;
  an_tchan : list nat;            (* taskChan buffer (capacity N) *)
  an_sendq : list nat;            (* senders blocked on taskChan, FIFO *)
  an_active : list nat;           (* tasks a dispatcher is running *)
  an_ichan : list an_cb;          (* innerCallbackChan buffer (capacity N) *)
  an_workers : list an_slot;      (* busy inner workers *)
  an_maxrun : nat;                (* ghost: maximum number of simultaneously running handlers *)
  an_pc : option Z                (* the dispatchers' parent context was cancelled at this instant *)
}.

Record an_cfg := { an_N : nat; an_pub : an_publish; an_urg : bool }.

Definition an_init : an_state :=
  {| an_now := 0; an_next := 0; an_tk := fun _ => an_task0; an_tchan := []; an_sendq := [];
     an_active := []; an_ichan := []; an_workers := []; an_maxrun := 0; an_pc := None |}.

Inductive an_event :=
| AnSend (o : an_opts)
| AnPick (k : nat)
| AnEnqueue (k : nat)
| AnStart (k a : nat)
| AnReturn (k a : nat) (saw : bool)
| AnPublish (k a : nat)
| AnDecide (k : nat) (viaDone : bool)
| AnGet2 (k : nat)
| AnAdvance (dt : Z)
| AnParentCancel.

Definition an_upd (f : nat -> an_task) (k : nat) (t : an_task) : nat -> an_task :=
  fun j => if Nat.eqb j k then t else f j.

Definition an_with_task (s : an_state) (k : nat) (t : an_task) : an_state :=
  {| an_now := an_now s; an_next := an_next s; an_tk := an_upd (an_tk s) k t;
     an_tchan := an_tchan s; an_sendq := an_sendq s; an_active := an_active s;
     an_ichan := an_ichan s; an_workers := an_workers s; an_maxrun := an_maxrun s; an_pc := an_pc s |}.

Definition an_is_run (k a : nat) (sl : an_slot) : bool :=
  match sl with AnRun k' a' _ _ _ => Nat.eqb k' k && Nat.eqb a' a | _ => false end.
Definition an_is_pub (k a : nat) (sl : an_slot) : bool :=
  match sl with AnPub k' a' _ _ => Nat.eqb k' k && Nat.eqb a' a | _ => false end.
Definition an_running (sl : an_slot) : bool := match sl with AnRun _ _ _ _ _ => true | _ => false end.
Definition an_nrun (ws : list an_slot) : nat := length (filter an_running ws).

(* first slot satisfying f, and the others *)
Fixpoint an_extract (f : an_slot -> bool) (l : list an_slot) : option (an_slot * list an_slot) :=
  match l with
  | [] => None
  | x :: r => if f x then Some (x, r)
              else match an_extract f r with Some (y, r') => Some (y, x :: r') | None => None end
  end.

Definition an_remove (k : nat) (l : list nat) : list nat := filter (fun j => negb (Nat.eqb j k)) l.

Fixpoint an_chan_find (a : nat) (l : list (nat * an_pair)) : option an_pair :=
  match l with
  | [] => None
  | (a', p) :: r => if Nat.eqb a' a then Some p else an_chan_find a r
  end.

Definition an_decided (t : an_task) (a : nat) : bool :=
  existsb (fun x => Nat.eqb (fst (fst x)) a) (at_dec t).

(* wg.Done(): the task leaves its dispatcher *)
Definition an_release (s : an_state) (k : nat) (t : an_task) : an_state :=
  let t' := at_set_rel (at_set_phase t AnDone) (an_now s :: at_rel t) in
  {| an_now := an_now s; an_next := an_next s; an_tk := an_upd (an_tk s) k t';
     an_tchan := an_tchan s; an_sendq := an_sendq s; an_active := an_remove k (an_active s);
     an_ichan := an_ichan s; an_workers := an_workers s; an_maxrun := an_maxrun s; an_pc := an_pc s |}.

(* run(): after runTaskOnce of attempt a left f in result/err:
   if err == nil return; else next attempt while a < retry; else onError(err); deferred wg.Done *)
Definition an_after (s : an_state) (k a : nat) (f : an_pair) : an_state :=
  let t0 := an_tk s k in
  let t := at_set_dec (at_set_fields t0 f) ((a, f, an_now s) :: at_dec t0) in
  if an_is_nil (snd f) then an_release s k t
  else if Nat.ltb a (ao_R (at_opts t)) then an_with_task s k (at_set_phase t (AnEnq (S a) (an_now s)))
  else an_release s k (if ao_onerr (at_opts t) then at_set_onerr t ((snd f, an_now s) :: at_onerr t) else t).

(* the instant at which a ctx1 with timer deadline d is done; ctx1.Err() from then on *)
Definition an_dl (s : an_state) (d : Z) : Z :=
  match an_pc s with Some q => Z.min q d | None => d end.
Definition an_cerr (s : an_state) (d : Z) : an_err :=
  match an_pc s with Some q => if q <=? d then AnCanceled else AnDeadline | None => AnDeadline end.

(* cancel(): every existing ctx1 is done now; an honouring handler that is still waiting returns
   (nil, context.Canceled) now *)
Definition an_cancel_cb (now : Z) (cb : an_cb) : an_cb :=
  match cb with (k, a, d) => (k, a, Z.min d now) end.
Definition an_cancel_slot (tk : nat -> an_task) (now : Z) (sl : an_slot) : an_slot :=
  match sl with
  | AnRun k a d r p =>
      if ab_honours (an_beh_of (at_opts (tk k)) a) && (now <? r)
      then AnRun k a (Z.min d now) now (None, AnCanceled)
      else AnRun k a (Z.min d now) r p
  | AnPub _ _ _ _ => sl
  end.

(* maximal progress: may the clock advance by dt > 0 ? *)
Definition an_slot_quiet (lim : Z) (sl : an_slot) : bool :=
  match sl with AnRun _ _ _ r _ => lim <=? r | AnPub _ _ _ _ => false end.
Definition an_task_quiet (cfg : an_cfg) (s : an_state) (lim : Z) (k : nat) : bool :=
  let t := an_tk s k in
  match at_phase t with
  | AnEnq _ _ => Nat.leb (an_N cfg) (length (an_ichan s))
  | AnWait a c => (lim <=? an_dl s (c + ao_T (at_opts t))) && match an_chan_find a (at_chan t) with None => true | Some _ => false end
  | _ => true
  end.
Definition an_quiet (cfg : an_cfg) (s : an_state) (dt : Z) : bool :=
  let lim := an_now s + dt in
  (match an_tchan s with [] => true | _ => Nat.leb (an_N cfg) (length (an_active s)) end)
  && (match an_ichan s with [] => true | _ => Nat.leb (an_N cfg) (length (an_workers s)) end)
  && forallb (an_slot_quiet lim) (an_workers s)
  && forallb (an_task_quiet cfg s lim) (an_active s).

Definition an_new_task (o : an_opts) (now : Z) (ph : an_phase) : an_task :=
  {| at_opts := o; at_phase := ph; at_fields := (None, AnNil); at_chan := [];
     at_sent := now; at_pickup := 0; at_blocked := 0; at_late := 0; at_inv := []; at_ret := []; at_dec := [];
     at_onerr := []; at_rel := []; at_get2 := [] |}.

(* the callback's select { case <-ctx1.Done(): | default: }: before the done-instant d of ctx1 it takes
   default, after it the Done branch, exactly at it either; once the dispatcher has left runTaskOnce
   (deferred cancel()) or the parent context has been cancelled, ctx1 is done *)
Definition an_saw_ok (s : an_state) (k a : nat) (d : Z) (saw : bool) : bool :=
  (if an_now s <? d then negb saw else if d <? an_now s then saw else true)
  && (if an_decided (an_tk s k) a then saw else true)
  && (match an_pc s with Some _ => saw | None => true end).

Definition an_step (cfg : an_cfg) (s : an_state) (e : an_event) : option an_state :=
  match e with
  | AnSend o =>
      (* poolImpl.Send *)
      if (0 <? ao_T o) && Nat.ltb 0 (ao_R o) && Nat.eqb (length (ao_behs o)) (ao_R o) then
        let k := an_next s in
        if ao_discard o && Nat.eqb (length (an_tchan s)) (an_N cfg) then
          let t := an_new_task o (an_now s) AnDiscarded in
          let t := at_set_fields t (None, AnDiscard) in
          let t := if ao_onerr o then at_set_onerr t [(AnDiscard, an_now s)] else t in
          Some {| an_now := an_now s; an_next := S k; an_tk := an_upd (an_tk s) k t;
                  an_tchan := an_tchan s; an_sendq := an_sendq s; an_active := an_active s;
                  an_ichan := an_ichan s; an_workers := an_workers s; an_maxrun := an_maxrun s; an_pc := an_pc s |}
        else
          let t := an_new_task o (an_now s) AnQueued in
          if Nat.ltb (length (an_tchan s)) (an_N cfg) then
            Some {| an_now := an_now s; an_next := S k; an_tk := an_upd (an_tk s) k t;
                    an_tchan := an_tchan s ++ [k]; an_sendq := an_sendq s; an_active := an_active s;
                    an_ichan := an_ichan s; an_workers := an_workers s; an_maxrun := an_maxrun s; an_pc := an_pc s |}
          else
            Some {| an_now := an_now s; an_next := S k; an_tk := an_upd (an_tk s) k t;
                    an_tchan := an_tchan s; an_sendq := an_sendq s ++ [k]; an_active := an_active s;
                    an_ichan := an_ichan s; an_workers := an_workers s; an_maxrun := an_maxrun s; an_pc := an_pc s |}
      else None
  | AnPick k =>
      (* goDispatchTask: task := <-taskChan; task.run(ctx): first runTaskOnce creates ctx1 *)
      match an_tchan s with
      | k' :: rest =>
          if Nat.eqb k' k && Nat.ltb (length (an_active s)) (an_N cfg) then
            let t := an_tk s k in
            let t := at_set_pickup (at_set_phase t (AnEnq 1 (an_now s))) (an_now s) in
            Some {| an_now := an_now s; an_next := an_next s; an_tk := an_upd (an_tk s) k t;
                    an_tchan := rest ++ firstn 1 (an_sendq s); an_sendq := skipn 1 (an_sendq s);
                    an_active := k :: an_active s;
                    an_ichan := an_ichan s; an_workers := an_workers s; an_maxrun := an_maxrun s; an_pc := an_pc s |}
          else None
      | [] => None
      end
  | AnEnqueue k =>
      (* sendInnerCallback: innerCallbackChan <- callback *)
      let t := an_tk s k in
      match at_phase t with
      | AnEnq a c =>
          if Nat.ltb (length (an_ichan s)) (an_N cfg) then
            let t := at_set_late (at_set_blocked (at_set_phase t (AnWait a c)) (at_blocked t + (an_now s - c)))
                                 (at_late t + Z.max 0 (an_now s - (c + ao_T (at_opts t)))) in
            Some {| an_now := an_now s; an_next := an_next s; an_tk := an_upd (an_tk s) k t;
                    an_tchan := an_tchan s; an_sendq := an_sendq s; an_active := an_active s;
                    an_ichan := an_ichan s ++ [(k, a, an_dl s (c + ao_T (at_opts t)))];
                    an_workers := an_workers s; an_maxrun := an_maxrun s; an_pc := an_pc s |}
          else None
      | _ => None
      end
  | AnStart k a =>
      (* goDispatchInnerCallback: callback := <-innerCallbackChan; my.handler(ctx1) is entered *)
      match an_ichan s with
      | (k', a', d) :: rest =>
          if Nat.eqb k' k && Nat.eqb a' a && Nat.ltb (length (an_workers s)) (an_N cfg) then
            let t := an_tk s k in
            let b := an_beh_of (at_opts t) a in
            let ws := AnRun k a d (an_due b (an_now s) d) (an_hpair (an_cerr s d) b (an_now s) d) :: an_workers s in
            Some {| an_now := an_now s; an_next := an_next s;
                    an_tk := an_upd (an_tk s) k (at_set_inv t ((a, an_now s) :: at_inv t));
                    an_tchan := an_tchan s; an_sendq := an_sendq s; an_active := an_active s;
                    an_ichan := rest; an_workers := ws; an_maxrun := Nat.max (an_maxrun s) (an_nrun ws); an_pc := an_pc s |}
          else None
      | [] => None
      end
  | AnReturn k a saw =>
      (* the handler returns; select { case <-ctx1.Done(): | default: } gives saw *)
      match an_extract (an_is_run k a) (an_workers s) with
      | Some (AnRun _ _ d r p, rest) =>
          if (an_now s =? r) && an_saw_ok s k a d saw then
            let t := an_tk s k in
            Some {| an_now := an_now s; an_next := an_next s;
                    an_tk := an_upd (an_tk s) k (at_set_ret t ((a, p, saw, an_now s, d) :: at_ret t));
                    an_tchan := an_tchan s; an_sendq := an_sendq s; an_active := an_active s;
                    an_ichan := an_ichan s; an_workers := AnPub k a saw p :: rest; an_maxrun := an_maxrun s; an_pc := an_pc s |}
          else None
      | _ => None
      end
  | AnPublish k a =>
      (* AttemptChannel: doneChan <- (saw ? (nil, DeadlineExceeded) : pair)
         SharedFields:   if !saw { my.result, my.err = pair }; close(doneChan) *)
      match an_extract (an_is_pub k a) (an_workers s) with
      | Some (AnPub _ _ saw p, rest) =>
          let t := an_tk s k in
          let t := match an_pub cfg with
                   | AnAttemptChannel => at_set_chan t ((a, if saw then (None, AnDeadline) else p) :: at_chan t)
                   | AnSharedFields => at_set_chan (if saw then t else at_set_fields t p) ((a, p) :: at_chan t)
                   end in
          Some {| an_now := an_now s; an_next := an_next s; an_tk := an_upd (an_tk s) k t;
                  an_tchan := an_tchan s; an_sendq := an_sendq s; an_active := an_active s;
                  an_ichan := an_ichan s; an_workers := rest; an_maxrun := an_maxrun s; an_pc := an_pc s |}
      | _ => None
      end
  | AnDecide k viaDone =>
      (* runTaskOnce: select { case r := <-doneChan: | case <-ctx1.Done(): }, then run()'s loop;
         the ctx1.Done() branch stores (nil, context.DeadlineExceeded) also when ctx1.Err() is Canceled *)
      let t := an_tk s k in
      match at_phase t with
      | AnWait a c =>
          if viaDone then
            match an_chan_find a (at_chan t) with
            | Some p => Some (an_after s k a (match an_pub cfg with AnAttemptChannel => p | AnSharedFields => at_fields t end))
            | None => None
            end
          else if an_dl s (c + ao_T (at_opts t)) <=? an_now s then Some (an_after s k a (None, AnDeadline))
          else None
      | _ => None
      end
  | AnGet2 k =>
      (* Get2: wg.Wait() has returned; read result, err *)
      let t := an_tk s k in
      match at_phase t with
      | AnDone | AnDiscarded => Some (an_with_task s k (at_set_get2 t ((at_fields t, an_now s) :: at_get2 t)))
      | _ => None
      end
  | AnAdvance dt =>
      if (0 <=? dt) && (negb (an_urg cfg) || (dt =? 0) || an_quiet cfg s dt) then
        Some {| an_now := an_now s + dt; an_next := an_next s; an_tk := an_tk s;
                an_tchan := an_tchan s; an_sendq := an_sendq s; an_active := an_active s;
                an_ichan := an_ichan s; an_workers := an_workers s; an_maxrun := an_maxrun s; an_pc := an_pc s |}
      else None
  | AnParentCancel =>
      (* cancel() of the dispatchers' parent context (a second call is a no-op) *)
      match an_pc s with
      | Some _ => Some s
      | None =>
          Some {| an_now := an_now s; an_next := an_next s; an_tk := an_tk s;
                  an_tchan := an_tchan s; an_sendq := an_sendq s; an_active := an_active s;
                  an_ichan := map (an_cancel_cb (an_now s)) (an_ichan s);
                  an_workers := map (an_cancel_slot (an_tk s) (an_now s)) (an_workers s);
                  an_maxrun := an_maxrun s; an_pc := Some (an_now s) |}
      end
  end.

Fixpoint an_run (cfg : an_cfg) (s : an_state) (evs : list an_event) : option an_state :=
  match evs with
  | [] => Some s
  | e :: r => match an_step cfg s e with Some s' => an_run cfg s' r | None => None end
  end.

(* projections used by the correspondence check *)
Definition an_inv_count (s : an_state) (k : nat) : nat := length (at_inv (an_tk s k)).
Definition an_dec_attempt (s : an_state) (k : nat) : nat :=
  match at_dec (an_tk s k) with (a, _, _) :: _ => a | [] => 0%nat end.
