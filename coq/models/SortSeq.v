(* SortSeq.v -- sortx.SliceBy (models/Sort.v) in situations where calls share something:
     * a less function that itself calls SliceBy on other slices (srt_less_nested);
     * SEQUENCES of calls on sub-slices of one pair of backing arrays (the array store
       srt_store, srt_store_call, srt_run_calls): what `keys = append(keys[:n], more...)` within
       capacity followed by another SliceBy(keys, values, less) does.
   Definitions only (prefix srt_ / Sto / Stc).

   SliceBy has no state of its own: everything it touches is reachable from its three
   arguments (the two swappers and the lessSwap value are locals).  So in the model a call
   made from inside less is just a function call inside the pure function less, and a call
   sequence threads nothing but the arrays themselves.  The sequence / nested / concurrent
   streams of vlib/c15.py test the real code against exactly this. *)
From Got Require Import Base Sort.
Local Open Scope Z_scope.

(* ---------- a less function that decides x < y by sorting ----------
   inner keys [y; x; m+pad; ...; m+1] (m = max x y), inner values [0; 1; 2; ...]; ascending
   inner sort; answer: "the value that travelled to the front is 1" (x came first, x <> y). *)
Definition srt_nested_keys (pad : nat) (x y : Z) : list Z :=
  y :: x :: map (fun d => Z.max x y + 1 + Z.of_nat d) (rev (seq 0 pad)).

Definition srt_less_nested (pad : nat) (x y : Z) : bool :=
  let ks := srt_nested_keys pad x y in
  match srt_sliceby Z.ltb ks (map Z.of_nat (seq 0 (length ks))) with
  | SOk s => match st_vals s with v :: _ => v =? 1 | [] => false end
  | _ => false
  end.

(* modes 0..5 of Sort.v plus the two nested ones *)
Definition srt_less_mode2 (mode : Z) : Z -> Z -> bool :=
  if mode =? 6 then srt_less_nested 0
  else if mode =? 7 then srt_less_nested 12
  else srt_less_mode mode.

(* ---------- the array store ---------- *)
Record srt_store : Type := StoMk { sto_keys : list Z; sto_vals : list Z }.

(* l[o : o+n] and its replacement *)
Definition srt_slice {A} (l : list A) (o n : nat) : list A := firstn n (skipn o l).
Definition srt_splice {A} (l : list A) (o : nat) (s : list A) : list A :=
  firstn o l ++ s ++ skipn (o + length s) l.

(* one call: SliceBy(keysBacking[ko:ko+nk], valsBacking[vo:vo+nv], less_mode); when stc_data is
   Some (d, e) the two slices are overwritten with d and e first *)
Record srt_call : Type := StcMk
  { stc_mode : Z; stc_ko : nat; stc_nk : nat; stc_vo : nat; stc_nv : nat;
    stc_data : option (list Z * list Z) }.

Definition srt_call_in_bounds (lk lv : nat) (c : srt_call) : bool :=
  (stc_ko c + stc_nk c <=? lk)%nat && (stc_vo c + stc_nv c <=? lv)%nat &&
  match stc_data c with
  | None => true
  | Some (d, e) => Nat.eqb (length d) (stc_nk c) && Nat.eqb (length e) (stc_nv c)
  end.

(* the keys / values the call is made on *)
Definition srt_call_keys (st : srt_store) (c : srt_call) : list Z :=
  match stc_data c with Some (d, _) => d | None => srt_slice (sto_keys st) (stc_ko c) (stc_nk c) end.
Definition srt_call_vals (st : srt_store) (c : srt_call) : list Z :=
  match stc_data c with Some (_, e) => e | None => srt_slice (sto_vals st) (stc_vo c) (stc_nv c) end.

(* result: the new store and the number of less calls; SPanic also for a slice expression out
   of the backing array's bounds (Go: slice bounds out of range) *)
Definition srt_store_call (st : srt_store) (c : srt_call) : srt_res (srt_store * N) :=
  if srt_call_in_bounds (length (sto_keys st)) (length (sto_vals st)) c then
    match srt_sliceby (srt_less_mode2 (stc_mode c)) (srt_call_keys st c) (srt_call_vals st c) with
    | SOk s => SOk (StoMk (srt_splice (sto_keys st) (stc_ko c) (st_keys s))
                          (srt_splice (sto_vals st) (stc_vo c) (st_vals s)), st_cmp s)
    | SPanic => SPanic
    | SNoFuel => SNoFuel
    end
  else SPanic.

(* a sequence of calls by one goroutine: only the store is threaded; a panicking call leaves
   the store as it was (the caller recovers) *)
Fixpoint srt_run_calls (st : srt_store) (cs : list srt_call) : list (srt_res (srt_store * N)) :=
  match cs with
  | [] => []
  | c :: rest =>
      match srt_store_call st c with
      | SOk (st', n) => SOk (st', n) :: srt_run_calls st' rest
      | SPanic => SPanic :: srt_run_calls st rest
      | SNoFuel => SNoFuel :: srt_run_calls st rest
      end
  end.
