(* CacheSteps.v -- executable SMALL-STEP model of cachex (cachex/cache_impl.go, future.go):
   the calls that Cache.v treats as one atomic event each are executed here one shared
   access at a time by concurrent threads, with an explicit clock.

   Shared memory [cs_m] has the shape of Cache.v's state (arena of futures, key -> future
   map of ONE shard, job channel, clock); in addition the owner of the shard mutex and one
   program counter per thread.  A future whose updateTime is stored but whose predecessor
   is not yet cleared is representable: [c_fdone = Some _] with [c_fpred = Some _].

   One model step = the code between two consecutive verif yield points of one goroutine
   (tools/hooks/cachex-verif-hooks.patch places one yield BEFORE each shared access):
     BL  before futures.Lock()      (a thread parked here while the mutex is held is DISABLED)
     AL  directly after Lock()      (next access: the map read)
     AU  directly after Unlock()
     LU  before the atomic load of updateTime (getUpdateTime); when the loaded stamp is
         non-zero the same step goes on to time.Since, which reads the clock: a clock tick
         between the load and time.Since commutes with the load, so this loses nothing
     RE  before the plain read of future.err (only reached after a non-zero updateTime)
     LP  before the atomic load of predecessor (getPredecessor)
     SU  setValue: value, err written, time.Now() read; before the atomic store of updateTime
     SP  setValue: before the atomic store of predecessor := nil (followed by wg.Done())
     SJ  Load: before sendJob
     FW  Future.Get2: before wg.Wait()  (DISABLED until that future's wg.Done() has run)
     LD  (harness) a worker has received a job and "runs the loader"
   Map reads/writes happen only while the mutex is held, so they are not yield points of
   their own: they belong to the step of the preceding site, in the order of the code.
   Orders that matter are kept: setValue = value, err, Now | store updateTime | store
   predecessor, Done;  getFutureStatus returns Good at once when updateTime is zero and
   reads err only afterwards;  Load sends its job after Unlock;  Get2 reads the status and
   the predecessor after Unlock.

   The transcription follows the code of /repo after commit 4caabe5 ([CsFixed]): Get2 and
   Load decide the status of the entry AND the future to hand out (fetchIfFutureStatusGood:
   predecessor, status of the predecessor) before Unlock; the thread then parks at AfterUnlock
   with its target ([CsXAU]).  [CsOrig] is the order of the code before that commit (Get2:
   Unlock right after the map read; Load: predecessor read after Unlock).

   Schedule = list of items: [CsRun i] = thread i executes one step, [CsTick dt] = the clock
   advances by dt >= 0 (between any two steps).

   GHOST part (instrumentation, no influence on the memory or on control flow):
   [cs_g] is a state of the ATOMIC machine Cache.v, [cs_evs] the atomic history that
   produced it.  It is advanced at the linearization points of the state-changing calls:
     Load that creates a job : the step that decides the status under the lock
                               (map read for an absent entry, err read otherwise)
     Set                      : its map write            Sweep : its unlock
     worker                   : CStart at the channel receive, CFinish at the store of
                               predecessor (the LAST store of setValue)
     CsTick dt                : CAdvance dt
   For the calls that change nothing (Get2; a Load that finds status Good) the thread
   collects in [ct_cands] the output the atomic event would have in the ghost state after
   every schedule item from the call's first step on (all instants of the call interval);
   its real result must be one of them.  [cs_mis] is set when a real result is not matched.
   [cs_bad] is set when the clock advances by dt > 0 while some thread is inside a window in
   which the code reads the clock and publishes/uses the value later ([cs_in_window]).
   Definitions only; proofs are in proofs/CacheStepsProofs.v. *)
From Got Require Import Base Cache.
Local Open Scope Z_scope.

(* Orig = the code before commit 4caabe5 (Get2 evaluated the entry's status and the
   predecessor, and Load evaluated the predecessor, AFTER Unlock); Fixed = the code now in
   /repo (both decisions are taken while the shard mutex is held).  The Orig order is kept
   for the refutation theorems only. *)
Inductive cs_mode := CsOrig | CsFixed.

Inductive cs_op :=
| CsLoad (k : Z)
| CsGet2 (k : Z)
| CsSet (k v e : Z)
| CsFinish (v e : Z)       (* a worker: receive the head job, run the loader, setValue(v,e) *)
| CsSweep.                 (* removeRotted *)

Inductive cs_pc :=
| CsIdle
(* Load *)
| CsLBL (k : Z)
| CsLAL (k : Z)
| CsLLU (k : Z) (f : nat)
| CsLRE (k : Z) (f : nat) (past : Z)
| CsLAU (st : c_st) (last : option nat) (next : option nat)
| CsLSJ (st : c_st) (last : option nat) (next : nat)
(* Get2 *)
| CsGBL (k : Z)
| CsGAL (k : Z)
| CsGAU (fo : option nat)
| CsGLU (f : nat)
| CsGRE (f : nat) (past : Z)
| CsGFW (x : nat)
(* fetchIfFutureStatusGood(f), shared by Load (w = false) and Get2 (w = true) *)
| CsRLP (w : bool) (f : nat)
| CsRPU (w : bool) (f p : nat)
| CsRPE (w : bool) (f p : nat) (past : Z)
| CsXAU (w : bool) (x : nat)        (* Fixed: after Unlock with the decided target x *)
(* Set *)
| CsSBL (k v e : Z)
| CsSAL (k v e : Z)
| CsSSU (k v e now : Z)
| CsSSP (k v e now : Z)
| CsSAU
(* worker *)
| CsWLD (f : nat) (v e : Z)
| CsWSU (f : nat) (v e now : Z)
| CsWSP (f : nat) (v e now : Z)
(* removeRotted *)
| CsZBL
| CsZAL
| CsZLU (k : Z) (f : nat) (rest : list (Z * nat))
| CsZRE (k : Z) (f : nat) (past : Z) (rest : list (Z * nat))
| CsZAU.

(* yield site a thread is parked at (numbers of cachex/verif_on.go; 100 = harness) *)
Definition cs_site (pc : cs_pc) : Z :=
  match pc with
  | CsIdle => 0
  | CsLBL _ | CsGBL _ | CsSBL _ _ _ | CsZBL => 1
  | CsLAL _ | CsGAL _ | CsSAL _ _ _ | CsZAL => 2
  | CsLAU _ _ _ | CsGAU _ | CsSAU | CsZAU | CsXAU _ _ => 3
  | CsLLU _ _ | CsGLU _ | CsRPU _ _ _ | CsZLU _ _ _ => 4
  | CsLRE _ _ _ | CsGRE _ _ | CsRPE _ _ _ _ | CsZRE _ _ _ _ => 5
  | CsRLP _ _ => 6
  | CsSSU _ _ _ _ | CsWSU _ _ _ _ => 7
  | CsSSP _ _ _ _ | CsWSP _ _ _ _ => 8
  | CsLSJ _ _ _ => 9
  | CsGFW _ => 10
  | CsWLD _ _ _ => 100
  end.

(* what a call returned *)
Inductive cs_res :=
| CsRFut (f : nat) (created : bool)     (* Load: returned future, job created *)
| CsRVal (v e : Z)                      (* Get2: the pair *)
| CsRNone                               (* Set, Sweep *)
| CsRFin (f : nat)                      (* worker completed future f *)
| CsRNoJob.                             (* worker found the channel empty *)

Inductive cs_ev :=
| CsEvYield (site : Z) (wait : option nat)
| CsEvRet (r : cs_res)
| CsEvBlocked
| CsEvDone
| CsEvTick.

Record cs_thread := {
  ct_prog : list cs_op;          (* calls still to make *)
  ct_pc : cs_pc;
  ct_op : option cs_op;          (* the call in progress *)
  ct_lin : option c_out;         (* ghost: output of this call's atomic event, once linearized *)
  ct_cands : list c_out          (* ghost: atomic outputs at the instants of the call so far *)
}.

Record cs_state := {
  cs_m : c_state;                (* the real memory *)
  cs_lock : option nat;          (* owner of the shard mutex *)
  cs_thr : list cs_thread;
  cs_g : c_state;                (* ghost: atomic machine *)
  cs_evs : list c_event;         (* ghost: atomic history so far, newest first *)
  cs_bad : bool;                 (* a clock tick inside a window *)
  cs_mis : bool;                 (* a real result that no instant of the call explains *)
  cs_log : list (nat * cs_op * cs_res * c_out)  (* tid, call, result, atomic output matched; newest first *)
}.

Inductive cs_item := CsRun (tid : nat) | CsTick (dt : Z).

(* ---- memory helpers *)
Definition cs_fdone (m : c_state) (f : nat) : option c_result :=
  match c_get (c_futs m) f with Some x => c_fdone x | None => None end.
Definition cs_fpred (m : c_state) (f : nat) : option nat :=
  match c_get (c_futs m) f with Some x => c_fpred x | None => None end.
Definition cs_fkey (m : c_state) (f : nat) : Z :=
  match c_get (c_futs m) f with Some x => c_fkey x | None => 0 end.

Definition cs_with (m : c_state) (futs : list c_fut) (mp : list (Z * nat)) (q r : list nat) : c_state :=
  {| c_now := c_now m; c_futs := futs; c_map := mp; c_queue := q; c_running := r; c_displaced := c_displaced m |}.

(* atomic store of updateTime (value and err were written before it) *)
Definition cs_store_done (m : c_state) (f : nat) (r : c_result) : c_state :=
  match c_get (c_futs m) f with
  | Some x => cs_with m (c_setfut (c_futs m) f {| c_fkey := c_fkey x; c_fdone := Some r; c_fpred := c_fpred x |})
                (c_map m) (c_queue m) (c_running m)
  | None => m
  end.
(* atomic store predecessor := nil *)
Definition cs_store_pred_nil (m : c_state) (f : nat) : c_state :=
  match c_get (c_futs m) f with
  | Some x => cs_with m (c_setfut (c_futs m) f {| c_fkey := c_fkey x; c_fdone := c_fdone x; c_fpred := None |})
                (c_map m) (c_queue m) (c_running m)
  | None => m
  end.
(* next = newFuture(pred); futures.d[k] = next   (the job is sent later) *)
Definition cs_new_entry (m : c_state) (k : Z) (pred : option nat) : c_state :=
  cs_with m (c_futs m ++ [{| c_fkey := k; c_fdone := None; c_fpred := pred |}])
    (c_update (c_map m) k (length (c_futs m))) (c_queue m) (c_running m).
(* Set: the new future is complete with the stamp read by its setValue *)
Definition cs_set_entry (m : c_state) (k v e now : Z) : c_state :=
  cs_with m (c_futs m ++ [{| c_fkey := k; c_fdone := Some (v, e, now); c_fpred := None |}])
    (c_update (c_map m) k (length (c_futs m))) (c_queue m) (c_running m).
Definition cs_enqueue (m : c_state) (f : nat) : c_state :=
  cs_with m (c_futs m) (c_map m) (c_queue m ++ [f]) (c_running m).
Definition cs_tick (m : c_state) (dt : Z) : c_state :=
  {| c_now := c_now m + dt; c_futs := c_futs m; c_map := c_map m; c_queue := c_queue m;
     c_running := c_running m; c_displaced := c_displaced m |}.

(* the three-way comparison at the end of getFutureStatus, on past = time.Since(updateTime) *)
Definition cs_status_of (cfg : c_cfg) (past e : Z) : c_st :=
  let expire := c_expire cfg e in
  if past <? expire then CGood else if past <? 2 * expire then CExpired else CRotted.

Definition cs_err_of (m : c_state) (f : nat) : Z :=
  match cs_fdone m f with Some (_, e, _) => e | None => 0 end.

(* ---- ghost helpers *)
Definition cs_out_eqb (a b : c_out) : bool :=
  match a, b with
  | OLoad f c, OLoad g d => Nat.eqb f g && Bool.eqb c d
  | OImmediate, OImmediate => true
  | OAwait f, OAwait g => Nat.eqb f g
  | OStart f, OStart g => Nat.eqb f g
  | OFinish f, OFinish g => Nat.eqb f g
  | ONone, ONone => true
  | OBad, OBad => true
  | _, _ => false
  end.
Definition cs_mem_out (o : c_out) (l : list c_out) : bool := existsb (cs_out_eqb o) l.

(* position of f among the running jobs of its key (argument i of CFinish) *)
Fixpoint cs_rank (p : nat -> bool) (f : nat) (l : list nat) : nat :=
  match l with
  | [] => O
  | x :: r => if Nat.eqb x f then O else if p x then S (cs_rank p f r) else cs_rank p f r
  end.

(* output of the call's atomic event in ghost state g (for the calls that change nothing) *)
Definition cs_cand (cfg : c_cfg) (g : c_state) (op : cs_op) : option c_out :=
  match op with
  | CsLoad k => Some (snd (c_load cfg g k))
  | CsGet2 k => Some (c_get2 cfg g k)
  | _ => None
  end.

(* windows: the clock was read and the value is published / used by a later step *)
Definition cs_in_window (md : cs_mode) (pc : cs_pc) : bool :=
  match pc with
  | CsWSU _ _ _ _ | CsWSP _ _ _ _ => true     (* setValue: Now() read .. predecessor cleared *)
  | CsSSU _ _ _ _ | CsSSP _ _ _ _ => true     (* Set: the same, until the map write *)
  | CsGAU _ | CsGLU _ =>                      (* Orig Get2: map read .. time.Since of the entry *)
      match md with CsOrig => true | CsFixed => false end
  | CsLRE _ _ _ => true                       (* Load: time.Since .. decision in the same critical section *)
  | CsZRE _ _ _ _ => true
  | _ => false
  end.

(* wg.Done() of f has run *)
Definition cs_complete (s : cs_state) (f : nat) : bool :=
  match cs_fdone (cs_m s) f with
  | None => false
  | Some _ => negb (existsb (fun t => match ct_pc t with CsWSP g _ _ _ => Nat.eqb g f | _ => false end) (cs_thr s))
  end.

Definition cs_blocked (s : cs_state) (t : cs_thread) : bool :=
  match ct_pc t with
  | CsLBL _ | CsGBL _ | CsSBL _ _ _ | CsZBL => match cs_lock s with Some _ => true | None => false end
  | CsGFW x => negb (cs_complete s x)
  | _ => false
  end.

Fixpoint cs_upd {A} (l : list A) (i : nat) (x : A) : list A :=
  match l, i with
  | [], _ => []
  | _ :: r, O => x :: r
  | y :: r, S j => y :: cs_upd r j x
  end.

(* ---- one step of one thread.  Result: new memory, lock, ghost state, ghost events emitted
   (oldest first), new pc, event, new ct_lin, completion (result + atomic output claimed). *)
Record cs_tres := {
  tr_m : c_state; tr_lock : option nat; tr_g : c_state; tr_emit : list c_event;
  tr_pc : cs_pc; tr_ev : cs_ev; tr_lin : option c_out;
  tr_ret : option (cs_res * c_out);     (* the call returned / Get2 decided: result, claimed atomic output *)
  tr_chk : option c_out                 (* a ghost output that must equal tr_lin's expectation: mismatch flag *)
}.

Definition cs_park (m : c_state) (lk : option nat) (g : c_state) (lin : option c_out) (pc : cs_pc) : cs_tres :=
  {| tr_m := m; tr_lock := lk; tr_g := g; tr_emit := []; tr_pc := pc;
     tr_ev := CsEvYield (cs_site pc) (match pc with CsGFW x => Some x | _ => None end);
     tr_lin := lin; tr_ret := None; tr_chk := None |}.

Definition cs_return (m : c_state) (lk : option nat) (g : c_state) (lin : option c_out) (r : cs_res) (o : c_out) : cs_tres :=
  {| tr_m := m; tr_lock := lk; tr_g := g; tr_emit := []; tr_pc := CsIdle; tr_ev := CsEvRet r;
     tr_lin := lin; tr_ret := Some (r, o); tr_chk := None |}.

(* end of fetchIfFutureStatusGood: Load returns x, Get2 goes on to x.Get2() *)
Definition cs_fetched_now (m : c_state) (lk : option nat) (g : c_state) (lin : option c_out) (w : bool) (x : nat) : cs_tres :=
  if w then
    {| tr_m := m; tr_lock := lk; tr_g := g; tr_emit := []; tr_pc := CsGFW x;
       tr_ev := CsEvYield 10 (Some x); tr_lin := lin; tr_ret := Some (CsRVal 0 0, OAwait x); tr_chk := None |}
  else cs_return m lk g lin (CsRFut x false) (OLoad x false).

(* Orig: the decision is taken after Unlock, the call goes on at once.  Fixed: the decision is
   taken under the lock: Unlock, park at AfterUnlock with the target *)
Definition cs_fetched (md : cs_mode) (m : c_state) (lk : option nat) (g : c_state) (lin : option c_out) (w : bool) (x : nat) : cs_tres :=
  match md with
  | CsOrig => cs_fetched_now m lk g lin w x
  | CsFixed => cs_park m None g lin (CsXAU w x)
  end.

(* ghost: the atomic Load k happens now; its output is remembered in ct_lin *)
Definition cs_lin_load (cfg : c_cfg) (g : c_state) (k : Z) : c_state * c_out := c_load cfg g k.

(* removeRotted: go on with the next entry or unlock *)
Definition cs_sweep_next (cfg : c_cfg) (m : c_state) (lk : option nat) (g : c_state) (rest : list (Z * nat)) : cs_tres :=
  match rest with
  | [] => {| tr_m := m; tr_lock := None; tr_g := c_sweep cfg g; tr_emit := [CSweep]; tr_pc := CsZAU;
             tr_ev := CsEvYield 3 None; tr_lin := Some ONone; tr_ret := None; tr_chk := None |}
  | (k, f) :: r => cs_park m lk g None (CsZLU k f r)
  end.

Definition cs_tstep (md : cs_mode) (cfg : c_cfg) (s : cs_state) (tid : nat) (t : cs_thread) : cs_tres :=
  let m := cs_m s in let g := cs_g s in let lk := cs_lock s in let lin := ct_lin t in
  let me := Some tid in
  match ct_pc t with
  | CsIdle => cs_park m lk g lin CsIdle   (* handled by cs_step *)
  (* ---------------- Load *)
  | CsLBL k => cs_park m me g lin (CsLAL k)
  | CsLAL k =>
      match c_lookup (c_map m) k with
      | None =>       (* status Empty: next = newFuture(nil); d[k] = next; Unlock *)
          let '(g', o) := cs_lin_load cfg g k in
          {| tr_m := cs_new_entry m k None; tr_lock := None; tr_g := g'; tr_emit := [CLoad k];
             tr_pc := CsLAU CEmpty None (Some (length (c_futs m)));
             tr_ev := CsEvYield 3 None; tr_lin := Some o; tr_ret := None; tr_chk := None |}
      | Some f => cs_park m lk g lin (CsLLU k f)
      end
  | CsLLU k f =>
      match cs_fdone m f with
      | None =>                                    (* updateTime zero: Good *)
          match md with
          | CsOrig => cs_park m None g lin (CsLAU CGood (Some f) None)   (* Unlock; the predecessor is read later *)
          | CsFixed => cs_park m lk g lin (CsRLP false f)                (* fetchIfFutureStatusGood under the lock *)
          end
      | Some (_, _, u) => cs_park m lk g lin (CsLRE k f (c_now m - u))  (* time.Since *)
      end
  | CsLRE k f past =>
      match cs_status_of cfg past (cs_err_of m f) with
      | CGood =>
          match md with
          | CsOrig => cs_park m None g lin (CsLAU CGood (Some f) None)
          | CsFixed => cs_park m lk g lin (CsRLP false f)
          end
      | st =>
          let pred := match st with CExpired => Some f | _ => None end in
          let '(g', o) := cs_lin_load cfg g k in
          {| tr_m := cs_new_entry m k pred; tr_lock := None; tr_g := g'; tr_emit := [CLoad k];
             tr_pc := CsLAU st (Some f) (Some (length (c_futs m)));
             tr_ev := CsEvYield 3 None; tr_lin := Some o; tr_ret := None; tr_chk := None |}
      end
  | CsLAU st last next =>
      match next with
      | Some n => cs_park m lk g lin (CsLSJ st last n)
      | None => match last with
                | Some f => cs_park m lk g lin (CsRLP false f)      (* Good: fetchIfFutureStatusGood(last) *)
                | None => cs_return m lk g lin (CsRFut O false) OBad  (* unreachable *)
                end
      end
  | CsLSJ st last n =>
      let r := match st, last with CExpired, Some f => f | _, _ => n end in
      cs_return (cs_enqueue m n) lk g lin (CsRFut r true) (OLoad r true)
  (* ---------------- Get2 *)
  | CsGBL k => cs_park m me g lin (CsGAL k)
  | CsGAL k =>
      match md with
      | CsOrig => cs_park m None g lin (CsGAU (c_lookup (c_map m) k))   (* map read; Unlock *)
      | CsFixed =>
          match c_lookup (c_map m) k with
          | None => cs_park m None g lin (CsGAU None)                   (* status Empty; Unlock *)
          | Some f => cs_park m lk g lin (CsGLU f)                      (* getFutureStatus under the lock *)
          end
      end
  | CsGAU fo =>
      match fo with
      | None => cs_return m lk g lin (CsRVal 0 0) OImmediate
      | Some f => cs_park m lk g lin (CsGLU f)
      end
  | CsGLU f =>
      match cs_fdone m f with
      | None => cs_park m lk g lin (CsRLP true f)
      | Some (_, _, u) => cs_park m lk g lin (CsGRE f (c_now m - u))
      end
  | CsGRE f past =>
      match cs_status_of cfg past (cs_err_of m f) with
      | CGood => cs_park m lk g lin (CsRLP true f)
      | CExpired => cs_fetched md m lk g lin true f
      | _ => match md with
             | CsOrig => cs_return m lk g lin (CsRVal 0 0) OImmediate
             | CsFixed => cs_park m None g lin (CsGAU None)             (* Unlock; return (nil, nil) *)
             end
      end
  | CsGFW x =>
      match cs_fdone m x with
      | Some (v, e, _) =>
          {| tr_m := m; tr_lock := lk; tr_g := g; tr_emit := []; tr_pc := CsIdle; tr_ev := CsEvRet (CsRVal v e);
             tr_lin := lin; tr_ret := None; tr_chk := None |}
      | None => cs_park m lk g lin (CsGFW x)    (* disabled; not reached *)
      end
  (* ---------------- fetchIfFutureStatusGood *)
  | CsRLP w f =>
      match cs_fpred m f with
      | None => cs_fetched md m lk g lin w f
      | Some p => cs_park m lk g lin (CsRPU w f p)
      end
  | CsRPU w f p =>
      match cs_fdone m p with
      | None => cs_fetched md m lk g lin w f
      | Some (_, _, u) => cs_park m lk g lin (CsRPE w f p (c_now m - u))
      end
  | CsRPE w f p past =>
      match cs_status_of cfg past (cs_err_of m p) with
      | CExpired => cs_fetched md m lk g lin w p
      | _ => cs_fetched md m lk g lin w f
      end
  | CsXAU w x => cs_fetched_now m lk g lin w x
  (* ---------------- Set *)
  | CsSBL k v e => cs_park m me g lin (CsSAL k v e)
  | CsSAL k v e => cs_park m lk g lin (CsSSU k v e (c_now m))
  | CsSSU k v e now => cs_park m lk g lin (CsSSP k v e now)
  | CsSSP k v e now =>
      {| tr_m := cs_set_entry m k v e now; tr_lock := None; tr_g := c_set g k v e; tr_emit := [CSet k v e];
         tr_pc := CsSAU; tr_ev := CsEvYield 3 None; tr_lin := Some ONone; tr_ret := None; tr_chk := None |}
  | CsSAU => cs_return m lk g lin CsRNone ONone
  (* ---------------- worker *)
  | CsWLD f v e => cs_park m lk g lin (CsWSU f v e (c_now m))       (* value, err, time.Now() *)
  | CsWSU f v e now => cs_park (cs_store_done m f (v, e, now)) lk g lin (CsWSP f v e now)
  | CsWSP f v e now =>
      let k := cs_fkey g f in
      let i := cs_rank (c_key_is (c_futs g) k) f (c_running g) in
      let '(g', o) := c_finish g k i v e in
      {| tr_m := cs_store_pred_nil m f; tr_lock := lk; tr_g := g'; tr_emit := [CFinish k i v e];
         tr_pc := CsIdle; tr_ev := CsEvRet (CsRFin f); tr_lin := lin;
         tr_ret := Some (CsRFin f, OFinish f); tr_chk := Some o |}
  (* ---------------- removeRotted *)
  | CsZBL => cs_park m me g lin CsZAL
  | CsZAL =>
      cs_sweep_next cfg m lk g (c_map m)
  | CsZLU k f rest =>
      match cs_fdone m f with
      | None => cs_sweep_next cfg m lk g rest
      | Some (_, _, u) => cs_park m lk g lin (CsZRE k f (c_now m - u) rest)
      end
  | CsZRE k f past rest =>
      let m' := match cs_status_of cfg past (cs_err_of m f) with
                | CRotted => cs_with m (c_futs m) (c_remove (c_map m) k) (c_queue m) (c_running m)
                | _ => m
                end in
      cs_sweep_next cfg m' lk g rest
  | CsZAU => cs_return m lk g lin CsRNone ONone
  end.

(* first step of a call *)
Definition cs_tstart (cfg : c_cfg) (s : cs_state) (op : cs_op) : cs_tres :=
  let m := cs_m s in let g := cs_g s in let lk := cs_lock s in
  match op with
  | CsLoad k => cs_park m lk g None (CsLBL k)
  | CsGet2 k => cs_park m lk g None (CsGBL k)
  | CsSet k v e => cs_park m lk g None (CsSBL k v e)
  | CsSweep => cs_park m lk g None CsZBL
  | CsFinish v e =>
      match c_queue m with
      | [] => cs_return m lk g None CsRNoJob ONone
      | f :: q =>        (* channel receive = the atomic CStart of f's key *)
          let k := cs_fkey g f in
          let '(g', o) := c_start g k in
          {| tr_m := cs_with m (c_futs m) (c_map m) q (c_running m ++ [f]); tr_lock := lk; tr_g := g';
             tr_emit := [CStart k]; tr_pc := CsWLD f v e; tr_ev := CsEvYield 100 None;
             tr_lin := None; tr_ret := None; tr_chk := Some (match o with OStart f' => if Nat.eqb f' f then OFinish f else OBad | _ => OBad end) |}
      end
  end.

(* after every item: every thread inside a Load/Get2 notes the atomic output at this instant *)
Definition cs_note (cfg : c_cfg) (g : c_state) (t : cs_thread) : cs_thread :=
  match ct_op t with
  | Some op => match cs_cand cfg g op with
               | Some o => {| ct_prog := ct_prog t; ct_pc := ct_pc t; ct_op := ct_op t; ct_lin := ct_lin t;
                              ct_cands := o :: ct_cands t |}
               | None => t
               end
  | None => t
  end.

(* is the claimed atomic output justified?  state-changing calls: it is the output of the
   call's own atomic event; others: it occurred at some instant of the call *)
Definition cs_justified (t : cs_thread) (o : c_out) : bool :=
  match o with
  | OLoad _ true => match ct_lin t with Some o' => cs_out_eqb o o' | None => false end
  | OLoad _ false | OImmediate | OAwait _ => cs_mem_out o (ct_cands t)
  | _ => true
  end.

(* apply the result r of thread tid's step (call op, remaining program prog) to the state *)
Definition cs_go (cfg : c_cfg) (s : cs_state) (tid : nat) (t : cs_thread) (op : cs_op) (prog : list cs_op)
    (r : cs_tres) : cs_state * cs_ev :=
  let done := match tr_pc r with CsIdle => true | _ => false end in
  let t1 := {| ct_prog := prog; ct_pc := tr_pc r; ct_op := Some op; ct_lin := tr_lin r; ct_cands := ct_cands t |} in
  let t2 := cs_note cfg (tr_g r) t1 in
  let ok_ret := match tr_ret r with Some (_, o) => cs_justified t2 o | None => true end in
  let ok_chk := match tr_chk r, tr_ret r with
                | Some o, Some (_, o') => cs_out_eqb o o'
                | Some o, None => negb (cs_out_eqb o OBad)
                | None, _ => true
                end in
  let t3 := if done then {| ct_prog := prog; ct_pc := CsIdle; ct_op := None; ct_lin := None; ct_cands := [] |} else t2 in
  let thr := cs_upd (map (cs_note cfg (tr_g r)) (cs_thr s)) tid t3 in
  ({| cs_m := tr_m r; cs_lock := tr_lock r; cs_thr := thr; cs_g := tr_g r;
      cs_evs := rev (tr_emit r) ++ cs_evs s; cs_bad := cs_bad s;
      cs_mis := cs_mis s || negb ok_ret || negb ok_chk;
      cs_log := match tr_ret r with Some (res, o) => (tid, op, res, o) :: cs_log s | None => cs_log s end |},
   tr_ev r).

Definition cs_step (md : cs_mode) (cfg : c_cfg) (s : cs_state) (it : cs_item) : cs_state * cs_ev :=
  match it with
  | CsTick dt =>
      if dt <? 0 then (s, CsEvBlocked)
      else
        let g' := fst (c_step cfg (cs_g s) (CAdvance dt)) in
        ({| cs_m := cs_tick (cs_m s) dt; cs_lock := cs_lock s;
            cs_thr := map (cs_note cfg g') (cs_thr s);
            cs_g := g'; cs_evs := CAdvance dt :: cs_evs s;
            cs_bad := cs_bad s || ((0 <? dt) && existsb (fun t => cs_in_window md (ct_pc t)) (cs_thr s));
            cs_mis := cs_mis s; cs_log := cs_log s |}, CsEvTick)
  | CsRun tid =>
      match nth_error (cs_thr s) tid with
      | None => (s, CsEvDone)
      | Some t =>
          if cs_blocked s t then (s, CsEvBlocked)
          else
            match ct_op t with
            | Some op => cs_go cfg s tid t op (ct_prog t) (cs_tstep md cfg s tid t)
            | None =>
                match ct_prog t with
                | [] => (s, CsEvDone)
                | op :: rest => cs_go cfg s tid t op rest (cs_tstart cfg s op)
                end
            end
      end
  end.

Fixpoint cs_run (md : cs_mode) (cfg : c_cfg) (s : cs_state) (sched : list cs_item) : cs_state :=
  match sched with
  | [] => s
  | it :: r => cs_run md cfg (fst (cs_step md cfg s it)) r
  end.

Definition cs_thread_init (p : list cs_op) : cs_thread :=
  {| ct_prog := p; ct_pc := CsIdle; ct_op := None; ct_lin := None; ct_cands := [] |}.

(* threads with the given programs on memory m0 (the ghost machine starts in the same state) *)
Definition cs_init_on (m0 : c_state) (progs : list (list cs_op)) : cs_state :=
  {| cs_m := m0; cs_lock := None; cs_thr := map cs_thread_init progs; cs_g := m0; cs_evs := [];
     cs_bad := false; cs_mis := false; cs_log := [] |}.
Definition cs_init (progs : list (list cs_op)) : cs_state := cs_init_on c_init progs.

(* set-up helper of the correspondence harness: future f was completed [age] ago *)
Definition cs_backdate (m : c_state) (f : nat) (age : Z) : c_state :=
  match c_get (c_futs m) f with
  | Some x => match c_fdone x with
              | Some (v, e, u) => cs_with m (c_setfut (c_futs m) f {| c_fkey := c_fkey x; c_fdone := Some (v, e, u - age); c_fpred := c_fpred x |})
                                    (c_map m) (c_queue m) (c_running m)
              | None => m
              end
  | None => m
  end.

(* programs covered by the refinement theorem *)
Definition cs_op_covered (op : cs_op) : bool :=
  match op with CsLoad _ | CsGet2 _ | CsFinish _ _ => true | _ => false end.
Definition cs_progs_covered (progs : list (list cs_op)) : bool :=
  forallb (forallb cs_op_covered) progs.
