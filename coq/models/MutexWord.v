(* MutexWord.v -- the sync.Mutex state word as loom.Mutex (loom/mutex.go) reads and writes it.

   Layout (Go 1.23 sync/mutex.go, copied by loom/mutex.go): bit 0 mutexLocked, bit 1
   mutexWoken, bit 2 mutexStarving, bits 3.. number of waiters (mutexWaiterShift = 3).
   The word is an int32; it is a Z holding its signed value.

   Part 1 (this section): loom's TryLock as its three atomic accesses, exactly as the code
   performs them (a verif yield precedes each), and Count as the pure function of the word,
   with the [MxOrig | MxFixed] switch for the defect fixed by commit 8216f43.
   Part 2: a small-step model of threads doing Lock / TryLock / Unlock on one mutex
   (sync.Mutex re-modelled from the Go source: modelled, not stepped against the runtime).

   Definitions only; proofs are in proofs/MutexWordProofs.v. *)
From Got Require Import Base.
Local Open Scope Z_scope.

(* ------------------------------------------------------------------ the word *)

(* arithmetic reading of the fields *)
Definition mx_locked (w : Z) : bool := Z.odd w.
Definition mx_woken (w : Z) : bool := Z.odd (w / 2).
Definition mx_starving (w : Z) : bool := Z.odd (w / 4).
Definition mx_waiters (w : Z) : Z := w / 8.

Definition mx_valid_word (w : Z) : Prop := 0 <= w < 2 ^ 31.

(* the word with n waiters and the three flags *)
Definition mx_mk (n : Z) (starving woken locked : bool) : Z :=
  8 * n + 4 * Z.b2z starving + 2 * Z.b2z woken + Z.b2z locked.

(* ------------------------------------------------------------------ Count *)

Inductive mx_variant := MxOrig | MxFixed.

(* func (m *Mutex) Count() int -- bit operations as in the code: [v & mutexLocked] is
   Z.land _ 1, [v >> mutexWaiterShift] is the arithmetic shift Z.shiftr _ 3 *)
Definition mx_count (var : mx_variant) (w : Z) : Z :=
  match var with
  | MxFixed =>
      let locked := Z.land w 1 in        (* taken from the unshifted word *)
      let v := Z.shiftr w 3 in
      v + locked
  | MxOrig =>
      let v := Z.shiftr w 3 in
      v + Z.land v 1                     (* bit 0 of the waiter count, not the locked bit *)
  end.

(* ------------------------------------------------------------------ TryLock *)

(* the pc names the NEXT access *)
Inductive mx_tlpc :=
| TLCas1                 (* CAS(state, 0, mutexLocked) *)
| TLLoad                 (* old := load(state); refuse if old&(locked|starving|woken) != 0 *)
| TLCas2 (old : Z).      (* CAS(state, old, old|mutexLocked) *)

Inductive mx_tlres :=
| TLCont (pc : mx_tlpc)  (* parked before the next access *)
| TLRet (b : bool).      (* TryLock returned b *)

Definition mx_trylock_step (w : Z) (pc : mx_tlpc) : Z * mx_tlres :=
  match pc with
  | TLCas1 => if w =? 0 then (1, TLRet true) else (w, TLCont TLLoad)
  | TLLoad => if Z.land w 7 =? 0 then (w, TLCont (TLCas2 w)) else (w, TLRet false)
  | TLCas2 old => if w =? old then (Z.lor old 1, TLRet true) else (w, TLRet false)
  end.

(* yield site ids of loom/verif_on.go *)
Definition mx_tl_site (pc : mx_tlpc) : nat :=
  match pc with TLCas1 => 11 | TLLoad => 12 | TLCas2 _ => 13 end.

(* one TryLock call in an environment that may rewrite the word before each of the three
   accesses: [ws] are the values the word has when the accesses happen.  Result: return
   value, the words after each executed access, the number of accesses executed *)
Fixpoint mx_trylock_env (pc : mx_tlpc) (ws : list Z) : option bool * list Z :=
  match ws with
  | [] => (None, [])
  | w :: rest =>
      match mx_trylock_step w pc with
      | (w', TLRet b) => (Some b, [w'])
      | (w', TLCont pc') => let '(r, l) := mx_trylock_env pc' rest in (r, w' :: l)
      end
  end.
