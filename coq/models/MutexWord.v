(* MutexWord.v -- the sync.Mutex state word as loom.Mutex (loom/mutex.go) reads and writes it.

   Layout (Go 1.23 sync/mutex.go, copied by loom/mutex.go): bit 0 mutexLocked, bit 1
   mutexWoken, bit 2 mutexStarving, bits 3.. number of waiters (mutexWaiterShift = 3).
   The word is an int32; it is a Z holding its signed value.

   Part 1 (this section): loom's TryLock as its three atomic accesses, exactly as the code
   performs them (a verif yield precedes each), and Count as the pure function of the word,
   with the [MxOrig | MxFixed] switch for the defect fixed by commit 8216f43.
   Part 2: a small-step model of threads doing Lock / TryLock / Unlock on one mutex
   (sync.Mutex modelled from the Go source; stepped on every run against a generated copy of
   the toolchain's Lock/lockSlow/Unlock/unlockSlow + the real TryLock, C17 stream family "mx").

   Definitions only; proofs are in proofs/MutexWordProofs.v. *)
From Got Require Import Base.
Local Open Scope Z_scope.

(* ------------------------------------------------------------------ the word *)

(* arithmetic reading of the fields *)
Definition mx_locked (w : Z) : bool := Z.odd w.
Definition mx_woken (w : Z) : bool := Z.odd (w / 2).
Definition mx_starving (w : Z) : bool := Z.odd (w / 4).
Definition mx_waiters (w : Z) : Z := w / 8.

Definition mx_valid_word (w : Z) : Prop := 0 <= w < 2 ^ 31.

(* the word with n waiters and the three flags *)
Definition mx_mk (n : Z) (starving woken locked : bool) : Z :=
  8 * n + 4 * Z.b2z starving + 2 * Z.b2z woken + Z.b2z locked.

(* ------------------------------------------------------------------ Count *)

Inductive mx_variant := MxOrig | MxFixed.

(* func (m *Mutex) Count() int -- bit operations as in the code: [v & mutexLocked] is
   Z.land _ 1, [v >> mutexWaiterShift] is the arithmetic shift Z.shiftr _ 3 *)
Definition mx_count (var : mx_variant) (w : Z) : Z :=
  match var with
  | MxFixed =>
      let locked := Z.land w 1 in        (* taken from the unshifted word *)
      let v := Z.shiftr w 3 in
      v + locked
  | MxOrig =>
      let v := Z.shiftr w 3 in
      v + Z.land v 1                     (* bit 0 of the waiter count, not the locked bit *)
  end.

(* ------------------------------------------------------------------ TryLock *)

(* the pc names the NEXT access *)
Inductive mx_tlpc :=
| TLCas1                 (* CAS(state, 0, mutexLocked) *)
| TLLoad                 (* old := load(state); refuse if old&(locked|starving|woken) != 0 *)
| TLCas2 (old : Z).      (* CAS(state, old, old|mutexLocked) *)

Inductive mx_tlres :=
| TLCont (pc : mx_tlpc)  (* parked before the next access *)
| TLRet (b : bool).      (* TryLock returned b *)

Definition mx_trylock_step (w : Z) (pc : mx_tlpc) : Z * mx_tlres :=
  match pc with
  | TLCas1 => if w =? 0 then (1, TLRet true) else (w, TLCont TLLoad)
  | TLLoad => if Z.land w 7 =? 0 then (w, TLCont (TLCas2 w)) else (w, TLRet false)
  | TLCas2 old => if w =? old then (Z.lor old 1, TLRet true) else (w, TLRet false)
  end.

(* yield site ids of loom/verif_on.go *)
Definition mx_tl_site (pc : mx_tlpc) : nat :=
  match pc with TLCas1 => 11 | TLLoad => 12 | TLCas2 _ => 13 end.

(* one TryLock call in an environment that may rewrite the word before each of the three
   accesses: [ws] are the values the word has when the accesses happen.  Result: return
   value, the words after each executed access, the number of accesses executed *)
Fixpoint mx_trylock_env (pc : mx_tlpc) (ws : list Z) : option bool * list Z :=
  match ws with
  | [] => (None, [])
  | w :: rest =>
      match mx_trylock_step w pc with
      | (w', TLRet b) => (Some b, [w'])
      | (w', TLCont pc') => let '(r, l) := mx_trylock_env pc' rest in (r, w' :: l)
      end
  end.

(* ------------------------------------------------------------------ Part 2: threads on one mutex *)

(* sync.Mutex (Go 1.23 sync/mutex.go = Go 1.26 internal/sync/mutex.go: Lock, lockSlow, Unlock,
   unlockSlow) modelled, EXACTLY one step per access of m.state (atomic or plain read) / per
   semaphore call, the local computation after an access belonging to its step (this granularity
   is what vlib/c17mx.py steps against the source), plus loom's TryLock (the three steps of part 1).
   The word is kept as a record of its fields; [mx_enc] is its int32 value, and
   MutexWordProofs.mx_trylock_rec_refines shows that the record-level TryLock steps are exactly
   [mx_trylock_step] on the encoded word.
   Oracles (runtime decisions that are not functions of the word) are arguments of the Lock
   operation, both arbitrary natural numbers per call:
   [spin] = how many times runtime_canSpin(iter) answers true during the call (every loop
   iteration that finds the word locked and not starving asks it and consumes one answer; the
   runtime's bound of 4 per round -- iter is reset after a wake-up -- is a special case);
   [starve] = at how many wake-ups the waiter finds runtime_nanotime()-waitStartTime <= 1 ms;
   every later wake-up finds it exceeded (waitStartTime is set once, at the first sleep, and
   the clock is monotone, so the answers are false^starve true^omega; the local flag is sticky).
   The semaphore m.sema is a token counter: Semrelease adds a token, a thread parked in
   SemacquireMutex is enabled when a token is available (queue order and direct hand-off of
   the runtime are irrelevant for safety).  throw/fatal are the dead pc [XDead]. *)
Local Open Scope nat_scope.

Record mx_w := { xl : bool; xk : bool; xs : bool; xn : nat }.   (* locked woken starving waiters *)

Definition mx_enc (r : mx_w) : Z := mx_mk (Z.of_nat (xn r)) (xs r) (xk r) (xl r).
Definition mx_zero : mx_w := {| xl := false; xk := false; xs := false; xn := 0 |}.
Definition mx_w_eqb (a b : mx_w) : bool :=
  Bool.eqb (xl a) (xl b) && Bool.eqb (xk a) (xk b) && Bool.eqb (xs a) (xs b) && (xn a =? xn b).
Definition mx_is_zero (r : mx_w) : bool := mx_w_eqb r mx_zero.
Definition mx_set_l (r : mx_w) (b : bool) : mx_w := {| xl := b; xk := xk r; xs := xs r; xn := xn r |}.

Inductive mx_op := XLock (spin starve : nat) | XTryLock | XUnlock.

Inductive mx_pc :=
| XIdle
| XLFast (sp st : nat)                      (* Lock: CAS(&m.state, 0, mutexLocked) *)
| XLLoad (sp st : nat) (awoke stv : bool)   (* lockSlow: old = m.state *)
| XLSpin (sp st : nat) (old : mx_w)         (* spin branch: CAS(&m.state, old, old|mutexWoken) *)
| XLCas (sp st : nat) (awoke stv : bool) (old : mx_w)  (* CAS(&m.state, old, new) *)
| XLSleep (sp st : nat) (stv : bool)        (* runtime_SemacquireMutex(&m.sema, ..) *)
| XLWoke (sp st : nat) (stv : bool)         (* after the wake-up: old = m.state *)
| XLHand (exit : bool)                      (* hand-off: atomic.AddInt32(&m.state, delta) *)
| XT1                                       (* TryLock: CAS(0, locked) *)
| XT2                                       (* TryLock: load *)
| XT3 (old : mx_w)                          (* TryLock: CAS(old, old|locked) *)
| XU1                                       (* Unlock: atomic.AddInt32(&m.state, -mutexLocked) *)
| XUSlow (old : mx_w)                       (* unlockSlow, normal mode: CAS(old, (old-1<<3)|woken) *)
| XULoad                                    (* unlockSlow, after a failed CAS: old = m.state *)
| XURel (handoff : bool)                    (* runtime_Semrelease(&m.sema, handoff, 1) *)
| XDead.                                    (* throw("sync: inconsistent mutex state") / fatal *)

Record mx_thread := { xpc : mx_pc; xh : bool; xtodo : list mx_op }.   (* xh: holds the mutex *)

Record mx_state := { xword : mx_w; xsema : nat; xthreads : list mx_thread }.

Inductive mx_event :=
| XEInv            (* invocation *)
| XEInt            (* internal step *)
| XEAcq (how : nat) (* acquired: 0 Lock fast path, 1 lockSlow CAS, 2 hand-off, 3 TryLock CAS1, 4 TryLock CAS2 *)
| XETryFail        (* TryLock returned false *)
| XEUnlocked       (* Unlock dropped the locked bit *)
| XERet            (* Unlock returned *)
| XESkip           (* Unlock by a thread that does not hold the mutex: not executed *)
| XEBlocked        (* parked in the semaphore, no token *)
| XEPanic          (* throw / fatal *)
| XENone.

(* new word of the lockSlow CAS, from the snapshot [old] *)
Definition mx_slow_new (awoke stv : bool) (old : mx_w) : mx_w :=
  {| xl := if xs old then xl old else true;
     xn := if xl old || xs old then S (xn old) else xn old;
     xs := xs old || (stv && xl old);
     xk := if awoke then false else xk old |}.

Definition mx_mkth (pc : mx_pc) (h : bool) (todo : list mx_op) : mx_thread :=
  {| xpc := pc; xh := h; xtodo := todo |}.

(* unlockSlow's loop test on the snapshot [old] (local, no access):
   old>>mutexWaiterShift == 0 || old&(mutexLocked|mutexWoken|mutexStarving) != 0 -> return *)
Definition mx_uslow_done (old : mx_w) : bool := (xn old =? 0) || xl old || xk old || xs old.

(* lockSlow from a snapshot [old] that does not take the spin branch: the new word is computed
   locally and the awoke/mutexWoken consistency test (throw) happens BEFORE the CAS access, i.e.
   within the step of the access that produced [old] *)
Definition mx_to_cas (t sp st : nat) (awoke stv : bool) (old : mx_w) (h : bool) (todo : list mx_op)
  : mx_w * nat * mx_thread * mx_event :=
  if awoke && negb (xk old) then (old, t, mx_mkth XDead h todo, XEPanic)
  else (old, t, mx_mkth (XLCas sp st awoke stv old) h todo, XEInt).

(* one step of a thread: new word, new token count, new thread, event *)
Definition mx_step_th (r : mx_w) (t : nat) (th : mx_thread) : mx_w * nat * mx_thread * mx_event :=
  let h := xh th in let todo := xtodo th in
  match xpc th with
  | XIdle =>
      match todo with
      | [] => (r, t, th, XENone)
      | XLock sp st :: rest => (r, t, mx_mkth (XLFast sp st) h rest, XEInv)
      | XTryLock :: rest => (r, t, mx_mkth XT1 h rest, XEInv)
      | XUnlock :: rest =>
          if h then (r, t, mx_mkth XU1 h rest, XEInv) else (r, t, mx_mkth XIdle h rest, XESkip)
      end
  | XLFast sp st =>
      if mx_is_zero r then (mx_set_l r true, t, mx_mkth XIdle true todo, XEAcq 0)
      else (r, t, mx_mkth (XLLoad sp st false false) h todo, XEInt)
  | XLLoad sp st awoke stv =>
      if xl r && negb (xs r) && negb (sp =? 0) then
        (* spin branch: canSpin answered true; doSpin; iter++; old = m.state (next XLLoad) *)
        if negb awoke && negb (xk r) && negb (xn r =? 0)
        then (r, t, mx_mkth (XLSpin (pred sp) st r) h todo, XEInt)
        else (r, t, mx_mkth (XLLoad (pred sp) st awoke stv) h todo, XEInt)
      else mx_to_cas t sp st awoke stv r h todo
  | XLSpin sp st old =>
      if mx_w_eqb r old
      then ({| xl := xl r; xk := true; xs := xs r; xn := xn r |}, t, mx_mkth (XLLoad sp st true false) h todo, XEInt)
      else (r, t, mx_mkth (XLLoad sp st false false) h todo, XEInt)
  | XLCas sp st awoke stv old =>
      if mx_w_eqb r old then
        if negb (xl old) && negb (xs old)
        then (mx_slow_new awoke stv old, t, mx_mkth XIdle true todo, XEAcq 1)
        else (mx_slow_new awoke stv old, t, mx_mkth (XLSleep sp st stv) h todo, XEInt)
      else (r, t, mx_mkth (XLLoad sp st awoke stv) h todo, XEInt)
  | XLSleep sp st stv =>
      match t with
      | O => (r, t, th, XEBlocked)
      | S t' => (r, t', mx_mkth (XLWoke sp (pred st) (stv || (st =? 0))) h todo, XEInt)
      end
  | XLWoke sp st stv =>
      if xs r then
        if xl r || xk r || (xn r =? 0) then (r, t, mx_mkth XDead h todo, XEPanic)
        else (r, t, mx_mkth (XLHand (negb stv || (xn r =? 1))) h todo, XEInt)
      else
        (* awoke = true; iter = 0; back to the loop head with this [old]: the spin test (no
           CAS for an awoke thread, just doSpin and old = m.state), else the CAS *)
        if xl r && negb (sp =? 0)
        then (r, t, mx_mkth (XLLoad (pred sp) st true stv) h todo, XEInt)
        else mx_to_cas t sp st true stv r h todo
  | XLHand exit =>
      (* AddInt32(mutexLocked - 1<<mutexWaiterShift [- mutexStarving]) is field-wise only on a
         word with locked = 0, waiters >= 1 (and starving = 1 when it is subtracted) *)
      if negb (xl r) && negb (xn r =? 0) && (negb exit || xs r)
      then ({| xl := true; xk := xk r; xs := if exit then false else xs r; xn := pred (xn r) |},
            t, mx_mkth XIdle true todo, XEAcq 2)
      else (r, t, mx_mkth XDead h todo, XEPanic)
  | XT1 =>
      if mx_is_zero r then (mx_set_l r true, t, mx_mkth XIdle true todo, XEAcq 3)
      else (r, t, mx_mkth XT2 h todo, XEInt)
  | XT2 =>
      if xl r || xs r || xk r then (r, t, mx_mkth XIdle h todo, XETryFail)
      else (r, t, mx_mkth (XT3 r) h todo, XEInt)
  | XT3 old =>
      if mx_w_eqb r old then (mx_set_l old true, t, mx_mkth XIdle true todo, XEAcq 4)
      else (r, t, mx_mkth XIdle h todo, XETryFail)
  | XU1 =>
      if xl r then
        let r' := mx_set_l r false in
        if mx_is_zero r' then (r', t, mx_mkth XIdle false todo, XEUnlocked)
        else if xs r' then (r', t, mx_mkth (XURel true) false todo, XEUnlocked)
        else if mx_uslow_done r' then (r', t, mx_mkth XIdle false todo, XEUnlocked)   (* unlockSlow returns at once *)
        else (r', t, mx_mkth (XUSlow r') false todo, XEUnlocked)
      else (r, t, mx_mkth XDead h todo, XEPanic)     (* fatal("sync: unlock of unlocked mutex") *)
  | XUSlow old =>
      if mx_w_eqb r old
      then ({| xl := xl old; xk := true; xs := xs old; xn := pred (xn old) |}, t, mx_mkth (XURel false) h todo, XEInt)
      else (r, t, mx_mkth XULoad h todo, XEInt)
  | XULoad =>
      if mx_uslow_done r then (r, t, mx_mkth XIdle h todo, XERet)
      else (r, t, mx_mkth (XUSlow r) h todo, XEInt)
  | XURel _ => (r, S t, mx_mkth XIdle h todo, XERet)
  | XDead => (r, t, th, XENone)
  end.

Definition mx_init (progs : list (list mx_op)) : mx_state :=
  {| xword := mx_zero; xsema := 0; xthreads := map (fun p => mx_mkth XIdle false p) progs |}.

Definition mx_step (s : mx_state) (i : nat) : mx_state * mx_event :=
  match nth_error (xthreads s) i with
  | None => (s, XENone)
  | Some th =>
      match mx_step_th (xword s) (xsema s) th with
      | (r, t, th', ev) =>
          ({| xword := r; xsema := t;
              xthreads := firstn i (xthreads s) ++ th' :: skipn (S i) (xthreads s) |}, ev)
      end
  end.

Fixpoint mx_run (s : mx_state) (sched : list nat) : mx_state * list (nat * mx_event) :=
  match sched with
  | [] => (s, [])
  | i :: rest =>
      let '(s1, ev) := mx_step s i in
      let '(s2, tr) := mx_run s1 rest in
      (s2, (i, ev) :: tr)
  end.

Definition mx_final (s : mx_state) (sched : list nat) : mx_state := fst (mx_run s sched).
Definition mx_trace (s : mx_state) (sched : list nat) : list (nat * mx_event) := snd (mx_run s sched).

(* number of threads that are between a successful acquire and their Unlock *)
Definition mx_holders (s : mx_state) : nat :=
  length (filter xh (xthreads s)).
