(* CacheDrop.v -- what happens to submitted jobs when a cachex cache is closed (its wrapper was
   finalized: closeChan closed) while jobs are queued or being submitted.  cachex/cache_impl.go:

     worker:   select { job := <-jobChan -> run job | <-closeChan -> runQueuedJobs(); return }
     sendJob:  select { jobChan <- job | <-closeChan -> run job inline; return }
               select { <-closeChan -> runQueuedJobs() | default }
     runQueuedJobs: for { select { job := <-jobChan -> run job | default -> return } }

   (fix 2b5acec; [CdOrig] is the code before it: the worker just returns and sendJob drops the job.)

   State: the bounded job channel, whether closeChan is closed, the live workers (idle / about to
   drain), the senders (each with the job it submits, possibly having to re-check closeChan after
   its send), and the log of executed jobs.  Loaders are atomic here ("run job" = append to the
   log): the question is only WHETHER every submitted job is executed, exactly once.

   Definitions only; proofs in proofs/CacheDropProofs.v. *)
From Got Require Import Base.
Local Open Scope nat_scope.

(* [CdNoRecheck]: the fixed code except that a successful send returns without the second select (what a
   non-blocking enqueue in front of sendJob's close check amounts to when the channel has room) *)
Inductive cd_variant := CdOrig | CdFixed | CdNoRecheck.

Inductive cd_sender :=
| CdsSend (j : nat)      (* in sendJob's first select with job j *)
| CdsRecheck             (* job enqueued; at the second select *)
| CdsDone.

Inductive cd_worker :=
| CdwLoop                (* at the worker's select *)
| CdwGone.               (* returned *)

Record cd_state := {
  cd_chan : list nat;    (* queued jobs, oldest first *)
  cd_cap : nat;
  cd_closed : bool;
  cd_workers : list cd_worker;
  cd_senders : list cd_sender;
  cd_ran : list nat      (* executed jobs, in order *)
}.

Inductive cd_ev :=
| CdClose                              (* the finalizer closes closeChan *)
| CdWorker (i : nat) (take : bool)     (* worker i takes a select branch: take = the job branch *)
| CdSender (i : nat) (send : bool).    (* sender i takes a select branch: send = the send branch *)

Definition cd_set {A} (l : list A) (i : nat) (x : A) : list A := firstn i l ++ x :: skipn (S i) l.

Definition cd_upd (s : cd_state) chan closed ws ss ran : cd_state :=
  {| cd_chan := chan; cd_cap := cd_cap s; cd_closed := closed; cd_workers := ws; cd_senders := ss; cd_ran := ran |}.

(* one step; an event whose branch is not ready leaves the state unchanged *)
Definition cd_step (var : cd_variant) (s : cd_state) (e : cd_ev) : cd_state :=
  match e with
  | CdClose => cd_upd s (cd_chan s) true (cd_workers s) (cd_senders s) (cd_ran s)
  | CdWorker i take =>
      match nth_error (cd_workers s) i with
      | Some CdwLoop =>
          if take then
            match cd_chan s with
            | j :: rest => cd_upd s rest (cd_closed s) (cd_workers s) (cd_senders s) (cd_ran s ++ [j])
            | [] => s
            end
          else if cd_closed s then
            match var with
            | CdFixed | CdNoRecheck =>   (* runQueuedJobs(): everything queued at this moment, then return *)
                cd_upd s [] true (cd_set (cd_workers s) i CdwGone) (cd_senders s) (cd_ran s ++ cd_chan s)
            | CdOrig => cd_upd s (cd_chan s) true (cd_set (cd_workers s) i CdwGone) (cd_senders s) (cd_ran s)
            end
          else s
      | _ => s
      end
  | CdSender i send =>
      match nth_error (cd_senders s) i with
      | Some (CdsSend j) =>
          if send then
            if length (cd_chan s) <? cd_cap s
            then cd_upd s (cd_chan s ++ [j]) (cd_closed s) (cd_workers s)
                         (cd_set (cd_senders s) i (match var with CdFixed => CdsRecheck | CdOrig | CdNoRecheck => CdsDone end)) (cd_ran s)
            else s
          else if cd_closed s then
            match var with
            | CdFixed | CdNoRecheck => cd_upd s (cd_chan s) true (cd_workers s) (cd_set (cd_senders s) i CdsDone) (cd_ran s ++ [j])
            | CdOrig => cd_upd s (cd_chan s) true (cd_workers s) (cd_set (cd_senders s) i CdsDone) (cd_ran s)
            end
          else s
      | Some CdsRecheck =>
          if cd_closed s
          then cd_upd s [] true (cd_workers s) (cd_set (cd_senders s) i CdsDone) (cd_ran s ++ cd_chan s)
          else cd_upd s (cd_chan s) false (cd_workers s) (cd_set (cd_senders s) i CdsDone) (cd_ran s)
      | _ => s
      end
  end.

Definition cd_run (var : cd_variant) (s : cd_state) (evs : list cd_ev) : cd_state := fold_left (cd_step var) evs s.

Definition cd_init (cap nworkers : nat) (jobs : list nat) : cd_state :=
  {| cd_chan := []; cd_cap := cap; cd_closed := false; cd_workers := repeat CdwLoop nworkers;
     cd_senders := map CdsSend jobs; cd_ran := [] |}.

(* jobs not yet submitted *)
Definition cd_pending (s : cd_state) : list nat :=
  flat_map (fun x => match x with CdsSend j => [j] | _ => [] end) (cd_senders s).

(* nothing left to do: every sender finished and every worker returned *)
Definition cd_quiescent (s : cd_state) : bool :=
  forallb (fun x => match x with CdsDone => true | _ => false end) (cd_senders s)
  && forallb (fun w => match w with CdwGone => true | _ => false end) (cd_workers s).
