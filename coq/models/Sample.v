(* Sample.v -- executable model of randx.WeightedSampling (randx/sample.go) over
   lib/Heap.v.  Definitions only (prefix smp_).

   The Go code draws u_i = rand.Float64() and computes the key
       k_i = math.Log(w_i) - math.Log(-math.Log(u_i))
   for i = 0 .. totalNum-1.  Nothing but the ORDER of the keys influences the result, so
   the model takes the key sequence as an input: key : nat -> Z (any totally ordered
   ranks; ties allowed).  Floating point, math.Log and math/rand are thereby outside the
   model (DESIGN.md section 7: abstract key order).

   smp_init: SmpPrefilled = the code before commit 5cca028 (make(sampleHeap, sampleNum):
   the heap starts with sampleNum zero items {ki: 0, index: 0});
   SmpEmpty = the code now in /repo (make(sampleHeap, 0, sampleNum)). *)
From Got Require Import Base Heap.

Inductive smp_init : Type := SmpPrefilled | SmpEmpty.

Record smp_item : Type := { smp_key : Z; smp_idx : Z }.

(* sampleHeap.Less: h[i].ki < h[j].ki *)
Definition smp_less (a b : smp_item) : bool := smp_key a <? smp_key b.

(* one iteration of "for i := 0; i < totalNum; i++" with key ki; k = sampleNum *)
Definition smp_step (k : nat) (ki : Z) (i : nat) (h : list smp_item) : hp_res (list smp_item) :=
  let it := {| smp_key := ki; smp_idx := Z.of_nat i |} in
  if (length h <? k)%nat then hp_push smp_less h it         (* if h.Len() < sampleNum *)
  else match nth_error h 0 with                              (* h.Get(0): checked index *)
       | None => HpPanic
       | Some top =>
           if smp_key top <? ki then                         (* else if ki > h.Get(0).ki *)
             match hp_push smp_less h it with
             | HpOk h1 =>
                 if (k <? length h1)%nat then                (* if h.Len() > sampleNum *)
                   match hp_pop smp_less h1 with
                   | HpOk (h2, _) => HpOk h2
                   | HpPanic => HpPanic
                   | HpNoFuel => HpNoFuel
                   end
                 else HpOk h1
             | HpPanic => HpPanic
             | HpNoFuel => HpNoFuel
             end
           else HpOk h
       end.

(* iterations i, i+1, ..., i+cnt-1 *)
Fixpoint smp_loop (k : nat) (key : nat -> Z) (cnt : nat) (i : nat) (h : list smp_item)
  : hp_res (list smp_item) :=
  match cnt with
  | O => HpOk h
  | S c =>
      match smp_step k (key i) i h with
      | HpOk h' => smp_loop k key c (S i) h'
      | HpPanic => HpPanic
      | HpNoFuel => HpNoFuel
      end
  end.

(* results[i] = h.Get(i).index for i = 0 .. sampleNum-1 (checked index) *)
Fixpoint smp_results (h : list smp_item) (i cnt : nat) : hp_res (list Z) :=
  match cnt with
  | O => HpOk []
  | S c =>
      match nth_error h i with
      | None => HpPanic
      | Some it =>
          match smp_results h (S i) c with
          | HpOk r => HpOk (smp_idx it :: r)
          | HpPanic => HpPanic
          | HpNoFuel => HpNoFuel
          end
      end
  end.

Definition smp_zero_item : smp_item := {| smp_key := 0; smp_idx := 0 |}.

(* WeightedSampling(sampleNum, totalNum, getWeight) with the key sequence as input *)
Definition smp_sample (init : smp_init) (sampleNum totalNum : Z) (key : nat -> Z)
  : hp_res (list Z) :=
  if (totalNum <? sampleNum) || (totalNum <=? 0) then HpPanic     (* panic(message) *)
  else if sampleNum <? 0 then HpPanic                              (* make: cap/len out of range *)
  else
    let k := Z.to_nat sampleNum in
    let h0 := match init with
              | SmpPrefilled => repeat smp_zero_item k
              | SmpEmpty => []
              end in
    match smp_loop k key (Z.to_nat totalNum) 0 h0 with
    | HpOk h => smp_results h 0 k
    | HpPanic => HpPanic
    | HpNoFuel => HpNoFuel
    end.

(* instance used by the correspondence check: the key sequence is a list of ranks *)
Definition smp_key_of_list (keys : list Z) (i : nat) : Z := nth i keys 0.
Definition smp_sample_list (init : smp_init) (sampleNum totalNum : Z) (keys : list Z)
  : hp_res (list Z) :=
  smp_sample init sampleNum totalNum (smp_key_of_list keys).
