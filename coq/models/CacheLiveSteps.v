(* CacheLiveSteps.v -- executable SMALL-STEP model of everything in cachex that can BLOCK
   (cachex/cache_impl.go, cache.go, future.go), on top of the memory and the step granularity
   of CacheSteps.v (one model step = the code between two consecutive verif yield points of
   one goroutine; cachex/verif_on.go places a yield BEFORE each shared access).

   What is in the model
     * the memory of CacheSteps.v: arena of futures (updateTime / predecessor), key -> future
       map, job channel, clock [c_now];
     * SEVERAL shards: key k lives in shard [csl_shard cfg k]; one mutex per shard.  A mutex is
       held exactly while some thread is between its Lock() and its Unlock(): [csl_locked] is
       DERIVED from the program counters ([csl_pc_key], [csl_wpc_holds]), a thread parked
       before Lock() of a held mutex is disabled;
     * the BOUNDED job channel: capacity [csl_cap] = jobChanSize; the step "sendJob" is disabled
       while [length (c_queue m)] has reached the capacity;
     * [parallel] worker goroutines (startJobGoroutines), each looping over
         select { job := <-jobChan  -> loader(key) -> setValue (two atomic stores, wg.Done())
                | <-gcTicker.C      -> removeRotted: for each shard Lock ... Unlock }
       which branch an idle worker takes when both are ready is the scheduler's choice (the
       [pick] flag of the schedule item); "loaders return": the step that ends the loader is
       always enabled and its result (v, e) is arbitrary (taken from the schedule item);
     * the ticker channel of capacity 1: a flag [csl_tk]; a tick that arrives while the flag is
       set is dropped (time.Ticker);
     * client threads running programs of Load / Get2 / Set calls with the steps of
       CacheSteps.v (the order of the code now in /repo: status and returned future decided
       under the shard lock), and Future.Get2() on the future a Load returned ([CslAwait]);
       a thread before wg.Wait() of a future is disabled until that future's wg.Done().
   [csl_order] selects where Load sends its job:
     CslFixed -- /repo now: futures.Unlock() first, then sendJob   (fix ed85568)
     CslOrig  -- before that fix: sendJob while the shard mutex is still held, Unlock after it.
   Schedule items: [CslC i] client i takes one step, [CslW i pick v e] worker i takes one step
   (pick: select branch of an idle worker, true = the tick; v e: the loader's result, used by
   the step that ends the loader), [CslTick] the ticker fires, [CslAdv dt] the clock advances.
   Unlike CacheSteps.v there is no ghost state: this model is about blocking only.
   Definitions only; proofs are in proofs/CacheLiveStepsProofs.v. *)
From Got Require Import Base Cache CacheSteps.
Local Open Scope Z_scope.

Inductive csl_order := CslOrig | CslFixed.

Record csl_cfg := {
  csl_ord : csl_order;
  csl_cap : nat;                 (* jobChanSize *)
  csl_nsh : nat;                 (* number of shards *)
  csl_exp : c_cfg                (* normalExpire / errorExpire *)
}.

Definition csl_shard (cfg : csl_cfg) (k : Z) : nat := Z.to_nat (k mod Z.of_nat (csl_nsh cfg)).

Inductive csl_op :=
| CslLoad (k : Z)
| CslGet2 (k : Z)
| CslSet (k v e : Z)
| CslAwait.                      (* Future.Get2() on the future returned by this thread's last Load *)

Inductive csl_pc :=
| CslIdle
(* Load *)
| CslLBL (k : Z)
| CslLAL (k : Z)
| CslLLU (k : Z) (f : nat)
| CslLRE (k : Z) (f : nat) (past : Z)
| CslLSH (k : Z) (r n : nat)           (* CslOrig: before sendJob(n), the shard mutex still held; r = future to return *)
| CslLAU (r : nat) (next : option nat) (* after Unlock; next = the job still to send *)
| CslLSJ (r n : nat)                   (* CslFixed: before sendJob(n), no mutex held *)
(* Get2 *)
| CslGBL (k : Z)
| CslGAL (k : Z)
| CslGLU (k : Z) (f : nat)
| CslGRE (k : Z) (f : nat) (past : Z)
| CslGAU                               (* after Unlock, status Empty / Rotted: return (nil, nil) *)
| CslGFW (x : nat)                     (* before x.wg.Wait() *)
(* fetchIfFutureStatusGood(f) under the lock of k's shard, Load (w = false) / Get2 (w = true) *)
| CslRLP (w : bool) (k : Z) (f : nat)
| CslRPU (w : bool) (k : Z) (f p : nat)
| CslRPE (w : bool) (k : Z) (f p : nat) (past : Z)
| CslXAU (w : bool) (x : nat)          (* after Unlock with the decided target x *)
(* Set *)
| CslSBL (k v e : Z)
| CslSAL (k v e : Z)
| CslSSU (k v e now : Z)
| CslSSP (k v e now : Z)
| CslSAU.

Inductive csl_wpc :=
| CslWSel                                                  (* in select *)
| CslWLD (f : nat)                                         (* job f received; the loader runs *)
| CslWSU (f : nat) (v e now : Z)                           (* setValue: before the store of updateTime *)
| CslWSP (f : nat) (v e now : Z)                           (* setValue: before predecessor := nil; wg.Done() *)
| CslZBL (i : nat)                                         (* removeRotted: before Lock() of shard i *)
| CslZAL (i : nat)
| CslZLU (i : nat) (k : Z) (f : nat) (rest : list (Z * nat))
| CslZRE (i : nat) (k : Z) (f : nat) (past : Z) (rest : list (Z * nat))
| CslZAU (i : nat).

(* yield sites (numbers of cachex/verif_on.go; 100 / 101 = harness: loader running / in select) *)
Definition csl_site (pc : csl_pc) : Z :=
  match pc with
  | CslIdle => 0
  | CslLBL _ | CslGBL _ | CslSBL _ _ _ => 1
  | CslLAL _ | CslGAL _ | CslSAL _ _ _ => 2
  | CslLAU _ _ | CslGAU | CslSAU | CslXAU _ _ => 3
  | CslLLU _ _ | CslGLU _ _ | CslRPU _ _ _ _ => 4
  | CslLRE _ _ _ | CslGRE _ _ _ | CslRPE _ _ _ _ _ => 5
  | CslRLP _ _ _ => 6
  | CslSSU _ _ _ _ => 7
  | CslSSP _ _ _ _ => 8
  | CslLSJ _ _ | CslLSH _ _ _ => 9
  | CslGFW _ => 10
  end.
Definition csl_wsite (w : csl_wpc) : Z :=
  match w with
  | CslWSel => 101
  | CslWLD _ => 100
  | CslWSU _ _ _ _ => 7
  | CslWSP _ _ _ _ => 8
  | CslZBL _ => 1
  | CslZAL _ => 2
  | CslZLU _ _ _ _ => 4
  | CslZRE _ _ _ _ _ => 5
  | CslZAU _ => 3
  end.

Record csl_thread := {
  lt_prog : list csl_op;         (* calls still to make *)
  lt_pc : csl_pc;
  lt_last : option nat           (* the future the last Load of this thread returned *)
}.

Record csl_state := {
  csl_m : c_state;               (* the memory (c_running / c_displaced unused) *)
  csl_cl : list csl_thread;      (* client threads *)
  csl_wk : list csl_wpc;         (* worker goroutines *)
  csl_tk : bool                  (* a tick is pending in gcTicker.C *)
}.

Inductive csl_item :=
| CslC (i : nat)
| CslW (i : nat) (pick : bool) (v e : Z)
| CslTick
| CslAdv (dt : Z).

Definition csl_is_thread (it : csl_item) : bool :=
  match it with CslC _ | CslW _ _ _ _ => true | _ => false end.

(* ---- the shard mutexes: derived from the program counters *)
Definition csl_pc_key (pc : csl_pc) : option Z :=
  match pc with
  | CslLAL k | CslLLU k _ | CslLRE k _ _ | CslLSH k _ _
  | CslGAL k | CslGLU k _ | CslGRE k _ _
  | CslRLP _ k _ | CslRPU _ k _ _ | CslRPE _ k _ _ _
  | CslSAL k _ _ | CslSSU k _ _ _ | CslSSP k _ _ _ => Some k
  | _ => None
  end.
Definition csl_pc_holds (cfg : csl_cfg) (sh : nat) (pc : csl_pc) : bool :=
  match csl_pc_key pc with Some k => Nat.eqb (csl_shard cfg k) sh | None => false end.
Definition csl_wpc_holds (sh : nat) (w : csl_wpc) : bool :=
  match w with
  | CslZAL i | CslZLU i _ _ _ | CslZRE i _ _ _ _ => Nat.eqb i sh
  | _ => false
  end.
Definition csl_locked (cfg : csl_cfg) (s : csl_state) (sh : nat) : bool :=
  existsb (fun t => csl_pc_holds cfg sh (lt_pc t)) (csl_cl s) || existsb (csl_wpc_holds sh) (csl_wk s).

(* wg.Done() of f has run.  (A dangling id -- never produced -- does not block.) *)
Definition csl_wsp_of (f : nat) (w : csl_wpc) : bool :=
  match w with CslWSP g _ _ _ => Nat.eqb g f | _ => false end.
Definition csl_complete (s : csl_state) (f : nat) : bool :=
  match c_get (c_futs (csl_m s)) f with
  | None => true
  | Some x => match c_fdone x with
              | None => false
              | Some _ => negb (existsb (csl_wsp_of f) (csl_wk s))
              end
  end.

Definition csl_full (cfg : csl_cfg) (m : c_state) : bool := (csl_cap cfg <=? length (c_queue m))%nat.

(* a client that cannot take a step now *)
Definition csl_cblocked (cfg : csl_cfg) (s : csl_state) (t : csl_thread) : bool :=
  match lt_pc t with
  | CslIdle => match lt_prog t with [] => true | _ => false end      (* finished *)
  | CslLBL k | CslGBL k | CslSBL k _ _ => csl_locked cfg s (csl_shard cfg k)
  | CslLSJ _ _ | CslLSH _ _ _ => csl_full cfg (csl_m s)
  | CslGFW x => negb (csl_complete s x)
  | _ => false
  end.

(* ---- one step of a client *)
Record csl_cres := { lr_m : c_state; lr_pc : csl_pc; lr_ev : cs_ev; lr_last : option nat }.

Definition csl_park (m : c_state) (last : option nat) (pc : csl_pc) : csl_cres :=
  {| lr_m := m; lr_pc := pc;
     lr_ev := CsEvYield (csl_site pc) (match pc with CslGFW x => Some x | _ => None end);
     lr_last := last |}.
Definition csl_ret (m : c_state) (last : option nat) (r : cs_res) : csl_cres :=
  {| lr_m := m; lr_pc := CslIdle; lr_ev := CsEvRet r; lr_last := last |}.

(* next = newFuture(pred); d[k] = next; then Unlock (Fixed) / sendJob under the lock (Orig).
   ret = the entry to return instead of next (status Expired) *)
Definition csl_create (cfg : csl_cfg) (m : c_state) (last : option nat) (k : Z) (pred ret : option nat) : csl_cres :=
  let n := length (c_futs m) in
  let r := match ret with Some f => f | None => n end in
  match csl_ord cfg with
  | CslFixed => csl_park (cs_new_entry m k pred) last (CslLAU r (Some n))
  | CslOrig => csl_park (cs_new_entry m k pred) last (CslLSH k r n)
  end.

Definition csl_cstep (cfg : csl_cfg) (m : c_state) (t : csl_thread) : csl_cres :=
  let last := lt_last t in
  let park := csl_park m last in
  match lt_pc t with
  | CslIdle =>
      match lt_prog t with
      | [] => park CslIdle                                   (* finished; not reached *)
      | CslLoad k :: _ => park (CslLBL k)
      | CslGet2 k :: _ => park (CslGBL k)
      | CslSet k v e :: _ => park (CslSBL k v e)
      | CslAwait :: _ => match last with Some x => park (CslGFW x) | None => csl_ret m last CsRNone end
      end
  (* ---------------- Load *)
  | CslLBL k => park (CslLAL k)                              (* Lock() *)
  | CslLAL k =>
      match c_lookup (c_map m) k with
      | None => csl_create cfg m last k None None            (* status Empty *)
      | Some f => park (CslLLU k f)
      end
  | CslLLU k f =>
      match cs_fdone m f with
      | None => park (CslRLP false k f)                      (* updateTime zero: Good *)
      | Some (_, _, u) => park (CslLRE k f (c_now m - u))    (* time.Since *)
      end
  | CslLRE k f past =>
      match cs_status_of (csl_exp cfg) past (cs_err_of m f) with
      | CGood => park (CslRLP false k f)
      | CExpired => csl_create cfg m last k (Some f) (Some f)
      | _ => csl_create cfg m last k None None
      end
  | CslLSH k r n => csl_park (cs_enqueue m n) last (CslLAU r None)   (* sendJob; Unlock *)
  | CslLAU r next =>
      match next with
      | Some n => park (CslLSJ r n)
      | None => csl_ret m (Some r) (CsRFut r true)
      end
  | CslLSJ r n => csl_ret (cs_enqueue m n) (Some r) (CsRFut r true)  (* sendJob *)
  (* ---------------- Get2 *)
  | CslGBL k => park (CslGAL k)
  | CslGAL k =>
      match c_lookup (c_map m) k with
      | None => park CslGAU                                  (* status Empty; Unlock *)
      | Some f => park (CslGLU k f)
      end
  | CslGLU k f =>
      match cs_fdone m f with
      | None => park (CslRLP true k f)
      | Some (_, _, u) => park (CslGRE k f (c_now m - u))
      end
  | CslGRE k f past =>
      match cs_status_of (csl_exp cfg) past (cs_err_of m f) with
      | CGood => park (CslRLP true k f)
      | CExpired => park (CslXAU true f)                     (* Unlock *)
      | _ => park CslGAU                                     (* Unlock; (nil, nil) *)
      end
  | CslGAU => csl_ret m last (CsRVal 0 0)
  | CslGFW x =>
      match cs_fdone m x with
      | Some (v, e, _) => csl_ret m last (CsRVal v e)
      | None => csl_ret m last (CsRVal 0 0)                  (* disabled / dangling; not reached *)
      end
  (* ---------------- fetchIfFutureStatusGood, then Unlock *)
  | CslRLP w k f =>
      match cs_fpred m f with
      | None => park (CslXAU w f)
      | Some p => park (CslRPU w k f p)
      end
  | CslRPU w k f p =>
      match cs_fdone m p with
      | None => park (CslXAU w f)
      | Some (_, _, u) => park (CslRPE w k f p (c_now m - u))
      end
  | CslRPE w k f p past =>
      match cs_status_of (csl_exp cfg) past (cs_err_of m p) with
      | CExpired => park (CslXAU w p)
      | _ => park (CslXAU w f)
      end
  | CslXAU w x => if w then park (CslGFW x) else csl_ret m (Some x) (CsRFut x false)
  (* ---------------- Set *)
  | CslSBL k v e => park (CslSAL k v e)
  | CslSAL k v e => park (CslSSU k v e (c_now m))            (* next = newFuture(nil); value, err, Now() *)
  | CslSSU k v e now => park (CslSSP k v e now)
  | CslSSP k v e now => csl_park (cs_set_entry m k v e now) last CslSAU   (* d[k] = next; Unlock *)
  | CslSAU => csl_ret m last CsRNone
  end.

(* ---- one step of a worker: memory, pc, tick flag, event; None = disabled *)
Definition csl_sweep_next (cfg : csl_cfg) (i : nat) : csl_wpc :=
  if (i <? csl_nsh cfg)%nat then CslZBL i else CslWSel.

Definition csl_in_shard (cfg : csl_cfg) (i : nat) (e : Z * nat) : bool := Nat.eqb (csl_shard cfg (fst e)) i.

Definition csl_entry_next (i : nat) (rest : list (Z * nat)) : csl_wpc :=
  match rest with
  | [] => CslZAU i                                           (* Unlock *)
  | (k, f) :: r => CslZLU i k f r
  end.

Definition csl_wstep (cfg : csl_cfg) (s : csl_state) (w : csl_wpc) (pick : bool) (v e : Z)
  : option (c_state * csl_wpc * bool) :=
  let m := csl_m s in let tk := csl_tk s in
  match w with
  | CslWSel =>
      if pick then (if tk then Some (m, csl_sweep_next cfg O, false) else None)
      else match c_queue m with
           | [] => None
           | f :: q => Some (cs_with m (c_futs m) (c_map m) q (c_running m), CslWLD f, tk)
           end
  | CslWLD f => Some (m, CslWSU f v e (c_now m), tk)         (* the loader returned (v, e); value, err, Now() *)
  | CslWSU f v e now => Some (cs_store_done m f (v, e, now), CslWSP f v e now, tk)
  | CslWSP f _ _ _ => Some (cs_store_pred_nil m f, CslWSel, tk)      (* predecessor := nil; wg.Done() *)
  | CslZBL i => if csl_locked cfg s i then None else Some (m, CslZAL i, tk)
  | CslZAL i => Some (m, csl_entry_next i (filter (csl_in_shard cfg i) (c_map m)), tk)
  | CslZLU i k f rest =>
      match cs_fdone m f with
      | None => Some (m, csl_entry_next i rest, tk)
      | Some (_, _, u) => Some (m, CslZRE i k f (c_now m - u) rest, tk)
      end
  | CslZRE i k f past rest =>
      let m' := match cs_status_of (csl_exp cfg) past (cs_err_of m f) with
                | CRotted => cs_with m (c_futs m) (c_remove (c_map m) k) (c_queue m) (c_running m)
                | _ => m
                end in
      Some (m', csl_entry_next i rest, tk)
  | CslZAU i => Some (m, csl_sweep_next cfg (S i), tk)
  end.

(* ---- the machine *)
Definition csl_step (cfg : csl_cfg) (s : csl_state) (it : csl_item) : option (csl_state * cs_ev) :=
  match it with
  | CslC i =>
      match nth_error (csl_cl s) i with
      | None => None
      | Some t =>
          if csl_cblocked cfg s t then None
          else
            let r := csl_cstep cfg (csl_m s) t in
            let prog := match lt_pc t with
                        | CslIdle => tl (lt_prog t)           (* the call has started *)
                        | _ => lt_prog t
                        end in
            Some ({| csl_m := lr_m r;
                     csl_cl := cs_upd (csl_cl s) i {| lt_prog := prog; lt_pc := lr_pc r; lt_last := lr_last r |};
                     csl_wk := csl_wk s; csl_tk := csl_tk s |}, lr_ev r)
      end
  | CslW i pick v e =>
      match nth_error (csl_wk s) i with
      | None => None
      | Some w =>
          match csl_wstep cfg s w pick v e with
          | None => None
          | Some (m', w', tk') =>
              Some ({| csl_m := m'; csl_cl := csl_cl s; csl_wk := cs_upd (csl_wk s) i w'; csl_tk := tk' |},
                    CsEvYield (csl_wsite w') None)
          end
      end
  | CslTick => Some ({| csl_m := csl_m s; csl_cl := csl_cl s; csl_wk := csl_wk s; csl_tk := true |}, CsEvTick)
  | CslAdv dt =>
      if dt <? 0 then None
      else Some ({| csl_m := cs_tick (csl_m s) dt; csl_cl := csl_cl s; csl_wk := csl_wk s; csl_tk := csl_tk s |}, CsEvTick)
  end.

Definition csl_enabled (cfg : csl_cfg) (s : csl_state) (it : csl_item) : bool :=
  match csl_step cfg s it with Some _ => true | None => false end.

Fixpoint csl_run (cfg : csl_cfg) (s : csl_state) (sched : list csl_item) : option csl_state :=
  match sched with
  | [] => Some s
  | it :: r => match csl_step cfg s it with None => None | Some (s', _) => csl_run cfg s' r end
  end.

Definition csl_thread_init (p : list csl_op) : csl_thread := {| lt_prog := p; lt_pc := CslIdle; lt_last := None |}.

(* [parallel] workers in select, clients with the given programs, on memory m0 *)
Definition csl_init_on (m0 : c_state) (parallel : nat) (progs : list (list csl_op)) : csl_state :=
  {| csl_m := m0; csl_cl := map csl_thread_init progs; csl_wk := repeat CslWSel parallel; csl_tk := false |}.
Definition csl_init (parallel : nat) (progs : list (list csl_op)) : csl_state := csl_init_on c_init parallel progs.

(* start memories covered by the theorems: every future that is still loading is in the channel *)
Definition csl_mem_ok (m : c_state) : bool :=
  forallb (fun f => match cs_fdone m f with Some _ => true | None => existsb (Nat.eqb f) (c_queue m) end)
          (seq 0 (length (c_futs m))).

(* ---- what "finished" means *)
Definition csl_client_done (t : csl_thread) : bool :=
  match lt_pc t, lt_prog t with CslIdle, [] => true | _, _ => false end.
Definition csl_worker_idle (w : csl_wpc) : bool := match w with CslWSel => true | _ => false end.

(* some call has not returned, or some future of the arena is unresolved *)
Definition csl_pending (s : csl_state) : bool :=
  negb (forallb csl_client_done (csl_cl s)) ||
  negb (forallb (csl_complete s) (seq 0 (length (c_futs (csl_m s))))).

(* nothing left to do at all: additionally the channel is empty, every worker is back in select *)
Definition csl_quiet (s : csl_state) : bool :=
  forallb csl_client_done (csl_cl s) && forallb csl_worker_idle (csl_wk s) &&
  Nat.eqb (length (c_queue (csl_m s))) 0.

Definition csl_thread_items (s : csl_state) : list csl_item :=
  map CslC (seq 0 (length (csl_cl s))) ++
  flat_map (fun i => [CslW i false 0 0; CslW i true 0 0]) (seq 0 (length (csl_wk s))).

(* no thread can move (the loader result of an item does not matter for enabledness) *)
Definition csl_stuck (cfg : csl_cfg) (s : csl_state) : bool :=
  forallb (fun it => negb (csl_enabled cfg s it)) (csl_thread_items s).

(* ---- progress measure (natural number) *)
Local Open Scope nat_scope.

Definition csl_cnt (cfg : csl_cfg) (i : nat) (mp : list (Z * nat)) : nat := length (filter (csl_in_shard cfg i) mp).

(* steps of a sweep over the n shards i, i+1, ...: Lock, Unlock, next + two per entry *)
Fixpoint csl_sw (cfg : csl_cfg) (mp : list (Z * nat)) (i n : nat) : nat :=
  match n with
  | O => O
  | S n' => 3 + 2 * csl_cnt cfg i mp + csl_sw cfg mp (S i) n'
  end.
Definition csl_rest (cfg : csl_cfg) (mp : list (Z * nat)) (i : nat) : nat := csl_sw cfg mp i (csl_nsh cfg - i).

Definition csl_job_w : nat := 4.       (* receive, loader, store updateTime, store predecessor *)

Definition csl_wweight (cfg : csl_cfg) (mp : list (Z * nat)) (w : csl_wpc) : nat :=
  match w with
  | CslWSel => 0
  | CslWLD _ => 3
  | CslWSU _ _ _ _ => 2
  | CslWSP _ _ _ _ => 1
  | CslZBL i => 3 + 2 * csl_cnt cfg i mp + csl_rest cfg mp (S i)
  | CslZAL i => 2 + 2 * csl_cnt cfg i mp + csl_rest cfg mp (S i)
  | CslZLU i _ _ rest => 2 * length rest + 3 + csl_rest cfg mp (S i)
  | CslZRE i _ _ _ rest => 2 * length rest + 2 + csl_rest cfg mp (S i)
  | CslZAU i => 1 + csl_rest cfg mp (S i)
  end.

(* ins = what one new map entry can add to the weights of the sweepers and of a pending tick *)
Definition csl_pcweight (ins : nat) (pc : csl_pc) : nat :=
  match pc with
  | CslIdle => 0
  | CslLBL _ => 10 + ins
  | CslLAL _ => 9 + ins
  | CslLLU _ _ => 8 + ins
  | CslLRE _ _ _ => 7 + ins
  | CslLSH _ _ _ => 6
  | CslLAU _ (Some _) => 6
  | CslLAU _ None => 1
  | CslLSJ _ _ => 5
  | CslGBL _ => 9
  | CslGAL _ => 8
  | CslGLU _ _ => 7
  | CslGRE _ _ _ => 6
  | CslGAU => 1
  | CslGFW _ => 1
  | CslRLP _ _ _ => 5
  | CslRPU _ _ _ _ => 4
  | CslRPE _ _ _ _ _ => 3
  | CslXAU _ _ => 2
  | CslSBL _ _ _ => 5 + ins
  | CslSAL _ _ _ => 4 + ins
  | CslSSU _ _ _ _ => 3 + ins
  | CslSSP _ _ _ _ => 2 + ins
  | CslSAU => 1
  end.
Definition csl_opweight (ins : nat) (op : csl_op) : nat :=
  match op with
  | CslLoad _ => 11 + ins
  | CslGet2 _ => 10
  | CslSet _ _ _ => 6 + ins
  | CslAwait => 2
  end.
Definition csl_sum {A} (f : A -> nat) (l : list A) : nat := fold_right (fun x a => f x + a) 0 l.
Definition csl_tweight (ins : nat) (t : csl_thread) : nat :=
  csl_pcweight ins (lt_pc t) + csl_sum (csl_opweight ins) (lt_prog t).

Definition csl_ins (s : csl_state) : nat := 2 * (length (csl_wk s) + 1).

Definition csl_measure (cfg : csl_cfg) (s : csl_state) : nat :=
  let mp := c_map (csl_m s) in
  csl_sum (csl_tweight (csl_ins s)) (csl_cl s) +
  csl_job_w * length (c_queue (csl_m s)) +
  csl_sum (csl_wweight cfg mp) (csl_wk s) +
  (if csl_tk s then 1 + csl_rest cfg mp 0 else 0).

(* what the arrival of a tick can add *)
Definition csl_tick_w (cfg : csl_cfg) (s : csl_state) : nat := 1 + csl_rest cfg (c_map (csl_m s)) 0.
