(* Cache.v -- executable event-machine model of cachex (cachex/cache_impl.go, future.go,
   option.go) and of the key -> shard index function (loom/sharding.go).

   One event = one API call taken at its lock instant (Load / Get2 / Set), one worker
   action (a worker receives a job from the job channel = the loader invocation starts;
   the loader returns = Future.setValue), one sweep (removeRotted) or a time step.
   Time is a virtual clock [c_now] in ns.  A Future is an index into the arena [c_futs]
   (futures are garbage collected and never reused, so "pointer" = position of creation).

   Transcribed functions (same branches, same comparison operators):
     getFutureStatus          -> c_status
     fetchIfFutureStatusGood  -> c_fetch
     Load / Get2 / Set        -> c_load / c_get2 / c_set
     removeRotted             -> c_sweep
     Future.setValue          -> c_finish (value, err, updateTime := now, predecessor := nil)
   Errors are codes: 0 = nil error.  Values are codes: 0 = nil value.
   Ghost state (not compared with the implementation): [c_displaced], the loading futures
   that a Set replaced in the map.

   Definitions only; proofs are in proofs/CacheProofs.v. *)
From Got Require Import Base.
Local Open Scope Z_scope.

Record c_cfg := { c_normE : Z; c_errE : Z }.

(* completed part of a future: (value, err, updateTime) *)
Definition c_result := (Z * Z * Z)%type.

Record c_fut := {
  c_fkey : Z;
  c_fdone : option c_result;     (* None = updateTime is zero = still loading *)
  c_fpred : option nat           (* predecessor; cleared by setValue *)
}.

Record c_state := {
  c_now : Z;
  c_futs : list c_fut;           (* arena; fid = index *)
  c_map : list (Z * nat);        (* key -> fid, keys unique; absent = nil *)
  c_queue : list nat;            (* job channel (+ senders blocked on it), FIFO *)
  c_running : list nat;          (* jobs whose loader is executing *)
  c_displaced : list nat         (* ghost: loading futures replaced by Set *)
}.

Inductive c_event :=
| CLoad (k : Z)
| CGet2 (k : Z)
| CSet (k v e : Z)
| CStart (k : Z)                 (* a worker takes the first queued job of key k *)
| CFinish (k : Z) (i : nat) (v e : Z)  (* the i-th running load of key k returns (v,e) *)
| CSweep
| CAdvance (dt : Z).

Inductive c_out :=
| OLoad (f : nat) (created : bool)   (* returned future, job created? *)
| OImmediate                         (* Get2 returns (nil,nil) at once *)
| OAwait (f : nat)                   (* Get2 = f.Get2() *)
| OStart (f : nat)
| OFinish (f : nat)
| ONone
| OBad.                              (* event not enabled in this state *)

Inductive c_st := CEmpty | CGood | CExpired | CRotted.

Definition c_init : c_state :=
  {| c_now := 0; c_futs := []; c_map := []; c_queue := []; c_running := []; c_displaced := [] |}.

(* ---- arena and map primitives *)
Definition c_get (futs : list c_fut) (f : nat) : option c_fut := nth_error futs f.

Definition c_setfut (futs : list c_fut) (f : nat) (x : c_fut) : list c_fut :=
  firstn f futs ++ x :: skipn (S f) futs.

Fixpoint c_lookup (m : list (Z * nat)) (k : Z) : option nat :=
  match m with
  | [] => None
  | (k', f) :: r => if k' =? k then Some f else c_lookup r k
  end.

Fixpoint c_remove (m : list (Z * nat)) (k : Z) : list (Z * nat) :=
  match m with
  | [] => []
  | (k', f) :: r => if k' =? k then c_remove r k else (k', f) :: c_remove r k
  end.

Definition c_update (m : list (Z * nat)) (k : Z) (f : nat) : list (Z * nat) :=
  (k, f) :: c_remove m k.

(* ---- getFutureStatus *)
Definition c_expire (cfg : c_cfg) (e : Z) : Z := if e =? 0 then c_normE cfg else c_errE cfg.

Definition c_status_fut (cfg : c_cfg) (now : Z) (x : c_fut) : c_st :=
  match c_fdone x with
  | None => CGood                                  (* updateTime.IsZero() *)
  | Some (v, e, u) =>
      let past := now - u in
      let expire := c_expire cfg e in
      if past <? expire then CGood
      else if past <? 2 * expire then CExpired
      else CRotted
  end.

Definition c_status (cfg : c_cfg) (now : Z) (futs : list c_fut) (of : option nat) : c_st :=
  match of with
  | None => CEmpty
  | Some f => match c_get futs f with
              | None => CEmpty                     (* dangling: excluded by c_inv *)
              | Some x => c_status_fut cfg now x
              end
  end.

(* ---- fetchIfFutureStatusGood *)
Definition c_fetch (cfg : c_cfg) (now : Z) (futs : list c_fut) (f : nat) : nat :=
  let pred := match c_get futs f with Some x => c_fpred x | None => None end in
  match c_status cfg now futs pred with
  | CExpired => match pred with Some p => p | None => f end
  | _ => f
  end.

Definition c_is_good (st : c_st) : bool := match st with CGood => true | _ => false end.

(* ---- Load *)
(* next = newFuture(predecessor); futures.d[key] = next; sendJob(next) *)
Definition c_new_job (s : c_state) (k : Z) (pred : option nat) : c_state :=
  {| c_now := c_now s;
     c_futs := c_futs s ++ [{| c_fkey := k; c_fdone := None; c_fpred := pred |}];
     c_map := c_update (c_map s) k (length (c_futs s));
     c_queue := c_queue s ++ [length (c_futs s)];
     c_running := c_running s;
     c_displaced := c_displaced s |}.

Definition c_load (cfg : c_cfg) (s : c_state) (k : Z) : c_state * c_out :=
  let last := c_lookup (c_map s) k in
  match c_status cfg (c_now s) (c_futs s) last with
  | CGood =>       (* no next; return fetchIfFutureStatusGood(last) *)
      (s, OLoad (match last with Some l => c_fetch cfg (c_now s) (c_futs s) l | None => O end) false)
  | CExpired =>    (* predecessor = last; return last *)
      (c_new_job s k last, OLoad (match last with Some l => l | None => length (c_futs s) end) true)
  | CRotted =>     (* predecessor = nil; return next *)
      (c_new_job s k None, OLoad (length (c_futs s)) true)
  | CEmpty =>      (* predecessor = nil; return next *)
      (c_new_job s k None, OLoad (length (c_futs s)) true)
  end.

(* ---- Get2 *)
Definition c_get2 (cfg : c_cfg) (s : c_state) (k : Z) : c_out :=
  let fut := c_lookup (c_map s) k in
  match c_status cfg (c_now s) (c_futs s) fut, fut with
  | CGood, Some f => OAwait (c_fetch cfg (c_now s) (c_futs s) f)
  | CExpired, Some f => OAwait f
  | _, _ => OImmediate
  end.

(* ---- Set *)
Definition c_is_loading (futs : list c_fut) (f : nat) : bool :=
  match c_get futs f with
  | Some x => match c_fdone x with None => true | Some _ => false end
  | None => false
  end.

Definition c_set (s : c_state) (k v e : Z) : c_state :=
  let next := length (c_futs s) in
  {| c_now := c_now s;
     c_futs := c_futs s ++ [{| c_fkey := k; c_fdone := Some (v, e, c_now s); c_fpred := None |}];
     c_map := c_update (c_map s) k next;
     c_queue := c_queue s;
     c_running := c_running s;
     c_displaced := match c_lookup (c_map s) k with
                    | Some old => if c_is_loading (c_futs s) old then old :: c_displaced s
                                  else c_displaced s
                    | None => c_displaced s
                    end |}.

(* ---- workers *)
Definition c_key_is (futs : list c_fut) (k : Z) (f : nat) : bool :=
  match c_get futs f with Some x => c_fkey x =? k | None => false end.

(* first element satisfying p, and the list without it *)
Fixpoint c_take_first (p : nat -> bool) (l : list nat) : option (nat * list nat) :=
  match l with
  | [] => None
  | f :: r => if p f then Some (f, r)
              else match c_take_first p r with
                   | Some (g, r') => Some (g, f :: r')
                   | None => None
                   end
  end.

(* i-th element satisfying p, and the list without it *)
Fixpoint c_take_nth (p : nat -> bool) (i : nat) (l : list nat) : option (nat * list nat) :=
  match l with
  | [] => None
  | f :: r => if p f then
                match i with
                | O => Some (f, r)
                | S j => match c_take_nth p j r with
                         | Some (g, r') => Some (g, f :: r')
                         | None => None
                         end
                end
              else match c_take_nth p i r with
                   | Some (g, r') => Some (g, f :: r')
                   | None => None
                   end
  end.

Definition c_start (s : c_state) (k : Z) : c_state * c_out :=
  match c_take_first (c_key_is (c_futs s) k) (c_queue s) with
  | None => (s, OBad)
  | Some (f, q') =>
      ({| c_now := c_now s; c_futs := c_futs s; c_map := c_map s; c_queue := q';
          c_running := c_running s ++ [f]; c_displaced := c_displaced s |}, OStart f)
  end.

Definition c_finish (s : c_state) (k : Z) (i : nat) (v e : Z) : c_state * c_out :=
  match c_take_nth (c_key_is (c_futs s) k) i (c_running s) with
  | None => (s, OBad)
  | Some (f, r') =>
      ({| c_now := c_now s;
          c_futs := c_setfut (c_futs s) f {| c_fkey := k; c_fdone := Some (v, e, c_now s); c_fpred := None |};
          c_map := c_map s; c_queue := c_queue s; c_running := r';
          c_displaced := c_displaced s |}, OFinish f)
  end.

(* ---- removeRotted *)
Definition c_is_rotted (cfg : c_cfg) (now : Z) (futs : list c_fut) (f : nat) : bool :=
  match c_status cfg now futs (Some f) with CRotted => true | _ => false end.

Definition c_sweep (cfg : c_cfg) (s : c_state) : c_state :=
  {| c_now := c_now s; c_futs := c_futs s;
     c_map := filter (fun kf => negb (c_is_rotted cfg (c_now s) (c_futs s) (snd kf))) (c_map s);
     c_queue := c_queue s; c_running := c_running s; c_displaced := c_displaced s |}.

(* ---- the machine *)
Definition c_step (cfg : c_cfg) (s : c_state) (ev : c_event) : c_state * c_out :=
  match ev with
  | CLoad k => c_load cfg s k
  | CGet2 k => (s, c_get2 cfg s k)
  | CSet k v e => (c_set s k v e, ONone)
  | CStart k => c_start s k
  | CFinish k i v e => c_finish s k i v e
  | CSweep => (c_sweep cfg s, ONone)
  | CAdvance dt =>
      if dt <? 0 then (s, OBad)
      else ({| c_now := c_now s + dt; c_futs := c_futs s; c_map := c_map s; c_queue := c_queue s;
               c_running := c_running s; c_displaced := c_displaced s |}, ONone)
  end.

Fixpoint c_run (cfg : c_cfg) (s : c_state) (evs : list c_event) : c_state :=
  match evs with
  | [] => s
  | ev :: r => c_run cfg (fst (c_step cfg s ev)) r
  end.

Fixpoint c_outputs (cfg : c_cfg) (s : c_state) (evs : list c_event) : list c_out :=
  match evs with
  | [] => []
  | ev :: r => snd (c_step cfg s ev) :: c_outputs cfg (fst (c_step cfg s ev)) r
  end.

(* configurations the Go options accept: WithExpire asserts normal >= error > 0 *)
Definition c_cfg_ok (cfg : c_cfg) : Prop := 0 < c_errE cfg /\ c_errE cfg <= c_normE cfg.

(* ---- loom/sharding.go: key -> shard index *)
Inductive c_kty := KInt | KInt8 | KInt16 | KInt32 | KInt64 | KUint8 | KUint16 | KUint32 | KUint64 | KString.

(* fnv32: hash *= prime32 (uint32 wrap); hash ^= byte *)
Definition c_fnv32 (bytes : list Z) : Z :=
  fold_left (fun h b => Z.lxor (wrapu 32 (h * 16777619)) (b mod 256)) bytes 2166136261.

(* [x] is the numeric value of the key (in the range of its Go type), [bytes] the bytes of
   a string key; int64(key) then int(next) & (shardingCount-1) on 64-bit two's complement *)
Definition c_shard_index (ty : c_kty) (x : Z) (bytes : list Z) (count : Z) : Z :=
  let next := match ty with
              | KString => c_fnv32 bytes
              | _ => sext 64 x
              end in
  Z.land next (count - 1).
