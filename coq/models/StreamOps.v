(* StreamOps.v -- executable model of iox.OctetsStream's stream operations
   (iox/octets_stream.go: Write, Read, Tidy, Reset, Seek, Bytes, Len, Position).
   State: buffer contents buffer[0:len] and position (a Go int, kept in Z because the
   original Seek could set it to anything >= 0). The capacity of the slice is NOT modelled
   (append's growth policy); no slice expression of these functions can exceed len without
   also having low > high, see stm_read. The variant switch selects the Seek upper-bound
   check added by the fix commit 6fe9801. *)
From Got Require Import Base GoSlice.

Inductive stm_variant := StmOrig | StmFixed.

Record stm_state := mk_stm { st_buf : list Z; st_pos : Z }.

Definition stm_init : stm_state := mk_stm [] 0.
Definition stm_len (s : stm_state) : Z := Z.of_nat (length (st_buf s)).

Inductive stm_op :=
| SWrite (p : list Z)
| SRead (n : nat)          (* len(buffer argument) *)
| SSeek (offset whence : Z)
| STidy
| SReset.

Inductive stm_ret :=
| SRWrote                          (* Write returns nil *)
| SRRead (d : list Z) (err : bool) (* bytes copied out; err = ErrInvalidArgument *)
| SRSeek (r : option Z)            (* Some pos | None = ErrInvalidArgument *)
| SRUnit.

(* func (my *OctetsStream) Write(buffer []byte) error *)
Definition stm_write (s : stm_state) (p : list Z) : stm_state :=
  if (0 <? Z.of_nat (length p)) then mk_stm (st_buf s ++ p) (st_pos s) else s.

(* func (my *OctetsStream) Read(buffer []byte) (int, error) *)
Definition stm_read (s : stm_state) (n : nat) : res (stm_state * stm_ret) unit :=
  let readSize := Z.of_nat n in
  if readSize =? 0 then Ok (s, SRRead [] true)
  else
    let remainSize := stm_len s - st_pos s in
    if remainSize =? 0 then Ok (s, SRRead [] false)
    else
      let readSize := if readSize >? remainSize then remainSize else readSize in
      (* my.buffer[my.position : my.position+readSize]; readSize <= remainSize, so the
         upper index never exceeds len: the (unmodelled) capacity cannot matter *)
      gs_bind (gs_slice (st_buf s) (st_pos s) (st_pos s + readSize)) (fun d =>
      Ok (mk_stm (st_buf s) (st_pos s + readSize), SRRead d false)).

(* func (my *OctetsStream) Tidy() *)
Definition stm_tidy (s : stm_state) : res stm_state unit :=
  if st_pos s >? 0 then
    gs_bind (gs_slice_from (st_buf s) (st_pos s)) (fun src =>
    let b1 := gs_copy (st_buf s) src in
    gs_bind (gs_slice b1 0 (stm_len s - st_pos s)) (fun b2 =>
    Ok (mk_stm b2 0)))
  else Ok s.

(* func (my *OctetsStream) Reset() *)
Definition stm_reset (s : stm_state) : stm_state := mk_stm [] 0.

(* func (my *OctetsStream) Seek(offset int64, whence int) (int64, error) *)
Definition stm_seek (v : stm_variant) (s : stm_state) (offset whence : Z) : stm_state * option Z :=
  let base := if whence =? 0 then (if offset <? 0 then None else Some 0)
              else if whence =? 1 then Some (st_pos s)
              else if whence =? 2 then Some (stm_len s)
              else None in
  match base with
  | None => (s, None)
  | Some b =>
      let num := sext 64 (b + offset) in
      let too_big := match v with StmOrig => false | StmFixed => num >? stm_len s end in
      if (num <? 0) || too_big then (s, None)
      else (mk_stm (st_buf s) num, Some num)
  end.

(* observers *)
Definition stm_bytes (s : stm_state) : res (list Z) unit := gs_slice_from (st_buf s) (st_pos s).
Definition stm_position (s : stm_state) : Z := st_pos s.

Definition stm_step (v : stm_variant) (s : stm_state) (op : stm_op) : res (stm_state * stm_ret) unit :=
  match op with
  | SWrite p => Ok (stm_write s p, SRWrote)
  | SRead n => stm_read s n
  | SSeek o w => let '(s1, r) := stm_seek v s o w in Ok (s1, SRSeek r)
  | STidy => gs_bind (stm_tidy s) (fun s1 => Ok (s1, SRUnit))
  | SReset => Ok (stm_reset s, SRUnit)
  end.

Fixpoint stm_run (v : stm_variant) (s : stm_state) (ops : list stm_op) : res (stm_state * list stm_ret) unit :=
  match ops with
  | [] => Ok (s, [])
  | op :: tl =>
      gs_bind (stm_step v s op) (fun sr =>
      gs_bind (stm_run v (fst sr) tl) (fun srs =>
      Ok (fst srs, snd sr :: snd srs)))
  end.

(* trace used by the correspondence check: after every op the return value and the
   observers Bytes / Len / Position; stops at the first panic *)
Inductive stm_line :=
| SLPanic                                  (* the op itself panicked *)
| SLObs (r : stm_ret) (bytes : res (list Z) unit) (len pos : Z).

Fixpoint stm_trace (v : stm_variant) (s : stm_state) (ops : list stm_op) : list stm_line :=
  match ops with
  | [] => []
  | op :: tl =>
      match stm_step v s op with
      | Ok (s1, r) =>
          let b := stm_bytes s1 in
          SLObs r b (stm_len s1) (stm_position s1) ::
          match b with Ok _ => stm_trace v s1 tl | _ => [] end
      | _ => [SLPanic]
      end
  end.

(* flat integer encoding of a trace (used only to compare the extracted OCaml model with
   vm_compute inside coqc on a sample of cases) *)
Definition stm_flat_bytes (d : list Z) : list Z := Z.of_nat (length d) :: d.
Definition stm_flat_ret (r : stm_ret) : list Z :=
  match r with
  | SRWrote => [1]
  | SRRead d e => 2 :: (if e then 1 else 0) :: stm_flat_bytes d
  | SRSeek None => [3; 0]
  | SRSeek (Some p) => [3; 1; p]
  | SRUnit => [4]
  end.
Definition stm_flat_line (l : stm_line) : list Z :=
  match l with
  | SLPanic => [-1]
  | SLObs r b len pos =>
      stm_flat_ret r ++ (match b with Ok d => stm_flat_bytes d | _ => [-2] end) ++ [len; pos]
  end.
Definition stm_flat (v : stm_variant) (ops : list stm_op) : list Z :=
  flat_map stm_flat_line (stm_trace v stm_init ops).
