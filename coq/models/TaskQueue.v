(* TaskQueue.v -- executable small-step model of taskx.Queue (taskx/queue.go), taskCallback
   (taskx/task_callback.go) and taskEmpty (taskx/task_empty.go).

   Producers run programs of SendCallback(handler) / SendTask(task) calls.  Both end in
       select { case <-my.closeChan: ; case my.C <- task: }
   on a buffered channel of capacity [tq_cap].  Go channel semantics are modelled, not
   verified: the buffer is a bounded FIFO; a send on a full channel blocks and the sender is
   queued ([tq_sendq]); a receive from a full buffer admits one blocked sender in the same
   step (Go: the head of the FIFO sendq; the model lets the step choose any, [TqRecv k]);
   a select with both branches ready (close channel closed AND room) takes either one (the
   step carries the choice [c]); closing the close channel wakes every blocked sender through
   the close branch (its task is not sent).  One consumer receives tasks and executes each
   received task once: [TqRecv] (receive), [TqStore] (Do: task.result, task.err = handler(args)),
   [TqDone] (Do: isHandled = true; wg.Done()).  Get1/Get2 = wg.Wait() then read result/err:
   [tq_get2] is [None] (blocked) while the task's wg is not done.  Get2 callers as goroutines
   (started at any position, parked in wg.Wait(), released by the Done step): [tq_gstep] at the end.
   A handler is modelled by the pair it returns (result id, error id; 0 = nil).  A task is
   identified by (producer, index of the call in the producer's program).  Sending the same
   task object twice through SendTask is not modelled.

   Definitions only; proofs are in proofs/TaskQueueProofs.v. *)
From Got Require Import Base.
Local Open Scope nat_scope.

Definition tq_pair := (Z * Z)%type.

Inductive tq_op :=
| TqCallback (h : option tq_pair)   (* SendCallback(handler); None = nil handler *)
| TqTask (h : option tq_pair).      (* SendTask(task); None = nil; Some p = a user Task whose Do returns p *)

Definition tq_tid := (nat * nat)%type.

Inductive tq_kind := TqKCallback | TqKUser.

Record tq_task := { tq_id : tq_tid; tq_kind_of : tq_kind; tq_handler : tq_pair }.

(* what a send call returned to its caller *)
Inductive tq_handle :=
| TqHEmpty                (* taskEmpty{} *)
| TqHNil                  (* nil (SendTask(nil)) *)
| TqHTask (id : tq_tid).  (* the task *)

Inductive tq_ppc := TqPIdle | TqPBlocked (t : tq_task).

Record tq_prod := {
  tq_prog : list tq_op;         (* calls still to make *)
  tq_next : nat;                (* index of the next call *)
  tq_ppc_of : tq_ppc;
  tq_rets : list tq_handle      (* what the completed calls returned, in call order *)
}.

(* the fields of a taskCallback *)
Record tq_cb := { tq_cb_id : tq_tid; tq_result : Z; tq_err : Z; tq_handled : bool }.

Inductive tq_cpc :=
| TqCIdle
| TqCGot (t : tq_task)       (* received; handler running *)
| TqCStored (t : tq_task).   (* result/err written; wg.Done() pending *)

Record tq_state := {
  tq_cap : nat;
  tq_buf : list tq_task;
  tq_sendq : list (nat * tq_task);
  tq_closed : bool;
  tq_prods : list tq_prod;
  tq_cons : tq_cpc;
  tq_cbs : list tq_cb;
  tq_entered : list tq_task;     (* ghost: tasks in the order they entered the channel *)
  tq_received : list tq_task     (* ghost: tasks in the order the consumer received them *)
}.

Inductive tq_act :=
| TqProd (i : nat) (c : bool)   (* producer i makes its next call (up to its return or its blocking) *)
| TqRecv (k : nat)              (* consumer receives one task; k: which blocked sender is admitted *)
| TqStore
| TqDone
| TqClose.

Inductive tq_ev :=
| TqESent (i : nat) (t : tq_task)       (* call returned, task entered the channel *)
| TqEBlocked (i : nat) (t : tq_task)    (* call blocks: queue full and open *)
| TqESkipped (i : nat) (t : tq_task)    (* select took the close branch: returned, not sent *)
| TqERetEmpty (i : nat)                 (* SendCallback(nil) returned taskEmpty{} *)
| TqERetNil (i : nat)                   (* SendTask(nil) returned nil *)
| TqERecv (t : tq_task) (adm : option (nat * tq_task))
| TqEStore (t : tq_task)
| TqEDone (t : tq_task)
| TqEClose (woken : list (nat * tq_task))
| TqENone.                              (* not enabled: no effect *)

Definition tq_init (cap : nat) (progs : list (list tq_op)) : tq_state :=
  {| tq_cap := cap; tq_buf := []; tq_sendq := []; tq_closed := false;
     tq_prods := map (fun p => {| tq_prog := p; tq_next := 0; tq_ppc_of := TqPIdle; tq_rets := [] |}) progs;
     tq_cons := TqCIdle; tq_cbs := []; tq_entered := []; tq_received := [] |}.

Definition tq_set_prod (ps : list tq_prod) (i : nat) (p : tq_prod) : list tq_prod :=
  firstn i ps ++ p :: skipn (S i) ps.

(* a blocked sender's call returns (admitted by a receive, or woken by close) *)
Definition tq_unblock (ps : list tq_prod) (it : nat * tq_task) : list tq_prod :=
  match nth_error ps (fst it) with
  | Some p => tq_set_prod ps (fst it)
                {| tq_prog := tq_prog p; tq_next := tq_next p; tq_ppc_of := TqPIdle;
                   tq_rets := tq_rets p ++ [TqHTask (tq_id (snd it))] |}
  | None => ps
  end.

(* close(closeChan) wakes every parked sender through the close branch: its call returns *)
Definition tq_wake (p : tq_prod) : tq_prod :=
  match tq_ppc_of p with
  | TqPBlocked t => {| tq_prog := tq_prog p; tq_next := tq_next p; tq_ppc_of := TqPIdle;
                       tq_rets := tq_rets p ++ [TqHTask (tq_id t)] |}
  | TqPIdle => p
  end.

Definition tq_tid_eqb (a b : tq_tid) : bool := (fst a =? fst b) && (snd a =? snd b).

Definition tq_upd_cbs (cbs : list tq_cb) (id : tq_tid) (f : tq_cb -> tq_cb) : list tq_cb :=
  map (fun cb => if tq_tid_eqb (tq_cb_id cb) id then f cb else cb) cbs.

(* the select of a send call of producer i (record p with the call already consumed) for task t *)
Definition tq_select (s : tq_state) (i : nat) (p : tq_prod) (cbs : list tq_cb) (t : tq_task) (c : bool)
  : tq_state * tq_ev :=
  let room := length (tq_buf s) <? tq_cap s in
  let ret := {| tq_prog := tq_prog p; tq_next := tq_next p; tq_ppc_of := TqPIdle;
                tq_rets := tq_rets p ++ [TqHTask (tq_id t)] |} in
  if (negb (tq_closed s) || c) && room then
    (* case my.C <- task *)
    ({| tq_cap := tq_cap s; tq_buf := tq_buf s ++ [t]; tq_sendq := tq_sendq s; tq_closed := tq_closed s;
        tq_prods := tq_set_prod (tq_prods s) i ret; tq_cons := tq_cons s; tq_cbs := cbs;
        tq_entered := tq_entered s ++ [t]; tq_received := tq_received s |}, TqESent i t)
  else if tq_closed s then
    (* case <-my.closeChan *)
    ({| tq_cap := tq_cap s; tq_buf := tq_buf s; tq_sendq := tq_sendq s; tq_closed := tq_closed s;
        tq_prods := tq_set_prod (tq_prods s) i ret; tq_cons := tq_cons s; tq_cbs := cbs;
        tq_entered := tq_entered s; tq_received := tq_received s |}, TqESkipped i t)
  else
    (* full and open: the goroutine parks on both channels *)
    ({| tq_cap := tq_cap s; tq_buf := tq_buf s; tq_sendq := tq_sendq s ++ [(i, t)]; tq_closed := tq_closed s;
        tq_prods := tq_set_prod (tq_prods s) i
                      {| tq_prog := tq_prog p; tq_next := tq_next p; tq_ppc_of := TqPBlocked t; tq_rets := tq_rets p |};
        tq_cons := tq_cons s; tq_cbs := cbs;
        tq_entered := tq_entered s; tq_received := tq_received s |}, TqEBlocked i t).

Definition tq_with_prods (s : tq_state) (ps : list tq_prod) : tq_state :=
  {| tq_cap := tq_cap s; tq_buf := tq_buf s; tq_sendq := tq_sendq s; tq_closed := tq_closed s;
     tq_prods := ps; tq_cons := tq_cons s; tq_cbs := tq_cbs s;
     tq_entered := tq_entered s; tq_received := tq_received s |}.

Definition tq_step_prod (s : tq_state) (i : nat) (c : bool) : tq_state * tq_ev :=
  match nth_error (tq_prods s) i with
  | None => (s, TqENone)
  | Some p =>
    match tq_ppc_of p with
    | TqPBlocked _ => (s, TqENone)
    | TqPIdle =>
      match tq_prog p with
      | [] => (s, TqENone)
      | op :: rest =>
        let j := tq_next p in
        let p1 := {| tq_prog := rest; tq_next := S j; tq_ppc_of := TqPIdle; tq_rets := tq_rets p |} in
        match op with
        | TqCallback None =>      (* if handler == nil { return taskEmpty{} } *)
            (tq_with_prods s (tq_set_prod (tq_prods s) i
               {| tq_prog := rest; tq_next := S j; tq_ppc_of := TqPIdle; tq_rets := tq_rets p ++ [TqHEmpty] |}),
             TqERetEmpty i)
        | TqTask None =>          (* if task != nil {...}; return task *)
            (tq_with_prods s (tq_set_prod (tq_prods s) i
               {| tq_prog := rest; tq_next := S j; tq_ppc_of := TqPIdle; tq_rets := tq_rets p ++ [TqHNil] |}),
             TqERetNil i)
        | TqCallback (Some h) =>  (* task = &taskCallback{handler}; task.wg.Add(1); select *)
            let t := {| tq_id := (i, j); tq_kind_of := TqKCallback; tq_handler := h |} in
            tq_select s i p1
              (tq_cbs s ++ [{| tq_cb_id := (i, j); tq_result := 0%Z; tq_err := 0%Z; tq_handled := false |}]) t c
        | TqTask (Some h) =>
            let t := {| tq_id := (i, j); tq_kind_of := TqKUser; tq_handler := h |} in
            tq_select s i p1 (tq_cbs s) t c
        end
      end
    end
  end.

Definition tq_remove_nth {A : Type} (k : nat) (l : list A) : list A := firstn k l ++ skipn (S k) l.

Definition tq_step (s : tq_state) (a : tq_act) : tq_state * tq_ev :=
  match a with
  | TqProd i c => tq_step_prod s i c
  | TqRecv k =>
      match tq_cons s, tq_buf s with
      | TqCIdle, t :: rest =>
          let k' := if k <? length (tq_sendq s) then k else 0 in
          match nth_error (tq_sendq s) k' with
          | None =>
              ({| tq_cap := tq_cap s; tq_buf := rest; tq_sendq := tq_sendq s; tq_closed := tq_closed s;
                  tq_prods := tq_prods s; tq_cons := TqCGot t; tq_cbs := tq_cbs s;
                  tq_entered := tq_entered s; tq_received := tq_received s ++ [t] |}, TqERecv t None)
          | Some it =>
              ({| tq_cap := tq_cap s; tq_buf := rest ++ [snd it]; tq_sendq := tq_remove_nth k' (tq_sendq s);
                  tq_closed := tq_closed s;
                  tq_prods := tq_unblock (tq_prods s) it; tq_cons := TqCGot t; tq_cbs := tq_cbs s;
                  tq_entered := tq_entered s ++ [snd it]; tq_received := tq_received s ++ [t] |},
               TqERecv t (Some it))
          end
      | _, _ => (s, TqENone)
      end
  | TqStore =>
      match tq_cons s with
      | TqCGot t =>
          ({| tq_cap := tq_cap s; tq_buf := tq_buf s; tq_sendq := tq_sendq s; tq_closed := tq_closed s;
              tq_prods := tq_prods s; tq_cons := TqCStored t;
              tq_cbs := match tq_kind_of t with
                        | TqKCallback =>
                            tq_upd_cbs (tq_cbs s) (tq_id t)
                              (fun cb => {| tq_cb_id := tq_cb_id cb; tq_result := fst (tq_handler t);
                                            tq_err := snd (tq_handler t); tq_handled := tq_handled cb |})
                        | TqKUser => tq_cbs s
                        end;
              tq_entered := tq_entered s; tq_received := tq_received s |}, TqEStore t)
      | _ => (s, TqENone)
      end
  | TqDone =>
      match tq_cons s with
      | TqCStored t =>
          ({| tq_cap := tq_cap s; tq_buf := tq_buf s; tq_sendq := tq_sendq s; tq_closed := tq_closed s;
              tq_prods := tq_prods s; tq_cons := TqCIdle;
              tq_cbs := match tq_kind_of t with
                        | TqKCallback =>
                            tq_upd_cbs (tq_cbs s) (tq_id t)
                              (fun cb => {| tq_cb_id := tq_cb_id cb; tq_result := tq_result cb;
                                            tq_err := tq_err cb; tq_handled := true |})
                        | TqKUser => tq_cbs s
                        end;
              tq_entered := tq_entered s; tq_received := tq_received s |}, TqEDone t)
      | _ => (s, TqENone)
      end
  | TqClose =>
      if tq_closed s then (s, TqENone)
      else
        ({| tq_cap := tq_cap s; tq_buf := tq_buf s; tq_sendq := []; tq_closed := true;
            tq_prods := map tq_wake (tq_prods s); tq_cons := tq_cons s; tq_cbs := tq_cbs s;
            tq_entered := tq_entered s; tq_received := tq_received s |}, TqEClose (tq_sendq s))
  end.

Fixpoint tq_run (s : tq_state) (sched : list tq_act) : tq_state * list tq_ev :=
  match sched with
  | [] => (s, [])
  | a :: rest =>
      let '(s1, e) := tq_step s a in
      let '(s2, tr) := tq_run s1 rest in
      (s2, e :: tr)
  end.

Definition tq_final (s : tq_state) (sched : list tq_act) : tq_state := fst (tq_run s sched).
Definition tq_trace (s : tq_state) (sched : list tq_act) : list tq_ev := snd (tq_run s sched).

(* ---- Get1 / Get2 : None = the caller is blocked in wg.Wait() *)
Definition tq_find_cb (s : tq_state) (id : tq_tid) : option tq_cb :=
  find (fun cb => tq_tid_eqb (tq_cb_id cb) id) (tq_cbs s).

Definition tq_get2 (s : tq_state) (h : tq_handle) : option tq_pair :=
  match h with
  | TqHEmpty => Some (0%Z, 0%Z)
  | TqHNil => None
  | TqHTask id =>
      match tq_find_cb s id with
      | Some cb => if tq_handled cb then Some (tq_result cb, tq_err cb) else None
      | None => None
      end
  end.
Definition tq_get1 (s : tq_state) (h : tq_handle) : option Z := option_map fst (tq_get2 s h).

(* ---- specification vocabulary *)
Definition tq_owner (i : nat) (t : tq_task) : bool := fst (tq_id t) =? i.
Definition tq_ids_of (i : nat) (l : list tq_task) : list tq_tid := map tq_id (filter (tq_owner i) l).

(* the send calls of producer i that really send a task, from call index j on *)
Fixpoint tq_sends_from (i j : nat) (prog : list tq_op) : list tq_tid :=
  match prog with
  | [] => []
  | TqCallback (Some _) :: rest => (i, j) :: tq_sends_from i (S j) rest
  | TqTask (Some _) :: rest => (i, j) :: tq_sends_from i (S j) rest
  | _ :: rest => tq_sends_from i (S j) rest
  end.

Definition tq_ret_ids (l : list tq_handle) : list tq_tid :=
  flat_map (fun h => match h with TqHTask id => [id] | _ => [] end) l.

Definition tq_done_in (tr : list tq_ev) (id : tq_tid) : bool :=
  existsb (fun e => match e with TqEDone t => tq_tid_eqb (tq_id t) id | _ => false end) tr.

Definition tq_prod_idle (s : tq_state) (i : nat) : bool :=
  match nth_error (tq_prods s) i with
  | Some p => match tq_ppc_of p with TqPIdle => true | _ => false end
  | None => false
  end.

(* the operation at call index j of producer i's program *)
Definition tq_op_at (progs : list (list tq_op)) (id : tq_tid) : option tq_op :=
  nth_error (nth (fst id) progs []) (snd id).

(* what call j of producer i returns to its caller *)
Definition tq_handle_of (i j : nat) (op : tq_op) : tq_handle :=
  match op with
  | TqCallback None => TqHEmpty
  | TqTask None => TqHNil
  | _ => TqHTask (i, j)
  end.

(* ---- Get2 waiter threads.  A waiter is a goroutine that calls Get2 on a handle:
       task.wg.Wait(); return task.result, task.err
   [TqGGet h] starts one: wg.Wait() returns at once iff the counter is already 0 (the task's
   Done step has happened), otherwise the goroutine parks ([tq_w_ret] = None).  The wg.Done()
   inside the consumer's Done step of a taskCallback releases every waiter parked on THAT
   task's WaitGroup; a released waiter then reads result and err.  No other step touches a
   waiter.  Waiters are numbered in the order they start. *)
Record tq_waiter := { tq_w_on : tq_handle; tq_w_ret : option tq_pair }.

Record tq_gstate := { tq_base : tq_state; tq_waiters : list tq_waiter }.

Inductive tq_gact :=
| TqGBase (a : tq_act)       (* a step of the queue / producers / consumer *)
| TqGGet (h : tq_handle).    (* a new goroutine calls Get2 on h *)

Inductive tq_gev :=
| TqGEBase (e : tq_ev) (released : list (nat * tq_pair))  (* base step; the waiters its wg.Done() released and what their Get2 returns *)
| TqGERet (w : nat) (p : tq_pair)                         (* Get2 of waiter w returned at once *)
| TqGEPark (w : nat).                                     (* waiter w parks in wg.Wait() *)

Definition tq_ginit (cap : nat) (progs : list (list tq_op)) : tq_gstate :=
  {| tq_base := tq_init cap progs; tq_waiters := [] |}.

Definition tq_w_parked_on (w : tq_waiter) (id : tq_tid) : bool :=
  match tq_w_ret w, tq_w_on w with
  | None, TqHTask id' => tq_tid_eqb id' id
  | _, _ => false
  end.

Definition tq_release (s' : tq_state) (id : tq_tid) (w : tq_waiter) : tq_waiter :=
  if tq_w_parked_on w id then {| tq_w_on := tq_w_on w; tq_w_ret := tq_get2 s' (tq_w_on w) |} else w.

Fixpoint tq_released_from (n : nat) (old new : list tq_waiter) : list (nat * tq_pair) :=
  match old, new with
  | o :: old', w :: new' =>
      match tq_w_ret o, tq_w_ret w with
      | None, Some p => (n, p) :: tq_released_from (S n) old' new'
      | _, _ => tq_released_from (S n) old' new'
      end
  | _, _ => []
  end.

Definition tq_gstep (g : tq_gstate) (a : tq_gact) : tq_gstate * tq_gev :=
  match a with
  | TqGBase a =>
      let '(s', e) := tq_step (tq_base g) a in
      let ws := match e with
                | TqEDone t =>
                    match tq_kind_of t with
                    | TqKCallback => map (tq_release s' (tq_id t)) (tq_waiters g)
                    | TqKUser => tq_waiters g
                    end
                | _ => tq_waiters g
                end in
      ({| tq_base := s'; tq_waiters := ws |}, TqGEBase e (tq_released_from 0 (tq_waiters g) ws))
  | TqGGet h =>
      let r := tq_get2 (tq_base g) h in
      let w := length (tq_waiters g) in
      ({| tq_base := tq_base g; tq_waiters := tq_waiters g ++ [{| tq_w_on := h; tq_w_ret := r |}] |},
       match r with Some p => TqGERet w p | None => TqGEPark w end)
  end.

Fixpoint tq_grun (g : tq_gstate) (gs : list tq_gact) : tq_gstate * list tq_gev :=
  match gs with
  | [] => (g, [])
  | a :: rest =>
      let '(g1, e) := tq_gstep g a in
      let '(g2, tr) := tq_grun g1 rest in
      (g2, e :: tr)
  end.

Definition tq_gfinal (g : tq_gstate) (gs : list tq_gact) : tq_gstate := fst (tq_grun g gs).
Definition tq_gtrace (g : tq_gstate) (gs : list tq_gact) : list tq_gev := snd (tq_grun g gs).

(* the queue's own schedule / trace inside a schedule / trace with waiters *)
Definition tq_gbase_sched (gs : list tq_gact) : list tq_act :=
  flat_map (fun a => match a with TqGBase b => [b] | TqGGet _ => [] end) gs.
Definition tq_gbase_trace (tr : list tq_gev) : list tq_ev :=
  flat_map (fun e => match e with TqGEBase b _ => [b] | _ => [] end) tr.

(* the waiters that returned / were released in a trace, with their pairs *)
Definition tq_greturns (tr : list tq_gev) : list (nat * tq_pair) :=
  flat_map (fun e => match e with TqGEBase _ rel => rel | TqGERet w p => [(w, p)] | TqGEPark _ => [] end) tr.
