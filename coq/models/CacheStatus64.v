(* CacheStatus64.v -- the arithmetic of cachex getFutureStatus on Go's int64 (time.Duration).

   Cache.v computes the status over unbounded Z (c_status_fut). The code computes on int64:
     past   := time.Since(updateTime)           (saturating, 0 <= past < 2^63 on a monotonic clock)
     expire := normalExpire | errorExpire        (0 < expire < 2^63)
   CstOrig  : past < expire -> good ; past < 2*expire -> expired ; else rotted   (2*expire wraps for expire >= 2^62)
   CstFixed : past < expire -> good ; past-expire < expire -> expired ; else rotted   (fix 41fab85)
   Definitions only; proofs in proofs/CacheStatus64Proofs.v. *)
From Got Require Import Base Cache.
Local Open Scope Z_scope.

Inductive cst_variant := CstOrig | CstFixed.

Definition cst_int64 (x : Z) : bool := (- 2 ^ 63 <=? x) && (x <? 2 ^ 63).

(* the classification of Cache.v (c_status_fut, completed future), as a function of past and expire *)
Definition cst_ideal (past expire : Z) : c_st :=
  if past <? expire then CGood else if past <? 2 * expire then CExpired else CRotted.

(* the code: every intermediate result is wrapped to int64 (sext 64) *)
Definition cst_code (v : cst_variant) (past expire : Z) : c_st :=
  if past <? expire then CGood
  else match v with
       | CstOrig => if past <? sext 64 (2 * expire) then CExpired else CRotted
       | CstFixed => if sext 64 (past - expire) <? expire then CExpired else CRotted
       end.

(* the ticker period NewCache passes to time.NewTicker: it panics unless the wrapped value is positive *)
Definition cst_ticker_period (normalExpire : Z) : Z := sext 64 (normalExpire * 4).
Definition cst_newcache_starts (normalExpire : Z) : bool := 0 <? cst_ticker_period normalExpire.
