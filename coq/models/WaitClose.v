(* WaitClose.v -- executable small-step model of loom.WaitClose (loom/wait_close.go).

   Shared memory: the atomic [state] word (New -> Init -> Closed), the [closeChan] field
   (nil, a channel made by the lazy initialisation, or the package-level pre-closed
   channel), which made channels have been closed, and the owner of [mutex].

   One model step = the code between two consecutive verif yield points of one goroutine,
   exactly where loom/wait_close.go places them:
     LoadState   (before the atomic load at the top of C / WaitUtil / Close / IsClosed)
     BeforeLock  (before mutex.Lock(); a thread parked here while the mutex is held is
                  DISABLED: its step leaves the state unchanged and reports ABlocked)
     AfterLock   (directly after Lock(): the thread owns the mutex)
     AfterUnlock (directly after Unlock())
   plus one harness-level yield in the middle of a "yielding" callback.  There is no yield
   between the end of the callback, the deferred store of Closed and the deferred Unlock,
   so these are one step, in the order of the code: Close registers D1 = {Unlock; yield
   AfterUnlock; recover} after Lock, and D2 = {atomic store Closed} just before the
   callback; deferred calls run last-in first-out, on return and on panic alike: callback
   end, D2 (store), D1 (unlock, [yield], recover), return.

   A schedule is a list of items: [IRun i] lets thread i execute one step, [ITimeout i] is
   the timer of thread i's WaitUtil firing (the only event not caused by a thread).

   Every step reports the list of actions it performed; the history of a run is the list
   of (thread, action) in execution order.  Definitions only; proofs are in
   proofs/WaitCloseProofs.v. *)
From Got Require Import Base.
Local Open Scope nat_scope.

Inductive wc_stv := WNew | WInit | WClosed.
Inductive wc_chan := WNil | WMade (c : nat) | WGlobal.

(* how a callback ends *)
Inductive wc_out := ONil | OErr | OPanic.
(* Close(nil) or Close(callback): outcome, and whether the callback "blocks for a while"
   (yields once in the middle, so that it spans two steps) *)
Inductive wc_cb := CbNone | Cb (o : wc_out) (yields : bool).

Inductive wc_op := OpClose (cb : wc_cb) | OpC | OpIsClosed | OpWait.

(* error result of Close *)
Inductive wc_ret := RNil | RErr.

Definition wc_ret_of (o : wc_out) : wc_ret :=
  match o with OErr => RErr | _ => RNil end.   (* a panic is recovered: Close returns nil *)

(* program counter: names the yield site the thread is parked at *)
Inductive wc_pc :=
| WIdle                      (* between operations *)
| WK1 (cb : wc_cb)           (* Close: LoadState *)
| WK2 (cb : wc_cb)           (* Close: BeforeLock *)
| WK3 (cb : wc_cb)           (* Close: AfterLock (owns the mutex) *)
| WK4 (o : wc_out)           (* Close: inside the callback (owns the mutex) *)
| WK6 (r : wc_ret)           (* Close: AfterUnlock inside the deferred function *)
| WC1 (w : bool)             (* C (w=false) / WaitUtil (w=true): LoadState *)
| WC2 (w : bool)             (* checkInitSlow: BeforeLock *)
| WC3 (w : bool)             (* checkInitSlow: AfterLock (owns the mutex) *)
| WC4 (w : bool)             (* checkInitSlow: AfterUnlock *)
| WI1                        (* IsClosed: LoadState *)
| WWait (ch : wc_chan).      (* WaitUtil: in select on ch and the timer *)

Inductive wc_act :=
| AInv (o : wc_op)           (* invocation *)
| ALoad (v : wc_stv)         (* atomic load of state *)
| ABlocked                   (* disabled step: nothing executed *)
| ALock
| AUnlock
| AMake (ch : wc_chan)       (* lazy init: closeChan := make(chan), state := Init *)
| APerform (ch : wc_chan)    (* THE close: close(closeChan) or closeChan := global closed chan *)
| ACbStart
| ACbEnd (o : wc_out)
| AStore                     (* deferred atomic store state := Closed *)
| APanicClose                (* close() of a nil / already closed channel panicked (recovered by D1) *)
| ARetClose (r : wc_ret)
| ARetC (ch : wc_chan)
| ARetIsClosed (b : bool)
| AWaitOn (ch : wc_chan)     (* WaitUtil read closeChan and entered the select *)
| ATimeout                   (* the WaitUtil timer fired *)
| ARetWait (b : bool).

Record wc_shared := {
  sh_st : wc_stv;            (* wc.state *)
  sh_ch : wc_chan;           (* wc.closeChan *)
  sh_nmade : nat;            (* channels made so far (identity of the next one) *)
  sh_clo : list nat;         (* made channels that are closed *)
  sh_own : option nat        (* owner of wc.mutex *)
}.

Record wc_thread := { wc_pcof : wc_pc; wc_todo : list wc_op }.
Record wc_state := { wc_sh : wc_shared; wc_threads : list wc_thread }.

Inductive wc_item := IRun (i : nat) | ITimeout (i : nat).
Definition wc_item_tid (it : wc_item) : nat := match it with IRun i => i | ITimeout i => i end.

Definition wc_sh0 : wc_shared :=
  {| sh_st := WNew; sh_ch := WNil; sh_nmade := 0; sh_clo := []; sh_own := None |}.

(* a zero-value WaitClose and one program per thread *)
Definition wc_init (progs : list (list wc_op)) : wc_state :=
  {| wc_sh := wc_sh0; wc_threads := map (fun p => {| wc_pcof := WIdle; wc_todo := p |}) progs |}.

Definition wc_closedb (g : wc_shared) (ch : wc_chan) : bool :=
  match ch with
  | WNil => false
  | WGlobal => true
  | WMade c => existsb (Nat.eqb c) (sh_clo g)
  end.

Definition wc_is_closed_st (v : wc_stv) : bool := match v with WClosed => true | _ => false end.
Definition wc_is_new_st (v : wc_stv) : bool := match v with WNew => true | _ => false end.

Definition sh_set_own (g : wc_shared) (o : option nat) : wc_shared :=
  {| sh_st := sh_st g; sh_ch := sh_ch g; sh_nmade := sh_nmade g; sh_clo := sh_clo g; sh_own := o |}.
Definition sh_set_st (g : wc_shared) (v : wc_stv) : wc_shared :=
  {| sh_st := v; sh_ch := sh_ch g; sh_nmade := sh_nmade g; sh_clo := sh_clo g; sh_own := sh_own g |}.
Definition sh_set_ch (g : wc_shared) (c : wc_chan) : wc_shared :=
  {| sh_st := sh_st g; sh_ch := c; sh_nmade := sh_nmade g; sh_clo := sh_clo g; sh_own := sh_own g |}.

(* callback finished with outcome o (returned or panicked): D2 stores Closed, D1 unlocks
   and parks at AfterUnlock *)
Definition wc_finish (g : wc_shared) (o : wc_out) : wc_shared * wc_pc * list wc_act :=
  (sh_set_own (sh_set_st g WClosed) None, WK6 (wc_ret_of o), [ACbEnd o; AStore; AUnlock]).

(* "if wcInitialized == wc.state { close(wc.closeChan) } else { wc.closeChan = globalClosedChan }"
   None = close() panics (nil channel or already closed) *)
Definition wc_perform (g : wc_shared) : option (wc_shared * wc_chan) :=
  match sh_st g with
  | WInit =>
      match sh_ch g with
      | WMade c =>
          if wc_closedb g (WMade c) then None
          else Some ({| sh_st := sh_st g; sh_ch := sh_ch g; sh_nmade := sh_nmade g;
                        sh_clo := c :: sh_clo g; sh_own := sh_own g |}, WMade c)
      | _ => None
      end
  | _ => Some (sh_set_ch g WGlobal, WGlobal)
  end.

(* one step of thread i parked at pc; tmo = the step is the timer event of its WaitUtil *)
Definition wc_step_pc (g : wc_shared) (i : nat) (tmo : bool) (pc : wc_pc) (todo : list wc_op)
  : wc_shared * wc_pc * list wc_op * list wc_act :=
  if tmo then
    match pc with
    | WWait c => (g, WIdle, todo, [ATimeout; ARetWait (wc_closedb g c)])
    | _ => (g, pc, todo, [])
    end
  else
  match pc with
  | WIdle =>
      match todo with
      | [] => (g, WIdle, [], [])
      | OpClose cb :: rest => (g, WK1 cb, rest, [AInv (OpClose cb)])
      | OpC :: rest => (g, WC1 false, rest, [AInv OpC])
      | OpWait :: rest => (g, WC1 true, rest, [AInv OpWait])
      | OpIsClosed :: rest => (g, WI1, rest, [AInv OpIsClosed])
      end
  | WK1 cb =>
      if wc_is_closed_st (sh_st g) then (g, WIdle, todo, [ALoad (sh_st g); ARetClose RNil])
      else (g, WK2 cb, todo, [ALoad (sh_st g)])
  | WK2 cb =>
      match sh_own g with
      | Some _ => (g, WK2 cb, todo, [ABlocked])
      | None => (sh_set_own g (Some i), WK3 cb, todo, [ALock])
      end
  | WK3 cb =>
      if wc_is_closed_st (sh_st g) then
        (* second check fails: "return nil", D1 unlocks *)
        (sh_set_own g None, WK6 RNil, todo, [AUnlock])
      else
        match wc_perform g with
        | None => (sh_set_own g None, WK6 RNil, todo, [APanicClose; AUnlock])
        | Some (g1, ch) =>
            match cb with
            | CbNone =>
                (sh_set_own (sh_set_st g1 WClosed) None, WK6 RNil, todo, [APerform ch; AStore; AUnlock])
            | Cb o false =>
                let '(g2, pc2, a2) := wc_finish g1 o in (g2, pc2, todo, APerform ch :: ACbStart :: a2)
            | Cb o true => (g1, WK4 o, todo, [APerform ch; ACbStart])
            end
        end
  | WK4 o => let '(g2, pc2, a2) := wc_finish g o in (g2, pc2, todo, a2)
  | WK6 r => (g, WIdle, todo, [ARetClose r])
  | WC1 w =>
      if wc_is_new_st (sh_st g) then (g, WC2 w, todo, [ALoad (sh_st g)])
      else if w then (g, WWait (sh_ch g), todo, [ALoad (sh_st g); AWaitOn (sh_ch g)])
      else (g, WIdle, todo, [ALoad (sh_st g); ARetC (sh_ch g)])
  | WC2 w =>
      match sh_own g with
      | Some _ => (g, WC2 w, todo, [ABlocked])
      | None => (sh_set_own g (Some i), WC3 w, todo, [ALock])
      end
  | WC3 w =>
      if wc_is_new_st (sh_st g) then
        ({| sh_st := WInit; sh_ch := WMade (sh_nmade g); sh_nmade := S (sh_nmade g);
            sh_clo := sh_clo g; sh_own := None |}, WC4 w, todo, [AMake (WMade (sh_nmade g)); AUnlock])
      else (sh_set_own g None, WC4 w, todo, [AUnlock])
  | WC4 w =>
      if w then (g, WWait (sh_ch g), todo, [AWaitOn (sh_ch g)])
      else (g, WIdle, todo, [ARetC (sh_ch g)])
  | WI1 => (g, WIdle, todo, [ALoad (sh_st g); ARetIsClosed (wc_is_closed_st (sh_st g))])
  | WWait c =>
      if wc_closedb g c then (g, WIdle, todo, [ARetWait true])
      else (g, WWait c, todo, [ABlocked])
  end.

Definition wc_set_thread (l : list wc_thread) (i : nat) (th : wc_thread) : list wc_thread :=
  firstn i l ++ th :: skipn (S i) l.

Definition wc_step (s : wc_state) (it : wc_item) : wc_state * list wc_act :=
  let i := wc_item_tid it in
  match nth_error (wc_threads s) i with
  | None => (s, [])
  | Some th =>
      match wc_step_pc (wc_sh s) i (match it with ITimeout _ => true | IRun _ => false end)
                       (wc_pcof th) (wc_todo th) with
      | (g', pc', todo', acts) =>
          ({| wc_sh := g'; wc_threads := wc_set_thread (wc_threads s) i {| wc_pcof := pc'; wc_todo := todo' |} |},
           acts)
      end
  end.

Definition wc_hist := list (nat * wc_act).

(* run a schedule; returns the final state and the history *)
Fixpoint wc_run (s : wc_state) (sched : list wc_item) : wc_state * wc_hist :=
  match sched with
  | [] => (s, [])
  | it :: rest =>
      let '(s1, acts) := wc_step s it in
      let '(s2, h) := wc_run s1 rest in
      (s2, map (pair (wc_item_tid it)) acts ++ h)
  end.

Definition wc_final (s : wc_state) (sched : list wc_item) : wc_state := fst (wc_run s sched).
Definition wc_history (s : wc_state) (sched : list wc_item) : wc_hist := snd (wc_run s sched).

(* ---------------------------------------------------------------- reading a history *)
Definition wc_performs (h : wc_hist) : list (nat * wc_chan) :=
  flat_map (fun e => match snd e with APerform ch => [(fst e, ch)] | _ => [] end) h.
Definition wc_cb_starts (h : wc_hist) : list nat :=
  flat_map (fun e => match snd e with ACbStart => [fst e] | _ => [] end) h.
Definition wc_cb_ends (h : wc_hist) : list nat :=
  flat_map (fun e => match snd e with ACbEnd _ => [fst e] | _ => [] end) h.
Definition wc_close_rets (h : wc_hist) : list nat :=
  flat_map (fun e => match snd e with ARetClose _ => [fst e] | _ => [] end) h.
(* channels handed out by C() or selected on by WaitUtil *)
Definition wc_ret_chans (h : wc_hist) : list wc_chan :=
  flat_map (fun e => match snd e with ARetC ch => [ch] | AWaitOn ch => [ch] | _ => [] end) h.
Definition wc_close_panics (h : wc_hist) : list nat :=
  flat_map (fun e => match snd e with APanicClose => [fst e] | _ => [] end) h.

(* ---------------------------------------------------------------- enabledness, measure *)
Definition wc_finished_th (th : wc_thread) : bool :=
  match wc_pcof th, wc_todo th with WIdle, [] => true | _, _ => false end.

Definition wc_enabled (s : wc_state) (it : wc_item) : bool :=
  match nth_error (wc_threads s) (wc_item_tid it) with
  | None => false
  | Some th =>
      match it with
      | ITimeout _ => match wc_pcof th with WWait _ => true | _ => false end
      | IRun _ =>
          match wc_pcof th with
          | WIdle => negb (wc_finished_th th)
          | WK2 _ | WC2 _ => match sh_own (wc_sh s) with None => true | Some _ => false end
          | WWait c => wc_closedb (wc_sh s) c
          | _ => true
          end
      end
  end.

(* the mutex is held by a thread parked at one of these *)
Definition wc_hold (pc : wc_pc) : bool :=
  match pc with WK3 _ | WK4 _ | WC3 _ => true | _ => false end.

(* upper bound of the number of effective steps a thread still takes *)
Definition wc_mu_pc (pc : wc_pc) : nat :=
  match pc with
  | WIdle => 0
  | WK1 _ => 5 | WK2 _ => 4 | WK3 _ => 3 | WK4 _ => 2 | WK6 _ => 1
  | WC1 w => 5 | WC2 w => 4 | WC3 w => 3 | WC4 w => 2
  | WI1 => 1
  | WWait _ => 1
  end.
Definition wc_mu_th (th : wc_thread) : nat := wc_mu_pc (wc_pcof th) + 6 * length (wc_todo th).
Definition wc_mu (s : wc_state) : nat := fold_right (fun th a => wc_mu_th th + a) 0 (wc_threads s).

(* a step that executed something *)
Definition wc_effective (acts : list wc_act) : bool :=
  match acts with [] => false | [ABlocked] => false | _ => true end.

(* number of steps of a run that executed something *)
Fixpoint wc_eff_steps (s : wc_state) (sched : list wc_item) : nat :=
  match sched with
  | [] => 0
  | it :: r => let '(s1, acts) := wc_step s it in (if wc_effective acts then 1 else 0) + wc_eff_steps s1 r
  end.

(* yield site a thread is parked at, as the harness names it:
   0 none, 1 LoadState, 2 BeforeLock, 3 AfterLock, 4 AfterUnlock, 5 inside callback, 6 select *)
Definition wc_site_pc (pc : wc_pc) : nat :=
  match pc with
  | WIdle => 0
  | WK1 _ | WC1 _ | WI1 => 1
  | WK2 _ | WC2 _ => 2
  | WK3 _ | WC3 _ => 3
  | WK6 _ | WC4 _ => 4
  | WK4 _ => 5
  | WWait _ => 6
  end.
Definition wc_site (s : wc_state) (i : nat) : nat :=
  match nth_error (wc_threads s) i with Some th => wc_site_pc (wc_pcof th) | None => 0 end.

(* ---------------------------------------------------------------- seeded faults (documentation)
   Variants of Close used by the *_refuted theorems: what the ordering of the deferred
   store and the second check under the lock are there for.
   FStoreEarly: state := Closed is stored before the callback runs (the pre-2021-06-21 code).
   FNoRecheck : no second check of the state under the mutex. *)
Inductive wc_fault := FStoreEarly | FNoRecheck.

Definition wc_step_pc_f (f : wc_fault) (g : wc_shared) (i : nat) (tmo : bool) (pc : wc_pc) (todo : list wc_op)
  : wc_shared * wc_pc * list wc_op * list wc_act :=
  match f, tmo, pc with
  | FStoreEarly, false, WK3 (Cb o true) =>
      if wc_is_closed_st (sh_st g) then (sh_set_own g None, WK6 RNil, todo, [AUnlock])
      else match wc_perform g with
           | Some (g1, ch) => (sh_set_st g1 WClosed, WK4 o, todo, [APerform ch; AStore; ACbStart])
           | None => (sh_set_own g None, WK6 RNil, todo, [APanicClose; AUnlock])
           end
  | FNoRecheck, false, WK3 cb =>
      match wc_perform g with
      | None => (sh_set_own g None, WK6 RNil, todo, [APanicClose; AUnlock])
      | Some (g1, ch) =>
          match cb with
          | CbNone => (sh_set_own (sh_set_st g1 WClosed) None, WK6 RNil, todo, [APerform ch; AStore; AUnlock])
          | Cb o false => let '(g2, pc2, a2) := wc_finish g1 o in (g2, pc2, todo, APerform ch :: ACbStart :: a2)
          | Cb o true => (g1, WK4 o, todo, [APerform ch; ACbStart])
          end
      end
  | _, _, _ => wc_step_pc g i tmo pc todo
  end.

Definition wc_step_f (f : wc_fault) (s : wc_state) (it : wc_item) : wc_state * list wc_act :=
  let i := wc_item_tid it in
  match nth_error (wc_threads s) i with
  | None => (s, [])
  | Some th =>
      match wc_step_pc_f f (wc_sh s) i (match it with ITimeout _ => true | IRun _ => false end)
                         (wc_pcof th) (wc_todo th) with
      | (g', pc', todo', acts) =>
          ({| wc_sh := g'; wc_threads := wc_set_thread (wc_threads s) i {| wc_pcof := pc'; wc_todo := todo' |} |},
           acts)
      end
  end.

Fixpoint wc_run_f (f : wc_fault) (s : wc_state) (sched : list wc_item) : wc_state * wc_hist :=
  match sched with
  | [] => (s, [])
  | it :: rest =>
      let '(s1, acts) := wc_step_f f s it in
      let '(s2, h) := wc_run_f f s1 rest in
      (s2, map (pair (wc_item_tid it)) acts ++ h)
  end.

(* ---------------------------------------------------------------- the steps of the harness
   Two places where one step of the real goroutine under the cooperative scheduler is more than
   one [wc_step]:

   (1) WaitUtil has no yield point between reading closeChan and its select.  The model parks
   the thread at [WWait c] in any case (an interleaving point more than the code has); the real
   step that begins to wait on an already closed channel also returns true.  [wc_hstep] = one
   step, followed at once by the same thread's next step when it has just begun to wait on a
   closed channel.

   (2) A thread that was resumed while parked before the HELD mutex (a "forced" step: in the
   model the disabled no-op) is really inside sync.Mutex.Lock(); it is the only contender, so the
   step of the holder that unlocks is followed at once by its acquisition.  [wc_lwstep] carries
   that thread ([inlock]) along; at most one thread is inside Lock() at a time.

   Both only run [wc_step]s: every run of the harness is a run of the model
   (wc_lwrun_is_run in props/C16.v). *)
Definition wc_hstep (s : wc_state) (it : wc_item) : wc_state * list wc_act :=
  let '(s1, acts) := wc_step s it in
  match it with
  | ITimeout _ => (s1, acts)
  | IRun i =>
      match nth_error (wc_threads s1) i with
      | Some th =>
          match wc_pcof th with
          | WWait c =>
              if wc_closedb (wc_sh s1) c
              then let '(s2, acts2) := wc_step s1 (IRun i) in (s2, acts ++ acts2)
              else (s1, acts)
          | _ => (s1, acts)
          end
      | None => (s1, acts)
      end
  end.

(* parked before mutex.Lock() *)
Definition wc_at_lock (pc : wc_pc) : bool :=
  match pc with WK2 _ | WC2 _ => true | _ => false end.
Definition wc_at_lock_th (s : wc_state) (i : nat) : bool :=
  match nth_error (wc_threads s) i with Some th => wc_at_lock (wc_pcof th) | None => false end.
Definition wc_is_unlock (a : wc_act) : bool := match a with AUnlock => true | _ => false end.

(* result: state, thread inside Lock() afterwards, actions of the step, automatic acquisition *)
Definition wc_lwstep (s : wc_state) (inlock : option nat) (forced : bool) (i : nat)
  : wc_state * option nat * list wc_act * option (nat * list wc_act) :=
  let '(s1, acts) := wc_hstep s (IRun i) in
  let inlock1 :=
    match inlock with
    | Some j => Some j
    | None => if forced && negb (wc_effective acts) && wc_at_lock_th s i then Some i else None
    end in
  match inlock1 with
  | Some j =>
      if existsb wc_is_unlock acts
      then let '(s2, acts2) := wc_step s1 (IRun j) in (s2, None, acts, Some (j, acts2))
      else (s1, inlock1, acts, None)
  | None => (s1, None, acts, None)
  end.

(* a harness schedule: (forced, thread) items *)
Fixpoint wc_lwrun (s : wc_state) (inlock : option nat) (sched : list (bool * nat)) : wc_state * wc_hist :=
  match sched with
  | [] => (s, [])
  | (f, i) :: rest =>
      let '(s1, inl1, acts, auto) := wc_lwstep s inlock f i in
      let '(s2, h) := wc_lwrun s1 inl1 rest in
      (s2, map (pair i) acts ++ match auto with Some (j, a2) => map (pair j) a2 | None => [] end ++ h)
  end.

Definition wc_hold_th (s : wc_state) (i : nat) : bool :=
  match nth_error (wc_threads s) i with Some th => wc_hold (wc_pcof th) | None => false end.
