(* RaceWheel.v -- the memory events of the steps of the loom.Wheel model (models/Wheel.v).

   Sync objects:  0 = wheel.position, 1 = "start" (see below), 2+j = the slot wheel.channels[j].
   Locations:     ch = the field c of the wheelData that carries channel number ch (the model
                  identifies a wheelData with its channel: one is made per wheelData).

   atomic.LoadInt64(&wheel.position)            = RAcq 0
   atomic.StoreInt64(&wheel.position, ..)       = RRel 0
   atomic.LoadPointer(&wheel.channels[j])       = RAcq (2+j)
   &wheelData{c: make(chan struct{})}; atomic.StorePointer(&wheel.channels[j], it)
                                                = RWrite ch; RRel (2+j)     (ch fresh)
   close(lastItem.c) in onTicker                = RRead last   (the close itself, a channel
        operation, synchronises too: not used)
   data.c after fetchWheelData returned data (timer.C = data.c in Reset/NewTimer, <-data.c in
   AfterFunc's goroutine)                       = RRead ch at the returning step

   NewWheel.  The creating goroutine builds the initial wheelData 0..n-1 (plain writes of
   their c fields), fills wheel.channels, starts goLoop with a go statement and returns the
   wheel to its users.  It is a set-up thread (thread id k+1 = the first id after the ticker 0
   and the requesters 1..k) whose events come first:
   RWrite 0 .. RWrite (n-1), RRel start.  The go statement / the hand-over of the *Wheel is
   the acquire of [start] at the first step of every tick and of every request (repeating it
   at later invocations adds no edge that is not already there: [start] is released once,
   before everything).  The plain initialisation of the slot cells, wheel.channels and the
   other fields inside NewWheel is not labelled: it precedes the publication of the wheel and
   the only later accesses of those cells are atomic (slots) or reads (the rest).

   Both store orders of onTicker ([wh_order]) are labelled.
   Definitions only; proofs in proofs/RaceWheelProofs.v. *)
From Got Require Import Base Race RaceHB Wheel.
Local Open Scope nat_scope.

Definition rwh_pos : nat := 0.
Definition rwh_start : nat := 1.
Definition rwh_slot (j : nat) : nat := 2 + j.

Definition rwh_store_slot (s : wh_state) (lp : nat) : list rc_ev :=
  [RWrite (wh_next s); RRel (rwh_slot lp)].

(* the ticker's step *)
Definition rwh_tick_ev (o : wh_order) (s : wh_state) : list rc_ev :=
  match wh_tpc_of s with
  | WTIdle => match wh_ticks s with O => [] | S _ => [RAcq rwh_start] end
  | WT1 => [RAcq rwh_pos]
  | WT2 lp =>
      match nth_error (wh_slots s) lp with
      | Some _ => [RAcq (rwh_slot lp)]
      | None => []                          (* index out of range: panics before the load *)
      end
  | WT3 lp _ => match o with WFixed => [RRel rwh_pos] | WOrig => rwh_store_slot s lp end
  | WT4 lp _ => match o with WFixed => rwh_store_slot s lp | WOrig => [RRel rwh_pos] end
  | WT5 last => [RRead last]
  | WTDead => []
  end.

(* a requester's step *)
Definition rwh_req_ev (o : wh_order) (s : wh_state) (th : wh_thread) : list rc_ev :=
  match wh_rpc_of th with
  | WRIdle =>
      match wh_todo th with
      | [] => []
      | op :: _ =>
          match wh_bucket_index (wh_s s) (wh_n s) (fst (wh_eff_duration (wh_s s) (wh_tint th) op)) with
          | None => []                      (* panics in the range check *)
          | Some _ => [RAcq rwh_start]
          end
      end
  | WR1 _ _ => [RAcq rwh_pos]
  | WR2 i _ p =>
      let j := (p + i) mod wh_n s in
      match nth_error (wh_slots s) j with
      | None => []
      | Some ch =>
          match o with
          | WFixed => [RAcq (rwh_slot j)]
          | WOrig => [RAcq (rwh_slot j); RRead ch]
          end
      end
  | WR3 _ _ p ch => RAcq rwh_pos :: (if p =? wh_pos s then [RRead ch] else [])
  | WRDead => []
  end.

Definition rwh_step (o : wh_order) (s : wh_state) (tid : nat) : list rc_ev :=
  match tid with
  | O => rwh_tick_ev o s
  | S k =>
      match nth_error (wh_threads s) k with
      | None => []
      | Some th => rwh_req_ev o s th
      end
  end.

Fixpoint rwh_trace_from (o : wh_order) (s : wh_state) (sched : list nat) : hb_trace :=
  match sched with
  | [] => []
  | i :: r => map (pair i) (rwh_step o s i) ++ rwh_trace_from o (fst (wh_step o s i)) r
  end.

(* the set-up thread: id = first id after the ticker and the requesters *)
Definition rwh_setup_tid (s : wh_state) : nat := S (length (wh_threads s)).
Definition rwh_nthreads (s : wh_state) : nat := S (rwh_setup_tid s).

Definition rwh_setup (s : wh_state) : hb_trace :=
  map (pair (rwh_setup_tid s)) (map RWrite (seq 0 (wh_n s)) ++ [RRel rwh_start]).

Definition rwh_trace (o : wh_order) (s : wh_state) (sched : list nat) : hb_trace :=
  rwh_setup s ++ rwh_trace_from o s sched.
