(* RaceTaskQueue.v -- the memory events of the steps of the taskx.Queue model (models/TaskQueue.v:
   [tq_gstep] = producers calling SendCallback / SendTask, ONE consumer receiving and executing each
   task once, the goroutine closing the close channel, Get2 waiters; the model C09 replays against the
   real code).

   The semantics is NOT forked.  The labelling [rtq_events] is a function of the schedule item and of
   the model's OWN event for that step ([tq_gev]: which select branch the send took, which blocked
   sender a receive admitted, which senders a close woke, which waiters a Done released): the labelled
   trace of a run is the run's event trace mapped through it (RaceTaskQueueProofs.rtq_trace_projects).

   Threads.  np = number of producers.  producer i = thread i; the consumer = np; the goroutine that
   closes closeChan = np+1; Get2 waiter w (numbered in the order they start) = np+2+w.  No go-statement
   edge is assumed for any of them (fewer happens-before edges: the theorem is stronger).

   Per task id = (producer, call index), c = rtq_code id (an injective pairing):
     plain locations   3c result, 3c+1 err, 3c+2 isHandled          (the fields of the taskCallback)
     sync objects      3c+1 the channel message that carries the task on Queue.C,
                       3c+2 the task's WaitGroup;   0 = closeChan
   Events (taskx/queue.go, taskx/task_callback.go):
     SendCallback:  task = &taskCallback{handler}   RWrite result, err, isHandled  (an allocation counts
                                                    as a write of the fields; SendTask: the user's task
                                                    object, no field of taskCallback)
                    task.wg.Add(1)                  no event: Add with a positive delta has no
                                                    synchronisation meaning in the Go memory model (nor for
                                                    the race detector); it touches no plain location
                    select: case my.C <- task       RRel msg  -- when the task ENTERS the channel: at once
                                                    (TqESent), or when a receive admits the parked sender
                                                    (TqERecv .. (Some it): the parked goroutine executed
                                                    nothing in between, so its clock is the same)
                            case <-my.closeChan     RAcq 0    (TqESkipped; a parked sender woken by close)
     consumer:      <-my.C                          RAcq msg  of the received task only (the matching send;
                                                    the reverse edge "k-th receive before k+C-th send" is
                                                    not used)
                    Do: task.result, task.err = task.handler(args)        RWrite result, RWrite err  (TqStore)
                        if !task.isHandled { task.isHandled = true; task.wg.Done() }; return task.err
                                                    RRead isHandled, RWrite isHandled, RRel wg, RRead err (TqDone)
                    (a user task's Do is user code: no event)
     close(closeChan)                               RRel 0
     Get2 / Get1:   task.wg.Wait() returns          RAcq wg   (at the call if the counter is already 0, else
                                                    in the step of the Done that releases the waiter)
                    return task.result, task.err    RRead result, RRead err
                    (parking in wg.Wait, taskEmpty.Get2: no event)

   [early] = true is the faulty variant of seeded/C09-ishandled-early-plus-get-fastpath, refutation only:
   Do sets isHandled BEFORE running the handler and calls wg.Done afterwards; Get2 first reads isHandled
   plainly (its fast path).  In the variant the producer additionally hands the task to the Get2 caller
   (RRel / RAcq on object 3c+3 when the send call returns / Get2 starts), so that the reported race can
   only be the one between the consumer and the Get2 caller, not an artefact of the missing go edge.

   Definitions only; proofs in proofs/RaceTaskQueueProofs.v. *)
From Got Require Import Base Race RaceHB TaskQueue.
Local Open Scope nat_scope.

(* injective pairing of (producer, call index) *)
Fixpoint rtq_tri (s : nat) : nat := match s with O => O | S k => rtq_tri k + S k end.
Definition rtq_code (id : tq_tid) : nat := rtq_tri (fst id + snd id) + fst id.

Definition rtq_res (id : tq_tid) : nat := 3 * rtq_code id.
Definition rtq_err (id : tq_tid) : nat := 3 * rtq_code id + 1.
Definition rtq_hnd (id : tq_tid) : nat := 3 * rtq_code id + 2.
Definition rtq_cl : nat := 0.
Definition rtq_msg (id : tq_tid) : nat := 3 * rtq_code id + 1.
Definition rtq_wg (id : tq_tid) : nat := 3 * rtq_code id + 2.
Definition rtq_hand (id : tq_tid) : nat := 3 * rtq_code id + 3.   (* faulty variant only *)

Definition rtq_alloc (t : tq_task) : list rc_ev :=
  match tq_kind_of t with
  | TqKCallback => [RWrite (rtq_res (tq_id t)); RWrite (rtq_err (tq_id t)); RWrite (rtq_hnd (tq_id t))]
  | TqKUser => []
  end.

(* the send call returns to its caller (variant: hands the task over) *)
Definition rtq_ret (early : bool) (t : tq_task) : list rc_ev :=
  if early then [RRel (rtq_hand (tq_id t))] else [].

Definition rtq_store (early : bool) (t : tq_task) : list rc_ev :=
  match tq_kind_of t with
  | TqKCallback =>
      (if early then [RRead (rtq_hnd (tq_id t)); RWrite (rtq_hnd (tq_id t))] else [])
      ++ [RWrite (rtq_res (tq_id t)); RWrite (rtq_err (tq_id t))]
  | TqKUser => []
  end.

Definition rtq_done (early : bool) (t : tq_task) : list rc_ev :=
  match tq_kind_of t with
  | TqKCallback =>
      (if early then [] else [RRead (rtq_hnd (tq_id t)); RWrite (rtq_hnd (tq_id t))])
      ++ [RRel (rtq_wg (tq_id t)); RRead (rtq_err (tq_id t))]
  | TqKUser => []
  end.

Definition rtq_get2 (id : tq_tid) : list rc_ev :=
  [RAcq (rtq_wg id); RRead (rtq_res id); RRead (rtq_err id)].

(* variant: Get2 starts with "if !task.isHandled" *)
Definition rtq_peek (early : bool) (id : tq_tid) : list rc_ev :=
  if early then [RAcq (rtq_hand id); RRead (rtq_hnd id)] else [].

Definition rtq_cons (np : nat) : nat := np.
Definition rtq_closer (np : nat) : nat := S np.
Definition rtq_waiter (np w : nat) : nat := np + 2 + w.

(* the events of a step of the queue machine, from the model's event for that step *)
Definition rtq_base_events (early : bool) (np : nat) (e : tq_ev) : hb_trace :=
  match e with
  | TqESent i t => map (pair i) (rtq_alloc t ++ RRel (rtq_msg (tq_id t)) :: rtq_ret early t)
  | TqEBlocked i t => map (pair i) (rtq_alloc t)
  | TqESkipped i t => map (pair i) (rtq_alloc t ++ RAcq rtq_cl :: rtq_ret early t)
  | TqERetEmpty _ | TqERetNil _ | TqENone => []
  | TqERecv t adm =>
      (rtq_cons np, RAcq (rtq_msg (tq_id t))) ::
      match adm with
      | Some it => map (pair (fst it)) (RRel (rtq_msg (tq_id (snd it))) :: rtq_ret early (snd it))
      | None => []
      end
  | TqEStore t => map (pair (rtq_cons np)) (rtq_store early t)
  | TqEDone t => map (pair (rtq_cons np)) (rtq_done early t)
  | TqEClose woken =>
      (rtq_closer np, RRel rtq_cl) ::
      flat_map (fun it => map (pair (fst it)) (RAcq rtq_cl :: rtq_ret early (snd it))) woken
  end.

Definition rtq_released (np : nat) (e : tq_ev) (released : list (nat * tq_pair)) : hb_trace :=
  match e with
  | TqEDone t => flat_map (fun wp => map (pair (rtq_waiter np (fst wp))) (rtq_get2 (tq_id t))) released
  | _ => []
  end.

Definition rtq_events (early : bool) (np : nat) (a : tq_gact) (e : tq_gev) : hb_trace :=
  match e with
  | TqGEBase b released => rtq_base_events early np b ++ rtq_released np b released
  | TqGERet w _ =>
      match a with
      | TqGGet (TqHTask id) => map (pair (rtq_waiter np w)) (rtq_peek early id ++ rtq_get2 id)
      | _ => []
      end
  | TqGEPark w =>
      match a with
      | TqGGet (TqHTask id) => map (pair (rtq_waiter np w)) (rtq_peek early id)
      | _ => []
      end
  end.

(* the trace a schedule produces: the model state advances by tq_gstep *)
Fixpoint rtq_trace_from (early : bool) (np : nat) (g : tq_gstate) (gs : list tq_gact) : hb_trace :=
  match gs with
  | [] => []
  | a :: r => rtq_events early np a (snd (tq_gstep g a)) ++ rtq_trace_from early np (fst (tq_gstep g a)) r
  end.

Definition rtq_trace (cap : nat) (progs : list (list tq_op)) (gs : list tq_gact) : hb_trace :=
  rtq_trace_from false (length progs) (tq_ginit cap progs) gs.
Definition rtq_trace_early (cap : nat) (progs : list (list tq_op)) (gs : list tq_gact) : hb_trace :=
  rtq_trace_from true (length progs) (tq_ginit cap progs) gs.

(* thread ids of a run: producers, consumer, closer, one per Get2 started *)
Definition rtq_nthreads (progs : list (list tq_op)) (gs : list tq_gact) : nat := length progs + 2 + length gs.

(* the access-table rows the labelling was read off *)
From Coq Require Import String.
From Got Require Import RaceInst.
Local Open Scope string_scope.
Definition rtq_rows : list string := [
  "taskx/queue.go:Queue.SendCallback|if( ){ ret } new:taskCallback S:wg.Add select{ case{ recv:closeChan } case{ send:C } } ret";
  "taskx/queue.go:Queue.SendTask|if( ){ select{ case{ recv:closeChan } case{ send:C } } } ret";
  "taskx/task_callback.go:taskCallback.Do|C:handler W:result W:err if( R:isHandled ){ W:isHandled S:wg.Done } R:err ret";
  "taskx/task_callback.go:taskCallback.Get2|S:wg.Wait R:result R:err ret";
  "taskx/task_callback.go:taskCallback.Get1|S:wg.Wait R:result ret"
].
Definition rtq_rows_in_table : bool :=
  forallb (fun r => existsb (String.eqb r) ri_access_table) rtq_rows.
