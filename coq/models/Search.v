(* Search.v -- executable model of sortx.Search (sortx/search.go).
   The loop is transcribed with Go's 64-bit arithmetic written out:
     mid = int(uint(i+j) >> 1)
   Probed indices are recorded so that "predicates are evaluated only at valid
   indices and only O(log n) times" is a statement about the model's output. *)
From Got Require Import Base.

Definition mid_of (i j : Z) : Z := sext 64 (wrapu 64 (sext 64 (i + j)) / 2).

(* returns (j, probes in reverse order); None = out of fuel *)
Fixpoint search_loop (fuel : nat) (less : Z -> bool) (i j : Z) (probes : list Z)
  : option (Z * list Z) :=
  if sext 64 (i + 1) =? j then Some (j, probes)
  else match fuel with
       | O => None
       | S f =>
           let mid := mid_of i j in
           if less mid then search_loop f less mid j (mid :: probes)
           else search_loop f less i mid (mid :: probes)
       end.

Definition search_fuel : nat := 64.

Record search_out := { s_result : Z; s_less_probes : list Z; s_equal_probes : list Z }.

Definition search (count : Z) (less equal : Z -> bool) : option search_out :=
  if count <=? 0 then Some {| s_result := -1; s_less_probes := []; s_equal_probes := [] |}
  else match search_loop search_fuel less (-1) count [] with
       | None => None
       | Some (j, pr) =>
           if j =? count
           then Some {| s_result := Z.lnot j; s_less_probes := rev pr; s_equal_probes := [] |}
           else if equal j
                then Some {| s_result := j; s_less_probes := rev pr; s_equal_probes := [j] |}
                else Some {| s_result := Z.lnot j; s_less_probes := rev pr; s_equal_probes := [j] |}
       end.

(* Instances used by the correspondence check *)

(* threshold predicates: less k <-> k < b ; equal k <-> b <= k < e *)
Definition search_threshold (n b e : Z) : option search_out :=
  search n (fun k => k <? b) (fun k => (b <=? k) && (k <? e)).

(* concrete ascending list of integers with a target *)
Definition znth (l : list Z) (k : Z) : Z := nth (Z.to_nat k) l 0.
Definition search_list_asc (l : list Z) (t : Z) : option search_out :=
  search (Z.of_nat (length l)) (fun k => znth l k <? t) (fun k => znth l k =? t).
Definition search_list_desc (l : list Z) (t : Z) : option search_out :=
  search (Z.of_nat (length l)) (fun k => znth l k >? t) (fun k => znth l k =? t).
