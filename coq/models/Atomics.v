(* Atomics.v -- executable small-step model of loom.Flag (loom/flag.go: AddFlag, RemoveFlag,
   HasFlag) and loom.AddIf64 (loom/atomic.go) operating on ONE shared int64 word.

   One model step = one atomic access of the word (atomic.LoadInt64 / CompareAndSwapInt64;
   each is preceded by a verif yield point in the Go code) plus the local computation up to
   the next access.  An extra step per operation is the invocation (the thread runs from
   the call to its first yield).  HasFlag has no yield: invocation, load and return are one
   step.  AddIf64 evaluates the predicate between the load and the yield before the CAS, so
   "load + predicate" is one step; when the predicate is false the same step returns false.

   Numbers.  The word is a Z holding the signed value of the int64.  [last | flag],
   [last & ^flag] are Z.lor / Z.land / Z.lnot on signed Z (these agree with the int64
   operations on two's complement values and stay in range: the at_range lemmas of AtomicsProofs);
   [expect + delta] wraps: sext 64.

   The predicate of AddIf64 is a Go closure; here it is a function Z -> bool carried by the
   operation.  [at_pred] is the family the correspondence check instantiates it with.

   Definitions only; proofs are in proofs/AtomicsProofs.v. *)
From Got Require Import Base.
Local Open Scope Z_scope.

Inductive at_op :=
| AtAdd (f : Z)                          (* Flag.AddFlag(f) *)
| AtRemove (f : Z)                       (* Flag.RemoveFlag(f) *)
| AtHas (f : Z)                          (* Flag.HasFlag(f) *)
| AtAddIf (delta : Z) (p : Z -> bool).   (* AddIf64(addr, delta, p) *)

(* program counter with locals; the pc names the NEXT shared access of the thread *)
Inductive at_pc :=
| AIdle                                           (* between operations *)
| AFlagLoad (add : bool) (f : Z)                  (* last := atomic.LoadInt64(addr) *)
| AFlagCas (add : bool) (f : Z) (last : Z)        (* CAS(addr, last, next) *)
| AIfLoad (delta : Z) (p : Z -> bool)             (* expect := load; if !p(expect) return false *)
| AIfCas (delta : Z) (p : Z -> bool) (expect : Z). (* CAS(addr, expect, expect+delta) *)

Record at_thread := { at_pcof : at_pc; at_todo : list at_op }.

Record at_state := { at_word : Z; at_threads : list at_thread }.

Inductive at_event :=
| AEInv (o : at_op)                    (* invocation; parked before the first load *)
| AELoad                               (* load (predicate true for AddIf64); parked before the CAS *)
| AECasFail                            (* CAS failed: word unchanged, back to the load *)
| AEFlagEff (add : bool) (f : Z)       (* successful CAS of AddFlag/RemoveFlag; the call returns *)
| AEHas (f : Z) (b : bool)             (* HasFlag: load and return b *)
| AEIfAdd (delta : Z) (p : Z -> bool)  (* successful CAS of AddIf64; returns true *)
| AEIfFalse (p : Z -> bool)            (* AddIf64: predicate false on the loaded value; returns false *)
| AENone.                              (* thread finished or unknown: state unchanged *)

(* next := last | flag   /   next := last & ^flag *)
Definition at_flag_next (add : bool) (v f : Z) : Z :=
  if add then Z.lor v f else Z.land v (Z.lnot f).
(* update := expect + delta  (int64 addition wraps) *)
Definition at_add64 (v d : Z) : Z := sext 64 (v + d).
(* (load & flag) != 0 *)
Definition at_has (v f : Z) : bool := negb (Z.land v f =? 0).

Definition at_init (w : Z) (progs : list (list at_op)) : at_state :=
  {| at_word := w; at_threads := map (fun p => {| at_pcof := AIdle; at_todo := p |}) progs |}.

Definition at_set_thread (s : at_state) (i : nat) (th : at_thread) : list at_thread :=
  firstn i (at_threads s) ++ th :: skipn (S i) (at_threads s).

(* one step of a thread with pc [pc] on word [w]: new word, new pc, remaining program, event *)
Definition at_step_pc (w : Z) (pc : at_pc) (todo : list at_op)
  : Z * at_pc * list at_op * at_event :=
  match pc with
  | AIdle =>
      match todo with
      | [] => (w, AIdle, [], AENone)
      | AtAdd f :: rest => (w, AFlagLoad true f, rest, AEInv (AtAdd f))
      | AtRemove f :: rest => (w, AFlagLoad false f, rest, AEInv (AtRemove f))
      | AtHas f :: rest => (w, AIdle, rest, AEHas f (at_has w f))
      | AtAddIf d p :: rest => (w, AIfLoad d p, rest, AEInv (AtAddIf d p))
      end
  | AFlagLoad add f => (w, AFlagCas add f w, todo, AELoad)
  | AFlagCas add f last =>
      if w =? last then (at_flag_next add last f, AIdle, todo, AEFlagEff add f)
      else (w, AFlagLoad add f, todo, AECasFail)
  | AIfLoad d p =>
      if p w then (w, AIfCas d p w, todo, AELoad)
      else (w, AIdle, todo, AEIfFalse p)
  | AIfCas d p expect =>
      if w =? expect then (at_add64 expect d, AIdle, todo, AEIfAdd d p)
      else (w, AIfLoad d p, todo, AECasFail)
  end.

Definition at_step (s : at_state) (i : nat) : at_state * at_event :=
  match nth_error (at_threads s) i with
  | None => (s, AENone)
  | Some th =>
      match at_step_pc (at_word s) (at_pcof th) (at_todo th) with
      | (w, pc', todo', ev) =>
          ({| at_word := w;
              at_threads := at_set_thread s i {| at_pcof := pc'; at_todo := todo' |} |}, ev)
      end
  end.

(* run a schedule; the trace has one (thread, event) entry per scheduled step *)
Fixpoint at_run (s : at_state) (sched : list nat) : at_state * list (nat * at_event) :=
  match sched with
  | [] => (s, [])
  | i :: rest =>
      let '(s1, ev) := at_step s i in
      let '(s2, tr) := at_run s1 rest in
      (s2, (i, ev) :: tr)
  end.

Definition at_final (s : at_state) (sched : list nat) : at_state := fst (at_run s sched).
Definition at_trace (s : at_state) (sched : list nat) : list (nat * at_event) := snd (at_run s sched).

(* every value the shared word takes during the run, in order (initial value first) *)
Fixpoint at_values (s : at_state) (sched : list nat) : list Z :=
  match sched with
  | [] => [at_word s]
  | i :: rest => at_word s :: at_values (fst (at_step s i)) rest
  end.

Definition at_enabled (s : at_state) (i : nat) : bool :=
  match nth_error (at_threads s) i with
  | Some th => match at_pcof th, at_todo th with AIdle, [] => false | _, _ => true end
  | None => false
  end.

(* yield site the thread is parked at (loom/verif_on.go): 0 = none, 14 = VerifSiteFlagLoad,
   15 = VerifSiteFlagCas, 16 = VerifSiteAddIfLoad, 17 = VerifSiteAddIfCas *)
Definition at_site_pc (pc : at_pc) : nat :=
  match pc with
  | AIdle => 0
  | AFlagLoad _ _ => 14
  | AFlagCas _ _ _ => 15
  | AIfLoad _ _ => 16
  | AIfCas _ _ _ => 17
  end.
Definition at_site (s : at_state) (i : nat) : nat :=
  match nth_error (at_threads s) i with Some th => at_site_pc (at_pcof th) | None => 0 end.

(* the predicate family used by the correspondence check (Go closures over int64):
     kind 0: old + delta <= limit   (the addition wraps, as in Go)
     kind 1: old < limit
     kind 2: old + delta >= limit   (lower bound, for negative deltas)
     kind 3: true      kind 4: false      kind 5: old != limit *)
Definition at_pred (kind : nat) (delta limit : Z) (old : Z) : bool :=
  match kind with
  | 0%nat => at_add64 old delta <=? limit
  | 1%nat => old <? limit
  | 2%nat => limit <=? at_add64 old delta
  | 3%nat => true
  | 4%nat => false
  | _ => negb (old =? limit)
  end.
