(* CacheLive.v -- small-step abstraction of the lock / job-queue protocol of cachex
   (cachex/cache_impl.go: Load/Get2/Set taking the shard mutex, sendJob on the bounded job
   channel, the worker loop selecting between a job and the sweep tick, removeRotted locking
   every shard in turn).  Keys, values and time are erased; what is kept is exactly what can
   block: shard mutexes, the bounded channel, the ticker channel (capacity 1).

   [cl_order] selects where Load sends its job:
     SendUnderLock   -- the code before fix ed85568: sendJob while holding the shard lock
     SendAfterUnlock -- the current code: futures.Unlock() first, then sendJob
   A client is one API call.  [job = true]: a Load that creates a job (the worst case);
   [job = false]: a call that only takes the lock (Get2, Set, Load served from the map).
   A lock is held iff some thread is in a holding state (derived, not stored).

   This is an ABSTRACTION of the cache (DESIGN.md section 7): its link to the code is the
   scenario-level correspondence of vlib/c06.py, not a step-level one.
   Definitions only; proofs are in proofs/CacheLiveProofs.v. *)
From Got Require Import Base.
Local Open Scope nat_scope.

Inductive cl_order := SendUnderLock | SendAfterUnlock.

Inductive cl_client :=
| ClWant (sh : nat) (job : bool)   (* before futures.Lock() of shard sh *)
| ClHold (sh : nat) (job : bool)   (* holds the shard lock; map updated; nothing sent yet *)
| ClSent (sh : nat)                (* SendUnderLock: job sent, still holding the lock *)
| ClSend                           (* SendAfterUnlock: lock released, before sendJob *)
| ClDone.                          (* the call has returned *)

Inductive cl_worker :=
| ClwIdle                            (* in select *)
| ClwLoading                         (* running a loader (returns eventually), then setValue *)
| ClwSweepWant (i : nat)             (* removeRotted: before Lock() of shard i *)
| ClwSweepHold (i : nat).            (* removeRotted: holds shard i *)

Record cl_cfg := { cl_ord : cl_order; cl_cap : nat; cl_nshards : nat }.

Record cl_state := {
  cl_clients : list cl_client;
  cl_workers : list cl_worker;
  cl_queue : nat;                  (* jobs in the channel *)
  cl_tick : bool                   (* a tick is pending in gcTicker.C *)
}.

Inductive cl_label :=
| LClient (i : nat)
| LWorker (i : nat) (pick_tick : bool)   (* pick_tick: which ready select branch an idle worker takes *)
| LTick                                  (* environment: the ticker fires (dropped if one is pending) *)
| LArrive (c : cl_client).               (* environment: a new call starts *)

Definition cl_is_thread (l : cl_label) : bool :=
  match l with LClient _ | LWorker _ _ => true | _ => false end.

Definition cl_client_holds (sh : nat) (c : cl_client) : bool :=
  match c with ClHold s _ => Nat.eqb s sh | ClSent s => Nat.eqb s sh | _ => false end.
Definition cl_worker_holds (sh : nat) (w : cl_worker) : bool :=
  match w with ClwSweepHold i => Nat.eqb i sh | _ => false end.
Definition cl_locked (s : cl_state) (sh : nat) : bool :=
  existsb (cl_client_holds sh) (cl_clients s) || existsb (cl_worker_holds sh) (cl_workers s).

Definition cl_set {A} (l : list A) (i : nat) (x : A) : list A := firstn i l ++ x :: skipn (S i) l.

(* one step of a client: new client state and new queue length; None = blocked / finished *)
Definition cl_client_step (cfg : cl_cfg) (s : cl_state) (c : cl_client) : option (cl_client * nat) :=
  let q := cl_queue s in
  match c with
  | ClWant sh job => if cl_locked s sh then None else Some (ClHold sh job, q)
  | ClHold sh job =>
      if job then
        match cl_ord cfg with
        | SendUnderLock => if q <? cl_cap cfg then Some (ClSent sh, S q) else None
        | SendAfterUnlock => Some (ClSend, q)
        end
      else Some (ClDone, q)
  | ClSent sh => Some (ClDone, q)
  | ClSend => if q <? cl_cap cfg then Some (ClDone, S q) else None
  | ClDone => None
  end.

Definition cl_sweep_next (cfg : cl_cfg) (j : nat) : cl_worker :=
  if j <? cl_nshards cfg then ClwSweepWant j else ClwIdle.

Definition cl_worker_step (cfg : cl_cfg) (s : cl_state) (w : cl_worker) (pick_tick : bool)
  : option (cl_worker * nat * bool) :=
  let q := cl_queue s in
  match w with
  | ClwIdle =>
      if pick_tick then (if cl_tick s then Some (cl_sweep_next cfg 0, q, false) else None)
      else (if 0 <? q then Some (ClwLoading, q - 1, cl_tick s) else None)
  | ClwLoading => Some (ClwIdle, q, cl_tick s)
  | ClwSweepWant i => if cl_locked s i then None else Some (ClwSweepHold i, q, cl_tick s)
  | ClwSweepHold i => Some (cl_sweep_next cfg (S i), q, cl_tick s)
  end.

Definition cl_step (cfg : cl_cfg) (s : cl_state) (l : cl_label) : option cl_state :=
  match l with
  | LClient i =>
      match nth_error (cl_clients s) i with
      | None => None
      | Some c =>
          match cl_client_step cfg s c with
          | None => None
          | Some (c', q') =>
              Some {| cl_clients := cl_set (cl_clients s) i c'; cl_workers := cl_workers s;
                      cl_queue := q'; cl_tick := cl_tick s |}
          end
      end
  | LWorker i pt =>
      match nth_error (cl_workers s) i with
      | None => None
      | Some w =>
          match cl_worker_step cfg s w pt with
          | None => None
          | Some (w', q', t') =>
              Some {| cl_clients := cl_clients s; cl_workers := cl_set (cl_workers s) i w';
                      cl_queue := q'; cl_tick := t' |}
          end
      end
  | LTick => Some {| cl_clients := cl_clients s; cl_workers := cl_workers s;
                     cl_queue := cl_queue s; cl_tick := true |}
  | LArrive c => Some {| cl_clients := cl_clients s ++ [c]; cl_workers := cl_workers s;
                         cl_queue := cl_queue s; cl_tick := cl_tick s |}
  end.

Fixpoint cl_run (cfg : cl_cfg) (s : cl_state) (ls : list cl_label) : option cl_state :=
  match ls with
  | [] => Some s
  | l :: r => match cl_step cfg s l with None => None | Some s' => cl_run cfg s' r end
  end.

Definition cl_init (parallel : nat) (clients : list cl_client) : cl_state :=
  {| cl_clients := clients; cl_workers := repeat ClwIdle parallel; cl_queue := 0; cl_tick := false |}.

Definition cl_client_done (c : cl_client) : bool := match c with ClDone => true | _ => false end.
Definition cl_worker_idle (w : cl_worker) : bool := match w with ClwIdle => true | _ => false end.

(* nothing left to do: every call returned, every job loaded (so every future resolved),
   no sweep in progress or pending *)
Definition cl_finished (s : cl_state) : bool :=
  forallb cl_client_done (cl_clients s) && forallb cl_worker_idle (cl_workers s) &&
  Nat.eqb (cl_queue s) 0 && negb (cl_tick s).

Definition cl_enabled (cfg : cl_cfg) (s : cl_state) (l : cl_label) : bool :=
  match cl_step cfg s l with Some _ => true | None => false end.

Definition cl_thread_labels (s : cl_state) : list cl_label :=
  map LClient (seq 0 (length (cl_clients s))) ++
  flat_map (fun i => [LWorker i false; LWorker i true]) (seq 0 (length (cl_workers s))).

(* no thread can move *)
Definition cl_stuck (cfg : cl_cfg) (s : cl_state) : bool :=
  forallb (fun l => negb (cl_enabled cfg s l)) (cl_thread_labels s).

(* progress measure *)
Definition cl_client_weight (c : cl_client) : nat :=
  match c with
  | ClWant _ true => 5 | ClHold _ true => 4 | ClSend => 3 | ClSent _ => 1
  | ClWant _ false => 2 | ClHold _ false => 1 | ClDone => 0
  end.
Definition cl_worker_weight (cfg : cl_cfg) (w : cl_worker) : nat :=
  match w with
  | ClwIdle => 0 | ClwLoading => 1
  | ClwSweepWant i => 2 * (cl_nshards cfg - i) + 2
  | ClwSweepHold i => 2 * (cl_nshards cfg - i) + 1
  end.
Definition cl_sum {A} (f : A -> nat) (l : list A) : nat := fold_right (fun x a => f x + a) 0 l.
Definition cl_measure (cfg : cl_cfg) (s : cl_state) : nat :=
  cl_sum cl_client_weight (cl_clients s) + 2 * cl_queue s +
  cl_sum (cl_worker_weight cfg) (cl_workers s) + (if cl_tick s then 2 * cl_nshards cfg + 3 else 0).
