(* Sort.v -- executable model of sortx.SliceBy (sortx/sort.go) and of the introsort it
   calls (sortx/zfuncversion.go: insertionSort_func, siftDown_func, heapSort_func,
   medianOfThree_func, doPivot_func, quickSort_func) and of maxDepth.

   State = the two Go slices (keys, values) as two lists, a counter of Less calls and
   branch-hit counters (ghost; used for coverage evidence only).  The only operations on
   the slices are
     srt_less i j  = data.Less(i, j)  = user less on keys[i], keys[j]   (Panic if out of range)
     srt_swap i j  = data.Swap(i, j)  = keySwapper(i,j); valSwapper(i,j) (Panic if out of range)
   exactly as SliceBy builds them.  Indices are Go ints, modelled as unbounded Z (no
   truncated subtraction anywhere: a negative index is a Panic value).  Loops whose
   trip count is the distance between two indices are structural recursions on that
   distance; siftDown, the two partition loops of doPivot and quickSort take explicit
   fuel and return SNoFuel when it runs out. *)
From Got Require Import Base.
Local Open Scope Z_scope.

Record srt_state (K V : Type) : Type := mk_srt_state
  { st_keys : list K; st_vals : list V; st_cmp : N; st_br : list N }.
Arguments mk_srt_state {K V} _ _ _ _.
Arguments st_keys {K V} _.
Arguments st_vals {K V} _.
Arguments st_cmp {K V} _.
Arguments st_br {K V} _.

Inductive srt_res (A : Type) : Type :=
| SOk (a : A)
| SPanic
| SNoFuel.
Arguments SOk {A} a.
Arguments SPanic {A}.
Arguments SNoFuel {A}.

(* Z-indexed checked access to a list *)
Definition srt_zget {A} (l : list A) (i : Z) : option A :=
  if i <? 0 then None else nth_error l (Z.to_nat i).

Fixpoint srt_set_nat {A} (l : list A) (n : nat) (x : A) : list A :=
  match l with
  | [] => []
  | y :: t => match n with O => x :: t | S n' => y :: srt_set_nat t n' x end
  end.

Definition srt_zset {A} (l : list A) (i : Z) (x : A) : list A :=
  if i <? 0 then l else srt_set_nat l (Z.to_nat i) x.

(* reflect.Swapper(slice)(i, j): panics when an index is out of range *)
Definition srt_swap_list {A} (l : list A) (i j : Z) : option (list A) :=
  match srt_zget l i, srt_zget l j with
  | Some x, Some y => Some (srt_zset (srt_zset l i y) j x)
  | _, _ => None
  end.

Fixpoint srt_bump (l : list N) (k : nat) : list N :=
  match l with
  | [] => []
  | c :: t => match k with O => N.succ c :: t | S k' => c :: srt_bump t k' end
  end.

(* branch counters *)
Definition srt_br_small : nat := 0.     (* final pass: shell pass + insertion sort on a segment of 2..12 *)
Definition srt_br_pivot : nat := 1.     (* doPivot calls *)
Definition srt_br_ninther : nat := 2.   (* hi-lo > 40: Tukey ninther *)
Definition srt_br_dupcheck : nat := 3.  (* !protect && hi-c < (hi-lo)/4 *)
Definition srt_br_protect : nat := 4.   (* protect loop executed *)
Definition srt_br_heap : nat := 5.      (* depth limit reached: heapSort fallback *)
Definition srt_br_left : nat := 6.      (* recursion on the left part first *)
Definition srt_br_right : nat := 7.     (* recursion on the right part first *)
Definition srt_br_init : list N := [0; 0; 0; 0; 0; 0; 0; 0]%N.

Section Model.
  Context {K V : Type}.
  Variable less : K -> K -> bool.

  Definition srt_M (A : Type) : Type := srt_state K V -> srt_res (A * srt_state K V).

  Definition srt_ret {A} (a : A) : srt_M A := fun s => SOk (a, s).
  Definition srt_bind {A B} (m : srt_M A) (f : A -> srt_M B) : srt_M B :=
    fun s => match m s with
             | SOk (a, s') => f a s'
             | SPanic => SPanic
             | SNoFuel => SNoFuel
             end.
  Definition srt_nofuel {A} : srt_M A := fun _ => SNoFuel.

  Notation "x <- m ;; k" := (srt_bind m (fun x => k)) (at level 61, m at next level, right associativity).
  Notation "m ;;; k" := (srt_bind m (fun _ => k)) (at level 61, right associativity).

  (* data.Less(i, j) *)
  Definition srt_less (i j : Z) : srt_M bool := fun s =>
    match srt_zget (st_keys s) i, srt_zget (st_keys s) j with
    | Some x, Some y =>
        SOk (less x y, mk_srt_state (st_keys s) (st_vals s) (N.succ (st_cmp s)) (st_br s))
    | _, _ => SPanic
    end.

  (* data.Swap(i, j) = keySwapper(i, j); valSwapper(i, j) *)
  Definition srt_swap (i j : Z) : srt_M unit := fun s =>
    match srt_swap_list (st_keys s) i j with
    | None => SPanic
    | Some ks =>
        match srt_swap_list (st_vals s) i j with
        | None => SPanic
        | Some vs => SOk (tt, mk_srt_state ks vs (st_cmp s) (st_br s))
        end
    end.

  Definition srt_tick (k : nat) : srt_M unit := fun s =>
    SOk (tt, mk_srt_state (st_keys s) (st_vals s) (st_cmp s) (srt_bump (st_br s) k)).

  (* for i := i0; i < i0 + n; i++ { body i } *)
  Fixpoint srt_for_up (n : nat) (i : Z) (body : Z -> srt_M unit) : srt_M unit :=
    match n with
    | O => srt_ret tt
    | S n' => body i ;;; srt_for_up n' (i + 1) body
    end.
  Definition srt_for (i b : Z) (body : Z -> srt_M unit) : srt_M unit :=
    srt_for_up (Z.to_nat (b - i)) i body.

  (* for i := n-1; i >= 0; i-- { body i } *)
  Fixpoint srt_for_down (n : nat) (body : Z -> srt_M unit) : srt_M unit :=
    match n with
    | O => srt_ret tt
    | S n' => body (Z.of_nat n') ;;; srt_for_down n' body
    end.

  (* for ; i < lim && cond(i); i++ {}   -- returns the final i *)
  Fixpoint srt_scan_up_aux (n : nat) (cond : Z -> srt_M bool) (i : Z) : srt_M Z :=
    match n with
    | O => srt_ret i
    | S n' => t <- cond i ;; if t then srt_scan_up_aux n' cond (i + 1) else srt_ret i
    end.
  Definition srt_scan_up (cond : Z -> srt_M bool) (i lim : Z) : srt_M Z :=
    srt_scan_up_aux (Z.to_nat (lim - i)) cond i.

  (* for ; lim < x && cond(x-1); x-- {}   -- returns the final x *)
  Fixpoint srt_scan_down_aux (n : nat) (cond : Z -> srt_M bool) (x : Z) : srt_M Z :=
    match n with
    | O => srt_ret x
    | S n' => t <- cond (x - 1) ;; if t then srt_scan_down_aux n' cond (x - 1) else srt_ret x
    end.
  Definition srt_scan_down (cond : Z -> srt_M bool) (lim x : Z) : srt_M Z :=
    srt_scan_down_aux (Z.to_nat (x - lim)) cond x.

  (* insertionSort_func: for j := i; j > a && Less(j, j-1); j-- { Swap(j, j-1) }
     structural on the distance j - a *)
  Fixpoint srt_ins_inner (n : nat) (j : Z) : srt_M unit :=
    match n with
    | O => srt_ret tt
    | S n' =>
        t <- srt_less j (j - 1) ;;
        if t then srt_swap j (j - 1) ;;; srt_ins_inner n' (j - 1) else srt_ret tt
    end.

  Definition srt_insertion_sort (a b : Z) : srt_M unit :=
    srt_for (a + 1) b (fun i => srt_ins_inner (Z.to_nat (i - a)) i).

  (* siftDown_func(data, lo=root, hi, first) *)
  Fixpoint srt_sift_down (fuel : nat) (root hi first : Z) : srt_M unit :=
    let child := 2 * root + 1 in
    if hi <=? child then srt_ret tt
    else match fuel with
         | O => srt_nofuel
         | S f =>
             child <- (if child + 1 <? hi
                       then t <- srt_less (first + child) (first + child + 1) ;;
                            srt_ret (if t then child + 1 else child)
                       else srt_ret child) ;;
             t <- srt_less (first + root) (first + child) ;;
             if negb t then srt_ret tt
             else srt_swap (first + root) (first + child) ;;; srt_sift_down f child hi first
         end.

  (* heapSort_func *)
  Definition srt_heap_sort (a b : Z) : srt_M unit :=
    let first := a in
    let lo := 0 in
    let hi := b - a in
    let sfuel := Z.to_nat hi in
    srt_for_down (Z.to_nat (Z.quot (hi - 1) 2 + 1)) (fun i => srt_sift_down sfuel i hi first) ;;;
    srt_for_down (Z.to_nat hi) (fun i => srt_swap first (first + i) ;;; srt_sift_down sfuel lo i first).

  (* medianOfThree_func(data, m1, m0, m2) *)
  Definition srt_median3 (m1 m0 m2 : Z) : srt_M unit :=
    t <- srt_less m1 m0 ;;
    (if t then srt_swap m1 m0 else srt_ret tt) ;;;
    t <- srt_less m2 m1 ;;
    if t then
      srt_swap m2 m1 ;;;
      t <- srt_less m1 m0 ;;
      if t then srt_swap m1 m0 else srt_ret tt
    else srt_ret tt.

  (* doPivot: main partition loop
       for { for ; b < c && !Less(pivot, b); b++ {}
             for ; b < c && Less(pivot, c-1); c-- {}
             if b >= c { break }
             Swap(b, c-1); b++; c-- } *)
  Fixpoint srt_part_loop (fuel : nat) (pivot b c : Z) : srt_M (Z * Z) :=
    match fuel with
    | O => srt_nofuel
    | S f =>
        b <- srt_scan_up (fun i => t <- srt_less pivot i ;; srt_ret (negb t)) b c ;;
        c <- srt_scan_down (fun i => srt_less pivot i) b c ;;
        if c <=? b then srt_ret (b, c)
        else srt_swap b (c - 1) ;;; srt_part_loop f pivot (b + 1) (c - 1)
    end.

  (* doPivot: protect loop
       for { for ; a < b && !Less(b-1, pivot); b-- {}
             for ; a < b && Less(a, pivot); a++ {}
             if a >= b { break }
             Swap(a, b-1); a++; b-- } *)
  Fixpoint srt_prot_loop (fuel : nat) (pivot a b : Z) : srt_M Z :=
    match fuel with
    | O => srt_nofuel
    | S f =>
        b <- srt_scan_down (fun i => t <- srt_less i pivot ;; srt_ret (negb t)) a b ;;
        a <- srt_scan_up (fun i => srt_less i pivot) a b ;;
        if b <=? a then srt_ret b
        else srt_swap a (b - 1) ;;; srt_prot_loop f pivot (a + 1) (b - 1)
    end.

  Definition srt_do_pivot (lo hi : Z) : srt_M (Z * Z) :=
    srt_tick srt_br_pivot ;;;
    let m := (lo + hi) / 2 in       (* int(uint(lo+hi) >> 1), exact below 2^63 *)
    (if 40 <? hi - lo then
       let s := (hi - lo) / 8 in
       srt_tick srt_br_ninther ;;;
       srt_median3 lo (lo + s) (lo + 2 * s) ;;;
       srt_median3 m (m - s) (m + s) ;;;
       srt_median3 (hi - 1) (hi - 1 - s) (hi - 1 - 2 * s)
     else srt_ret tt) ;;;
    srt_median3 lo m (hi - 1) ;;;
    let pivot := lo in
    let a := lo + 1 in
    let c := hi - 1 in
    let lfuel := Z.to_nat (hi - lo) in
    a <- srt_scan_up (fun i => srt_less i pivot) a c ;;
    let b := a in
    bc <- srt_part_loop lfuel pivot b c ;;
    let '(b, c) := bc in
    let protect := hi - c <? 5 in
    bcp <- (if negb protect && (hi - c <? (hi - lo) / 4) then
              srt_tick srt_br_dupcheck ;;;
              t <- srt_less pivot (hi - 1) ;;
              cd <- (if negb t then srt_swap c (hi - 1) ;;; srt_ret (c + 1, 1)
                     else srt_ret (c, 0)) ;;
              let '(c, dups) := cd in
              t <- srt_less (b - 1) pivot ;;
              bd <- srt_ret (if negb t then (b - 1, dups + 1) else (b, dups)) ;;
              let '(b, dups) := bd in
              t <- srt_less m pivot ;;
              bd <- (if negb t then srt_swap m (b - 1) ;;; srt_ret (b - 1, dups + 1)
                     else srt_ret (b, dups)) ;;
              let '(b, dups) := bd in
              srt_ret (b, c, 1 <? dups)
            else srt_ret (b, c, protect)) ;;
    let '(b, c, protect) := bcp in
    b <- (if protect then srt_tick srt_br_protect ;;; srt_prot_loop lfuel pivot a b
          else srt_ret b) ;;
    srt_swap pivot (b - 1) ;;;
    srt_ret (b - 1, c).

  (* quickSort_func.  The "for b-a > 12" loop continues on the larger part; here the
     continuation is the second call.  Every loop iteration and every recursive call
     consumes one unit of fuel. *)
  Fixpoint srt_quick_sort (fuel : nat) (a b : Z) (depth : nat) : srt_M unit :=
    match fuel with
    | O => srt_nofuel
    | S f =>
        if 12 <? b - a then
          match depth with
          | O => srt_tick srt_br_heap ;;; srt_heap_sort a b
          | S depth' =>
              mm <- srt_do_pivot a b ;;
              let '(mlo, mhi) := mm in
              if mlo - a <? b - mhi then
                srt_tick srt_br_left ;;;
                srt_quick_sort f a mlo depth' ;;;
                srt_quick_sort f mhi b depth'
              else
                srt_tick srt_br_right ;;;
                srt_quick_sort f mhi b depth' ;;;
                srt_quick_sort f a mlo depth'
          end
        else if 1 <? b - a then
          srt_tick srt_br_small ;;;
          srt_for (a + 6) b (fun i =>
            t <- srt_less i (i - 6) ;; if t then srt_swap i (i - 6) else srt_ret tt) ;;;
          srt_insertion_sort a b
        else srt_ret tt
    end.

  (* maxDepth: for i := n; i > 0; i >>= 1 { depth++ }; return depth * 2 *)
  Fixpoint srt_bitlen (fuel : nat) (i : Z) : nat :=
    match fuel with
    | O => O
    | S f => if 0 <? i then S (srt_bitlen f (i / 2)) else O
    end.
  Definition srt_max_depth (n : Z) : nat := 2 * srt_bitlen 64 n.

  Definition srt_init (keys : list K) (vals : list V) : srt_state K V :=
    mk_srt_state keys vals 0%N srt_br_init.

  Definition srt_sliceby_fuel (fuel : nat) (keys : list K) (vals : list V)
    : srt_res (srt_state K V) :=
    let length := Z.min (Z.of_nat (length keys)) (Z.of_nat (length vals)) in
    if length <=? 1 then SOk (srt_init keys vals)
    else match srt_quick_sort fuel 0 length (srt_max_depth length) (srt_init keys vals) with
         | SOk (_, s) => SOk s
         | SPanic => SPanic
         | SNoFuel => SNoFuel
         end.

  (* SliceBy(keys, values, less) *)
  Definition srt_sliceby (keys : list K) (vals : list V) : srt_res (srt_state K V) :=
    let length := Z.min (Z.of_nat (length keys)) (Z.of_nat (length vals)) in
    srt_sliceby_fuel (S (srt_max_depth length)) keys vals.

  (* variant used only as a mutation canary / for the killer-input construction:
     the same quicksort without the depth limit (depth never reaches 0) *)
  Definition srt_sliceby_nolimit (keys : list K) (vals : list V) : srt_res (srt_state K V) :=
    let length := Z.min (Z.of_nat (length keys)) (Z.of_nat (length vals)) in
    if length <=? 1 then SOk (srt_init keys vals)
    else let d := Z.to_nat length in
         match srt_quick_sort (S d) 0 length d (srt_init keys vals) with
         | SOk (_, s) => SOk s
         | SPanic => SPanic
         | SNoFuel => SNoFuel
         end.
End Model.

(* Instances used by the correspondence check: keys and values are integers, the mode
   selects the user's less function (the same closures are written in the Go harness). *)
Definition srt_less_mode (mode : Z) (x y : Z) : bool :=
  if mode =? 0 then x <? y                           (* ascending *)
  else if mode =? 1 then y <? x                      (* descending *)
  else if mode =? 2 then x / 4 <? y / 4              (* weak order with ties *)
  else if mode =? 3 then (x - y) mod 3 =? 1          (* inconsistent: rock-paper-scissors *)
  else if mode =? 4 then true                        (* inconsistent: always true *)
  else x <=? y.                                      (* inconsistent: reflexive *)

Definition srt_sliceby_z (mode : Z) (keys vals : list Z) : srt_res (srt_state Z Z) :=
  srt_sliceby (srt_less_mode mode) keys vals.
