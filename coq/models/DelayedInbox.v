(* DelayedInbox.v -- the hand-over channel between SendDelayed and the scheduler loop of taskx
   (delayed_queue.go): SendDelayed puts the task into the buffered channel `tasks` and returns; the loop
   takes tasks out one by one (case task := <-my.tasks) and, on a tick, FIRST takes in everything that is
   already in the channel and then releases what is due (fix a5a97ba).  [DliOrig] is the code before the
   fix: a tick is handled without looking at the channel, so a task handed over before the tick, whose
   deadline has passed, waits for the NEXT tick when the select happened to choose the ticker.

   An inbox-level history is expanded into the loop-level history of Delayed.v (DlRecv / DlTick / ...),
   about which the C10 theorems speak; "received before the tick" (dl_timely) then follows from
   "SENT before the tick" (dli_sends_timely), which is what a caller can know.

   The channel's capacity (128) is not modelled: a SendDelayed that finds it full blocks until the loop
   takes a task (the property's own proviso "as long as the queues being targeted have room" covers the
   only way the loop stops taking tasks).  Definitions only; proofs in proofs/DelayedInboxProofs.v. *)
From Got Require Import Base Delayed.
Local Open Scope Z_scope.

Inductive dli_variant := DliOrig | DliFixed.

Inductive dli_event :=
| DliSend (t : dl_task)        (* SendDelayed has put t into the channel (the call returned) *)
| DliRecv                      (* loop: case task := <-my.tasks, the oldest task in the channel *)
| DliTick (now : Z)            (* loop: case <-ticker.C, time.Now() = now *)
| DliTake (q : Z) (now : Z)    (* a consumer receives one task from target queue q *)
| DliClose (q : Z) (now : Z).  (* target queue q's close channel is closed *)

Fixpoint dli_expand (var : dli_variant) (inbox : list dl_task) (evs : list dli_event) : list dl_event :=
  match evs with
  | [] => []
  | DliSend t :: r => dli_expand var (inbox ++ [t]) r
  | DliRecv :: r =>
      match inbox with
      | [] => dli_expand var [] r
      | t :: ib => DlRecv t :: dli_expand var ib r
      end
  | DliTick now :: r =>
      match var with
      | DliFixed => map DlRecv inbox ++ DlTick now :: dli_expand var [] r
      | DliOrig => DlTick now :: dli_expand var inbox r
      end
  | DliTake q now :: r => DlTake q now :: dli_expand var inbox r
  | DliClose q now :: r => DlClose q now :: dli_expand var inbox r
  end.

(* every task is SENT before any tick whose time has reached its trigger: all ticks earlier in the
   history (and the start t0) are strictly before the trigger *)
Fixpoint dli_sends_timely (seen : Z) (evs : list dli_event) : bool :=
  match evs with
  | [] => true
  | DliSend t :: r => (seen <? dl_trig t) && dli_sends_timely seen r
  | DliTick n :: r => dli_sends_timely (Z.max seen n) r
  | _ :: r => dli_sends_timely seen r
  end.

(* the executable instance used by the refutation and the examples *)
Definition dli_run_sorted (var : dli_variant) (caps : list (Z * nat)) (evs : list dli_event) :=
  dl_run_sorted caps (dli_expand var [] evs).
