(* RaceQueue.v -- the memory events of the steps of the loom.Queue model (models/Queue.v).

   Every step of [q_step] is labelled with the memory events (lib/Race.v) the code it stands
   for performs, so that a schedule of the MODEL produces a trace of (thread, event) on which
   the relational happens-before race of lib/RaceHB.v is defined.

   Sync objects:   q.head = 0, q.tail = 1, the next field of the node at chain position p = 2+p.
   Locations:      the value cell of a node = a ghost id handed out by a counter when the node
                   is allocated (a node exists before it has a chain position).
   queueLoad(p)                = RAcq p          (atomic.LoadPointer)
   queueCas(p, ..) successful  = RAcqRel p       (atomic.CompareAndSwapPointer)
   queueCas(p, ..) failed      = RAcq p          (a failed CAS is an atomic read: it observes,
                                                  it does not publish; this is also what the
                                                  race detector does, and it gives FEWER
                                                  happens-before edges than RAcqRel)
   n := &node{value: v}        = RWrite id       at the invocation step of Push (id fresh)
   v := next.value             = RRead  id       in Pop's D4 step, id = the id of the node at
                                                  chain position S h
   Ghost state (influences no step of the queue): [rq_own] chain position -> id of the node
   linked there, [rq_mine] thread -> id of the node its current Push allocated, [rq_nalloc]
   the allocation counter.

   Prefilled nodes.  [q_init pre progs] starts from a queue that already holds [pre], "pushed
   sequentially".  They are NOT excluded from conflicts: a set-up thread (thread id = number of
   threads, it takes no model step) performs, before every other event, the memory events of
   these sequential pushes (plain write of the value, the three loads, the link CAS, the tail
   CAS of a solo Push; the node at position S p has id S p).  No go-statement edge from the
   set-up thread to the other threads is assumed (fewer edges: the theorem is stronger).

   Definitions only; proofs in proofs/RaceQueueProofs.v. *)
From Got Require Import Base Race RaceHB Queue.
Local Open Scope nat_scope.

Definition rq_head : nat := 0.
Definition rq_tail : nat := 1.
Definition rq_next (p : nat) : nat := 2 + p.

Record rq_ghost := {
  rq_own : nat -> nat;        (* chain position -> id of the value cell of the node linked there *)
  rq_mine : nat -> nat;       (* thread -> id of the node allocated by its current Push *)
  rq_nalloc : nat             (* next fresh id *)
}.

Definition rq_cas (ok : bool) (o : nat) : rc_ev := if ok then RAcqRel o else RAcq o.

(* the events of the step of thread i parked at pc, and the ghost state after it; same case
   analysis as q_step_pc *)
Definition rq_step_pc (s : q_state) (g : rq_ghost) (i : nat) (pc : q_pc) (todo : list q_op)
  : list rc_ev * rq_ghost :=
  match pc with
  | QIdle =>
      match todo with
      | QPush _ :: _ =>
          ([RWrite (rq_nalloc g)],
           {| rq_own := rq_own g; rq_mine := rc_upd (rq_mine g) i (rq_nalloc g);
              rq_nalloc := S (rq_nalloc g) |})
      | _ => ([], g)
      end
  | QP1 _ => ([RAcq rq_tail], g)
  | QP2 _ t => ([RAcq (rq_next t)], g)
  | QP3 _ _ _ => ([RAcq rq_tail], g)
  | QP4 _ t =>
      if q_has_next s t then ([RAcq (rq_next t)], g)
      else ([RAcqRel (rq_next t)],
            {| rq_own := rc_upd (rq_own g) (length (q_chain s)) (rq_mine g i);
               rq_mine := rq_mine g; rq_nalloc := rq_nalloc g |})
  | QP5 _ t => ([rq_cas (t =? q_ti s) rq_tail], g)
  | QP6 t => ([rq_cas (t =? q_ti s) rq_tail], g)
  | QD1 => ([RAcq rq_head], g)
  | QD2 _ => ([RAcq rq_tail], g)
  | QD3 h _ => ([RAcq (rq_next h)], g)
  | QD4 h t nx =>
      (RAcq rq_head ::
       (if (h =? q_hi s) && negb (h =? t) && nx then [RRead (rq_own g (S h))] else []), g)
  | QD5 _ t => ([rq_cas (t =? q_ti s) rq_tail], g)
  | QD6 h _ => ([rq_cas (h =? q_hi s) rq_head], g)
  | QDead => ([], g)
  end.

Definition rq_step (s : q_state) (g : rq_ghost) (i : nat) : list rc_ev * rq_ghost :=
  match nth_error (q_threads s) i with
  | None => ([], g)
  | Some th => rq_step_pc s g i (q_pcof th) (q_todo th)
  end.

(* the trace a schedule produces from (s, g): the queue state advances by q_step *)
Fixpoint rq_trace_from (s : q_state) (g : rq_ghost) (sched : list nat) : hb_trace :=
  match sched with
  | [] => []
  | i :: r =>
      map (pair i) (fst (rq_step s g i))
      ++ rq_trace_from (fst (q_step s i)) (snd (rq_step s g i)) r
  end.

(* the set-up thread n pushing the node of chain position S p (solo run of Push) *)
Definition rq_setup_push (n p : nat) : hb_trace :=
  map (pair n) [RWrite (S p); RAcq rq_tail; RAcq (rq_next p); RAcq rq_tail;
                RAcqRel (rq_next p); RAcqRel rq_tail].

Definition rq_setup (n k : nat) : hb_trace := flat_map (rq_setup_push n) (seq 0 k).

Definition rq_ghost0 (s : q_state) : rq_ghost :=
  {| rq_own := fun p => p; rq_mine := fun _ => 0; rq_nalloc := length (q_chain s) |}.

(* number of thread ids of a trace of s: the model threads and the set-up thread *)
Definition rq_nthreads (s : q_state) : nat := S (length (q_threads s)).

(* the trace of a run from s, whose chain is taken to have been built by the set-up thread *)
Definition rq_trace (s : q_state) (sched : list nat) : hb_trace :=
  rq_setup (length (q_threads s)) (length (q_chain s) - 1)
  ++ rq_trace_from s (rq_ghost0 s) sched.

(* ------------------------------------------------------------------ a faulty variant (documentation)
   "Pop clears the value of the new dummy": after a successful head CAS the winner executes
   next.value = nil, a plain WRITE of the cell other poppers may still be reading in their D4
   step.  Used by rq_pop_clear_refuted: the labelled runs of this variant do race. *)
Definition rq_step_clear (s : q_state) (g : rq_ghost) (i : nat) : list rc_ev * rq_ghost :=
  let '(evs, g') := rq_step s g i in
  match nth_error (q_threads s) i with
  | Some th =>
      match q_pcof th with
      | QD6 h _ => if h =? q_hi s then (evs ++ [RWrite (rq_own g (S h))], g') else (evs, g')
      | _ => (evs, g')
      end
  | None => (evs, g')
  end.

Fixpoint rq_trace_from_clear (s : q_state) (g : rq_ghost) (sched : list nat) : hb_trace :=
  match sched with
  | [] => []
  | i :: r =>
      map (pair i) (fst (rq_step_clear s g i))
      ++ rq_trace_from_clear (fst (q_step s i)) (snd (rq_step_clear s g i)) r
  end.

Definition rq_trace_clear (s : q_state) (sched : list nat) : hb_trace :=
  rq_setup (length (q_threads s)) (length (q_chain s) - 1)
  ++ rq_trace_from_clear s (rq_ghost0 s) sched.
