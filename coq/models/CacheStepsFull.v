(* CacheStepsFull.v -- the small-step machine of CacheSteps.v (same memory, same steps, Fixed
   order) with a REFINED GHOST that covers all five operations (Load, Get2, Set, worker,
   removeRotted).

   Why a refined ghost.  Cache.v's [CStart k] starts "the first queued job OF KEY k" and
   Cache.v enqueues a job atomically with the map write of its Load.  The real Load sends its
   job after Unlock, so the real channel order is the order of the sendJob steps, not the order
   of creation: after a Set displaced a job whose sendJob is still pending, a later job of the
   same key can be received first.  The ghost of CacheSteps.v (CStart of the received job's key)
   then starts another future than the worker received.  Here the ghost starts the job BY
   FUTURE ID: the refined atomic machine [cx_step] is Cache.v's [c_step] plus one event
   [CxStartF f] (future f leaves the queue, wherever it stands, and runs).  Cache.v itself is
   not changed.  proofs/CacheStepsFullProofs.v relates the two atomic machines: every history
   of [cx_step] is simulated by a history of [c_step] that has the same calls, loader returns,
   sweeps and time steps in the same order with the same outputs and only starts jobs earlier.

   The instrumented machine [cf_step] runs exactly the thread steps of CacheSteps.v
   ([cs_tstep CsFixed], [cs_go]; ticks by [cs_step]); only the first step of a worker call
   differs in its ghost part.  [cf_xevs] is the refined atomic history (newest first); the field
   [cs_evs] of the inner state holds the same history without the start events.
   Definitions only; proofs are in proofs/CacheStepsFullProofs.v. *)
From Got Require Import Base Cache CacheSteps.
Local Open Scope Z_scope.

(* ---- the refined atomic machine *)
Inductive cx_event :=
| CxE (ev : c_event)             (* an event of Cache.v *)
| CxStartF (f : nat).            (* a worker receives job f *)

Definition cx_start_id (s : c_state) (f : nat) : c_state * c_out :=
  match c_take_first (Nat.eqb f) (c_queue s) with
  | None => (s, OBad)
  | Some (f', q') =>
      ({| c_now := c_now s; c_futs := c_futs s; c_map := c_map s; c_queue := q';
          c_running := c_running s ++ [f']; c_displaced := c_displaced s |}, OStart f')
  end.

Definition cx_step (cfg : c_cfg) (s : c_state) (xev : cx_event) : c_state * c_out :=
  match xev with
  | CxE ev => c_step cfg s ev
  | CxStartF f => cx_start_id s f
  end.

Fixpoint cx_run (cfg : c_cfg) (s : c_state) (xevs : list cx_event) : c_state :=
  match xevs with
  | [] => s
  | xev :: r => cx_run cfg (fst (cx_step cfg s xev)) r
  end.

Fixpoint cx_outputs (cfg : c_cfg) (s : c_state) (xevs : list cx_event) : list c_out :=
  match xevs with
  | [] => []
  | xev :: r => snd (cx_step cfg s xev) :: cx_outputs cfg (fst (cx_step cfg s xev)) r
  end.

(* ---- translation of a refined history into a history of Cache.v (simulation witness):
   [sc] is the state of Cache.v, [sx] the state of the refined machine.
   CxStartF f : Cache.v starts jobs of f's key until f runs (nothing if f runs already);
   CFinish    : the same future is completed (its rank among Cache.v's running jobs);
   CStart k   : by key in the refined machine, too: the same future is started as by id;
   every other event is kept. *)
Definition cx_key (s : c_state) (f : nat) : Z := cs_fkey s f.

(* number of jobs of key k in l up to and including f (0 if f is not in l) *)
Fixpoint cx_upto (p : nat -> bool) (f : nat) (l : list nat) : nat :=
  match l with
  | [] => O
  | x :: r => if Nat.eqb x f then 1%nat
              else match cx_upto p f r with
                   | O => O
                   | S n => if p x then S (S n) else S n
                   end
  end.

Definition cx_starts (sc : c_state) (f : nat) : list c_event :=
  let k := cx_key sc f in
  repeat (CStart k) (cx_upto (c_key_is (c_futs sc) k) f (c_queue sc)).

Definition cx_trans1 (cfg : c_cfg) (sx sc : c_state) (xev : cx_event) : list c_event :=
  match xev with
  | CxStartF f => cx_starts sc f
  | CxE (CStart k) =>
      match c_take_first (c_key_is (c_futs sx) k) (c_queue sx) with
      | Some (f, _) => cx_starts sc f
      | None => [CStart k]
      end
  | CxE (CFinish k i v e) =>
      match c_take_nth (c_key_is (c_futs sx) k) i (c_running sx) with
      | Some (f, _) => [CFinish k (cs_rank (c_key_is (c_futs sc) k) f (c_running sc)) v e]
      | None => [CFinish k (length (c_running sc)) v e]      (* not enabled in either machine *)
      end
  | CxE ev => [ev]
  end.

Fixpoint cx_trans (cfg : c_cfg) (sx sc : c_state) (xevs : list cx_event) : list c_event :=
  match xevs with
  | [] => []
  | xev :: r =>
      let evs := cx_trans1 cfg sx sc xev in
      evs ++ cx_trans cfg (fst (cx_step cfg sx xev)) (c_run cfg sc evs) r
  end.

(* the caller-visible part of an atomic history: everything but the job starts *)
Definition cx_is_start (xev : cx_event) : bool :=
  match xev with CxStartF _ | CxE (CStart _) => true | _ => false end.
Definition c_is_start (ev : c_event) : bool :=
  match ev with CStart _ => true | _ => false end.

(* a CFinish is identified by the future it completes, not by its rank *)
Definition c_vis_event (ev : c_event) : c_event :=
  match ev with CFinish k _ v e => CFinish k O v e | _ => ev end.

Fixpoint cx_vis_outputs (cfg : c_cfg) (s : c_state) (xevs : list cx_event) : list (c_event * c_out) :=
  match xevs with
  | [] => []
  | xev :: r =>
      let rest := cx_vis_outputs cfg (fst (cx_step cfg s xev)) r in
      match xev with
      | CxE ev => if c_is_start ev then rest else (c_vis_event ev, snd (cx_step cfg s xev)) :: rest
      | CxStartF _ => rest
      end
  end.

Fixpoint c_vis_outputs (cfg : c_cfg) (s : c_state) (evs : list c_event) : list (c_event * c_out) :=
  match evs with
  | [] => []
  | ev :: r =>
      let rest := c_vis_outputs cfg (fst (c_step cfg s ev)) r in
      if c_is_start ev then rest else (c_vis_event ev, snd (c_step cfg s ev)) :: rest
  end.

(* ---- the instrumented small-step machine *)
Record cf_state := {
  cf_s : cs_state;               (* memory, lock, threads, ghost atomic state, flags, log *)
  cf_xevs : list cx_event        (* ghost: refined atomic history, newest first *)
}.

(* first step of a call: as cs_tstart, but the worker's channel receive is the refined
   atomic event CxStartF f *)
Definition cf_tstart (cfg : c_cfg) (s : cs_state) (op : cs_op) : cs_tres * list cx_event :=
  match op, c_queue (cs_m s) with
  | CsFinish v e, f :: q =>
      let m := cs_m s in
      let '(g', o) := cx_start_id (cs_g s) f in
      ({| tr_m := cs_with m (c_futs m) (c_map m) q (c_running m ++ [f]); tr_lock := cs_lock s; tr_g := g';
          tr_emit := []; tr_pc := CsWLD f v e; tr_ev := CsEvYield 100 None;
          tr_lin := None; tr_ret := None;
          tr_chk := Some (match o with OStart f' => if Nat.eqb f' f then OFinish f else OBad | _ => OBad end) |},
       [CxStartF f])
  | _, _ => let r := cs_tstart cfg s op in (r, map CxE (tr_emit r))
  end.

Definition cf_step (cfg : c_cfg) (s : cf_state) (it : cs_item) : cf_state * cs_ev :=
  match it with
  | CsTick dt =>
      ({| cf_s := fst (cs_step CsFixed cfg (cf_s s) it);
          cf_xevs := if dt <? 0 then cf_xevs s else CxE (CAdvance dt) :: cf_xevs s |},
       snd (cs_step CsFixed cfg (cf_s s) it))
  | CsRun tid =>
      match nth_error (cs_thr (cf_s s)) tid with
      | None => (s, CsEvDone)
      | Some t =>
          if cs_blocked (cf_s s) t then (s, CsEvBlocked)
          else
            match ct_op t with
            | Some op =>
                let r := cs_tstep CsFixed cfg (cf_s s) tid t in
                ({| cf_s := fst (cs_go cfg (cf_s s) tid t op (ct_prog t) r);
                    cf_xevs := rev (map CxE (tr_emit r)) ++ cf_xevs s |},
                 snd (cs_go cfg (cf_s s) tid t op (ct_prog t) r))
            | None =>
                match ct_prog t with
                | [] => (s, CsEvDone)
                | op :: rest =>
                    let r := fst (cf_tstart cfg (cf_s s) op) in
                    ({| cf_s := fst (cs_go cfg (cf_s s) tid t op rest r);
                        cf_xevs := rev (snd (cf_tstart cfg (cf_s s) op)) ++ cf_xevs s |},
                     snd (cs_go cfg (cf_s s) tid t op rest r))
                end
            end
      end
  end.

Fixpoint cf_run (cfg : c_cfg) (s : cf_state) (sched : list cs_item) : cf_state :=
  match sched with
  | [] => s
  | it :: r => cf_run cfg (fst (cf_step cfg s it)) r
  end.

Definition cf_init_on (m0 : c_state) (progs : list (list cs_op)) : cf_state :=
  {| cf_s := cs_init_on m0 progs; cf_xevs := [] |}.
Definition cf_init (progs : list (list cs_op)) : cf_state := cf_init_on c_init progs.

(* the part of a state that is not ghost: memory, mutex, per thread (program, pc, call), the
   tick flag, and per completed call (thread, call, result) *)
Definition cs_real_thr (t : cs_thread) : list cs_op * cs_pc * option cs_op := (ct_prog t, ct_pc t, ct_op t).
Definition cs_real_log (e : nat * cs_op * cs_res * c_out) : nat * cs_op * cs_res :=
  match e with (tid, op, res, _) => (tid, op, res) end.
Definition cs_real (s : cs_state) :=
  (cs_m s, cs_lock s, map cs_real_thr (cs_thr s), cs_bad s, map cs_real_log (cs_log s)).
