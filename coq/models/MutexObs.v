(* MutexObs.v -- the state-word observers of loom.Mutex (loom/mutex.go: Count, IsLocked, IsWoken,
   IsStarving) as STEPPED operations: each performs exactly one atomic load of the state word (a
   verif yield precedes it: sites VerifSiteMutexCountLoad = 23, VerifSiteMutexStateLoad = 24) and
   returns a function of the loaded word.  The environment may rewrite the word before every load:
   [ws] is the list of words the mutex has at the successive loads of the call (the k-th load sees
   the k-th word, the last word repeats).

   [MxoTwoLoads] is the seeded shape "Count = waiters of one load + locked bit of a second load"
   (Count re-using IsLocked): every quiescent word gives the same answer, a hand-over between the
   two loads makes it report a total no word ever had.  Kept for the refutation and as the canary.

   Definitions only; proofs in proofs/MutexObsProofs.v. *)
From Got Require Import Base MutexWord.
Local Open Scope Z_scope.

Inductive mx_obs := MxoCount | MxoLocked | MxoWoken | MxoStarving.
Inductive mx_obs_variant := MxoOneLoad | MxoTwoLoads.

Definition mx_obs_site (o : mx_obs) : nat :=
  match o with MxoCount => 23%nat | _ => 24%nat end.

(* result of the call from the single loaded word (booleans as 0/1) *)
Definition mx_obs_ret (o : mx_obs) (w : Z) : Z :=
  match o with
  | MxoCount => mx_count MxFixed w
  | MxoLocked => Z.b2z (Z.land w 1 =? 1)        (* state&mutexLocked == mutexLocked *)
  | MxoWoken => Z.b2z (Z.land w 2 =? 2)
  | MxoStarving => Z.b2z (Z.land w 4 =? 4)
  end.

Definition mx_nth_word (ws : list Z) (k : nat) : Z := nth k ws (last ws 0).

(* (number of loads, yield sites in order, returned value) *)
Definition mx_obs_run (var : mx_obs_variant) (o : mx_obs) (ws : list Z) : nat * list nat * Z :=
  match var, o with
  | MxoTwoLoads, MxoCount =>
      (2%nat, [23%nat; 24%nat],
       Z.shiftr (mx_nth_word ws 0) 3 + mx_obs_ret MxoLocked (mx_nth_word ws 1))
  | _, _ => (1%nat, [mx_obs_site o], mx_obs_ret o (mx_nth_word ws 0))
  end.

(* what the property promises for the word [w] *)
Definition mx_obs_spec (o : mx_obs) (w : Z) : Z :=
  match o with
  | MxoCount => mx_waiters w + (if mx_locked w then 1 else 0)
  | MxoLocked => Z.b2z (mx_locked w)
  | MxoWoken => Z.b2z (mx_woken w)
  | MxoStarving => Z.b2z (mx_starving w)
  end.
