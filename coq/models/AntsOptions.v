(* AntsOptions.v -- the option paths of /repo/ants (pool_option.go, task_option.go) and a process
   with SEVERAL pools (pool.go NewPool), on top of the single-pool machine of models/Ants.v.

   1. createPoolOptions / WithSize / WithContextBuilder and createTaskOptions / WithTimeout /
      WithRetry / WithDiscardOnBusy / WithError transcribed as functions of the literal option
      list: [apo_create], [ato_create].  Option values range over all of Z (Go int / int64: no
      arithmetic is done on them, so no wrap-around is involved).
   2. The call sequence of one process, [ano_call_step]: where does a call take its starting
      values from?  AnoFresh = the code in /repo now: `var opts = poolOptions{size: 1, ...}` /
      `var opts = taskOptions{...}` is a fresh struct literal in every call.  AnoSharedDefault
      = a package-level default struct that the option functions mutate in place (kept as the
      refuted alternative): a call then starts from whatever the previous calls left there.
   3. The multi-pool machine [anm_step]: a process creates pools at any time (AnmNewPool with a
      literal option list), every pool is a single-pool machine [an_step] whose configuration
      is [anm_cfg] of ITS OWN option list, the pools share nothing but the clock (AnmAdvance
      advances all of them by the same dt; with maximal progress every pool must be quiet).
      A Send carries its literal task option list; the task's effective options are
      [an_opts_of (ato_create l)].
   Definitions only; proofs in proofs/AntsOptionsProofs.v. *)
From Got Require Import Base Ants.
Local Open Scope Z_scope.

(* ------------------------------------------------------------------ pool_option.go *)
(* WithSize(n) | WithContextBuilder(b): b = None is a nil builder, Some id a builder (identified by id) *)
Inductive apo_opt := ApoSize (n : Z) | ApoBuilder (b : option nat).

(* poolOptions; apo_builder = None is createPoolOptions' own builder (context.Background()) *)
Record apo_cfg := { apo_size : Z; apo_builder : option nat }.

Definition apo_default : apo_cfg := {| apo_size := 1; apo_builder := None |}.

(* opt(&opts) *)
Definition apo_apply (c : apo_cfg) (o : apo_opt) : apo_cfg :=
  match o with
  | ApoSize n => if 0 <? n then {| apo_size := n; apo_builder := apo_builder c |} else c
  | ApoBuilder (Some b) => {| apo_size := apo_size c; apo_builder := Some b |}
  | ApoBuilder None => c
  end.

(* createPoolOptions(optionList) *)
Definition apo_create (l : list apo_opt) : apo_cfg := fold_left apo_apply l apo_default.

(* ------------------------------------------------------------------ task_option.go *)
(* WithTimeout(ns) | WithRetry(count) | WithDiscardOnBusy(b) | WithError(f): cb = false is a nil func *)
Inductive ato_opt := AtoTimeout (t : Z) | AtoRetry (c : Z) | AtoDiscard (b : bool) | AtoError (cb : bool).

Record ato_cfg := { ato_timeout : Z; ato_retry : Z; ato_discard : bool; ato_onerr : bool }.

Definition ato_day : Z := 24 * 3600 * 1000000000.      (* timex.Day = 24 * time.Hour, in ns *)

Definition ato_default : ato_cfg :=
  {| ato_timeout := 365 * ato_day; ato_retry := 1; ato_discard := true; ato_onerr := false |}.

Definition ato_apply (c : ato_cfg) (o : ato_opt) : ato_cfg :=
  match o with
  | AtoTimeout t => if 0 <? t then {| ato_timeout := t; ato_retry := ato_retry c; ato_discard := ato_discard c; ato_onerr := ato_onerr c |} else c
  | AtoRetry n => if 0 <? n then {| ato_timeout := ato_timeout c; ato_retry := n; ato_discard := ato_discard c; ato_onerr := ato_onerr c |} else c
  | AtoDiscard b => {| ato_timeout := ato_timeout c; ato_retry := ato_retry c; ato_discard := b; ato_onerr := ato_onerr c |}
  | AtoError cb => {| ato_timeout := ato_timeout c; ato_retry := ato_retry c; ato_discard := ato_discard c; ato_onerr := cb |}
  end.

(* createTaskOptions(optionList) *)
Definition ato_create (l : list ato_opt) : ato_cfg := fold_left ato_apply l ato_default.

(* ------------------------------------------------------------------ the calls of one process *)
Inductive ano_alloc := AnoFresh | AnoSharedDefault.

Record ano_proc := {
  ano_pdef : apo_cfg;                  (* package-level default pool options (only used by AnoSharedDefault) *)
  ano_tdef : ato_cfg;                  (* package-level default task options (only used by AnoSharedDefault) *)
  ano_pools : list apo_cfg;            (* configuration each NewPool call obtained, in call order *)
  ano_tasks : list (nat * ato_cfg)     (* (pool, configuration) each Send call obtained, in call order *)
}.

Definition ano_proc0 : ano_proc :=
  {| ano_pdef := apo_default; ano_tdef := ato_default; ano_pools := []; ano_tasks := [] |}.

Inductive ano_call := AnoNewPool (l : list apo_opt) | AnoSend (p : nat) (l : list ato_opt).

Definition ano_call_step (m : ano_alloc) (s : ano_proc) (c : ano_call) : ano_proc :=
  match c with
  | AnoNewPool l =>
      let r := fold_left apo_apply l (match m with AnoFresh => apo_default | AnoSharedDefault => ano_pdef s end) in
      {| ano_pdef := match m with AnoFresh => ano_pdef s | AnoSharedDefault => r end;
         ano_tdef := ano_tdef s; ano_pools := ano_pools s ++ [r]; ano_tasks := ano_tasks s |}
  | AnoSend p l =>
      let r := fold_left ato_apply l (match m with AnoFresh => ato_default | AnoSharedDefault => ano_tdef s end) in
      {| ano_pdef := ano_pdef s;
         ano_tdef := match m with AnoFresh => ano_tdef s | AnoSharedDefault => r end;
         ano_pools := ano_pools s; ano_tasks := ano_tasks s ++ [(p, r)] |}
  end.

Definition ano_calls (m : ano_alloc) (cs : list ano_call) : ano_proc := fold_left (ano_call_step m) cs ano_proc0.

(* what each call SHOULD obtain: a function of its own option list *)
Fixpoint ano_want_pools (cs : list ano_call) : list apo_cfg :=
  match cs with
  | [] => []
  | AnoNewPool l :: r => apo_create l :: ano_want_pools r
  | AnoSend _ _ :: r => ano_want_pools r
  end.
Fixpoint ano_want_tasks (cs : list ano_call) : list (nat * ato_cfg) :=
  match cs with
  | [] => []
  | AnoNewPool _ :: r => ano_want_tasks r
  | AnoSend p l :: r => (p, ato_create l) :: ano_want_tasks r
  end.

(* ------------------------------------------------------------------ several pools in one process *)
(* the single-pool machine's view of the effective options *)
Definition an_opts_of (c : ato_cfg) (behs : list an_beh) : an_opts :=
  {| ao_T := ato_timeout c; ao_R := Z.to_nat (ato_retry c); ao_discard := ato_discard c; ao_onerr := ato_onerr c;
     ao_behs := behs |}.

(* NewPool: taskChan / innerCallbackChan of capacity size, size dispatchers, size inner workers *)
Definition anm_cfg (urg : bool) (l : list apo_opt) : an_cfg :=
  {| an_N := Z.to_nat (apo_size (apo_create l)); an_pub := AnAttemptChannel; an_urg := urg |}.

Record anm_pool := { anm_popts : list apo_opt; anm_st : an_state }.

Record anm_state := { anm_now : Z; anm_pools : list anm_pool }.

Definition anm_init : anm_state := {| anm_now := 0; anm_pools := [] |}.

(* a pool created at [now]: nothing has happened in it yet *)
Definition an_at (now : Z) : an_state :=
  {| an_now := now; an_next := 0; an_tk := fun _ => an_task0; an_tchan := []; an_sendq := [];
     an_active := []; an_ichan := []; an_workers := []; an_maxrun := 0; an_pc := None |}.

Inductive anm_event :=
| AnmNewPool (l : list apo_opt)
| AnmSend (p : nat) (l : list ato_opt) (behs : list an_beh)    (* pool p: Send(handler, l...) *)
| AnmOn (p : nat) (e : an_event)                                (* any other step of pool p (not a Send, not the clock) *)
| AnmAdvance (dt : Z).

Definition anm_local (e : an_event) : bool :=
  match e with AnSend _ | AnAdvance _ => false | _ => true end.

Fixpoint anm_set (l : list anm_pool) (p : nat) (x : anm_pool) : list anm_pool :=
  match l, p with
  | [], _ => []
  | _ :: r, O => x :: r
  | y :: r, S q => y :: anm_set r q x
  end.

Fixpoint anm_adv (urg : bool) (dt : Z) (l : list anm_pool) : option (list anm_pool) :=
  match l with
  | [] => Some []
  | pl :: r =>
      match an_step (anm_cfg urg (anm_popts pl)) (anm_st pl) (AnAdvance dt), anm_adv urg dt r with
      | Some st, Some r' => Some ({| anm_popts := anm_popts pl; anm_st := st |} :: r')
      | _, _ => None
      end
  end.

Definition anm_on (urg : bool) (s : anm_state) (p : nat) (e : an_event) : option anm_state :=
  match nth_error (anm_pools s) p with
  | Some pl =>
      match an_step (anm_cfg urg (anm_popts pl)) (anm_st pl) e with
      | Some st => Some {| anm_now := anm_now s;
                           anm_pools := anm_set (anm_pools s) p {| anm_popts := anm_popts pl; anm_st := st |} |}
      | None => None
      end
  | None => None
  end.

Definition anm_step (urg : bool) (s : anm_state) (e : anm_event) : option anm_state :=
  match e with
  | AnmNewPool l =>
      Some {| anm_now := anm_now s; anm_pools := anm_pools s ++ [{| anm_popts := l; anm_st := an_at (anm_now s) |}] |}
  | AnmSend p l behs => anm_on urg s p (AnSend (an_opts_of (ato_create l) behs))
  | AnmOn p e => if anm_local e then anm_on urg s p e else None
  | AnmAdvance dt =>
      if 0 <=? dt then
        match anm_adv urg dt (anm_pools s) with
        | Some ps => Some {| anm_now := anm_now s + dt; anm_pools := ps |}
        | None => None
        end
      else None
  end.

Fixpoint anm_run (urg : bool) (s : anm_state) (evs : list anm_event) : option anm_state :=
  match evs with
  | [] => Some s
  | e :: r => match anm_step urg s e with Some s' => anm_run urg s' r | None => None end
  end.

(* the Send option lists addressed to pool p, in order *)
Fixpoint anm_sends_to (p : nat) (evs : list anm_event) : list (list ato_opt * list an_beh) :=
  match evs with
  | [] => []
  | AnmSend q l behs :: r => if Nat.eqb q p then (l, behs) :: anm_sends_to p r else anm_sends_to p r
  | _ :: r => anm_sends_to p r
  end.
