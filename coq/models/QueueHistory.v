(* QueueHistory.v -- the Herlihy-Wing history of a run of the queue model (models/Queue.v) and
   the sequential FIFO specification, in the vocabulary of lib/Linearizability.v.
   Definitions only; proofs are in proofs/QueueLinProofs.v. *)
From Got Require Import Base Queue Linearizability.
Local Open Scope nat_scope.

(* the invocation / response event (if any) of one step of thread j *)
Definition q_hist_ev (j : nat) (e : q_event) : hw_history q_op q_res :=
  match e with
  | QEInv o => [HInv j o]                          (* call of Push v / Pop *)
  | QERetPush => [HRes j QRPush]                   (* Push returns *)
  | QELinRetPop v => [HRes j (QRPop (Some v))]     (* Pop returns v *)
  | QERetEmpty => [HRes j (QRPop None)]            (* Pop returns nil *)
  | _ => []                                        (* internal steps are not in the history *)
  end.

(* history of a trace (as produced by q_run): its invocation and response events, in order *)
Definition q_history (tr : list (nat * q_event)) : hw_history q_op q_res :=
  flat_map (fun p => q_hist_ev (fst p) (snd p)) tr.

(* sequential FIFO queue initially holding [pre]: the state is the list of queued values,
   Push v appends v and returns nothing, Pop removes and returns the head, and returns nil
   (None) exactly when the queue is empty *)
Definition q_fifo_step (s : list Z) (o : q_op) : list Z * q_res :=
  match o with
  | QPush v => (s ++ [v], QRPush)
  | QPop => match s with
            | [] => ([], QRPop None)
            | x :: r => (r, QRPop (Some x))
            end
  end.

Definition q_fifo_spec (pre : list Z) : hw_spec q_op q_res :=
  {| hw_state := list Z; hw_init := pre; hw_step := q_fifo_step |}.

(* values pushed / values popped by a history, in the order of the history *)
Definition q_seq_pushes (S : hw_history q_op q_res) : list Z :=
  flat_map (fun e => match e with HInv _ (QPush v) => [v] | _ => [] end) S.
Definition q_seq_pops (S : hw_history q_op q_res) : list Z :=
  flat_map (fun e => match e with HRes _ (QRPop (Some v)) => [v] | _ => [] end) S.
