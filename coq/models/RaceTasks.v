(* RaceTasks.v -- the result publication of the ants task (ants/task_callback_ants.go) and of
   the taskx callback task (taskx/task_callback.go) as labelled protocol machines: threads,
   their steps, and the memory events (lib/Race.v) of each step, for ANY number of attempts,
   late handlers and Get2 callers.  (models/Ants.v and TaskQueue.v are timed event / queue
   machines, not shared-access machines, so these are protocol-level readings of the source,
   tied to it by the access-table rows cited at the end.)

   Plain locations   rt_res, rt_err   the fields result / err of the task
                     rt_hnd           taskx: isHandled
   Sync objects      rt_tch           the channel message that carries the task
                                      (pool.taskChan / Queue.C): send = RRel, receive = RAcq
                     rt_wg            the task's WaitGroup: Done = RRel, return of Wait = RAcq
                     rt_ic i, rt_dc i ants, attempt i: the innerCallbackChan message with the
                                      attempt's closure / the attempt's doneChan (buffered, 1)

   ANTS.  thread 0 = the goroutine calling pool.Send: newTaskCallback allocates the task (result,
   err zeroed: an allocation counts as a write) and sends it on taskChan.
   thread 1 = the dispatcher goroutine (goDispatchTask -> run): receives the task; for attempt
   i = 0 .. retry-1: sendInnerCallback (release on rt_ic i); the select of runTaskOnce takes
   doneChan (acquire on rt_dc i: only if the handler's send has happened and the schedule
   chooses it) or the deadline branch; BOTH branches write my.result, my.err; "if my.err == nil"
   reads err; after the loop onError(my.err) reads err when the retries are exhausted; the
   deferred wg.Done releases rt_wg.
   thread 2+i = the inner worker that runs attempt i's closure: receives it (acquire on rt_ic i),
   runs the handler (touches no field of the task), sends attemptResult on doneChan (release on
   rt_dc i) - at ANY later time, also after the dispatcher has moved on or the task is complete.
   thread 2+retry+j = a caller of Get2: wg.Wait returns only after Done: acquire on rt_wg, then
   plain reads of result and err.   [peek]: Task.Err() called without waiting (no acquire, enabled
   at any time): used in the refutation only.
   Schedule item (tid, b1, b2): b1 = the select takes doneChan when possible; b2 = the attempt
   ended with err == nil.

   TASKX.  thread 0 = the producer calling SendCallback: allocates the task (result, err,
   isHandled) and sends it on Queue.C; thread 1 = the single consumer: receives it, then Do:
   result, err written, isHandled read and written, wg.Done; then "return task.err" reads err;
   thread 2+j = a caller of Get2/Get1 after wg.Wait.  [twice]: the consumer calls Do a second time
   (Do is exported; its comment allows repeated calls): refutation only.

   Definitions only; proofs in proofs/RaceTasksProofs.v. *)
From Coq Require Import String.
From Got Require Import Base Race RaceHB RaceInst.
Local Open Scope nat_scope.

Definition rt_res : nat := 1.
Definition rt_err : nat := 2.
Definition rt_hnd : nat := 3.
Definition rt_tch : nat := 0.
Definition rt_wg : nat := 1.
Definition rt_ic (i : nat) : nat := 2 + 2 * i.
Definition rt_dc (i : nat) : nat := 3 + 2 * i.

(* ------------------------------------------------------------------ ants *)
Inductive rt_dpc :=
| RtDIdle                 (* task not received yet *)
| RtDSend (i : nat)       (* attempt i: before sendInnerCallback *)
| RtDSel (i : nat)        (* attempt i: in the select of runTaskOnce *)
| RtDFin (exhausted : bool)   (* after the loop: onError (if exhausted), deferred wg.Done *)
| RtDDone.

Record rt_ast := {
  ra_sent : bool;            (* pool.Send has sent the task *)
  ra_d : rt_dpc;
  ra_n : nat;                (* attempts whose closure has been sent *)
  ra_h : list nat;           (* inner worker i: 0 = closure not received, 1 = handler running, 2 = result sent *)
  ra_r : list bool           (* Get2 callers: returned? *)
}.

Definition rt_ainit (retry readers : nat) : rt_ast :=
  {| ra_sent := false; ra_d := RtDIdle; ra_n := 0; ra_h := repeat 0 retry; ra_r := repeat false readers |}.

Definition rt_set {A} (l : list A) (i : nat) (x : A) : list A := firstn i l ++ x :: skipn (S i) l.

Definition rt_end (exhausted : bool) : list rc_ev :=
  (if exhausted then [RRead rt_err] else []) ++ [RRel rt_wg].

Definition rt_get2 : list rc_ev := [RAcq rt_wg; RRead rt_res; RRead rt_err].

(* one step of thread tid: the events and the new state *)
Definition rt_astep (peek : bool) (retry : nat) (s : rt_ast) (tid : nat) (b1 b2 : bool) : list rc_ev * rt_ast :=
  let nr := length (ra_r s) in
  match tid with
  | 0 =>
      if ra_sent s then ([], s)
      else ([RWrite rt_res; RWrite rt_err; RRel rt_tch],
            {| ra_sent := true; ra_d := ra_d s; ra_n := ra_n s; ra_h := ra_h s; ra_r := ra_r s |})
  | 1 =>
      let upd d n := {| ra_sent := ra_sent s; ra_d := d; ra_n := n; ra_h := ra_h s; ra_r := ra_r s |} in
      match ra_d s with
      | RtDIdle =>
          if ra_sent s then ([RAcq rt_tch], upd (if 0 <? retry then RtDSend 0 else RtDFin true) (ra_n s))
          else ([], s)
      | RtDSend i => ([RRel (rt_ic i)], upd (RtDSel i) (S i))
      | RtDSel i =>
          let got := b1 && (nth i (ra_h s) 0 =? 2) in
          ((if got then [RAcq (rt_dc i)] else []) ++ [RWrite rt_res; RWrite rt_err; RRead rt_err],
           upd (if b2 then RtDFin false else if S i <? retry then RtDSend (S i) else RtDFin true) (ra_n s))
      | RtDFin ex => (rt_end ex, upd RtDDone (ra_n s))
      | RtDDone => ([], s)
      end
  | S (S k) =>
      if k <? retry then
        (* inner worker of attempt k *)
        match nth k (ra_h s) 2 with
        | 0 => if k <? ra_n s then
                 ([RAcq (rt_ic k)],
                  {| ra_sent := ra_sent s; ra_d := ra_d s; ra_n := ra_n s; ra_h := rt_set (ra_h s) k 1; ra_r := ra_r s |})
               else ([], s)
        | 1 => ([RRel (rt_dc k)],
                {| ra_sent := ra_sent s; ra_d := ra_d s; ra_n := ra_n s; ra_h := rt_set (ra_h s) k 2; ra_r := ra_r s |})
        | _ => ([], s)
        end
      else
        let j := k - retry in
        match nth_error (ra_r s) j with
        | Some false =>
            if peek then
              ([RRead rt_err], s)                       (* Task.Err() without waiting *)
            else
              match ra_d s with
              | RtDDone => (rt_get2,
                            {| ra_sent := ra_sent s; ra_d := ra_d s; ra_n := ra_n s; ra_h := ra_h s;
                               ra_r := rt_set (ra_r s) j true |})
              | _ => ([], s)                             (* blocked in wg.Wait *)
              end
        | _ => ([], s)
        end
  end.

Definition rt_item := (nat * bool * bool)%type.

Fixpoint rt_atrace_from (peek : bool) (retry : nat) (s : rt_ast) (sched : list rt_item) : hb_trace :=
  match sched with
  | [] => []
  | (tid, b1, b2) :: r =>
      map (pair tid) (fst (rt_astep peek retry s tid b1 b2))
      ++ rt_atrace_from peek retry (snd (rt_astep peek retry s tid b1 b2)) r
  end.

Definition rt_atrace (retry readers : nat) (sched : list rt_item) : hb_trace :=
  rt_atrace_from false retry (rt_ainit retry readers) sched.
Definition rt_atrace_peek (retry readers : nat) (sched : list rt_item) : hb_trace :=
  rt_atrace_from true retry (rt_ainit retry readers) sched.
Definition rt_anthr (retry readers : nat) : nat := 2 + retry + readers.

(* ------------------------------------------------------------------ taskx *)
Record rt_xst := {
  rx_sent : bool;
  rx_c : nat;                (* consumer: 0 not received, 1 received, 2 Do has run wg.Done, 3 Do returned, 4 second Do *)
  rx_r : list bool
}.

Definition rt_xinit (readers : nat) : rt_xst := {| rx_sent := false; rx_c := 0; rx_r := repeat false readers |}.

Definition rt_xstep (twice : bool) (s : rt_xst) (tid : nat) : list rc_ev * rt_xst :=
  match tid with
  | 0 =>
      if rx_sent s then ([], s)
      else ([RWrite rt_res; RWrite rt_err; RWrite rt_hnd; RRel rt_tch],
            {| rx_sent := true; rx_c := rx_c s; rx_r := rx_r s |})
  | 1 =>
      match rx_c s with
      | 0 => if rx_sent s then ([RAcq rt_tch], {| rx_sent := true; rx_c := 1; rx_r := rx_r s |}) else ([], s)
      | 1 => ([RWrite rt_res; RWrite rt_err; RRead rt_hnd; RWrite rt_hnd; RRel rt_wg],
              {| rx_sent := rx_sent s; rx_c := 2; rx_r := rx_r s |})
      | 2 => ([RRead rt_err], {| rx_sent := rx_sent s; rx_c := 3; rx_r := rx_r s |})
      | 3 => if twice then
               ([RWrite rt_res; RWrite rt_err; RRead rt_hnd; RRead rt_err],
                {| rx_sent := rx_sent s; rx_c := 4; rx_r := rx_r s |})
             else ([], s)
      | _ => ([], s)
      end
  | S (S j) =>
      match nth_error (rx_r s) j with
      | Some false =>
          if 2 <=? rx_c s then
            (rt_get2, {| rx_sent := rx_sent s; rx_c := rx_c s; rx_r := rt_set (rx_r s) j true |})
          else ([], s)
      | _ => ([], s)
      end
  end.

Fixpoint rt_xtrace_from (twice : bool) (s : rt_xst) (sched : list nat) : hb_trace :=
  match sched with
  | [] => []
  | tid :: r => map (pair tid) (fst (rt_xstep twice s tid)) ++ rt_xtrace_from twice (snd (rt_xstep twice s tid)) r
  end.

Definition rt_xtrace (readers : nat) (sched : list nat) : hb_trace :=
  rt_xtrace_from false (rt_xinit readers) sched.
Definition rt_xtrace_twice (readers : nat) (sched : list nat) : hb_trace :=
  rt_xtrace_from true (rt_xinit readers) sched.
Definition rt_xnthr (readers : nat) : nat := 2 + readers.

(* ------------------------------------------------------------------ the access-table rows *)
Local Open Scope string_scope.
Definition rt_ants_rows : list string := [
  "ants/pool_impl.go:poolImpl.send|if( len:taskChan cap:taskChan ){ if( ){ C:onError } C:newTaskDiscard ret } C:newTaskCallback select{ case{ send:taskChan } case{ recv:closeChan } } ret";
  "ants/pool_impl.go:poolImpl.goDispatchTask|for{ select{ case{ recv:taskChan C:run } case{ recv:closeChan ret } } }";
  "ants/pool_impl.go:poolImpl.sendInnerCallback|select{ case{ send:innerCallbackChan } case{ recv:closeChan } }";
  "ants/pool_impl.go:poolImpl.goDispatchInnerCallback|for{ select{ case{ recv:innerCallbackChan C:callback } case{ recv:closeChan ret } } }";
  "ants/task_callback_ants.go:newTaskCallback|S:wg.Add ret";
  "ants/task_callback_ants.go:taskCallback.run|defer{ S:wg.Done } for{ C:runTaskOnce if( R:err ){ ret } } if( ){ R:err C:onError }";
  "ants/task_callback_ants.go:taskCallback.runTaskOnce|defer{ C:cancel } func{ C:handler select{ case{ recv:Done send:doneChan } case{ default send:doneChan } } } C:sendInnerCallback select{ case{ recv:doneChan R:result R:err W:result W:err } case{ recv:Done W:result W:err } }";
  "ants/task_callback_ants.go:taskCallback.Get2|S:wg.Wait R:result R:err ret";
  "ants/task_callback_ants.go:taskCallback.Err|R:err ret"
].
Definition rt_taskx_rows : list string := [
  "taskx/queue.go:Queue.SendCallback|if( ){ ret } new:taskCallback S:wg.Add select{ case{ recv:closeChan } case{ send:C } } ret";
  "taskx/task_callback.go:taskCallback.Do|C:handler W:result W:err if( R:isHandled ){ W:isHandled S:wg.Done } R:err ret";
  "taskx/task_callback.go:taskCallback.Get2|S:wg.Wait R:result R:err ret";
  "taskx/task_callback.go:taskCallback.Get1|S:wg.Wait R:result ret"
].
Definition rt_rows_in_table : bool :=
  forallb (fun r => existsb (String.eqb r) ri_access_table) (rt_ants_rows ++ rt_taskx_rows).
