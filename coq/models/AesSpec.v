(* AesSpec.v -- textbook definitions (NIST SP 800-38A, RFC 5652 6.3) against which the
   model of aesx is proved: CBC and CFB-128 as recurrences over the list of blocks, and
   PKCS#7 padding. Written independently of AesModes.v (indexed, relational), for an
   arbitrary block function E. Definitions only. *)
From Got Require Import Base Aes AesModes.
Local Open Scope nat_scope.

(* all values are bytes; a block is 16 bytes *)
Definition aess_bytes (l : list N) : Prop := Forall (fun x => (x < 256)%N) l.
Definition aess_block (b : list N) : Prop := length b = 16 /\ aess_bytes b.

(* PKCS#7 to a block size of 16: 1..16 bytes, each equal to their number *)
Definition aess_pkcs7 (p : list N) : list N :=
  let n := 16 - length p mod 16 in p ++ repeat (N.of_nat n) n.

(* every block has exactly 16 bytes *)
Definition aess_full_blocks (ps : list (list N)) : Prop :=
  Forall (fun b => length b = 16) ps.

(* CFB-128 segmentation of a byte string: 16-byte segments, the last one 1..16 bytes *)
Definition aess_segments (ps : list (list N)) : Prop :=
  forall i, i < length ps ->
    if S i <? length ps then length (nth i ps []) = 16
    else 1 <= length (nth i ps []) <= 16.

(* C_0 = IV ; C_i = E (P_i xor C_{i-1}) *)
Definition aess_cbc (E : list N -> list N) (iv : list N) (ps cs : list (list N)) : Prop :=
  length cs = length ps /\
  forall i, i < length ps ->
    nth i cs [] = E (aes_xor_bytes (nth i ps []) (nth i (iv :: cs) [])).

(* C_0 = IV ; C_i = P_i xor MSB_{|P_i|} (E C_{i-1}) *)
Definition aess_cfb (E : list N -> list N) (iv : list N) (ps cs : list (list N)) : Prop :=
  length cs = length ps /\
  forall i, i < length ps ->
    nth i cs [] = aes_xor_bytes (nth i ps []) (E (nth i (iv :: cs) [])).

(* FIPS-197 5.1.1: the S-box is the affine transformation (5.1) of the multiplicative
   inverse in GF(2^8) (0 mapped to 0); b'_i = b_i + b_(i+4) + b_(i+5) + b_(i+6) + b_(i+7) + c_i,
   c = 0x63, indices mod 8 *)
Fixpoint aess_gpow (n : nat) (x : N) : N :=
  match n with
  | O => 1%N
  | S n' => aes_gmul x (aess_gpow n' x)
  end.
Definition aess_ginv (x : N) : N := aess_gpow 254 x.
Definition aess_affine_bit (b i : N) : bool :=
  xorb (xorb (xorb (xorb (xorb (N.testbit b i) (N.testbit b ((i + 4) mod 8)%N))
                         (N.testbit b ((i + 5) mod 8)%N))
                   (N.testbit b ((i + 6) mod 8)%N))
             (N.testbit b ((i + 7) mod 8)%N))
       (N.testbit 99%N i).

(* documented meaning of the options: the last mode option wins (default CBC); the last
   non-empty IV wins (default 00 01 .. 0f) *)
Definition aess_is_mode (o : aesm_option) : bool :=
  match o with AesmWithCBC | AesmWithCFB => true | AesmWithIV _ => false end.
Definition aess_is_iv (o : aesm_option) : bool :=
  match o with AesmWithIV (_ :: _) => true | _ => false end.
Definition aess_selected_mode (opts : list aesm_option) : aesm_mode :=
  match find aess_is_mode (rev opts) with
  | Some AesmWithCFB => AesmCFB
  | _ => AesmCBC
  end.
Definition aess_selected_iv (opts : list aesm_option) : list N :=
  match find aess_is_iv (rev opts) with
  | Some (AesmWithIV iv) => iv
  | _ => [0; 1; 2; 3; 4; 5; 6; 7; 8; 9; 10; 11; 12; 13; 14; 15]%N
  end.
