(* RaceInst.v -- the concrete publication patterns of lixianmin/got as instances of the
   protocol of lib/Race.v, and the access table they were labelled from.

   ri_access_table is the table produced by harness/cmd/accesses from the Go source (one
   row per function: plain reads R:/writes W: of shared fields, atomic calls A:, mutex /
   WaitGroup calls S:, channel operations, calls C: of helpers, go/defer, returns, with the
   enclosing control structure). The C18 check regenerates the table from /repo on every
   run and compares it with this list: the labels the instances below rely on are thereby
   re-derived from the source each time. Each instance names the rows it was read off
   (ri_*_rows) and Coq checks that those rows are in the table. *)
From Coq Require Import String.
From Got Require Import Base Race.
Local Open Scope string_scope.

Definition ri_access_table : list string := [
  "ants/pool_impl.go:poolImpl.Send|ret";
  "ants/pool_impl.go:poolImpl.send|if( len:taskChan cap:taskChan ){ if( ){ C:onError } C:newTaskDiscard ret } C:newTaskCallback select{ case{ send:taskChan } case{ recv:closeChan } } ret";
  "ants/pool_impl.go:poolImpl.goDispatchInnerCallback|for{ select{ case{ recv:innerCallbackChan C:callback } case{ recv:closeChan ret } } }";
  "ants/pool_impl.go:poolImpl.goDispatchTask|for{ select{ case{ recv:taskChan C:run } case{ recv:closeChan ret } } }";
  "ants/pool_impl.go:poolImpl.sendInnerCallback|select{ case{ send:innerCallbackChan } case{ recv:closeChan } }";
  "ants/task_callback_ants.go:newTaskCallback|S:wg.Add ret";
  "ants/task_callback_ants.go:taskCallback.Err|R:err ret";
  "ants/task_callback_ants.go:taskCallback.Get1|C:Get2 ret";
  "ants/task_callback_ants.go:taskCallback.Get2|S:wg.Wait R:result R:err ret";
  "ants/task_callback_ants.go:taskCallback.runTaskOnce|defer{ C:cancel } func{ C:handler select{ case{ recv:Done send:doneChan } case{ default send:doneChan } } } C:sendInnerCallback select{ case{ recv:doneChan R:result R:err W:result W:err } case{ recv:Done W:result W:err } }";
  "ants/task_callback_ants.go:taskCallback.run|defer{ S:wg.Done } for{ C:runTaskOnce if( R:err ){ ret } } if( ){ R:err C:onError }";
  "cachex/cache_impl.go:cacheImpl.Get1|C:Get2 ret";
  "cachex/cache_impl.go:cacheImpl.Get2|R:futures S:futures.Lock R:d C:getFutureStatus if( ){ C:fetchIfFutureStatusGood } S:futures.Unlock switch{ case{ C:Get2 ret } case{ C:Get2 ret } } ret";
  "cachex/cache_impl.go:cacheImpl.Load|R:futures S:futures.Lock R:d C:getFutureStatus if( ){ C:newFuture W:d[] } if( ){ C:fetchIfFutureStatusGood } S:futures.Unlock if( ){ C:sendJob } switch{ case{ ret } case{ ret } case{ ret } } ret";
  "cachex/cache_impl.go:cacheImpl.Set|R:futures S:futures.Lock C:newFuture C:setValue W:d[] S:futures.Unlock";
  "cachex/cache_impl.go:cacheImpl.fetchIfFutureStatusGood|C:getPredecessor C:getFutureStatus if( ){ ret } ret";
  "cachex/cache_impl.go:cacheImpl.getFutureStatus|if( ){ C:getUpdateTime if( ){ ret } if( R:err ){ } if( ){ ret } else{ if( ){ ret } else{ ret } } } ret";
  "cachex/cache_impl.go:cacheImpl.removeRotted|for{ R:futures S:futures.Lock for{ R:d C:getFutureStatus if( ){ R:d } } S:futures.Unlock }";
  "cachex/cache_impl.go:cacheImpl.runQueuedJobs|for{ select{ case{ recv:jobChan C:loader C:setValue } case{ default ret } } }";
  "cachex/cache_impl.go:cacheImpl.sendJob|select{ case{ send:jobChan } case{ recv:closeChan C:loader C:setValue ret } } select{ case{ recv:closeChan } case{ default } }";
  "cachex/cache_impl.go:cacheImpl.startJobGoroutines|R:jobChan R:closeChan for{ go{ func{ for{ select{ case{ recv:jobChan C:loader C:setValue } case{ recv:C C:removeRotted } case{ recv:closeChan ret } } } } } }";
  "cachex/future.go:Future.Get1|S:wg.Wait R:value ret";
  "cachex/future.go:Future.Get2|S:wg.Wait R:value R:err ret";
  "cachex/future.go:Future.getPredecessor|A:LoadPointer:predecessor ret";
  "cachex/future.go:Future.getUpdateTime|A:LoadPointer:updateTime if( ){ ret } ret";
  "cachex/future.go:Future.setValue|W:value W:err A:StorePointer:updateTime A:StorePointer:predecessor S:wg.Done";
  "cachex/future.go:newFuture|A:StorePointer:updateTime A:StorePointer:predecessor S:wg.Add ret";
  "loom/atomic.go:AddIf64|if( ){ ret } for{ A:LoadInt64:addr if( C:predicate ){ ret } if( A:CompareAndSwapInt64:addr ){ ret } }";
  "loom/flag.go:Flag.AddFlag|for{ A:LoadInt64:addr if( A:CompareAndSwapInt64:addr ){ } }";
  "loom/flag.go:Flag.HasFlag|A:LoadInt64:addr ret";
  "loom/flag.go:Flag.RemoveFlag|for{ A:LoadInt64:addr if( A:CompareAndSwapInt64:addr ){ } }";
  "loom/mutex.go:Mutex.Count|A:LoadInt32:Mutex ret";
  "loom/mutex.go:Mutex.IsLocked|A:LoadInt32:Mutex ret";
  "loom/mutex.go:Mutex.IsStarving|A:LoadInt32:Mutex ret";
  "loom/mutex.go:Mutex.IsWoken|A:LoadInt32:Mutex ret";
  "loom/mutex.go:Mutex.TryLock|if( A:CompareAndSwapInt32:Mutex ){ ret } A:LoadInt32:Mutex if( ){ ret } A:CompareAndSwapInt32:Mutex ret";
  "loom/mutex.go:Mutex.WithLock|if( ){ S:m.Lock defer{ S:m.Unlock } }";
  "loom/queue.go:NewQueue|ret";
  "loom/queue.go:Queue.Pop|for{ C:queueLoad C:queueLoad C:queueLoad if( C:queueLoad ){ if( ){ if( ){ ret } C:queueCas } else{ R:value if( C:queueCas ){ ret } } } }";
  "loom/queue.go:Queue.Push|for{ C:queueLoad C:queueLoad if( C:queueLoad ){ if( ){ if( C:queueCas ){ C:queueCas ret } } else{ C:queueCas } } }";
  "loom/queue.go:queueCas|A:CompareAndSwapPointer:p ret";
  "loom/queue.go:queueLoad|A:LoadPointer:p ret";
  "loom/wait_close.go:WaitClose.Close|if( A:LoadInt32:state ){ S:mutex.Lock defer{ func{ S:mutex.Unlock } } if( R:state ){ if( R:state ){ close:closeChan } else{ W:closeChan } defer{ A:StoreInt32:state } if( ){ C:callback ret } } } ret";
  "loom/wait_close.go:WaitClose.C|if( A:LoadInt32:state ){ C:checkInitSlow } R:closeChan ret";
  "loom/wait_close.go:WaitClose.IsClosed|A:LoadInt32:state ret";
  "loom/wait_close.go:WaitClose.WaitUtil|if( A:LoadInt32:state ){ C:checkInitSlow } select{ case{ recv:closeChan ret } case{ default } } select{ case{ recv:closeChan ret } case{ recv:C select{ case{ recv:closeChan ret } case{ default ret } } } }";
  "loom/wait_close.go:WaitClose.assetCloseChanNotNil|if( R:closeChan ){ R:state A:LoadInt32:state }";
  "loom/wait_close.go:WaitClose.checkInitSlow|S:mutex.Lock if( R:state ){ W:closeChan A:StoreInt32:state } S:mutex.Unlock";
  "loom/wait_close.go:init|close:globalClosedChan";
  "loom/wheel.go:NewWheel|for{ W:channels[] } W:channels ret";
  "loom/wheel.go:Wheel.AfterFunc|C:fetchWheelData go{ func{ select{ case{ recv:c C:callback } } } }";
  "loom/wheel.go:Wheel.Close|R:wc ret";
  "loom/wheel.go:Wheel.NewTimer|C:Reset ret";
  "loom/wheel.go:Wheel.fetchWheelData|for{ A:LoadInt64:position A:LoadPointer:channels if( A:LoadInt64:position ){ ret } }";
  "loom/wheel.go:Wheel.goLoop|R:wc for{ select{ case{ recv:C C:onTicker } case{ recv:closeChan ret } } }";
  "loom/wheel.go:Wheel.onTicker|A:LoadInt64:position A:LoadPointer:channels A:StoreInt64:position A:StorePointer:channels close:c";
  "loom/wheel_timer.go:WheelTimer.Reset|R:interval if( R:wheel ){ } R:wheel C:fetchWheelData W:C";
  "taskx/queue.go:NewQueue|R:closeChan ret";
  "taskx/queue.go:Queue.SendCallback|if( ){ ret } new:taskCallback S:wg.Add select{ case{ recv:closeChan } case{ send:C } } ret";
  "taskx/queue.go:Queue.SendDelayed|if( ){ ret } C:newTaskDelayed C:PushTask";
  "taskx/queue.go:Queue.SendTask|if( ){ select{ case{ recv:closeChan } case{ send:C } } } ret";
  "taskx/queue.go:Queue.checkQueueFull|len:C if( cap:C ){ }";
  "taskx/task_callback.go:taskCallback.Do|C:handler W:result W:err if( R:isHandled ){ W:isHandled S:wg.Done } R:err ret";
  "taskx/task_callback.go:taskCallback.Get1|S:wg.Wait R:result ret";
  "taskx/task_callback.go:taskCallback.Get2|S:wg.Wait R:result R:err ret"
].

Definition ri_row (prefix : string) : option string :=
  find (fun r => String.prefix (prefix ++ "|") r) ri_access_table.

(* NOTE (cachex Future, ants task, taskx callback): the three instances below are kept as the
   protocol-level reading; they are now BACKED by stronger theorems: for cachex every run of the
   labelled small-step model CacheSteps.v (models/RaceCache.v, props/C18.v: c18_cache_model_race_free,
   with the shard map, the status check under the lock, the job channel and the sweep); for the two
   task types labelled protocol machines with any number of attempts, late handlers and Get2 callers
   (models/RaceTasks.v: c18_ants_task_protocol_race_free, c18_taskx_task_protocol_race_free). *)
(* cachex.Future: setValue writes value (loc 1), err (loc 2), then atomic StorePointer updateTime (obj 10), StorePointer predecessor (obj 11), wg.Done (obj 12). Readers: Get2/Get1 after wg.Wait; getFutureStatus reads err only after getUpdateTime observed a non-zero time (the early return when IsZero). *)
Definition ri_future : rc_pub := {| pb_ws := [1; 2]%nat; pb_os := [10; 11; 12]%nat; pb_readers := [(12, [1; 2]); (12, [1]); (10, [2]); (10, [2])]%nat |}.
Definition ri_future_rows : list string := [
  "cachex/future.go:Future.setValue|W:value W:err A:StorePointer:updateTime A:StorePointer:predecessor S:wg.Done";
  "cachex/future.go:Future.Get2|S:wg.Wait R:value R:err ret";
  "cachex/future.go:Future.Get1|S:wg.Wait R:value ret";
  "cachex/future.go:Future.getUpdateTime|A:LoadPointer:updateTime if( ){ ret } ret";
  "cachex/cache_impl.go:cacheImpl.getFutureStatus|if( ){ C:getUpdateTime if( ){ ret } if( R:err ){ } if( ){ ret } else{ if( ){ ret } else{ ret } } } ret"
].

(* ants taskCallback: only the dispatcher goroutine (run -> runTaskOnce, once per attempt: here 3 attempts) writes result (1) / err (2); the deferred wg.Done (12) follows; Get2 reads after wg.Wait. The inner worker passes its pair by value over doneChan and touches no shared field. *)
Definition ri_ants_task : rc_pub := {| pb_ws := [1; 2; 1; 2; 1; 2]%nat; pb_os := [12]%nat; pb_readers := [(12, [1; 2]); (12, [1; 2])]%nat |}.
Definition ri_ants_task_rows : list string := [
  "ants/task_callback_ants.go:taskCallback.run|defer{ S:wg.Done } for{ C:runTaskOnce if( R:err ){ ret } } if( ){ R:err C:onError }";
  "ants/task_callback_ants.go:taskCallback.runTaskOnce|defer{ C:cancel } func{ C:handler select{ case{ recv:Done send:doneChan } case{ default send:doneChan } } } C:sendInnerCallback select{ case{ recv:doneChan R:result R:err W:result W:err } case{ recv:Done W:result W:err } }";
  "ants/task_callback_ants.go:taskCallback.Get2|S:wg.Wait R:result R:err ret"
].

(* taskx taskCallback: the single consumer's Do writes result (1), err (2), isHandled (3), then wg.Done (12); Get1/Get2 read after wg.Wait. *)
Definition ri_taskx_callback : rc_pub := {| pb_ws := [1; 2; 3]%nat; pb_os := [12]%nat; pb_readers := [(12, [1; 2]); (12, [1])]%nat |}.
Definition ri_taskx_callback_rows : list string := [
  "taskx/task_callback.go:taskCallback.Do|C:handler W:result W:err if( R:isHandled ){ W:isHandled S:wg.Done } R:err ret";
  "taskx/task_callback.go:taskCallback.Get2|S:wg.Wait R:result R:err ret";
  "taskx/task_callback.go:taskCallback.Get1|S:wg.Wait R:result ret"
].

(* NOTE (queue node, wheel slot, WaitClose.closeChan): the three instances below are kept as the
   protocol-level reading of these components, but they are now BACKED by model-level theorems:
   the steps of the small-step models themselves (models/Queue.v, Wheel.v, WaitClose.v) are labelled
   with their memory events in models/RaceQueue.v, RaceWheel.v, RaceWaitClose.v, and every run of
   the labelled models is proved free of happens-before races (props/C18.v:
   c18_queue_model_race_free, c18_wheel_model_race_free, c18_waitclose_model_race_free). *)
(* loom.Queue node: Push initialises node.value (1) before the link CAS on tail.next (obj 10, release); a Pop reads next.value only after queueLoad(&head.next) returned that node (acquire that observed the link). *)
Definition ri_queue_node : rc_pub := {| pb_ws := [1]%nat; pb_os := [10]%nat; pb_readers := [(10, [1]); (10, [1]); (10, [1])]%nat |}.
Definition ri_queue_node_rows : list string := [
  "loom/queue.go:Queue.Push|for{ C:queueLoad C:queueLoad if( C:queueLoad ){ if( ){ if( C:queueCas ){ C:queueCas ret } } else{ C:queueCas } } }";
  "loom/queue.go:Queue.Pop|for{ C:queueLoad C:queueLoad C:queueLoad if( C:queueLoad ){ if( ){ if( ){ ret } C:queueCas } else{ R:value if( C:queueCas ){ ret } } } }";
  "loom/queue.go:queueLoad|A:LoadPointer:p ret";
  "loom/queue.go:queueCas|A:CompareAndSwapPointer:p ret"
].

(* loom.Wheel slot: onTicker builds the wheelData (field c, loc 1) and publishes it with atomic.StorePointer (obj 10); requests obtain it with atomic.LoadPointer and then read data.c. *)
Definition ri_wheel_slot : rc_pub := {| pb_ws := [1]%nat; pb_os := [10]%nat; pb_readers := [(10, [1]); (10, [1])]%nat |}.
Definition ri_wheel_slot_rows : list string := [
  "loom/wheel.go:Wheel.onTicker|A:LoadInt64:position A:LoadPointer:channels A:StoreInt64:position A:StorePointer:channels close:c";
  "loom/wheel.go:Wheel.fetchWheelData|for{ A:LoadInt64:position A:LoadPointer:channels if( A:LoadInt64:position ){ ret } }";
  "loom/wheel.go:Wheel.AfterFunc|C:fetchWheelData go{ func{ select{ case{ recv:c C:callback } } } }";
  "loom/wheel_timer.go:WheelTimer.Reset|R:interval if( R:wheel ){ } R:wheel C:fetchWheelData W:C"
].

(* loom.WaitClose.closeChan: written (1) under the mutex by exactly one of checkInitSlow / Close while state = New, followed by atomic.StoreInt32(&state) (obj 10); C/WaitUtil read it after atomic.LoadInt32(&state) observed a value other than New (or after taking the same mutex in checkInitSlow). Reads under the mutex in Close are covered by ri_lock_discipline. *)
Definition ri_waitclose_chan : rc_pub := {| pb_ws := [1]%nat; pb_os := [10]%nat; pb_readers := [(10, [1]); (10, [1])]%nat |}.
Definition ri_waitclose_chan_rows : list string := [
  "loom/wait_close.go:WaitClose.checkInitSlow|S:mutex.Lock if( R:state ){ W:closeChan A:StoreInt32:state } S:mutex.Unlock";
  "loom/wait_close.go:WaitClose.Close|if( A:LoadInt32:state ){ S:mutex.Lock defer{ func{ S:mutex.Unlock } } if( R:state ){ if( R:state ){ close:closeChan } else{ W:closeChan } defer{ A:StoreInt32:state } if( ){ C:callback ret } } } ret";
  "loom/wait_close.go:WaitClose.C|if( A:LoadInt32:state ){ C:checkInitSlow } R:closeChan ret";
  "loom/wait_close.go:WaitClose.WaitUtil|if( A:LoadInt32:state ){ C:checkInitSlow } select{ case{ recv:closeChan ret } case{ default } } select{ case{ recv:closeChan ret } case{ recv:C select{ case{ recv:closeChan ret } case{ default ret } } } }"
].

Definition ri_instances : list (string * rc_pub * list string) := [
  ("ri_future", ri_future, ri_future_rows);
  ("ri_ants_task", ri_ants_task, ri_ants_task_rows);
  ("ri_taskx_callback", ri_taskx_callback, ri_taskx_callback_rows);
  ("ri_queue_node", ri_queue_node, ri_queue_node_rows);
  ("ri_wheel_slot", ri_wheel_slot, ri_wheel_slot_rows);
  ("ri_waitclose_chan", ri_waitclose_chan, ri_waitclose_chan_rows)
].

(* every row an instance was labelled from is a row of the table *)
Definition ri_rows_in_table : bool :=
  forallb (fun i => forallb (fun r => existsb (String.eqb r) ri_access_table) (snd i)) ri_instances.

(* Lock discipline (Race.rc_lstep): every access to the shard map d of cachex happens between
   futures.Lock() and futures.Unlock() of the same shard (Load, Get2, Set, removeRotted); the
   plain reads of WaitClose.state / closeChan in Close and checkInitSlow happen under
   wc.mutex. As an instance: 4 threads, sections of reads (false) / writes (true) of the map
   (location 1). *)
Definition ri_lock_rows : list string := [
  "cachex/cache_impl.go:cacheImpl.Load|R:futures S:futures.Lock R:d C:getFutureStatus if( ){ C:newFuture W:d[] } if( ){ C:fetchIfFutureStatusGood } S:futures.Unlock if( ){ C:sendJob } switch{ case{ ret } case{ ret } case{ ret } } ret";
  "cachex/cache_impl.go:cacheImpl.Get2|R:futures S:futures.Lock R:d C:getFutureStatus if( ){ C:fetchIfFutureStatusGood } S:futures.Unlock switch{ case{ C:Get2 ret } case{ C:Get2 ret } } ret";
  "cachex/cache_impl.go:cacheImpl.Set|R:futures S:futures.Lock C:newFuture C:setValue W:d[] S:futures.Unlock";
  "cachex/cache_impl.go:cacheImpl.removeRotted|for{ R:futures S:futures.Lock for{ R:d C:getFutureStatus if( ){ R:d } } S:futures.Unlock }";
  "loom/wait_close.go:WaitClose.Close|if( A:LoadInt32:state ){ S:mutex.Lock defer{ func{ S:mutex.Unlock } } if( R:state ){ if( R:state ){ close:closeChan } else{ W:closeChan } defer{ A:StoreInt32:state } if( ){ C:callback ret } } } ret";
  "loom/wait_close.go:WaitClose.checkInitSlow|S:mutex.Lock if( R:state ){ W:closeChan A:StoreInt32:state } S:mutex.Unlock"
].
Definition ri_shard_map_progs : list (list (list (bool * nat))) :=
  [ [[(false, 1); (true, 1)]; [(false, 1)]];      (* Load: read d[key], maybe write d[key]; again *)
    [[(false, 1)]];                               (* Get2: read d[key] *)
    [[(true, 1)]];                                (* Set: write d[key] *)
    [[(false, 1); (true, 1)]] ]%nat.               (* removeRotted: range over d, delete *)
Definition ri_lock_rows_in_table : bool :=
  forallb (fun r => existsb (String.eqb r) ri_access_table) ri_lock_rows.
