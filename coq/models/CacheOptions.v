(* CacheOptions.v -- the configuration of a cachex cache and several caches in one process.

   Transcribed from cachex/option.go (createArguments, WithParallel, WithExpire,
   WithJobChanSize, same branches and comparison operators) and cachex/cache.go (NewCache:
   the cache gets the arguments built from ITS option list and fresh maps / channel).

     createArguments  -> copt_create : fold of copt_apply over the option list, starting from
                         the literal defaults parallel 1, normalExpire 1 s, errorExpire 100 ms,
                         jobChanSize 128.  A failed assert (panic) is the value None.
   The process machine [mc_step] holds every cache created so far: McNew opts = NewCache(opts...)
   (no cache is created when an option panics), McCall i ev = one event of cache i of the
   event machine models/Cache.v, McAdvance dt = the one clock of the process moves (every cache
   sees it).  Definitions only; proofs are in proofs/CacheOptionsProofs.v. *)
From Got Require Import Base Cache.
Local Open Scope Z_scope.

Record copt_args := {
  copt_parallel : Z;
  copt_normE : Z;       (* ns *)
  copt_errE : Z;        (* ns *)
  copt_jcs : Z
}.

Inductive copt_option :=
| CoptParallel (num : Z)
| CoptExpire (normal err : Z)
| CoptJobChanSize (size : Z).

Definition copt_default : copt_args :=
  {| copt_parallel := 1; copt_normE := 1000000000; copt_errE := 100000000; copt_jcs := 128 |}.

Definition copt_apply (a : copt_args) (o : copt_option) : option copt_args :=
  match o with
  | CoptParallel num =>                 (* if num > 0 { args.parallel = num } *)
      Some (if 0 <? num
            then {| copt_parallel := num; copt_normE := copt_normE a; copt_errE := copt_errE a; copt_jcs := copt_jcs a |}
            else a)
  | CoptExpire normal err =>            (* assert(normal >= error); assert(error > 0) *)
      if negb (err <=? normal) then None
      else if negb (0 <? err) then None
      else Some {| copt_parallel := copt_parallel a; copt_normE := normal; copt_errE := err; copt_jcs := copt_jcs a |}
  | CoptJobChanSize size =>             (* assert(size > 0) *)
      if negb (0 <? size) then None
      else Some {| copt_parallel := copt_parallel a; copt_normE := copt_normE a; copt_errE := copt_errE a; copt_jcs := size |}
  end.

Fixpoint copt_fold (a : copt_args) (opts : list copt_option) : option copt_args :=
  match opts with
  | [] => Some a
  | o :: r => match copt_apply a o with
              | Some a' => copt_fold a' r
              | None => None
              end
  end.

Definition copt_create (opts : list copt_option) : option copt_args := copt_fold copt_default opts.

(* what the event machine Cache.v needs of the arguments *)
Definition copt_cfg (a : copt_args) : c_cfg := {| c_normE := copt_normE a; c_errE := copt_errE a |}.

Definition copt_ok (a : copt_args) : Prop :=
  0 < copt_parallel a /\ 0 < copt_errE a /\ copt_errE a <= copt_normE a /\ 0 < copt_jcs a.

(* ---- several caches in one process *)
Record mc_cache := { mc_args : copt_args; mc_st : c_state }.

Record mc_state := { mc_now : Z; mc_caches : list mc_cache }.

Inductive mc_event :=
| McNew (opts : list copt_option)
| McCall (i : nat) (ev : c_event)
| McAdvance (dt : Z).

Inductive mc_out :=
| McONew (a : option copt_args)      (* the arguments of the new cache; None = NewCache panicked *)
| McOEv (o : c_out)
| McOBad.

Definition mc_init : mc_state := {| mc_now := 0; mc_caches := [] |}.

(* the empty cache created at instant t *)
Definition mc_init_at (t : Z) : c_state :=
  {| c_now := t; c_futs := []; c_map := []; c_queue := []; c_running := []; c_displaced := [] |}.

Definition mc_is_advance (ev : c_event) : bool := match ev with CAdvance _ => true | _ => false end.

Fixpoint mc_upd (l : list mc_cache) (i : nat) (x : mc_cache) : list mc_cache :=
  match l, i with
  | [], _ => []
  | _ :: r, O => x :: r
  | y :: r, S j => y :: mc_upd r j x
  end.

Definition mc_step (s : mc_state) (ev : mc_event) : mc_state * mc_out :=
  match ev with
  | McNew opts =>
      match copt_create opts with
      | None => (s, McONew None)
      | Some a => ({| mc_now := mc_now s;
                      mc_caches := mc_caches s ++ [{| mc_args := a; mc_st := mc_init_at (mc_now s) |}] |},
                   McONew (Some a))
      end
  | McCall i ev =>
      if mc_is_advance ev then (s, McOBad)      (* the clock is the process's, not a cache's *)
      else match nth_error (mc_caches s) i with
           | None => (s, McOBad)
           | Some c =>
               let r := c_step (copt_cfg (mc_args c)) (mc_st c) ev in
               ({| mc_now := mc_now s;
                   mc_caches := mc_upd (mc_caches s) i {| mc_args := mc_args c; mc_st := fst r |} |},
                McOEv (snd r))
           end
  | McAdvance dt =>
      if dt <? 0 then (s, McOBad)
      else ({| mc_now := mc_now s + dt;
               mc_caches := map (fun c => {| mc_args := mc_args c;
                                             mc_st := fst (c_step (copt_cfg (mc_args c)) (mc_st c) (CAdvance dt)) |})
                                (mc_caches s) |}, McOEv ONone)
  end.

Fixpoint mc_run (s : mc_state) (evs : list mc_event) : mc_state :=
  match evs with
  | [] => s
  | ev :: r => mc_run (fst (mc_step s ev)) r
  end.

(* the events of the process history that cache i (already created) sees *)
Fixpoint mc_proj (i : nat) (evs : list mc_event) : list c_event :=
  match evs with
  | [] => []
  | McNew _ :: r => mc_proj i r
  | McCall j ev :: r => if ((j =? i)%nat && negb (mc_is_advance ev))%bool then ev :: mc_proj i r else mc_proj i r
  | McAdvance dt :: r => if dt <? 0 then mc_proj i r else CAdvance dt :: mc_proj i r
  end.
