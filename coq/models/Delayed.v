(* Delayed.v -- executable event-machine model of taskx's delayed queue
   (taskx/delayed_queue.go goLoop, taskx/task_delayed.go, Queue.SendDelayed).

   The loop goroutine owns a priority queue (std.PriorityQueue over container/heap with
   taskDelayed.Less = "triggerTime <") and selects between
     - a request on its channel  (event [DlRecv t]: pq.Push(t); t carries the trigger time
       the code computed in newTaskDelayed = time.Now() at the SendDelayed call + delay),
     - a tick of its 1 s ticker (event [DlTick now]: now = time.Now() read AFTER the tick was
       taken off ticker.C; then   for pq.Len() > 0 { t := pq.Top(); if t.triggerTime > now
       { break }; pq.Pop(); t.Do(nil) }   where Do = t.queue.SendCallback(t.handler)).
   SendCallback on the target queue is  select { case <-closeChan: ; case C <- task: }  :
     - target open with room: the task is placed at once ([DlPlaced]),
     - target open and full: the LOOP GOROUTINE BLOCKS inside the drain; neither requests nor
       ticks are taken until a consumer receives from that queue ([DlTake]) or the queue is
       closed ([DlClose]); the rest of the drain then continues with the OLD timestamp,
     - target closed: the call returns at once; the task is placed or discarded as select
       chooses ([DlAfterClose]: the model does not track which).
   The tasks popped by the current drain and not yet handed over are [dl_wait] (head = the
   one the loop is blocked on); the loop is at its select iff [dl_wait = []].

   The priority queue is a parameter ([dl_pq_impl]): the model only uses push / top / pop /
   len.  [dl_sorted_pq] (insertion into a sorted list) is the instance used by the extracted
   model; container/heap is modelled separately (coq/lib/Heap.v) and is meant to be plugged in
   through the same interface (laws: proofs/DelayedProofs.v [dl_pq_ok]).  The order in which
   tasks with EQUAL trigger times leave is implementation-defined and not an observable.

   Definitions only; proofs are in proofs/DelayedProofs.v. *)
From Got Require Import Base Heap.
Require Import Permutation.
Local Open Scope Z_scope.

Record dl_task := { dl_id : Z; dl_trig : Z; dl_q : Z }.

Definition dl_task_eqb (a b : dl_task) : bool :=
  (dl_id a =? dl_id b) && (dl_trig a =? dl_trig b) && (dl_q a =? dl_q b).

(* taskDelayed.Less *)
Definition dl_less (a b : dl_task) : bool := dl_trig a <? dl_trig b.

(* the operations of std.PriorityQueue the loop uses; [pq_elems] is the content (any order),
   used by specifications only *)
Record dl_pq_impl := {
  pq_t : Type;
  pq_empty : pq_t;
  pq_push : dl_task -> pq_t -> pq_t;
  pq_top : pq_t -> option dl_task;
  pq_pop : pq_t -> option (dl_task * pq_t);
  pq_len : pq_t -> nat;
  pq_elems : pq_t -> list dl_task
}.

(* what the model needs from the priority queue (std.PriorityQueue as the loop uses it), for
   the states [inv] the operations keep: push/pop preserve the content as a multiset, pop
   returns an element with a minimal trigger time (ties: any), top shows the element pop
   removes, len is the number of elements, pop succeeds on a non-empty queue *)
Record dl_pq_ok (I : dl_pq_impl) (inv : pq_t I -> Prop) : Prop := {
  ok_empty_inv : inv (pq_empty I);
  ok_empty : pq_elems I (pq_empty I) = [];
  ok_push_inv : forall t p, inv p -> inv (pq_push I t p);
  ok_push : forall t p, inv p -> Permutation (pq_elems I (pq_push I t p)) (t :: pq_elems I p);
  ok_len : forall p, inv p -> pq_len I p = length (pq_elems I p);
  ok_top : forall p, inv p -> pq_top I p = option_map fst (pq_pop I p);
  ok_pop_some : forall p, inv p -> pq_elems I p <> [] -> pq_pop I p <> None;
  ok_pop_inv : forall p t p', inv p -> pq_pop I p = Some (t, p') -> inv p';
  ok_pop : forall p t p', inv p -> pq_pop I p = Some (t, p') ->
             Permutation (pq_elems I p) (t :: pq_elems I p');
  ok_pop_min : forall p t p' y, inv p -> pq_pop I p = Some (t, p') ->
             In y (pq_elems I p) -> dl_trig t <= dl_trig y
}.

(* a target taskx.Queue as seen by the loop: capacity, buffered tasks (FIFO), closed *)
Record dl_queue := { dl_cap : nat; dl_buf : list dl_task; dl_closed : bool }.

Inductive dl_event :=
| DlRecv (t : dl_task)          (* loop: case task := <-my.tasks *)
| DlTick (now : Z)              (* loop: case <-ticker.C, time.Now() = now *)
| DlTake (q : Z) (now : Z)      (* a consumer receives one task from target queue q *)
| DlClose (q : Z) (now : Z).    (* target queue q's close channel is closed *)

Inductive dl_out :=
| DlPlaced (t : dl_task) (at_ : Z)       (* t entered its queue's channel at time at_ *)
| DlAfterClose (t : dl_task) (at_ : Z)   (* SendCallback returned on a closed queue *)
| DlGot (q : Z) (t : dl_task) (at_ : Z)  (* consumer of q received t *)
| DlDisabled (e : dl_event).             (* event not enabled in this state: no effect *)

Section WithPQ.
Variable I : dl_pq_impl.

Record dl_state := {
  dl_pq : pq_t I;
  dl_wait : list dl_task;
  dl_qs : list (Z * dl_queue)
}.

Definition dl_init (caps : list (Z * nat)) : dl_state :=
  {| dl_pq := pq_empty I; dl_wait := [];
     dl_qs := map (fun c => (fst c, {| dl_cap := snd c; dl_buf := []; dl_closed := false |})) caps |}.

Fixpoint dl_lookup (qs : list (Z * dl_queue)) (q : Z) : option dl_queue :=
  match qs with
  | [] => None
  | (k, v) :: rest => if k =? q then Some v else dl_lookup rest q
  end.

Fixpoint dl_update (qs : list (Z * dl_queue)) (q : Z) (v : dl_queue) : list (Z * dl_queue) :=
  match qs with
  | [] => []
  | (k, w) :: rest => if k =? q then (k, v) :: rest else (k, w) :: dl_update rest q v
  end.

(* the drain of one tick:  for pq.Len() > 0 { top; compare; pop }  -- the list of tasks on
   which Do is called, in order.  [None] = fuel exhausted or Pop on an empty heap (neither
   happens: DelayedProofs.dl_drain_total). *)
Fixpoint dl_drain (fuel : nat) (now : Z) (p : pq_t I) : option (list dl_task * pq_t I) :=
  match pq_len I p with
  | O => Some ([], p)
  | S _ =>
    match pq_top I p with
    | None => None
    | Some t =>
      if dl_trig t >? now then Some ([], p)
      else
        match fuel with
        | O => None
        | S f =>
          match pq_pop I p with
          | None => None
          | Some (_, p') =>
            match dl_drain f now p' with
            | Some (o, p'') => Some (t :: o, p'')
            | None => None
            end
          end
        end
    end
  end.

(* hand the waiting tasks over, in order, at time [at_], until one finds its queue full *)
Fixpoint dl_deliver (w : list dl_task) (qs : list (Z * dl_queue)) (at_ : Z)
  : list dl_task * list (Z * dl_queue) * list dl_out :=
  match w with
  | [] => ([], qs, [])
  | t :: rest =>
    match dl_lookup qs (dl_q t) with
    | None =>   (* no such queue: treated like a closed one *)
        let '(w', qs', o) := dl_deliver rest qs at_ in (w', qs', DlAfterClose t at_ :: o)
    | Some qu =>
        if dl_closed qu then
          let '(w', qs', o) := dl_deliver rest qs at_ in (w', qs', DlAfterClose t at_ :: o)
        else if (length (dl_buf qu) <? dl_cap qu)%nat then
          let qs1 := dl_update qs (dl_q t)
                       {| dl_cap := dl_cap qu; dl_buf := dl_buf qu ++ [t]; dl_closed := false |} in
          let '(w', qs', o) := dl_deliver rest qs1 at_ in (w', qs', DlPlaced t at_ :: o)
        else (w, qs, [])     (* blocked on t *)
    end
  end.

Definition dl_step (s : dl_state) (e : dl_event) : option (dl_state * list dl_out) :=
  match e with
  | DlRecv t =>
      match dl_wait s with
      | [] => Some ({| dl_pq := pq_push I t (dl_pq s); dl_wait := []; dl_qs := dl_qs s |}, [])
      | _ => Some (s, [DlDisabled e])
      end
  | DlTick now =>
      match dl_wait s with
      | [] =>
          match dl_drain (pq_len I (dl_pq s)) now (dl_pq s) with
          | None => None
          | Some (ts, p') =>
              let '(w, qs', o) := dl_deliver ts (dl_qs s) now in
              Some ({| dl_pq := p'; dl_wait := w; dl_qs := qs' |}, o)
          end
      | _ => Some (s, [DlDisabled e])
      end
  | DlTake q now =>
      match dl_lookup (dl_qs s) q with
      | Some qu =>
          match dl_buf qu with
          | t :: rest =>
              let qs1 := dl_update (dl_qs s) q
                           {| dl_cap := dl_cap qu; dl_buf := rest; dl_closed := dl_closed qu |} in
              let '(w, qs', o) := dl_deliver (dl_wait s) qs1 now in
              Some ({| dl_pq := dl_pq s; dl_wait := w; dl_qs := qs' |}, DlGot q t now :: o)
          | [] => Some (s, [DlDisabled e])
          end
      | None => Some (s, [DlDisabled e])
      end
  | DlClose q now =>
      match dl_lookup (dl_qs s) q with
      | Some qu =>
          let qs1 := dl_update (dl_qs s) q
                       {| dl_cap := dl_cap qu; dl_buf := dl_buf qu; dl_closed := true |} in
          let '(w, qs', o) := dl_deliver (dl_wait s) qs1 now in
          Some ({| dl_pq := dl_pq s; dl_wait := w; dl_qs := qs' |}, o)
      | None => Some (s, [DlDisabled e])
      end
  end.

(* run a history; [None] only if a drain ran out of fuel / popped an empty heap *)
Fixpoint dl_run (s : dl_state) (evs : list dl_event) : option (dl_state * list dl_out) :=
  match evs with
  | [] => Some (s, [])
  | e :: rest =>
      match dl_step s e with
      | None => None
      | Some (s1, o1) =>
          match dl_run s1 rest with
          | None => None
          | Some (s2, o2) => Some (s2, o1 ++ o2)
          end
      end
  end.

End WithPQ.

Arguments dl_pq {I} _.
Arguments dl_wait {I} _.
Arguments dl_qs {I} _.

(* ---- projections of an output list used by the theorems and the driver *)
Definition dl_forwarded_of (o : dl_out) : list dl_task :=
  match o with DlPlaced t _ => [t] | DlAfterClose t _ => [t] | _ => [] end.
Definition dl_forwarded (os : list dl_out) : list dl_task := flat_map dl_forwarded_of os.

Definition dl_placed_of (o : dl_out) : list (dl_task * Z) :=
  match o with DlPlaced t a => [(t, a)] | _ => [] end.
Definition dl_placed (os : list dl_out) : list (dl_task * Z) := flat_map dl_placed_of os.

Definition dl_is_disabled (o : dl_out) : bool := match o with DlDisabled _ => true | _ => false end.

Definition dl_recvd_of (e : dl_event) : list dl_task := match e with DlRecv t => [t] | _ => [] end.
Definition dl_recvd (evs : list dl_event) : list dl_task := flat_map dl_recvd_of evs.

Definition dl_ticks_of (e : dl_event) : list Z := match e with DlTick n => [n] | _ => [] end.
Definition dl_ticks (evs : list dl_event) : list Z := flat_map dl_ticks_of evs.

(* ---- the executable instance: a list kept sorted by trigger time (a new task goes behind
   the tasks with a smaller or equal trigger time) *)
Fixpoint dl_insert (t : dl_task) (l : list dl_task) : list dl_task :=
  match l with
  | [] => [t]
  | x :: rest => if dl_less t x then t :: l else x :: dl_insert t rest
  end.

Definition dl_sorted_pq : dl_pq_impl :=
  {| pq_t := list dl_task;
     pq_empty := [];
     pq_push := dl_insert;
     pq_top := fun l => match l with [] => None | x :: _ => Some x end;
     pq_pop := fun l => match l with [] => None | x :: r => Some (x, r) end;
     pq_len := @length dl_task;
     pq_elems := fun l => l |}.

(* a second instance with the opposite tie order (a new task goes in front of equal ones):
   used by the check to show that the compared observables do not depend on the tie order *)
Fixpoint dl_insert_front (t : dl_task) (l : list dl_task) : list dl_task :=
  match l with
  | [] => [t]
  | x :: rest => if dl_less x t then x :: dl_insert_front t rest else t :: l
  end.

Definition dl_sorted_pq_front : dl_pq_impl :=
  {| pq_t := list dl_task;
     pq_empty := [];
     pq_push := dl_insert_front;
     pq_top := fun l => match l with [] => None | x :: _ => Some x end;
     pq_pop := fun l => match l with [] => None | x :: r => Some (x, r) end;
     pq_len := @length dl_task;
     pq_elems := fun l => l |}.

Definition dl_run_sorted (caps : list (Z * nat)) (evs : list dl_event) :=
  dl_run dl_sorted_pq (dl_init dl_sorted_pq caps) evs.
Definition dl_run_sorted_front (caps : list (Z * nat)) (evs : list dl_event) :=
  dl_run dl_sorted_pq_front (dl_init dl_sorted_pq_front caps) evs.

(* ---- hypotheses of the timing theorems, as boolean checks on a history *)

(* every tick is not before and at most P after the previous tick (the first: the start t0) *)
Fixpoint dl_spaced (P : Z) (last : Z) (evs : list dl_event) : bool :=
  match evs with
  | [] => true
  | DlTick n :: rest => (last <=? n) && (n - last <=? P) && dl_spaced P n rest
  | _ :: rest => dl_spaced P last rest
  end.

(* every task is taken by the loop before any tick whose time has reached its trigger:
   all ticks earlier in the history (and the start t0) are strictly before the trigger *)
Fixpoint dl_timely (seen : Z) (evs : list dl_event) : bool :=
  match evs with
  | [] => true
  | DlTick n :: rest => dl_timely (Z.max seen n) rest
  | DlRecv t :: rest => (seen <? dl_trig t) && dl_timely seen rest
  | _ :: rest => dl_timely seen rest
  end.

(* the targeted queues had room: nothing was handed to a closed queue, and the loop never
   blocked (this is a check on the outputs/states of the run itself) *)
Fixpoint dl_roomy (I : dl_pq_impl) (s : dl_state I) (evs : list dl_event) : bool :=
  match evs with
  | [] => true
  | e :: rest =>
      match dl_step I s e with
      | None => false
      | Some (s1, o) =>
          match dl_wait s1 with
          | [] => forallb (fun x => match x with DlAfterClose _ _ => false | _ => true end) o
                  && dl_roomy I s1 rest
          | _ => false
          end
      end
  end.

(* virtual time does not run backwards: the stamps of Tick/Take/Close are non-decreasing *)
Fixpoint dl_mono (lo : Z) (evs : list dl_event) : bool :=
  match evs with
  | [] => true
  | DlRecv _ :: rest => dl_mono lo rest
  | DlTick n :: rest => (lo <=? n) && dl_mono n rest
  | DlTake _ n :: rest => (lo <=? n) && dl_mono n rest
  | DlClose _ n :: rest => (lo <=? n) && dl_mono n rest
  end.

(* every event of the history was enabled when it happened (the model flagged none) *)
Definition dl_all_enabled (os : list dl_out) : bool := forallb (fun o => negb (dl_is_disabled o)) os.

Definition dl_le (a b : dl_task) : Prop := dl_trig a <= dl_trig b.

(* tasks placed on queue q, in order *)
Definition dl_placed_on (q : Z) (os : list dl_out) : list dl_task :=
  map fst (filter (fun x => dl_q (fst x) =? q) (dl_placed os)).

(* the faithful instance: std.PriorityQueue = container/heap (coq/lib/Heap.v: hp_push = heap.Push
   (append + up), hp_pop = heap.Pop (swap 0,n-1; down; remove last), hp_top = s[0]) with
   taskDelayed.Less.  A heap.Push/Pop that panics or runs out of fuel leaves the array unchanged /
   yields no element; neither happens on a heap (DelayedProofs.dl_heap_pq_ok). *)
Definition dl_heap_pq : dl_pq_impl :=
  {| pq_t := list dl_task;
     pq_empty := [];
     pq_push := fun t l => match hp_push dl_less l t with HpOk l' => l' | _ => l end;
     pq_top := fun l => hp_top l;
     pq_pop := fun l => match hp_pop dl_less l with HpOk (l', m) => Some (m, l') | _ => None end;
     pq_len := @length dl_task;
     pq_elems := fun l => l |}.

(* instance selector for the extracted driver: 0 sorted list, 1 sorted list with the opposite
   tie order, 2 container/heap *)
Definition dl_pick (k : nat) : dl_pq_impl :=
  match k with O => dl_sorted_pq | S O => dl_sorted_pq_front | _ => dl_heap_pq end.
Definition dl_pq_size (I : dl_pq_impl) (s : dl_state I) : nat := pq_len I (dl_pq s).
Definition dl_is_blocked (I : dl_pq_impl) (s : dl_state I) : bool :=
  match dl_wait s with [] => false | _ => true end.
Definition dl_wait_len (I : dl_pq_impl) (s : dl_state I) : nat := length (dl_wait s).
Definition dl_buf_len (I : dl_pq_impl) (s : dl_state I) (q : Z) : nat :=
  match dl_lookup (dl_qs s) q with Some qu => length (dl_buf qu) | None => O end.
