(* CacheGet1.v -- the entry point Cache.Get1 of cachex and what a Get call hands to its caller.

   cache_impl.go:   func (my *cacheImpl) Get1(key any) any { var v, _ = my.Get2(key); return v }
   Get1 takes the same decision as Get2 at the same lock instant (cg_get1 = c_get2: which future
   is awaited, or the immediate (nil, nil)) and returns the first component of Get2's pair.
   [cg_get2_result s o]: the pair a Get2 with decision o returns in state s without waiting
   (None: the awaited future is still loading, the caller blocks until its loader returns).
   Definitions only; proofs are in proofs/CacheGet1Proofs.v. *)
From Got Require Import Base Cache.
Local Open Scope Z_scope.

Definition cg_get2_result (s : c_state) (o : c_out) : option (Z * Z) :=
  match o with
  | OImmediate => Some (0, 0)
  | OAwait f => match c_get (c_futs s) f with
                | Some x => match c_fdone x with
                            | Some (v, e, u) => Some (v, e)
                            | None => None
                            end
                | None => None
                end
  | _ => None
  end.

Definition cg_get1 (cfg : c_cfg) (s : c_state) (k : Z) : c_out := c_get2 cfg s k.

Definition cg_get1_result (s : c_state) (o : c_out) : option Z :=
  match cg_get2_result s o with Some (v, e) => Some v | None => None end.
