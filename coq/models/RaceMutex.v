(* RaceMutex.v -- the memory events of the steps of the loom.Mutex model (models/MutexWord.v part 2:
   [mx_step], threads doing Lock / TryLock / Unlock on one mutex, sync.Mutex re-modelled from the Go
   1.23 source, TryLock = the three accesses of loom/mutex.go that C17 steps against the code),
   together with the observers Count / IsLocked / IsWoken / IsStarving and with CLIENT accesses made
   while the mutex is held.

   The semantics is NOT forked: [rmx_label] is a case analysis on the same pc and word that
   [mx_step_th] inspects; the state advances by [mx_step] itself (RaceMutexProofs.rmx_projects).

   Sync object 0 = the state word m.state (for the Go race detector the address of the Mutex: Lock /
   Unlock acquire / release on it, loom's sync/atomic calls act on the same address).
     atomic.CompareAndSwapInt32(&m.state, ..) success  = RAcqRel 0   (Lock fast path, lockSlow's CASes,
                                                                      unlockSlow's CAS, TryLock CAS1/CAS2)
     atomic.CompareAndSwapInt32(&m.state, ..) failure  = RAcq 0
     atomic.AddInt32(&m.state, ..)                     = RAcqRel 0   (Unlock, the starvation hand-off)
     atomic.LoadInt32(&m.state)                        = RAcq 0      (TryLock's load; Count, IsLocked,
                                                                      IsWoken, IsStarving = [RmxObs])
   NOT labelled (no event: FEWER happens-before edges, the theorem is stronger): the plain loads
   "old = m.state" inside lockSlow / unlockSlow (package sync is not instrumented; no ordering is
   derived from them), runtime_SemacquireMutex / runtime_Semrelease (the semaphore synchronises too;
   unused), runtime_canSpin / doSpin / nanotime.
   Schedule items:
     RmxRun i        thread i takes its next model step (mx_step)
     RmxObs i        thread i calls Count / IsLocked / IsWoken / IsStarving: one atomic load; allowed at
                     ANY time (more behaviours than a sequential goroutine has)
     RmxAcc i w x    thread i performs a plain read (w = false) / write (w = true) of the client location
                     x -- executed only while the model says thread i HOLDS the mutex ([xh]: between a
                     successful acquire by Lock's fast path, lockSlow's CAS, the hand-off, TryLock's CAS1
                     or CAS2, and the AddInt32 of its Unlock); otherwise the item does nothing.  Client
                     location x is location S x (location 0 = the word as a memory cell, faulty variant).
   So the theorem covers (1) the state word itself: it is only ever touched atomically by Lock / Unlock /
   TryLock / Count / IsLocked (no plain access at all: rmx_word_all_atomic), and (2) what a mutex is FOR:
   data guarded by a loom.Mutex acquired through Lock or TryLock, with observers running, never races.

   [plain] = true: faulty variant for the refutation: TryLock's three accesses as plain accesses of the
   word (read; read; read + write when the model's CAS succeeds) instead of sync/atomic calls.

   Definitions only; proofs in proofs/RaceMutexProofs.v. *)
From Got Require Import Base Race RaceHB MutexWord.
Local Open Scope nat_scope.

Definition rmx_word : nat := 0.    (* sync object *)
Definition rmx_cell : nat := 0.    (* location: the word as a memory cell (faulty variant only) *)
Definition rmx_loc (x : nat) : nat := S x.   (* client locations *)

Definition rmx_cas (ok : bool) : rc_ev := if ok then RAcqRel rmx_word else RAcq rmx_word.
Definition rmx_tcas (plain ok : bool) : list rc_ev :=
  if plain then RRead rmx_cell :: (if ok then [RWrite rmx_cell] else []) else [rmx_cas ok].
Definition rmx_tload (plain : bool) : list rc_ev :=
  if plain then [RRead rmx_cell] else [RAcq rmx_word].

(* the events of the step of thread th on word r; same case analysis as mx_step_th *)
Definition rmx_label (plain : bool) (r : mx_w) (th : mx_thread) : list rc_ev :=
  match xpc th with
  | XIdle => []                                        (* invocation *)
  | XLFast _ _ => [rmx_cas (mx_is_zero r)]             (* Lock: CAS(&m.state, 0, mutexLocked) *)
  | XLLoad _ _ _ _ => []                               (* old = m.state (inside sync: not labelled) *)
  | XLSpin _ _ old => [rmx_cas (mx_w_eqb r old)]       (* CAS(&m.state, old, old|mutexWoken) *)
  | XLCas _ _ _ _ old => [rmx_cas (mx_w_eqb r old)]    (* CAS(&m.state, old, new) *)
  | XLSleep _ _ _ => []                                (* runtime_SemacquireMutex *)
  | XLWoke _ _ _ => []                                 (* old = m.state *)
  | XLHand _ => [RAcqRel rmx_word]                     (* atomic.AddInt32(&m.state, delta) *)
  | XT1 => rmx_tcas plain (mx_is_zero r)               (* TryLock: CAS(0, mutexLocked) *)
  | XT2 => rmx_tload plain                             (* TryLock: atomic.LoadInt32 *)
  | XT3 old => rmx_tcas plain (mx_w_eqb r old)         (* TryLock: CAS(old, old|mutexLocked) *)
  | XU1 => [RAcqRel rmx_word]                          (* Unlock: atomic.AddInt32(&m.state, -mutexLocked) *)
  | XUSlow old => [rmx_cas (mx_w_eqb r old)]           (* unlockSlow: CAS(old, (old-1<<3)|woken) *)
  | XULoad => []                                       (* unlockSlow after a failed CAS: old = m.state (inside sync) *)
  | XURel _ => []                                      (* runtime_Semrelease *)
  | XDead => []
  end.

Inductive rmx_item :=
| RmxRun (i : nat)
| RmxObs (i : nat)
| RmxAcc (i : nat) (w : bool) (x : nat).

Definition rmx_tid (it : rmx_item) : nat :=
  match it with RmxRun i | RmxObs i | RmxAcc i _ _ => i end.

Definition rmx_events (plain : bool) (s : mx_state) (it : rmx_item) : list rc_ev :=
  match nth_error (xthreads s) (rmx_tid it) with
  | None => []
  | Some th =>
      match it with
      | RmxRun _ => rmx_label plain (xword s) th
      | RmxObs _ => [RAcq rmx_word]
      | RmxAcc _ w x => if xh th then [if w then RWrite (rmx_loc x) else RRead (rmx_loc x)] else []
      end
  end.

Definition rmx_next (s : mx_state) (it : rmx_item) : mx_state :=
  match it with RmxRun i => fst (mx_step s i) | _ => s end.

Fixpoint rmx_trace_gen (plain : bool) (s : mx_state) (sched : list rmx_item) : hb_trace :=
  match sched with
  | [] => []
  | it :: r => map (pair (rmx_tid it)) (rmx_events plain s it) ++ rmx_trace_gen plain (rmx_next s it) r
  end.

Definition rmx_trace (s : mx_state) (sched : list rmx_item) : hb_trace := rmx_trace_gen false s sched.

(* the schedule of the mutex machine inside a schedule with observers and client accesses *)
Definition rmx_base (sched : list rmx_item) : list nat :=
  flat_map (fun it => match it with RmxRun i => [i] | _ => [] end) sched.

Fixpoint rmx_final (s : mx_state) (sched : list rmx_item) : mx_state :=
  match sched with [] => s | it :: r => rmx_final (rmx_next s it) r end.

(* the access-table rows the labelling was read off (Lock / Unlock themselves are package sync) *)
From Coq Require Import String.
From Got Require Import RaceInst.
Local Open Scope string_scope.
Definition rmx_rows : list string := [
  "loom/mutex.go:Mutex.TryLock|if( A:CompareAndSwapInt32:Mutex ){ ret } A:LoadInt32:Mutex if( ){ ret } A:CompareAndSwapInt32:Mutex ret";
  "loom/mutex.go:Mutex.Count|A:LoadInt32:Mutex ret";
  "loom/mutex.go:Mutex.IsLocked|A:LoadInt32:Mutex ret";
  "loom/mutex.go:Mutex.IsWoken|A:LoadInt32:Mutex ret";
  "loom/mutex.go:Mutex.IsStarving|A:LoadInt32:Mutex ret";
  "loom/mutex.go:Mutex.WithLock|if( ){ S:m.Lock defer{ S:m.Unlock } }"
].
Definition rmx_rows_in_table : bool :=
  forallb (fun r => existsb (String.eqb r) ri_access_table) rmx_rows.
