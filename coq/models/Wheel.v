(* Wheel.v -- executable small-step model of loom.Wheel (loom/wheel.go, wheel_timer.go).

   Shared memory: [position] (stored modulo the bucket count, exactly as the code does) and
   the slot array [channels].  A channel is a number handed out by a counter ([wh_next]):
   the initial slots hold channels 0..n-1, every tick allocates one fresh channel.  Channels
   are garbage collected and never reused, a closed channel stays closed (modelled, not
   verified: DESIGN.md section 7).

   Threads.  Thread 0 is the ticker (goLoop calling onTicker, one call per tick); threads
   1.. are requesters.  NewTimer, WheelTimer.Reset and AfterFunc all obtain their channel
   from fetchWheelData, so a request is one run of fetchWheelData.  One model step = one
   shared-memory access (each has a verif yield site in front of it) plus the local
   computation up to the next one; an extra step per call is the invocation (the thread runs
   from the call to its first yield; the range check of fetchWheelData happens there).

   [wh_order]: WFixed is the code in /repo now (onTicker stores position BEFORE the fresh
   slot, fetchWheelData re-loads position and retries when it moved); WOrig is the code before
   fix 9c333a1 (slot first, then position; no re-validation).

   Ghost state: [wh_nstarted]/[wh_nclosed] count the ticks whose first/last step ran,
   [wh_log] records which tick closed which channel.  None of it influences a step.

   Definitions only; proofs are in proofs/WheelProofs.v. *)
From Got Require Import Base.
Local Open Scope nat_scope.

Inductive wh_order := WOrig | WFixed.

(* ------------------------------------------------------------------ pure part *)

(* NewWheel: panics unless step > 0 and bucketNum > 0; maxTimeout = step * bucketNum in
   int64 arithmetic *)
Definition wh_new_ok (s : Z) (n : Z) : bool := (0 <? s)%Z && (0 <? n)%Z.
Definition wh_max_timeout (s : Z) (n : nat) : Z := sext 64 (s * Z.of_nat n).

(* fetchWheelData up to the loop: None = panic "step should be in range [0, maxTimeout)";
   Some index with index = max(d/step,1)-1 *)
Definition wh_bucket_index (s : Z) (n : nat) (d : Z) : option nat :=
  if ((d <? 0) || (wh_max_timeout s n <=? d))%Z then None
  else
    let q := (d / s)%Z in
    Some (Z.to_nat (if (0 <? q)%Z then q - 1 else q)).

(* ------------------------------------------------------------------ threads *)

(* operations of a requester thread; a thread owns at most one WheelTimer, [wh_tint] is its
   [interval] field *)
Inductive wh_op :=
| WhNew (d : Z)                 (* timer := wheel.NewTimer(d) *)
| WReset (x : option Z)        (* timer.Reset() / timer.Reset(x) *)
| WAfter (d : Z).              (* wheel.AfterFunc(d, callback) *)

(* the duration handed to fetchWheelData, and the timer's interval field afterwards *)
Definition wh_eff_duration (s : Z) (tint : Z) (op : wh_op) : Z * Z :=
  match op with
  | WhNew d => (d, d)
  | WAfter d => (d, tint)
  | WReset None => (tint, tint)
  | WReset (Some x) => ((if (s <=? x)%Z then x else tint), tint)
  end.

(* requester pc; the pc names the NEXT shared access. i = bucket index, k0 = ghost: ticks
   completed when the call was invoked *)
Inductive wh_rpc :=
| WRIdle
| WR1 (i k0 : nat)             (* position := load wheel.position *)
| WR2 (i k0 p : nat)           (* data := load channels[(position+index) % n] *)
| WR3 (i k0 p ch : nat)        (* position == load wheel.position ?   (WFixed only) *)
| WRDead.                      (* panicked *)

Record wh_thread := { wh_rpc_of : wh_rpc; wh_todo : list wh_op; wh_tint : Z }.

(* ticker pc *)
Inductive wh_tpc :=
| WTIdle
| WT1                          (* position := load wheel.position *)
| WT2 (lp : nat)               (* lastItem := load channels[position] *)
| WT3 (lp last : nat)          (* first store  (WFixed: position, WOrig: slot) *)
| WT4 (lp last : nat)          (* second store (WFixed: slot, WOrig: position) *)
| WT5 (last : nat)             (* close(lastItem.c) *)
| WTDead.

Record wh_state := {
  wh_n : nat;                  (* bucketsSize (constant) *)
  wh_s : Z;                    (* step (constant) *)
  wh_pos : nat;                (* wheel.position *)
  wh_slots : list nat;         (* wheel.channels *)
  wh_next : nat;               (* next fresh channel *)
  wh_log : list (nat * nat);   (* ghost: (channel, number of the tick that closed it) *)
  wh_nstarted : nat;           (* ghost: ticks that entered onTicker *)
  wh_nclosed : nat;            (* ghost: ticks that returned from onTicker *)
  wh_tpc_of : wh_tpc;
  wh_ticks : nat;              (* ticks still to be delivered *)
  wh_threads : list wh_thread
}.

Inductive wh_event :=
| WETickInv (g : nat)               (* tick g entered onTicker *)
| WETickRet (g ch : nat)            (* tick g closed channel ch and returned *)
| WEInv (d : Z) (i k0 : nat)        (* request for duration d invoked: bucket index i, k0 ticks completed *)
| WERet (i k0 k1 ch : nat)          (* request returned channel ch; k1 ticks started *)
| WEInt                             (* internal step *)
| WEPanicRange (d : Z)              (* fetchWheelData: duration out of range *)
| WEPanicClose (ch : nat)           (* close of closed channel *)
| WEPanicIndex                      (* slice index out of range *)
| WENone.                           (* nothing to do: state unchanged *)

Definition wh_init (s : Z) (n : nat) (ticks : nat) (progs : list (list wh_op)) : wh_state :=
  {| wh_n := n; wh_s := s; wh_pos := 0; wh_slots := seq 0 n; wh_next := n; wh_log := [];
     wh_nstarted := 0; wh_nclosed := 0; wh_tpc_of := WTIdle; wh_ticks := ticks;
     wh_threads := map (fun p => {| wh_rpc_of := WRIdle; wh_todo := p; wh_tint := 0%Z |}) progs |}.

Definition wh_closed_at (s : wh_state) (ch : nat) : option nat :=
  match find (fun e => fst e =? ch) (wh_log s) with
  | Some e => Some (snd e)
  | None => None
  end.

Definition wh_set_nth {A} (l : list A) (j : nat) (v : A) : list A :=
  firstn j l ++ v :: skipn (S j) l.

(* ticker-side update of the shared state *)
Definition wh_upd_ticker (s : wh_state) (pos : nat) (slots : list nat) (next : nat)
    (log : list (nat * nat)) (nst ncl : nat) (tpc : wh_tpc) (ticks : nat) : wh_state :=
  {| wh_n := wh_n s; wh_s := wh_s s; wh_pos := pos; wh_slots := slots; wh_next := next;
     wh_log := log; wh_nstarted := nst; wh_nclosed := ncl; wh_tpc_of := tpc; wh_ticks := ticks;
     wh_threads := wh_threads s |}.

Definition wh_set_tpc (s : wh_state) (tpc : wh_tpc) : wh_state :=
  wh_upd_ticker s (wh_pos s) (wh_slots s) (wh_next s) (wh_log s) (wh_nstarted s) (wh_nclosed s)
    tpc (wh_ticks s).

Definition wh_store_pos (s : wh_state) (lp : nat) (tpc : wh_tpc) : wh_state :=
  wh_upd_ticker s ((lp + 1) mod wh_n s) (wh_slots s) (wh_next s) (wh_log s) (wh_nstarted s)
    (wh_nclosed s) tpc (wh_ticks s).

Definition wh_store_slot (s : wh_state) (lp : nat) (tpc : wh_tpc) : wh_state :=
  wh_upd_ticker s (wh_pos s) (wh_set_nth (wh_slots s) lp (wh_next s)) (S (wh_next s)) (wh_log s)
    (wh_nstarted s) (wh_nclosed s) tpc (wh_ticks s).

(* one step of the ticker (onTicker) *)
Definition wh_tick_step (o : wh_order) (s : wh_state) : wh_state * wh_event :=
  match wh_tpc_of s with
  | WTIdle =>
      match wh_ticks s with
      | O => (s, WENone)
      | S k =>
          (wh_upd_ticker s (wh_pos s) (wh_slots s) (wh_next s) (wh_log s) (S (wh_nstarted s))
             (wh_nclosed s) WT1 k, WETickInv (S (wh_nstarted s)))
      end
  | WT1 => (wh_set_tpc s (WT2 (wh_pos s)), WEInt)
  | WT2 lp =>
      match nth_error (wh_slots s) lp with
      | Some ch => (wh_set_tpc s (WT3 lp ch), WEInt)
      | None => (wh_set_tpc s WTDead, WEPanicIndex)
      end
  | WT3 lp last =>
      match o with
      | WFixed => (wh_store_pos s lp (WT4 lp last), WEInt)
      | WOrig => (wh_store_slot s lp (WT4 lp last), WEInt)
      end
  | WT4 lp last =>
      match o with
      | WFixed => (wh_store_slot s lp (WT5 last), WEInt)
      | WOrig => (wh_store_pos s lp (WT5 last), WEInt)
      end
  | WT5 last =>
      match wh_closed_at s last with
      | Some _ => (wh_set_tpc s WTDead, WEPanicClose last)
      | None =>
          (wh_upd_ticker s (wh_pos s) (wh_slots s) (wh_next s)
             ((last, S (wh_nclosed s)) :: wh_log s) (wh_nstarted s) (S (wh_nclosed s))
             WTIdle (wh_ticks s),
           WETickRet (S (wh_nclosed s)) last)
      end
  | WTDead => (s, WENone)
  end.

Definition wh_set_thread (s : wh_state) (k : nat) (th : wh_thread) : wh_state :=
  {| wh_n := wh_n s; wh_s := wh_s s; wh_pos := wh_pos s; wh_slots := wh_slots s;
     wh_next := wh_next s; wh_log := wh_log s; wh_nstarted := wh_nstarted s;
     wh_nclosed := wh_nclosed s; wh_tpc_of := wh_tpc_of s; wh_ticks := wh_ticks s;
     wh_threads := wh_set_nth (wh_threads s) k th |}.

(* one step of a requester with pc/locals [th]: new thread, event (shared state is only read) *)
Definition wh_req_step_th (o : wh_order) (s : wh_state) (th : wh_thread) : wh_thread * wh_event :=
  let mk pc := {| wh_rpc_of := pc; wh_todo := wh_todo th; wh_tint := wh_tint th |} in
  match wh_rpc_of th with
  | WRIdle =>
      match wh_todo th with
      | [] => (th, WENone)
      | op :: rest =>
          let '(d, ti) := wh_eff_duration (wh_s s) (wh_tint th) op in
          match wh_bucket_index (wh_s s) (wh_n s) d with
          | None => ({| wh_rpc_of := WRDead; wh_todo := rest; wh_tint := ti |}, WEPanicRange d)
          | Some i => ({| wh_rpc_of := WR1 i (wh_nclosed s); wh_todo := rest; wh_tint := ti |},
                       WEInv d i (wh_nclosed s))
          end
      end
  | WR1 i k0 => (mk (WR2 i k0 (wh_pos s)), WEInt)
  | WR2 i k0 p =>
      match nth_error (wh_slots s) ((p + i) mod wh_n s) with
      | None => (mk WRDead, WEPanicIndex)
      | Some ch =>
          match o with
          | WFixed => (mk (WR3 i k0 p ch), WEInt)
          | WOrig => (mk WRIdle, WERet i k0 (wh_nstarted s) ch)
          end
      end
  | WR3 i k0 p ch =>
      if p =? wh_pos s then (mk WRIdle, WERet i k0 (wh_nstarted s) ch)
      else (mk (WR1 i k0), WEInt)
  | WRDead => (th, WENone)
  end.

(* thread 0 = ticker, thread k+1 = requester k *)
Definition wh_step (o : wh_order) (s : wh_state) (tid : nat) : wh_state * wh_event :=
  match tid with
  | O => wh_tick_step o s
  | S k =>
      match nth_error (wh_threads s) k with
      | None => (s, WENone)
      | Some th =>
          let '(th', ev) := wh_req_step_th o s th in
          (wh_set_thread s k th', ev)
      end
  end.

Fixpoint wh_run (o : wh_order) (s : wh_state) (sched : list nat) : wh_state * list (nat * wh_event) :=
  match sched with
  | [] => (s, [])
  | i :: rest =>
      let '(s1, ev) := wh_step o s i in
      let '(s2, tr) := wh_run o s1 rest in
      (s2, (i, ev) :: tr)
  end.

Definition wh_final (o : wh_order) (s : wh_state) (sched : list nat) : wh_state := fst (wh_run o s sched).
Definition wh_trace (o : wh_order) (s : wh_state) (sched : list nat) : list (nat * wh_event) :=
  snd (wh_run o s sched).

(* a step of the thread would execute something *)
Definition wh_enabled (s : wh_state) (tid : nat) : bool :=
  match tid with
  | O => match wh_tpc_of s, wh_ticks s with
         | WTIdle, O => false | WTDead, _ => false | _, _ => true end
  | S k => match nth_error (wh_threads s) k with
           | Some th => match wh_rpc_of th, wh_todo th with
                        | WRIdle, [] => false | WRDead, _ => false | _, _ => true end
           | None => false
           end
  end.

(* yield site the thread is parked at (numbers of loom/verif_on.go; 0 = none) *)
Definition wh_site (o : wh_order) (s : wh_state) (tid : nat) : nat :=
  match tid with
  | O => match wh_tpc_of s with
         | WT1 => 6 | WT2 _ => 7
         | WT3 _ _ => match o with WFixed => 8 | WOrig => 9 end
         | WT4 _ _ => match o with WFixed => 9 | WOrig => 8 end
         | WT5 _ => 10
         | _ => 0 end
  | S k => match nth_error (wh_threads s) k with
           | Some th => match wh_rpc_of th with
                        | WR1 _ _ => 3 | WR2 _ _ _ => 4 | WR3 _ _ _ _ => 5 | _ => 0 end
           | None => 0
           end
  end.

(* deliver [k] more ticks (the harness fires every pending channel at the end of a case) *)
Definition wh_more_ticks (s : wh_state) (k : nat) : wh_state :=
  wh_upd_ticker s (wh_pos s) (wh_slots s) (wh_next s) (wh_log s) (wh_nstarted s) (wh_nclosed s)
    (wh_tpc_of s) (wh_ticks s + k).
