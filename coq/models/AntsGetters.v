(* AntsGetters.v -- the three entry points of the Task interface (/repo/ants/task.go) on the pool model of
   models/Ants.v: task_callback_ants.go Get1 / Get2 / Err and task_discard.go Get1 / Get2 / Err.

     Get2(): my.wg.Wait(); return my.result, my.err      (taskDiscard: return nil, errDiscard)
     Get1(): result, _ = my.Get2(); return result        (taskDiscard: return nil)
     Err():  return my.err       -- does NOT wait        (taskDiscard: return errDiscard)

   A call made in state s either blocks (None: the WaitGroup is still closed) or returns.  The machine's
   event AnGet2 is "a call that waits on the WaitGroup returns now and its read is recorded in at_get2";
   a Get1 call is such a call with the error dropped, so the check replays Get1 (and an Err() made after
   Get2 returned) as AnGet2 events and compares the component the entry point returns.
   Definitions only; proofs in proofs/AntsGettersProofs.v. *)
From Got Require Import Base Ants.
Local Open Scope Z_scope.

Definition an_final (t : an_task) : bool :=
  match at_phase t with AnDone | AnDiscarded => true | _ => false end.

Definition an_call_get2 (s : an_state) (k : nat) : option an_pair :=
  if an_final (an_tk s k) then Some (at_fields (an_tk s k)) else None.

Definition an_call_get1 (s : an_state) (k : nat) : option (option Z) :=
  match an_call_get2 s k with Some p => Some (fst p) | None => None end.

Definition an_call_err (s : an_state) (k : nat) : an_err := snd (at_fields (an_tk s k)).
