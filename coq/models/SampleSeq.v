(* SampleSeq.v -- randx.WeightedSampling (models/Sample.v) with a getWeight callback that
   may PANIC, and sequences of calls.  Definitions only (prefix smp_ / Smc).

   getWeight is the caller's function; the Go loop calls it once per index, in order
   (ui := rand.Float64(); ki := lnWeight(getWeight(i)) - ...), so a callback that panics at
   index j stops the call after exactly j+1 callback invocations, with the heap half filled.
   The panic propagates to the caller (who may recover).  The model returns the pair
   (result, number of getWeight calls made).

   Call sequences: the Go function keeps NOTHING between two calls -- the heap is a fresh
   make(sampleHeap, 0, sampleNum) per call, there is no package-level variable in
   randx/sample.go besides the (re-seeded) global math/rand generator.  A sequence of calls
   is therefore run call by call with no store threaded through (smp_run_calls); this is
   the statement the sequence streams of the correspondence check test the code against:
   whatever happened in earlier calls (normal return, argument panic, callback panic half
   way), the next call behaves as a first call. *)
From Got Require Import Base Heap Sample.

(* does getWeight(i) panic?  pj = Some j: at index j; None: never *)
Definition smp_cb_panics (pj : option nat) (i : nat) : bool :=
  match pj with Some j => Nat.eqb i j | None => false end.

(* iterations i .. i+cnt-1; second component = getWeight calls made so far (= next index) *)
Fixpoint smp_loop_cb (k : nat) (key : nat -> Z) (pj : option nat) (cnt : nat) (i : nat)
  (h : list smp_item) : hp_res (list smp_item) * nat :=
  match cnt with
  | O => (HpOk h, i)
  | S c =>
      if smp_cb_panics pj i then (HpPanic, S i)               (* getWeight(i) panics *)
      else match smp_step k (key i) i h with
           | HpOk h' => smp_loop_cb k key pj c (S i) h'
           | HpPanic => (HpPanic, S i)
           | HpNoFuel => (HpNoFuel, S i)
           end
  end.

Definition smp_sample_cb (init : smp_init) (sampleNum totalNum : Z) (key : nat -> Z)
  (pj : option nat) : hp_res (list Z) * nat :=
  if (totalNum <? sampleNum) || (totalNum <=? 0) then (HpPanic, O)
  else if sampleNum <? 0 then (HpPanic, O)
  else
    let k := Z.to_nat sampleNum in
    let h0 := match init with
              | SmpPrefilled => repeat smp_zero_item k
              | SmpEmpty => []
              end in
    match smp_loop_cb k key pj (Z.to_nat totalNum) 0 h0 with
    | (HpOk h, c) => (smp_results h 0 k, c)
    | (HpPanic, c) => (HpPanic, c)
    | (HpNoFuel, c) => (HpNoFuel, c)
    end.

(* one call of a sequence: arguments, key ranks, panic index of its callback *)
Record smp_call : Type := SmcCall
  { smc_k : Z; smc_n : Z; smc_keys : list Z; smc_pj : option nat }.

Definition smp_call_result (c : smp_call) : hp_res (list Z) * nat :=
  smp_sample_cb SmpEmpty (smc_k c) (smc_n c) (smp_key_of_list (smc_keys c)) (smc_pj c).

(* a call sequence made by one goroutine: no state is carried from call to call *)
Definition smp_run_calls (cs : list smp_call) : list (hp_res (list Z) * nat) :=
  map smp_call_result cs.

(* the property's hypothesis on one call: valid arguments, callback never panics when asked *)
Definition smp_call_valid (c : smp_call) : Prop :=
  1 <= smc_k c <= smc_n c /\
  match smc_pj c with None => True | Some j => (Z.to_nat (smc_n c) <= j)%nat end.
