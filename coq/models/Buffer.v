(* Buffer.v -- executable model of iox.Buffer (iox/buffer.go), a bytes.Buffer derivative
   with Seek and Tidy.

   State.  The slice b.buf is modelled together with its backing array from the slice's
   start up to its capacity: [b_buf] = b.buf[0:len], [b_spare] = the array cells
   [len:cap] (their stale contents are kept, so a reslice that exposes them exposes what
   the real code would expose). cap(b.buf) = length b_buf + length b_spare: the code only
   ever allocates with make (exact capacity), never with append, so Cap() is modelled
   exactly. [b_nil] = (b.buf == nil). [b_off] = b.off (a Go int).

   Every slice expression goes through a checked accessor (GoSlice.v): out of range is the
   value Panic. panic(ErrTooLarge) and Grow's negative-count panic are Panic as well. *)
From Got Require Import Base GoSlice.

Definition buf_small : Z := 64.          (* smallBufferSize *)
Definition buf_maxint : Z := 2 ^ 63 - 1. (* maxInt *)

Record buf_state := mk_buf { b_buf : list Z; b_spare : list Z; b_off : Z; b_nil : bool }.

Definition buf_init : buf_state := mk_buf [] [] 0 true.   (* the zero value *)

Definition buf_len (s : buf_state) : Z := Z.of_nat (length (b_buf s)).
Definition buf_cap (s : buf_state) : Z := Z.of_nat (length (b_buf s) + length (b_spare s)).
(* func (b *Buffer) Len() int { return len(b.buf) - b.off } *)
Definition buf_Len (s : buf_state) : Z := buf_len s - b_off s.
(* func (b *Buffer) empty() bool { return len(b.buf) <= b.off } *)
Definition buf_empty (s : buf_state) : bool := buf_len s <=? b_off s.
(* func (b *Buffer) Bytes() []byte { return b.buf[b.off:] } ; String() is the same slice *)
Definition buf_bytes (s : buf_state) : res (list Z) unit := gs_slice_from (b_buf s) (b_off s).

Definition buf_set_off (s : buf_state) (o : Z) : buf_state := mk_buf (b_buf s) (b_spare s) o (b_nil s).
Definition buf_set_buf (s : buf_state) (b : list Z) : buf_state := mk_buf b (b_spare s) (b_off s) (b_nil s).

(* b.buf = b.buf[:k]   (0 <= k <= cap; a nil slice stays nil) *)
Definition buf_reslice (s : buf_state) (k : Z) : res buf_state unit :=
  if (0 <=? k) && (k <=? buf_cap s) then
    let arr := b_buf s ++ b_spare s in
    Ok (mk_buf (firstn (Z.to_nat k) arr) (skipn (Z.to_nat k) arr) (b_off s) (b_nil s))
  else Panic.

(* func (b *Buffer) Reset() { b.buf = b.buf[:0]; b.off = 0 } *)
Definition buf_reset (s : buf_state) : res buf_state unit :=
  gs_bind (buf_reslice s 0) (fun s1 => Ok (buf_set_off s1 0)).

(* func (b *Buffer) Seek(offset int64, whence int) (ret int64, err error) *)
Definition buf_seek (s : buf_state) (offset whence : Z) : buf_state * option Z :=
  if (0 <=? whence) && (whence <=? 2) then
    let off := offset in                                  (* int(offset) *)
    let next := if whence =? 1 then sext 64 (off + b_off s)       (* next += b.off *)
                else if whence =? 2 then sext 64 (off + buf_len s) (* next += len(b.buf) *)
                else off in
    if (0 <=? next) && (next <=? buf_len s) then (buf_set_off s next, Some next)
    else (s, None)
  else (s, None).

(* func (b *Buffer) tryGrowByReslice(n int) (int, bool) *)
Definition buf_try_grow (s : buf_state) (n : Z) : res (buf_state * option Z) unit :=
  let l := buf_len s in
  if n <=? buf_cap s - l then gs_bind (buf_reslice s (l + n)) (fun s1 => Ok (s1, Some l))
  else Ok (s, None).

(* the part of grow after tryGrowByReslice failed; m = b.Len() taken at grow's entry *)
Definition buf_grow_slow (s : buf_state) (n m : Z) : res (buf_state * Z) unit :=
  if b_nil s && (n <=? buf_small) then
    (* b.buf = make([]byte, n, smallBufferSize); return 0 *)
    Ok (mk_buf (repeat 0 (Z.to_nat n)) (repeat 0 (Z.to_nat (buf_small - n))) (b_off s) false, 0)
  else
    let c := buf_cap s in
    gs_bind
      (if n <=? c / 2 - m then
         (* copy(b.buf, b.buf[b.off:]) *)
         gs_bind (gs_slice_from (b_buf s) (b_off s)) (fun src =>
         Ok (buf_set_buf s (gs_copy (b_buf s) src)))
       else if c >? buf_maxint - c - n then Panic            (* panic(ErrTooLarge) *)
       else
         (* buf := makeSlice(2*c + n); copy(buf, b.buf[b.off:]); b.buf = buf *)
         gs_bind (gs_slice_from (b_buf s) (b_off s)) (fun src =>
         Ok (mk_buf (gs_copy (repeat 0 (Z.to_nat (2 * c + n))) src) [] (b_off s) false)))
      (fun s1 =>
       (* b.off = 0; b.buf = b.buf[:m+n]; return m *)
       gs_bind (buf_reslice (buf_set_off s1 0) (m + n)) (fun s2 => Ok (s2, m))).

(* func (b *Buffer) grow(n int) int *)
Definition buf_grow (s : buf_state) (n : Z) : res (buf_state * Z) unit :=
  let m := buf_Len s in
  gs_bind (if (m =? 0) && negb (b_off s =? 0) then buf_reset s else Ok s) (fun s1 =>
  gs_bind (buf_try_grow s1 n) (fun t =>
  match t with
  | (s2, Some i) => Ok (s2, i)
  | (_, None) => buf_grow_slow s1 n m
  end)).

(* func (b *Buffer) Grow(n int) *)
Definition buf_Grow (s : buf_state) (n : Z) : res buf_state unit :=
  if n <? 0 then Panic
  else gs_bind (buf_grow s n) (fun sm => buf_reslice (fst sm) (snd sm)).

(* func (b *Buffer) Write(p []byte) (n int, err error) ; err is always nil *)
Definition buf_write (s : buf_state) (p : list Z) : res (buf_state * Z) unit :=
  let n := Z.of_nat (length p) in
  gs_bind (buf_try_grow s n) (fun t =>
  gs_bind (match t with
           | (s1, Some m) => Ok (s1, m)
           | (_, None) => buf_grow s n
           end) (fun sm =>
  let s1 := fst sm in
  let m := snd sm in
  (* return copy(b.buf[m:], p), nil *)
  gs_bind (gs_slice_from (b_buf s1) m) (fun dst =>
  Ok (buf_set_buf s1 (firstn (Z.to_nat m) (b_buf s1) ++ gs_copy dst p),
      Z.of_nat (gs_copy_n dst p))))).

(* func (b *Buffer) Read(p []byte) (n int, err error) ; n = len(p).
   Result: the bytes copied into p (p[:n']) and whether err = io.EOF *)
Definition buf_read (s : buf_state) (n : nat) : res (buf_state * (list Z * bool)) unit :=
  if buf_empty s then Ok (s, ([], negb (Nat.eqb n 0)))
  else
    (* n = copy(p, b.buf[b.off:]); b.off += n *)
    gs_bind (gs_slice_from (b_buf s) (b_off s)) (fun src =>
    let d := firstn n src in
    Ok (buf_set_off s (b_off s + Z.of_nat (length d)), (d, false))).

(* func (b *Buffer) Next(n int) []byte *)
Definition buf_next (s : buf_state) (n : Z) : res (buf_state * list Z) unit :=
  let m := buf_Len s in
  let n := if n >? m then m else n in
  (* data := b.buf[b.off : b.off+n]  -- a slice of a slice: the upper bound is the capacity *)
  gs_bind (gs_slice (b_buf s ++ b_spare s) (b_off s) (b_off s + n)) (fun d =>
  Ok (buf_set_off s (b_off s + n), d)).

(* func (b *Buffer) Tidy() *)
Definition buf_tidy (s : buf_state) : res buf_state unit :=
  if b_off s >? 0 then
    let size := buf_len s - b_off s in
    gs_bind (if size >? 0
             then gs_bind (gs_slice_from (b_buf s) (b_off s)) (fun src =>
                  Ok (buf_set_buf s (gs_copy (b_buf s) src)))
             else Ok s) (fun s1 =>
    gs_bind (buf_reslice s1 size) (fun s2 => Ok (buf_set_off s2 0)))
  else Ok s.

Inductive buf_op :=
| BWrite (p : list Z)
| BRead (n : nat)            (* len(p) of the destination *)
| BNext (n : Z)
| BSeek (offset whence : Z)
| BTidy
| BReset
| BGrow (n : Z).

Inductive buf_ret :=
| BRWrote (n : Z)
| BRRead (d : list Z) (eof : bool)
| BRNext (d : list Z)
| BRSeek (r : option Z)      (* Some pos | None = errInvalidSeek (returned position 0) *)
| BRUnit.

Definition buf_step (s : buf_state) (op : buf_op) : res (buf_state * buf_ret) unit :=
  match op with
  | BWrite p => gs_bind (buf_write s p) (fun sn => Ok (fst sn, BRWrote (snd sn)))
  | BRead n => gs_bind (buf_read s n) (fun sd => Ok (fst sd, BRRead (fst (snd sd)) (snd (snd sd))))
  | BNext n => gs_bind (buf_next s n) (fun sd => Ok (fst sd, BRNext (snd sd)))
  | BSeek o w => let '(s1, r) := buf_seek s o w in Ok (s1, BRSeek r)
  | BTidy => gs_bind (buf_tidy s) (fun s1 => Ok (s1, BRUnit))
  | BReset => gs_bind (buf_reset s) (fun s1 => Ok (s1, BRUnit))
  | BGrow n => gs_bind (buf_Grow s n) (fun s1 => Ok (s1, BRUnit))
  end.

Fixpoint buf_run (s : buf_state) (ops : list buf_op) : res (buf_state * list buf_ret) unit :=
  match ops with
  | [] => Ok (s, [])
  | op :: tl =>
      gs_bind (buf_step s op) (fun sr =>
      gs_bind (buf_run (fst sr) tl) (fun srs =>
      Ok (fst srs, snd sr :: snd srs)))
  end.

(* trace used by the correspondence check: after every op the return value and the
   observers Bytes() / Len() / Cap() / Seek(0, io.SeekCurrent); stops at the first panic *)
Inductive buf_line :=
| BLPanic
| BLObs (r : buf_ret) (bytes : res (list Z) unit) (len cap : Z) (pos : option Z).

Fixpoint buf_trace (s : buf_state) (ops : list buf_op) : list buf_line :=
  match ops with
  | [] => []
  | op :: tl =>
      match buf_step s op with
      | Ok (s1, r) =>
          let b := buf_bytes s1 in
          BLObs r b (buf_Len s1) (buf_cap s1) (snd (buf_seek s1 0 1)) ::
          match b with Ok _ => buf_trace s1 tl | _ => [] end
      | _ => [BLPanic]
      end
  end.

(* flat integer encoding of a trace (vm_compute vs extraction cross-check only) *)
Definition buf_flat_bytes (d : list Z) : list Z := Z.of_nat (length d) :: d.
Definition buf_flat_opt (r : option Z) : list Z := match r with None => [0] | Some p => [1; p] end.
Definition buf_flat_ret (r : buf_ret) : list Z :=
  match r with
  | BRWrote n => [1; n]
  | BRRead d e => 2 :: (if e then 1 else 0) :: buf_flat_bytes d
  | BRNext d => 5 :: buf_flat_bytes d
  | BRSeek x => 3 :: buf_flat_opt x
  | BRUnit => [4]
  end.
Definition buf_flat_line (l : buf_line) : list Z :=
  match l with
  | BLPanic => [-1]
  | BLObs r b len cap pos =>
      buf_flat_ret r ++ (match b with Ok d => buf_flat_bytes d | _ => [-2] end) ++ [len; cap] ++ buf_flat_opt pos
  end.
Definition buf_flat (ops : list buf_op) : list Z := flat_map buf_flat_line (buf_trace buf_init ops).

(* ------------------------------------------------------------------ ReadOnce *)

(* func (b *Buffer) ReadOnce(reader io.Reader, buf []byte) (int, error): one reader.Read(buf); on an
   error the buffer is untouched and (0, err) is returned, otherwise b.Write(buf[:num]).  The reader is
   the environment: [rd] is what its single Read call delivered ([None] = it failed).  So ReadOnce is the
   Write step on the delivered bytes -- every run-level theorem about op sequences with BWrite covers
   sequences with ReadOnce (the harness executes a share of the writes through ReadOnce: token o<n>). *)
Definition buf_read_once (s : buf_state) (rd : option (list Z)) : res (buf_state * option Z) unit :=
  match rd with
  | None => Ok (s, None)
  | Some d => gs_bind (buf_write s d) (fun sn => Ok (fst sn, Some (snd sn)))
  end.
