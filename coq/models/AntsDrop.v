(* AntsDrop.v -- lifetime of an ants pool whose owner drops it while tasks are outstanding.  ants/pool.go, ants/pool_impl.go,
   ants/task_callback_ants.go:

     NewPool:  my = &wrapper{&poolImpl{...}};  runtime.SetFinalizer(my, func(w) { close(w.closeChan) })
     Send:     w.poolImpl.send(w, handler, options)          -- the task records its owner, the WRAPPER (fix 83eb87d)
     run:      defer wg.Done(); defer func() { my.owner = nil }();  for i < retry { runTaskOnce ... }

   The dispatcher and inner-callback goroutines reference only the inner object, so the wrapper is reachable exactly through the
   caller's handle and through the owner field of unfinished tasks.  The finalizer (= the close of closeChan, after which the pool's
   goroutines may leave at any select) can run only when the wrapper is unreachable.

   [PdOrig] is the code before 83eb87d (tasks reference the inner object only); [PdReleaseBeforeLast] lets go of the owner just
   before the last attempt ("no further attempt will be handed to the pool").

   Definitions only; proofs in proofs/AntsDropProofs.v. *)
From Got Require Import Base.
Local Open Scope nat_scope.

Inductive pd_variant := PdOrig | PdFixed | PdReleaseBeforeLast.

Inductive pd_phase :=
| PdQueued                (* in taskChan *)
| PdWaiting (a : nat)     (* attempt a (from 1) handed to innerCallbackChan, its handler not started *)
| PdRunning (a : nat)     (* the handler of attempt a is running *)
| PdDone.

Record pd_task := { pt_R : nat; pt_ph : pd_phase; pt_owner : bool }.

Record pd_state := {
  pd_handle : bool;       (* the caller still holds the Pool *)
  pd_closed : bool;       (* the finalizer ran *)
  pd_tasks : list pd_task
}.

Inductive pd_ev :=
| PdSend (R : nat)        (* needs the handle *)
| PdDrop                  (* the caller forgets the pool *)
| PdFinalize              (* the collector: enabled iff nothing references the wrapper *)
| PdPick (k : nat)        (* a dispatcher takes task k: run() begins with attempt 1 *)
| PdStart (k : nat)       (* an inner goroutine starts the handler of the current attempt *)
| PdEnd (k : nat) (ok : bool).  (* the dispatcher's select decides the current attempt: done without error | failed or timed out *)

Definition pd_is_done (p : pd_phase) : bool := match p with PdDone => true | _ => false end.

Fixpoint pd_upd (k : nat) (f : pd_task -> pd_task) (l : list pd_task) : list pd_task :=
  match l, k with
  | [], _ => []
  | x :: r, 0 => f x :: r
  | x :: r, S k' => x :: pd_upd k' f r
  end.

(* the owner field when attempt a begins *)
Definition pd_owner_at (var : pd_variant) (R a : nat) (o : bool) : bool :=
  match var with
  | PdReleaseBeforeLast => if R <=? a then false else o
  | _ => o
  end.

Definition pd_begin (var : pd_variant) (a : nat) (x : pd_task) : pd_task :=
  {| pt_R := pt_R x; pt_ph := PdWaiting a; pt_owner := pd_owner_at var (pt_R x) a (pt_owner x) |}.

Definition pd_finish (x : pd_task) : pd_task := {| pt_R := pt_R x; pt_ph := PdDone; pt_owner := false |}.

Definition pd_decide (var : pd_variant) (ok : bool) (x : pd_task) : pd_task :=
  match pt_ph x with
  | PdWaiting a | PdRunning a =>
      if ok then match pt_ph x with PdRunning _ => pd_finish x | _ => x end   (* only a handler that ran can succeed *)
      else if S a <=? pt_R x then pd_begin var (S a) x else pd_finish x
  | _ => x
  end.

Definition pd_set (s : pd_state) (ts : list pd_task) : pd_state :=
  {| pd_handle := pd_handle s; pd_closed := pd_closed s; pd_tasks := ts |}.

Definition pd_step (var : pd_variant) (s : pd_state) (e : pd_ev) : pd_state :=
  match e with
  | PdSend R =>
      if pd_handle s
      then pd_set s (pd_tasks s ++ [{| pt_R := R; pt_ph := PdQueued;
                                       pt_owner := match var with PdOrig => false | _ => true end |}])
      else s
  | PdDrop => {| pd_handle := false; pd_closed := pd_closed s; pd_tasks := pd_tasks s |}
  | PdFinalize =>
      if negb (pd_handle s) && forallb (fun x => negb (pt_owner x)) (pd_tasks s)
      then {| pd_handle := false; pd_closed := true; pd_tasks := pd_tasks s |}
      else s
  | PdPick k =>
      pd_set s (pd_upd k (fun x => match pt_ph x with PdQueued => pd_begin var 1 x | _ => x end) (pd_tasks s))
  | PdStart k =>
      pd_set s (pd_upd k (fun x => match pt_ph x with
                                   | PdWaiting a => {| pt_R := pt_R x; pt_ph := PdRunning a; pt_owner := pt_owner x |}
                                   | _ => x end) (pd_tasks s))
  | PdEnd k ok => pd_set s (pd_upd k (pd_decide var ok) (pd_tasks s))
  end.

Definition pd_run (var : pd_variant) (s : pd_state) (evs : list pd_ev) : pd_state := fold_left (pd_step var) evs s.

Definition pd_init : pd_state := {| pd_handle := true; pd_closed := false; pd_tasks := [] |}.

Definition pd_all_done (s : pd_state) : bool := forallb (fun x => pd_is_done (pt_ph x)) (pd_tasks s).
