(* QueueHwCheck.v -- an executable checker for textbook linearizability (lib/Linearizability.v)
   of a small history against the sequential FIFO queue.  [qh_verify pre H ext S] decides the
   clauses of hw_linearizable for GIVEN witnesses H' = H ++ ext and S; [qh_search] looks for a
   candidate S (depth-first, nothing is trusted from it); [q_hw_check] = search, then verify.
   Soundness (q_hw_check pre H = true -> hw_linearizable H (q_fifo_spec pre)) is proved in
   proofs/QueueHwCheckProofs.v.  Definitions only. *)
From Got Require Import Base Queue Linearizability QueueHistory.
Local Open Scope nat_scope.

Definition qh_op_eqb (a b : q_op) : bool :=
  match a, b with QPush v, QPush w => Z.eqb v w | QPop, QPop => true | _, _ => false end.
Definition qh_res_eqb (a b : q_res) : bool :=
  match a, b with
  | QRPush, QRPush => true
  | QRPop None, QRPop None => true
  | QRPop (Some v), QRPop (Some w) => Z.eqb v w
  | _, _ => false
  end.
Definition qh_ev_eqb (a b : hw_event q_op q_res) : bool :=
  match a, b with
  | HInv t o, HInv t' o' => Nat.eqb t t' && qh_op_eqb o o'
  | HRes t r, HRes t' r' => Nat.eqb t t' && qh_res_eqb r r'
  | _, _ => false
  end.
Fixpoint qh_list_eqb (a b : hw_history q_op q_res) : bool :=
  match a, b with
  | [], [] => true
  | x :: a', y :: b' => qh_ev_eqb x y && qh_list_eqb a' b'
  | _, _ => false
  end.

Definition qh_threads (H : hw_history q_op q_res) : list nat := nodup Nat.eq_dec (map hw_thread H).

(* well-formedness: the threads that do not occur have an empty subhistory *)
Definition qh_wfb (H : hw_history q_op q_res) : bool :=
  forallb (fun t => hw_alt false (hw_proj t H)) (qh_threads H).

Definition qh_all_resb (ext : hw_history q_op q_res) : bool :=
  forallb (fun e => match e with HRes _ _ => true | HInv _ _ => false end) ext.

(* sequential and legal for the FIFO started in state s *)
Fixpoint qh_legalb (s : list Z) (S : hw_history q_op q_res) : bool :=
  match S with
  | [] => true
  | HInv t o :: HRes t' r :: S' =>
      Nat.eqb t t' && qh_res_eqb r (snd (q_fifo_step s o)) && qh_legalb (fst (q_fifo_step s o)) S'
  | _ => false
  end.

Definition qh_equivb (C S : hw_history q_op q_res) : bool :=
  forallb (fun t => qh_list_eqb (hw_proj t C) (hw_proj t S)) (qh_threads (C ++ S)).

(* the real-time clause for one pair of operations *)
Definition qh_rt1 (H S : hw_history q_op q_res) (a b : hw_opid) : bool :=
  match hw_res_pos H a, hw_inv_pos H b, hw_inv_pos S b with
  | Some i, Some j, Some j' =>
      if i <? j then match hw_res_pos S a with Some i' => i' <? j' | None => false end else true
  | _, _, _ => true
  end.

(* the operations that have a response / an invocation in H *)
Definition qh_res_ops (H : hw_history q_op q_res) : list hw_opid :=
  flat_map (fun t => map (fun k => (t, k)) (seq 0 (length (filter (hw_is_res t) H)))) (qh_threads H).
Definition qh_inv_ops (H : hw_history q_op q_res) : list hw_opid :=
  flat_map (fun t => map (fun k => (t, k)) (seq 0 (length (filter (hw_is_inv t) H)))) (qh_threads H).

Definition qh_realtimeb (H S : hw_history q_op q_res) : bool :=
  forallb (fun a => forallb (fun b => qh_rt1 H S a b) (qh_inv_ops H)) (qh_res_ops H).

Definition qh_verify (pre : list Z) (H ext S : hw_history q_op q_res) : bool :=
  qh_wfb H && qh_all_resb ext && qh_wfb (H ++ ext) && qh_legalb pre S &&
  qh_equivb (hw_complete (H ++ ext)) S && qh_realtimeb H S.

(* ---- candidate search (untrusted): completed operations of H with their positions *)
Record qh_opr := { qo_t : nat; qo_op : q_op; qo_res : q_res; qo_inv : nat; qo_ret : nat }.

Fixpoint qh_next_res (t idx : nat) (r : hw_history q_op q_res) : option (q_res * nat) :=
  match r with
  | [] => None
  | HRes t' x :: r' => if Nat.eqb t' t then Some (x, idx) else qh_next_res t (S idx) r'
  | HInv t' _ :: r' => if Nat.eqb t' t then None else qh_next_res t (S idx) r'
  end.

Fixpoint qh_oprs (idx : nat) (H : hw_history q_op q_res) : list qh_opr :=
  match H with
  | [] => []
  | HInv t o :: r =>
      match qh_next_res t (S idx) r with
      | Some (x, j) => {| qo_t := t; qo_op := o; qo_res := x; qo_inv := idx; qo_ret := j |} :: qh_oprs (S idx) r
      | None => qh_oprs (S idx) r
      end
  | HRes _ _ :: r => qh_oprs (S idx) r
  end.

(* x (at position n of rem, which is in invocation order) may be linearized next: it is the
   first remaining operation of its thread, no remaining operation returned before it was
   invoked, and its result is the one the FIFO gives *)
Definition qh_may (rem : list qh_opr) (s : list Z) (n : nat) (x : qh_opr) : bool :=
  negb (existsb (fun y => Nat.eqb (qo_t y) (qo_t x)) (firstn n rem)) &&
  negb (existsb (fun y => qo_ret y <? qo_inv x) rem) &&
  qh_res_eqb (qo_res x) (snd (q_fifo_step s (qo_op x))).

Fixpoint qh_first {A B} (f : nat -> A -> option B) (n : nat) (l : list A) : option B :=
  match l with
  | [] => None
  | x :: r => match f n x with Some y => Some y | None => qh_first f (S n) r end
  end.

Fixpoint qh_search (fuel : nat) (rem : list qh_opr) (s : list Z) (acc : hw_history q_op q_res)
  : option (hw_history q_op q_res) :=
  match rem with
  | [] => Some (rev acc)
  | _ =>
      match fuel with
      | O => None
      | S f =>
          qh_first (fun n x =>
              if qh_may rem s n x
              then qh_search f (firstn n rem ++ skipn (S n) rem) (fst (q_fifo_step s (qo_op x)))
                             (HRes (qo_t x) (qo_res x) :: HInv (qo_t x) (qo_op x) :: acc)
              else None) 0 rem
      end
  end.

Definition q_hw_candidate (pre : list Z) (H : hw_history q_op q_res) : option (hw_history q_op q_res) :=
  qh_search (length H) (qh_oprs 0 H) pre [].

(* linearizable, with H' = H (pending invocations, if any, are dropped) *)
Definition q_hw_check (pre : list Z) (H : hw_history q_op q_res) : bool :=
  match q_hw_candidate pre H with
  | Some cand => qh_verify pre H [] cand
  | None => false
  end.
