(* drv_c04m.ml -- model side of the cachex option lists: copt <o>,<o>,...|-  ->  "par ne ee jcs" | "panic"
   (E<normal>:<error> = WithExpire, P<n> = WithParallel, J<n> = WithJobChanSize; models/CacheOptions.v) *)
open Model
open Conv

let parse_opt (t : string) : copt_option =
  let body = String.sub t 1 (String.length t - 1) in
  match t.[0] with
  | 'E' -> (match String.split_on_char ':' body with
            | [n; e] -> CoptExpire (z_of_string n, z_of_string e)
            | _ -> failwith ("bad option " ^ t))
  | 'P' -> CoptParallel (z_of_string body)
  | 'J' -> CoptJobChanSize (z_of_string body)
  | _ -> failwith ("bad option " ^ t)

let () =
  Registry.register "copt" (fun toks -> match toks with
    | [o] ->
      let opts = if o = "-" then [] else List.map parse_opt (String.split_on_char ',' o) in
      (match copt_create opts with
       | None -> "panic"
       | Some a -> Printf.sprintf "%s %s %s %s" (string_of_z (copt_parallel a)) (string_of_z (copt_normE a))
                     (string_of_z (copt_errE a)) (string_of_z (copt_jcs a)))
    | _ -> "BADCASE")
