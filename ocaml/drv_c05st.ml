(* drv_c05st.ml -- model side of the c05st / c05new cases (int64 status arithmetic of cachex) *)
open Model
open Conv

let show_st (s : c_st) : string =
  match s with CEmpty -> "st=empty" | CGood -> "st=good" | CExpired -> "st=expired" | CRotted -> "st=rotted"

let () =
  let st variant = fun toks -> match toks with
    | [ne; ee; err; past] ->
      let expire = if err = "1" then z_of_string ee else z_of_string ne in
      show_st (cst_code variant (z_of_string past) expire)
    | _ -> "BADCASE" in
  Registry.register "c05st" (st CstFixed);
  Registry.register "c05sto" (st CstOrig);   (* canary: the pinned comparison *)
  Registry.register "c05new" (fun toks -> match toks with
    | [ne] -> if cst_newcache_starts (z_of_string ne) then "new=ok" else "new=panic"
    | _ -> "BADCASE")
